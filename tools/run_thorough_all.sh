#!/bin/bash
# Runs the thorough tier of the given checks one after another (background aid; evidence is not rewritten).
# usage: tools/run_thorough_all.sh C01 C02 ...   (run from a /verif checkout)
export VF_NO_EVIDENCE=1
export VERIF_SEED=${VERIF_SEED:-1}
for p in "$@"; do
  echo "=== $p $(date +%H:%M:%S)"
  nice -n 10 /venv/bin/python -m vf.check $p --tier thorough 2>&1 | grep -v "overflow -\|^WARNING\|^$\|^nefc\|^broadphase\|^narrowphase" | tail -8
done
echo "=== done $(date +%H:%M:%S)"
