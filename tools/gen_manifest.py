"""Generates /verif/MANIFEST.json from the table below + the property modules present in vf/props."""

import json
import os
import sys

VERIF = os.path.dirname(os.path.dirname(os.path.abspath(__file__)))
sys.path.insert(0, VERIF)

# sentences added to the descriptions after the seeded-change rounds (DESIGN.md §8): what each check additionally generates now
ADDED = {
  "C01": " Also spatial tendons with 2-4 branches separated by pulleys.",
  "C04": " Also planes on a static body declared after the moving bodies (highest geom id) with a laterally offset origin and optional tilt.",
  "C06": " Also contact-only free-body scenes solved for 2-4 states on one Data (rows appear and vanish; sleep flag on/off): qacc vs MuJoCo for row-free worlds and matching rows, re-solved vs fresh Data otherwise; explicit plane-geom pairs with anisotropic friction.",
  "C07": " Three extra frame sensors per case walk systematically through kind x objtype x reftype (175 combinations).",
  "C09": " A third of the cases run with sleeping enabled and a different set of islands asleep in every world (tree_awake / tree_asleep compared).",
  "C11": " Models include jointless root bodies with several jointed children and mocap bodies.",
  "C16": " Optionally a solver iteration limit of 1-3, so that the ITERATIONS report and a capacity bit share one overflow word.",
  "C17": " One case in six has 5-8 trees densely linked by 10-18 equalities with sleeping and islands (island discovery work lists).",
  "C19": " 0-3 distance/normal/fromto sensors on drawn geom/body pairs (they keep filtered pairs in the broadphase list); only constraint contacts enter the pair set.",
  "C24": " Also contact-only free-body scenes evaluated for 2-4 states on one Data (rows appear and vanish; sleep flag on/off); explicit plane-geom pairs with anisotropic friction.",
  "C25": " A third of the cases use per-world (batched) solver tolerances: each world must stop where it stops when every world gets its tolerance.",
  "C30": " One case in eight is a closed-form 'ticks' case (interval = k*timestep, buffered, delayed) that pins the sample schedule step by step.",
  "C35": " A third of the scenes contain a tiny flex far outside the view (its primitives share the scene BVH).",
  "C36": " Every program runs all 31 one-dimension variants of its subject (integrator/solver/cone/jacobian, 18 flags incl. SLEEP, broadphase type and filter, warn_overflow, fluid, capacities, inventory, state) before the subject; items with the sleep flag start with sleeping islands.",
  "C38": " Histories on one Data: all awake -> subset -> all awake, and (DOF capacity below nv) complementary subset -> subset, each compared with the fresh-Data solve.",
  "C39": " Explicit plane-geom pairs with anisotropic friction are generated.",
  "C40": " One case in four is a hand-written <deformable><flex> over free/ball/hinge bodies in separate trees; flex and geom contact priorities and a geom condim of its own are drawn.",
}

# id -> (technique, level text, level note, design ref)
TABLE = {}


def reg(pid, technique, text, note, ref=None):
  TABLE[pid] = dict(technique=technique, text=text, note=note, ref=ref or f"DESIGN.md §3 {pid}")


reg(
  "C16",
  "property-based testing (Hypothesis): metamorphic capacity sweep vs ample-capacity run",
  "Generated constrained models x states; each capacity (naconmax, njmax, njmax_nnz) swept over {0, need-2..need+1, random}; "
  "required overflow bit checked where need > capacity, and bit-free worlds compared with the ample run. Exploration: held on all generated cases.",
  "Trusts the ample-capacity run as reference; CPU device only; nothing is proved for ungenerated models.",
)

reg(
  "C01",
  "property-based differential testing (Hypothesis) against MuJoCo C mj_kinematics/mj_comPos/mj_camlight/mj_tendon",
  "Random kinematic trees (all joint types, multi-joint and welded bodies, mocap, unnormalised quaternions, cameras/lights in every mode, fixed and "
  "spatial tendons with wrapping/pulleys) x random qpos in 1-3 worlds; every kinematic output field compared with MuJoCo C on the float32-rounded state.",
  "MuJoCo C 3.13 bindings are the trusted reference; tolerance 2e-5..1e-4 relative to scene scale (observed error <= 2e-6); tendon wrap tangency switches are boundary-skipped.",
)
reg(
  "C02",
  "property-based differential testing (Hypothesis) against MuJoCo C mj_forward smooth-dynamics fields",
  "Random articulated models with armature, polynomial springs/dampers, gravcomp, fluid (both models), tendons, forced chain sizes covering the inertia "
  "block layouts (1..70 dofs, dense and sparse) x random states; M, bias, every passive component, cvel, cdof_dot, qfrc_smooth and qacc_smooth compared.",
  "MuJoCo C is the reference; qacc_smooth tolerance scales with cond(M) and is skipped above 1e6.",
)
reg(
  "C04",
  "property-based differential testing (Hypothesis): contact multisets vs MuJoCo C mj_collision, arbitrated by an independent support-function distance reference",
  "Generated scenes (sphere/capsule/ellipsoid/cylinder/box/mesh/plane, drawn separations incl. touching/in-margin/in-gap, aligned and random poses, "
  "priority/solmix/solref/solimp/friction/condim/margin/gap, explicit pairs, cones, NATIVECCD/MULTICCD on/off, 1-2 worlds). Primitive pairs: exact multiset; "
  "single-contact CCD: count/params + geometry vs MuJoCo or vs the geometric reference; multi-contact pairs: presence, deepest contact, parameters.",
  "MuJoCo C is the reference; where MuJoCo and MJWarp disagree on a convex pair a brute-force support-function signed distance decides; deep CCD penetrations "
  "(depth > 25% of the smaller bounding radius) are judged on presence/sign/parameters only; contacts within 2e-4/3e-3 of their margin are boundary-skipped.",
)

reg(
  "C09",
  "property-based metamorphic testing (Hypothesis): batch == solo == permuted batch over generated multi-step histories with per-step resynchronisation",
  "Rich models (contacts, every constraint kind, actuators, tendons, all integrators/solvers/cones, dense+sparse) x 2-5 worlds with different states/controls/forces "
  "x permutations x 1-6 steps; each world's per-step result compared with its solo run and its permuted-batch run: counts and contact sets exactly, continuous "
  "fields bitwise or within 1e-5 (2e-4 solver outputs; 2e-3 for Newton+sparse whose Hessian is accumulated in nworld-dependent atomic groups).",
  "Ample capacities (overflowing cases discarded, counted); CPU device; ulp-level differences from loop vectorisation are accepted as round-off.",
)
reg(
  "C12",
  "property-based model-based testing (Hypothesis, generated call histories): dirty Data vs fresh Data after set_state, bitwise, with scratch poisoning",
  "Two Data objects with different generated histories (steps, controls, reset_data) plus a fresh make_data receive the same integration state through "
  "get_state/set_state; finite garbage is written into scratch regions a longer history could have left; step() and forward() must then agree bit-for-bit on "
  "state, qacc, sensordata, contact and row multisets and iteration counts.",
  "Same model, capacities and batch layout (so bitwise equality is the oracle); sleep-disabled models; overflowing cases discarded.",
)
reg(
  "C37",
  "property-based metamorphic testing (Hypothesis): step == step1;step2, forward idempotent and state-preserving",
  "Rich models x Euler/implicitfast/implicit x random states after a warm-up: forward twice is bit-identical and leaves get_state(INTEGRATION) bit-unchanged; "
  "step1;step2 reproduces step (state 1e-5, outputs 2e-4, row counts exact).",
  "step() and step1/step2 use different (fused vs separate) factor/solve kernels, so that relation is judged up to round-off, not bitwise.",
)

reg(
  "C13",
  "property-based model-based testing (Hypothesis, generated histories and reset masks) against fresh make_data, a never-reset twin and MuJoCo mj_resetData",
  "Models with na>nu, actuator/sensor delays, mocap, inactive equalities, userdata; 1-4 worlds; generated step/edit histories; reset_data with None/bool/int masks "
  "(all, none, single, random); selected worlds must equal a fresh Data field-by-field (incl. act, history) and then follow the fresh trajectory bit-for-bit; "
  "unselected worlds must keep state, contacts and trajectory of a twin that was never reset; history also compared with MuJoCo.",
  "Same nworld/capacities across compared Data (bitwise oracle); one recorded finding (partial masks corrupt the shared contact buffer) is reported as KNOWN-FINDING.",
)
reg(
  "C25",
  "property-based metamorphic testing (Hypothesis): iteration-limit sweep and companion-world invariance of the constraint solver",
  "Batches of 2-4 worlds of different difficulty; reference with limit 200 gives N*_w; limits 0..max N*+2 and graph_conditional on/off: niter<=L, ITERATIONS bit "
  "exactly when the limit cut a converging solve short, converged worlds bit-identical to the reference; replacing the other worlds leaves world 0 bit-identical.",
  "At L=0 only niter==0 is judged; worlds that do not converge within 200 iterations are only checked for niter<=L.",
)

reg(
  "C14",
  "property-based model-based testing (Hypothesis) against MuJoCo mj_resetDataKeyframe, a never-reset twin and fresh make_data",
  "Models with random keyframes x 1-4 worlds x generated histories x scalar keys (valid/invalid, python and numpy ints) and per-world key arrays mixing valid and "
  "invalid indices (int32/int64; wrong shape/dtype/type): valid worlds must equal mj_resetDataKeyframe on all integration-state fields, invalid-index worlds stay "
  "bit-unchanged, invalid scalar keys and malformed arrays must raise ValueError without touching Data.",
  "MuJoCo is the reference (1e-6, float32 rounding); contact-list corruption by partial masks is the recorded C13/C14 finding.",
)
reg(
  "C15",
  "exhaustive enumeration of all 2^14 state signatures (sharded) with generated states and active masks, differential against mujoco.mj_getState/mj_stateSize plus round trip",
  "Every signature 0..2^14-1 on two models that have every state component (na>nu, history, mocap, equalities, userdata), 3 worlds, random active masks: "
  "get_state equals mj_getState element-wise and writes nothing beyond mj_stateSize or into inactive rows; set_state(get_state(x)) restores every selected field bitwise "
  "and leaves unselected fields/worlds untouched; negative and too-large signatures must raise.",
  "Exhaustive over signatures, sampled over states/masks; MuJoCo bindings are the reference.",
)

reg(
  "C05",
  "property-based differential testing (Hypothesis): constraint rows as a canonical multiset vs MuJoCo C mj_makeConstraint/mj_referenceConstraint",
  "Random models with connect/weld (body+site), joint/tendon equalities, dof/tendon frictionloss, joint/tendon limits with margins, contacts of condim 1/3/4/6, "
  "dense+sparse, Newton+CG, both cones x random states, 1-2 worlds: ne/nf/nl/nefc equal; rows keyed by (type, object, index in object; contacts by geom pair+position) "
  "and compared on J, pos, margin, D, vel, aref, frictionloss; contact.efc_address must point at that contact's rows with the right row count.",
  "MuJoCo is the reference; worlds whose contact sets differ (C04 boundary/algorithmic cases) or with a limit exactly at its margin are skipped and counted; "
  "three recorded cosmetic/edge deviations are reported as KNOWN-FINDING.",
)

reg(
  "C06",
  "property-based testing (Hypothesis) with an optimality certificate: MuJoCo's Gauss cost (mj_constraintUpdate) evaluated at MJWarp's qacc vs the reference optimum, plus row-law force identity",
  "Random constrained models (all condims, equalities, limits, frictionloss; Newton/CG, cones, dense/sparse, impratio, warmstart zero/random/disabled) on settled states: "
  "cost(qacc_mjwarp) <= cost(optimum) up to 1e-4 (Newton) / 3e-3 + 10x MuJoCo-CG excess (CG), qacc agrees with MuJoCo (Newton), efc.force equals the closed-form row law of "
  "that qacc on MJWarp's own rows, qfrc_constraint = J^T force.",
  "Needs MJWarp's rows to match MuJoCo's (otherwise skipped, counted); MuJoCo Newton at tolerance 1e-10 is the optimum; elliptic rows are covered by the cost test, not the row law.",
)
reg(
  "C24",
  "property-based invariant testing (Hypothesis): admissibility predicate over solved constraint forces",
  "Random constrained models incl. adhesion x both cones/solvers: non-negative limit/contact forces, elliptic forces inside their cone, pyramidal edges non-negative, "
  "|friction-loss force| <= frictionloss, SATISFIED rows carry zero force, qfrc_constraint = J^T force, contact_force normal >= -adhesion.",
  "eps = 1e-4*max(1,|f|max); unconverged worlds only checked for J^T f.",
)
reg(
  "C03",
  "property-based differential testing (Hypothesis) against MuJoCo C mj_forward/mj_step actuation fields",
  "Random articulated models with 1-8 actuators over the full grammar (all shortcuts + general; dyntype none/integrator/filter/filterexact/user; joint, jointinparent, "
  "tendon, site(+refsite), slider-crank, body transmissions; ctrl far outside ctrlrange, clampctrl on/off, force limits, joint/tendon actuatorfrcrange, gravcomp) x random "
  "states, 1-2 worlds: actuator_length/moment/velocity/force, act_dot, qfrc_actuator after forward and act after one step agree with MuJoCo (5e-4).",
  "MuJoCo 3.13 is the reference; body-transmission actuators are compared only when both engines report the same contacts on that body (C04 decides contacts), "
  "slider-crank actuators within 1% of their singular configuration (det=0) are skipped (float32 conditioning), both counted; servo wrap on ball joints is a KNOWN-FINDING.",
)
reg(
  "C39",
  "property-based differential testing (Hypothesis) against mujoco.mj_contactForce fed with MJWarp's solved forces",
  "Random contact scenes, all condims, both cones, adhesion actuators and passive geom/pair contact adhesion; every contact's wrench in the contact frame and rotated to the "
  "world frame by MJWarp's own contact frame compared (2e-4); ids >= nacon must not be written.",
  "Worlds whose contact/row sets differ from MuJoCo's are skipped (counted).",
)

reg(
  "C11",
  "property-based metamorphic testing (Hypothesis) over harness-owned task schedules: step under a permuted serial thread order == step under the ascending order",
  "Warp's CPU launch loop is replaced (inside the harness process only) by one that visits the tasks of every launch in descending or pseudo-random permuted order, globally or with a "
  "different permutation per kernel; rich models (contacts, all constraint kinds, tendons, actuators, sleeping/islands on or off), 1-3 worlds, ample or exactly-fitting capacities, 1-3 steps "
  "with resynchronisation: overflow bits, counts, contact multisets, keyed constraint-row multisets, island partitions and sleep state must be equal, continuous outputs equal up to re-association round-off.",
  "Serial orders only (every task runs to completion; no instruction-level interleaving, so missing atomics are out of reach); cases with a capacity overflow bit are discarded; RK4 not generated; "
  "solver outputs to 2e-3 (Newton) / 2e-2 (CG) scaled by cond(M); worlds that hit the iteration limit are judged on everything except solver outputs.",
)

reg(
  "C19",
  "property-based testing (Hypothesis): geometry-free trees checked against a reference filter predicate written from the statement and against MuJoCo's mj_collision pair set",
  "Random kinematic trees of mutually overlapping spheres (jointless chains, mocap and static bodies, 4-bit contype/conaffinity, excludes incl. the world, explicit pairs on otherwise filtered geoms, "
  "filterparent on/off, 1-2 worlds): the reported geom-pair set must equal the predicate and MuJoCo's set, each pair once, and explicit-pair contacts must carry the pair's dim/friction/solref/solimp/margin.",
  "Spheres plus one plane only (geometry never filters by construction, checked per case); MuJoCo's extra rule 'not both bodies without dofs' is part of the reference; the mocap/static extra pairs are a KNOWN-FINDING.",
)
reg(
  "C18",
  "property-based metamorphic testing (Hypothesis) with an exhaustive configuration sweep: 3 broadphases x 16 filter masks per generated scene, bitwise comparison of canonical contact multisets",
  "Scenes of 3-25 mixed geoms (planes first or last, margins/gaps, explicit and filtered pairs) in 1 or 3 worlds with layouts aimed at sweep-and-prune corner cases (coincident centres, equal projections "
  "on the sweep axis, touching bounds, bodies 10 m / 1 km away): all 48 configurations must reproduce the NXN/default-filter contacts exactly.",
  "CPU only; contacts exactly at margin+gap (1e-6) are boundary-skipped; pair margins wider than the geoms' own are excluded by construction (C04 finding); no hfield/SDF/flex; sleeping's incremental pass not covered.",
)
reg(
  "C20",
  "property-based testing (Hypothesis) with a per-contact geometric oracle: exact signed-distance/support functions, closed forms and a translation metamorphic test",
  "Every contact of generated scenes (all primitive and convex pair types, placements from deep to in-gap, aligned and random orientations, margins, tilted planes): frame orthonormal with det +1, witness points "
  "pos -/+ n*dist/2 on both surfaces, dist equal to the support separation along the normal (analytic where a closed form exists), dist increases by eps when geom2 is moved by eps along the normal.",
  "Deep convex penetrations and near-coincident sphere/capsule axes get the frame check only; heuristic contacts identical to MuJoCo's are accepted; convex tolerances 4e-3/1e-2; one mesh-mesh GJK/EPA inconsistency is a KNOWN-FINDING.",
)

reg(
  "C07",
  "property-based differential testing (Hypothesis): every sensor slice and Data.energy against mujoco.mj_forward on the identical float32 state",
  "Articulated models with sites of all zone shapes, body/world cameras with every intrinsics form, tendons, actuators, limits, piles and static scenery, carrying 1-12 sensors drawn over all 47 supported "
  "sensor types and all objtype x reftype frame combinations (moving, mocap and static references), with cutoffs, energy/gravity/spring flags, normalised and un-normalised states, 1-2 worlds; contact-sensor "
  "slots compared as multisets where order is free.",
  "Solver-dependent sensors are judged only in worlds whose contacts/rows match MuJoCo and whose qacc/efc_force agree; discontinuous sensors (rangefinder silhouettes, zone boundaries, distance at cutoff) "
  "are skipped only when MuJoCo's own value flips under a 1e-3 perturbation; no delays/intervals (C30); several recorded deviations are KNOWN-FINDINGs.",
)
reg(
  "C21",
  "property-based testing (Hypothesis) with a float64 linear-algebra oracle: per-block backward-error residuals of factor/solve/multiply on the float32 matrices MJWarp holds",
  "Forests of kinematic trees with forced dof counts 1..70 (chain, branched, lone free body; free/ball/hinge/slide mixtures, armature, mass span up to 1e3) hitting every layout of m_block_layout "
  "(compact, scalar Cholesky, tile Cholesky, sparse LDL) and mixtures, 1-3 worlds with different states and right-hand sides: M vs MuJoCo and SPD, factor_m/solve_m, mul_m, factor_solve_i on the Euler and "
  "implicitfast matrices, factor_solve_lu on the implicit matrix, one constraint-free step per integrator.",
  "Normwise residual per tree block (tolerance 3e-6, observed 1e-7); SPD asserted for cond <= 1e6; whether the implicit matrices are the right derivatives is C27's subject.",
)
reg(
  "C22",
  "property-based testing (Hypothesis): MuJoCo C differential + float64 finite-difference oracles + dense-vs-sparse metamorphic relation",
  "Rich random models (all constraint kinds, wrapped and pulley tendons, five transmission types) compiled with dense and sparse Jacobians, 1-2 worlds: every row satisfies J qvel = efc.vel; mjw.jac at "
  "random points/bodies equals mj_jac and finite differences of point position and orientation; ten_J and actuator_moment equal MuJoCo and finite differences of lengths; both builds give the same rows, qacc, forces and next state.",
  "Length finite differences are demanded only where MuJoCo's own Jacobian is a length derivative; solver outputs compared only for converged, well-conditioned problems (cond <= 1e4) at 3e-3 because MJWarp clamps the solver tolerance to 1e-6.",
)
reg(
  "C27",
  "property-based differential testing (Hypothesis) against two oracles: MuJoCo C's qDeriv and float64 central finite differences of MuJoCo's smooth forces",
  "Random articulated models with joint/tendon damping (linear and polynomial), box and ellipsoid fluid forces and velocity-dependent actuators (affine gain/bias, activation-dependent gains, actearly, "
  "ctrl/force clamps) under implicitfast and implicit, 1-2 worlds: deriv_smooth_vel, the RNE derivative and the matrix mjw.implicit actually factorises (recovered from its LU factors), entry-wise on the stored patterns.",
  "An entry passes if it matches either oracle where the two disagree; tolerance 1e-4*sqrt(r_i r_j) plus the float32 floor; one KNOWN-FINDING (implicit fluid upper triangle) is recognised and compensated.",
)
reg(
  "C30",
  "property-based model-based testing (Hypothesis, generated call histories) in lock-step with one MuJoCo MjData per world: every history buffer, applied control, sensordata and read/init call",
  "Small contact-free models with 1-3 delayed/buffered actuators and 1-4 delayed and/or interval sensors of every stage and dimension, three integrators, 1-3 worlds with different controls, started from "
  "make_data, put_data (fresh and stepped) or reset_data (full/partial), stepped 1-40 times with piecewise-random controls interleaved with read_ctrl/read_sensor queries and init_*_history calls: cursor, user slot, "
  "timestamps and values of every buffer plus time, actuator_force, act and sensordata equal MuJoCo's.",
  "MuJoCo is the only oracle; decisions on float-time boundaries (interval trigger within 2e-6, reads within 3e-6 of a timestamp) are boundary-skipped; recorded values of delayed derived sensors under RK4 are not compared (MuJoCo samples them from the last RK stage).",
)
reg(
  "C31",
  "property-based round-trip and differential testing (Hypothesis): put_model/put_data/get_data_into field-by-field by introspection, plus one-at-a-time unsupported features that must be rejected",
  "Random full-grammar models (and hand-written flex/hfield/material models), optionally with batch_sizes, must reproduce every same-named MuJoCo field after float32 rounding; 28 unsupported features each "
  "switched on alone must raise; MjData states after random steps go through put_data(nworld 1-3) -> get_data_into per world and must come back exactly (contact order, efc rows in MuJoCo order, efc_address, island fields); "
  "after a step with per-world differences get_data_into(w) must equal world w's own arrays.",
  "Skip list: opt/stat compared member-wise, Option.tolerance against the documented clamp; exact after float32 rounding except re-factored qLD/qLDiagInv (1e-3).",
)

reg(
  "C28",
  "exhaustive enumeration of all 2^14 constraint graphs over 4 trees (batched worlds) plus property-based testing (Hypothesis) on clustered multi-tree models, against a union-find reference and MuJoCo's mj_island output",
  "Every subset of 6 tree-pair, 4 tree-world and 4 self constraints (connect, weld, joint/tendon equality, plane contact, joint/tendon limit) of a 4-tree model for dense and sparse Jacobians, called directly and through "
  "forward() with sleeping enabled; random models with 5-12 trees, contacts incl. static geoms/bodies and mocap, equalities of every kind and tendons spanning up to 3 trees: tree_island/nisland, per-island counts, "
  "address prefix sums and the dof/efc maps (mutually inverse, per-island ranges, [equality|friction|other] layout).",
  "Exhaustive only over the 4-tree switch model (2-12 variants); the graph is built from the rows MJWarp emitted (row assembly is C05's); worlds where a row's Jacobian is exactly zero on a tree it is attached to are skipped and counted; all trees awake.",
)
reg(
  "C38",
  "property-based metamorphic testing (Hypothesis): the sleep-enabled (compacted) solve against MJWarp's own full solve of the same state, with islands put to sleep per world and an nvmax sweep",
  "Models with 3-8 trees in spatial clusters (contacts, equalities, limits, friction loss; Newton, both cones, dense/sparse) run with every tree awake (nvmax default/nv, and nvmax<nv on a non-sleep model) and with random "
  "unions of islands asleep in 1-2 worlds: all-active runs reproduce qacc/efc.force/qfrc_constraint of the plain solve, sleeping trees get exactly zero qacc while awake trees match the decoupled plain solve, worlds whose awake dofs exceed nvmax set NVMAX; outputs are poisoned before each forward.",
  "Reference is MJWarp's non-compacted solve (5e-4 all-active, 3e-2 awake sub-problems; worlds with reference residual > 2e-3 or ITERATIONS are skipped and counted); sleeping sets are written via tree_asleep cycles + update_sleep; Newton only.",
)

reg(
  "C17",
  "structure-aware fuzzing (Hypothesis-generated models, capacities and call programs) under Warp's bounds-checked debug build with process-level crash detection",
  "Random models from the wide grammar (box/mesh/ellipsoid/cylinder contacts, every constraint kind, tendons, actuators with dynamics/delays, mocap, sleeping with and without islands) x solver/cone/jacobian/integrator "
  "x capacities from {0, 1, tiny, measured need -1/0/+1, ample} for nconmax/naconmax, njmax, njmax_nnz, nvmax, nccdmax x 1-3 worlds x programs of 2-6 public calls (step, forward, step1/step2, inverse, stage functions, "
  "reset_data with masks, get_data_into, contact_force, get/set_state): every array access is asserted in range; the worker must survive and no simulation function may raise.",
  "Warp debug mode does not trap negative indices >= -shape; NaN-free inputs; numerical blow-up is not judged; exceptions from put_model/make_data are clean rejections; CPU device.",
)

reg(
  "C36",
  "property-based metamorphic testing (Hypothesis-generated programs): the last item's result in-sequence == the same item in a fresh Python process, bitwise",
  "Programs of 2-4 (model, options, capacities, worlds, state) items run in one process that also carries the worker's earlier cases; consecutive items are drawn to collide on MJWarp's process-global cache keys "
  "while differing in meaning (same model with other cone/solver/jacobian/integrator/NATIVECCD/MULTICCD flags, same sizes with other geom-type inventories, other capacities or world counts, contact scenes with other "
  "collision-pair sets); state, qacc, sensordata, counts, solver iterations and the sorted contact list of the last item must be bit-identical to a fresh-process run.",
  "CPU device (deterministic kernels); the fresh process shares the on-disk kernel cache; one fresh interpreter per case bounds the case count (tens per quick run).",
)

reg(
  "C08",
  "property-based differential testing (Hypothesis) in lock-step with mujoco.mj_step: generated models, states and inputs, resynchronised every step",
  "Random articulated models with damping, fluid, tendons and actuator dynamics, and contact scenes with limits, friction and equalities; Euler (implicit damping on/off), implicitfast, implicit and RK4; "
  "1-5 lock-step steps in 1-2 worlds: next qpos, qvel, act, time and warmstart compared with tolerances scaled by cond(M) and cond of the integrator matrix.",
  "RK4 only contact-free; contact steps judged only when both engines report the same contacts/rows and both solvers converged; ill-conditioned (cond > 1e6) and diverging-reference steps skipped and counted; "
  "deviations explained by a recorded mechanism (float64 recomputation from MuJoCo's own M, qacc, qDeriv) carry that KNOWN-FINDING's signature.",
)
reg(
  "C23",
  "property-based invariant testing (Hypothesis-generated step histories): rotation validity after every step; MuJoCo in lock-step only to separate diverging physics from a defect",
  "Free- and ball-joint-heavy models with cameras (all modes), sites and a mocap body, angular speeds up to 1e3 rad/s, dt 1e-4..5e-2, un-normalised input quaternions, all integrators, 40-800 steps: every free/ball "
  "quaternion of qpos has unit norm (1e-5), xquat unit, xmat/ximat/geom_xmat/site_xmat/cam_xmat proper rotations (1e-4, det > 0).",
  "Non-finite states are reported only with a demonstrated one-step deviation from mj_step above 2% in a moderate, well-conditioned regime; contact cases run at moderate energy and are not judged when they diverge.",
)
reg(
  "C26",
  "property-based round-trip testing (Hypothesis): forward -> inverse identity on generated models and states, MuJoCo providing the Cartesian force map",
  "forward then inverse for all integrators (continuous), and with INVDISCRETE for Euler (eulerdamp on/off) and implicitfast using the acceleration the step actually applied; with and without contacts, limits, "
  "friction and equalities, actuators, applied and Cartesian forces, sparse and dense: qfrc_inverse == qfrc_applied + J^T xfrc_applied + qfrc_actuator; inverse leaves qacc untouched.",
  "Tolerance 10x forward residual + 1e-3*scale plus explicit float32 round-off terms in discrete mode; worlds with an unconverged forward pass or unusable round-off are skipped and counted.",
)

reg(
  "C40",
  "property-based differential testing (Hypothesis): single-flexcomp models and deformed states compared stage by stage with MuJoCo C mj_forward on the float32-rounded state",
  "A menu of small 1D/2D/3D flex topologies (vertex bodies, dof=2d/radial, trilinear nodes) with random spacing, mass and radius; edge or strain equality, elasticity or edge springs; pins; self-collision modes; "
  "an optional plane/sphere/capsule/box collider; both cones; dense or sparse; small random deformations, velocities and folds, 1-2 worlds: flexvert_xpos, flexedge_length/velocity/J, qfrc_spring/damper/passive, "
  "flex equality rows, flex-plane contacts (exact multiset), other flex contacts (presence, deepest penetration, normal orientation, parameters) and contact rows when the contact sets coincide.",
  "Deliberately narrow grammar (flex is experimental): one flex per model, no flex-flex pairs, small vertex counts; contact agreement for non-plane geoms and self-collision is one-sided; qacc is not judged; "
  "eleven recorded flex deviations are KNOWN-FINDINGs.",
)

reg(
  "C10",
  "property-based metamorphic testing (Hypothesis + enumeration of every batchable field by introspection): a Model whose field holds b rows vs unbatched put_model of MjModels edited to hold each row",
  "All array('*') fields of Model, Option and Statistic (122; 17 render-only skipped explicitly) are varied directly, or consistently through mj_setConst, on a rich generated model in which the field has a live user, with "
  "nworld in {2,3,4,6}, batch sizes 1/divisors/nworld, both assignment styles, all integrators/solvers/cones, dense and sparse, sleeping on in a quarter of the Newton cases: world i of the batch must reproduce the unbatched "
  "run of row i mod b after forward and two steps (state, kinematics, forces, every sensor, contacts with parameters, counts, niter, sleep counters); per-field coverage reported as checked / inert / skipped.",
  "Short horizons, same state in all worlds (cross-world state independence is C09); a field counts as exercised only when its effect is measurably visible; Newton+sparse compared to solver accuracy; two KNOWN-FINDINGs (static geom pose fields, tolerance with sleeping).",
)
reg(
  "C33",
  "property-based differential testing (Hypothesis) of set_const / set_const_0 / set_const_fixed / set_const_spring against mujoco.mj_setConst, per world, on batched Model fields",
  "Random articulated models with tendons, equalities, dampratio actuators, cameras and lights get per-world (or shared) edits of masses, inertias, body and inertial frames, qpos0/qpos_spring, armature, eq_data, tendon spring data "
  "and gains: each documented derived field must match mj_setConst on an MjModel holding that world's values, the Data state must be bitwise preserved, and with restore the position-dependent Data fields must match a fresh evaluation.",
  "float32 vs float64 (1e-4, 1e-3 for inverse-weight quantities); no mocap or flex; ipos/iquat edits only on non-simple bodies and pose edits only on non-static bodies (documented restrictions); four KNOWN-FINDINGs.",
)
reg(
  "C34",
  "property-based differential testing (Hypothesis): brute-force and BVH ray casts vs mujoco.mj_ray on identical float32 poses, plus the metamorphic relation BVH path == brute force",
  "Random scenes of all eight geom types on static, mocap and jointed bodies with groups and transparent geoms/materials, 1-2 worlds; 64 structured rays per world (toward, through, inside, grazing, axis-parallel, away, random; "
  "unit or scaled) under group-mask, static-flag and body-exclusion filters through rays(), ray() and the render-context BVH path: dist, geomid and normal judged per ray with conditioning-aware tolerances.",
  "Silhouette rays (reference flips under 1e-4 perturbations) and rays parallel to a plane are boundary-skipped; two KNOWN-FINDINGs in the BVH path (hfield base/sides, mesh bounds) are labelled per ray, not skipped.",
)
reg(
  "C35",
  "property-based differential testing (Hypothesis), per pixel: an independently written MuJoCo camera model + mujoco.mj_ray vs mjw.render depth and segmentation buffers and their getters",
  "Random 1-8-geom scenes of all geom types with rendered and unrendered groups; 1-2 perspective, intrinsic or orthographic cameras on world, mocap or free bodies at 4x3 to 48x32 in 1 or 3 worlds with different poses, "
  "culling on/off, precomputed or in-kernel rays: every pixel stable under +-0.25 px jitter compared for planar z-depth and (geomid, type); get_depth/get_segmentation compared with the raw buffers.",
  "RGB, lighting, textures, flex and splats are not judged; silhouette pixels skipped and counted; three KNOWN-FINDINGs (orthographic cameras, hfield base/sides, mesh bounds) labelled per pixel.",
)

reg(
  "C32",
  "property-based testing (Hypothesis + enumeration of all flag singletons and pairs): MuJoCo C differential under the same flags plus a bitwise flag-locality metamorphic relation",
  "All 19 singletons and 171 pairs of supported disable/enable flags on 3-5 base models (Euler, implicitfast, implicit) chosen so that every flag changes MuJoCo's own output, then random subsets of every density on random rich "
  "models (plane contacts, parent-child overlaps, a flat mesh-on-box MULTICCD pair, equalities, frictionloss, limits, springs, dampers, gravcomp, clamped controls, sub-2dt solrefs, sensors of every stage, energy, inverse dynamics): "
  "forward/inverse/step compared stage by stage with MuJoCo under the same flags, the flag's effect on the contact list checked, and toggling one flag must leave every field group not downstream of it bit-identical.",
  "nworld = 1, no RK4, no sleep/nativeccd flags; solver-dependent quantities judged only when both engines report the same contacts and converge; implicit next states judged on hinge/slide-only models (C08 finding); "
  "{damper, invdiscrete} with Euler not judged for qfrc_inverse (MuJoCo is self-inconsistent there).",
)

reg(
  "C29",
  "property-based model-based testing (Hypothesis-generated scenes and perturbation histories under harness-owned serial thread orders): lock-step MuJoCo C oracle with per-step resynchronisation plus sleep invariants on MJWarp alone",
  "Piles of free spheres/boxes/capsules and short chains on a plane, pendulum arms (AUTO_NEVER when actuated), connect/weld/joint equalities, limited spatial/fixed tendons and a mocap box, over histories of up to 160 (quick) / 450 "
  "(thorough) steps with force/velocity pokes, drops, shoves, mocap moves, eq_active toggles and ctrl, 1-2 worlds, ascending/descending/hashed/per-kernel task orders: every step compares the tree_asleep pattern, countdowns, cycle "
  "partition, tree_awake/body_awake and the awake contact-pair set with MuJoCo, and checks frozen qpos/qvel of sleeping trees, wake causes (force, velocity, contact, equality, tendon limit) and cycle validity; ten deterministic templates guarantee each wake cause per run.",
  "Only the automatic sleep policies (never/allowed/init are rejected); tendon equalities and RK4 excluded; serial task orders only; differences exactly explained by evaluating mj_sleep on the post-step velocity are attributed to the "
  "KNOWN-FINDING lockstep:sleep-after-integrator; islands whose contacts differ from MuJoCo also without sleeping, or that sit on a tie, are not judged at that step (counted).",
)

NOT_APPLICABLE = {}


def main():
  props = [json.loads(l) for l in open(os.path.join(VERIF, "properties.jsonl"))]
  checks = []
  na = []
  for p in props:
    pid = p["id"]
    modfile = os.path.join(VERIF, "vf", "props", pid.lower() + ".py")
    if pid in TABLE and os.path.exists(modfile):
      t = TABLE[pid]
      checks.append(
        dict(
          property_id=pid,
          quick_cmd=f"/venv/bin/python -m vf.check {pid} --tier quick",
          thorough_cmd=f"/venv/bin/python -m vf.check {pid} --tier thorough",
          evidence_file=f"/verif/evidence/{pid}.json",
          replay_cmd_template=f"/venv/bin/python -m vf.check {pid} --replay {{path}}",
          engine="vf",
          level_claimed=dict(category="exploration", text=t["text"] + ADDED.get(pid, ""), design_ref=t["ref"]),
          level_note=t["note"],
          technique=t["technique"],
        )
      )
    else:
      na.append(dict(property_id=pid, reason=NOT_APPLICABLE.get(pid, "check not built yet in this round (planned in DESIGN.md §3); not claimed")))
  man = dict(
    version=1,
    setup_cmd="/venv/bin/python -c 'import hypothesis' 2>/dev/null || /venv/bin/pip install --no-index --find-links /opt/veriftools/wheels hypothesis; /venv/bin/python -m compileall -q /verif/vf; /venv/bin/python -m vf.warm",
    hooks=dict(
      guard="MJWARP_VERIF",
      enable="no hooks are needed: checks drive the public API of the working tree at /repo (editable install in /venv); thread order and bounds checking are configured inside the harness process",
      baseline_off_cmd="cd /repo && /venv/bin/python -m pytest -ra -q -p no:cacheprovider --timeout=900 --continue-on-collection-errors",
      source_commits=[],
      add_only=True,
    ),
    engines=[
      dict(
        name="vf",
        path="/verif/vf",
        serves_properties=[c["property_id"] for c in checks],
        kind_free_text="Hypothesis-driven generated-input search (model grammar -> MJCF -> MuJoCo C / metamorphic / model-based oracles), 16 worker processes, JSON replay files",
      )
    ],
    checks=checks,
    not_applicable=na,
    notes="All checks: exit 0 held / exit 1 + 'VIOLATION property=<id> replay=<path>' / exit 2 harness error. VERIF_SEED selects the Hypothesis seed. Known findings: /verif/known_findings.txt.",
  )
  with open(os.path.join(VERIF, "MANIFEST.json"), "w") as f:
    json.dump(man, f, indent=1)
  print(f"claimed {len(checks)}  not_applicable {len(na)}")


if __name__ == "__main__":
  main()
