"""Prints the DESIGN.md section 8 table from /verif/seeded/*/meta.json."""
import glob
import json
import os

VERIF = os.path.dirname(os.path.dirname(os.path.abspath(__file__)))
rows = []
for d in sorted(glob.glob(os.path.join(VERIF, "seeded", "*"))):
  m = json.load(open(os.path.join(d, "meta.json")))
  v = m.get("verification", {})
  checks = v.get("checks", {})
  det = [k for k, x in checks.items() if x.get("exit") == 1]
  missed = [k for k, x in checks.items() if x.get("exit") == 0]
  summ = " ".join(str(m.get("summary", "")).split())
  needs = " ".join(str(m.get("needs", "")).split())
  if len(summ) > 230:
    summ = summ[:227] + "..."
  if len(needs) > 200:
    needs = needs[:197] + "..."
  status = ", ".join(det) if det else "-"
  if v.get("missed_initially"):
    status = (status + "; " if det else "") + "missed at first, caught after strengthening (" + str(v.get("after_strengthening", v.get("detected_by", "")))[:120] + ")"
  elif missed and not det:
    status = "not by " + ", ".join(missed) + " - " + str(v.get("detected_by", v.get("note", "")))[:140]
  rows.append((os.path.basename(d), m.get("property", "?"), summ, needs, status))
print("| seeded change | property | what was changed | what it needs to manifest | caught by (quick tier, seed 1) |")
print("|---|---|---|---|---|")
for r in rows:
  print("| " + " | ".join(x.replace("|", "/") for x in r) + " |")
print()
print(f"{len(rows)} seeded changes; each directory holds patch.diff, demo.py and meta.json (what was run, demo exit codes with and without the change).")
