"""Verify and ingest a seeded mutant produced by a sub-agent.

usage: ingest_mutant.py <worktree> <name> <prop> [more props to run ...] [--no-suite]
Steps: demo fails with change / passes without; existing suite (stable baseline tests) still passes with the change;
copy patch+demo+meta to /verif/seeded/<name>/; apply the patch to /repo, run the quick checks, revert /repo.
"""
import json, os, shutil, subprocess, sys, xml.etree.ElementTree as ET

wt, name, props = sys.argv[1], sys.argv[2], [a for a in sys.argv[3:] if not a.startswith("--")]
suite = "--no-suite" not in sys.argv
PY = "/venv/bin/python"
out = os.path.join("/verif/seeded", name)
os.makedirs(out, exist_ok=True)
env = dict(os.environ, PYTHONPATH=wt, WARP_CACHE_PATH=os.path.join(wt, ".wpcache"))


def run(cmd, cwd=None, timeout=3600, env=env):
  p = subprocess.run(cmd, cwd=cwd, env=env, capture_output=True, text=True, timeout=timeout)
  return p.returncode, (p.stdout + p.stderr)[-3000:]


res = {}
rc_with, _ = run([PY, "seeded_out/demo.py"], cwd=wt)
_patch = subprocess.run(["git", "-C", wt, "diff", "--", "mujoco_warp"], capture_output=True, text=True).stdout
_pf = os.path.join(wt, "seeded_out", "_ingest.patch")
open(_pf, "w").write(_patch)
subprocess.run(["git", "-C", wt, "checkout", "--", "mujoco_warp"], check=True)
rc_without, _ = run([PY, "seeded_out/demo.py"], cwd=wt)
subprocess.run(["git", "-C", wt, "apply", _pf], check=True)
res["demo_exit_with_change"] = rc_with
res["demo_exit_without_change"] = rc_without
print("demo with change:", rc_with, " without:", rc_without)

patch = subprocess.run(["git", "-C", wt, "diff", "--", "mujoco_warp"], capture_output=True, text=True).stdout
open(os.path.join(out, "patch.diff"), "w").write(patch)
shutil.copy(os.path.join(wt, "seeded_out", "demo.py"), os.path.join(out, "demo.py"))
meta = {}
try:
  meta = json.load(open(os.path.join(wt, "seeded_out", "meta.json")))
except Exception as e:
  meta = {"error": str(e)}

if suite:
  junit = os.path.join(wt, "seeded_out", "junit.xml")
  rc, tail = run([PY, "-m", "pytest", "-q", "-p", "no:cacheprovider", "--timeout=900", "--continue-on-collection-errors", "-n", "6", f"--junitxml={junit}"], cwd=wt, timeout=5400)
  passed = set()
  for tc in ET.parse(junit).getroot().iter("testcase"):
    if not list(tc):
      passed.add(f"{tc.get('classname')}::{tc.get('name')}")
  base = set(json.load(open("/root/.vp/BASELINE.json"))["stable_pass"])
  missing = sorted(base - passed)
  res["suite_passed"] = len(passed)
  res["baseline_tests_now_failing"] = missing[:20]
  print("suite passed:", len(passed), "baseline tests failing with the change:", len(missing), missing[:5])

# run the quick checks against the change.  Default: a scratch copy of /repo's package with the patch applied, put first on
# PYTHONPATH (other work may be using /repo at the same time); with --in-repo: git apply in /repo itself and undo afterwards.
detected = {}
if "--in-repo" in sys.argv:
  st = subprocess.run(["git", "-C", "/repo", "status", "--porcelain"], capture_output=True, text=True).stdout.strip()
  assert not st, "/repo not clean: " + st
  ap = subprocess.run(["git", "-C", "/repo", "apply", os.path.join(out, "patch.diff")], capture_output=True, text=True)
  res["patch_applies_to_repo"] = ap.returncode == 0
  extra_env = {}
else:
  scratch = f"/tmp/ingest_{name}"
  shutil.rmtree(scratch, ignore_errors=True)
  os.makedirs(scratch)
  shutil.copytree("/repo/mujoco_warp", os.path.join(scratch, "mujoco_warp"))
  ap = subprocess.run(["patch", "-p1", "-s", "-i", os.path.join(out, "patch.diff")], cwd=scratch, capture_output=True, text=True)
  res["patch_applies_to_repo"] = ap.returncode == 0
  if ap.returncode != 0:
    print("patch does not apply to the current /repo:", ap.stdout[-500:], ap.stderr[-500:])
  extra_env = {"PYTHONPATH": scratch}
try:
  if ap.returncode == 0:
    for p in props:
      r = subprocess.run([PY, "-m", "vf.check", p, "--tier", "quick"], cwd="/verif", capture_output=True, text=True, timeout=3000, env=dict(os.environ, VF_NO_EVIDENCE="1", **extra_env))
      lines = [l for l in r.stdout.splitlines() if l.startswith("VIOLATION") or l.startswith("[")]
      detected[p] = dict(exit=r.returncode, lines=lines[:3])
      print(p, "exit", r.returncode, lines[:2])
      # replay files written by a run against a mutant do not belong to the unchanged tree
      for l in lines:
        if l.startswith("VIOLATION") and "replay=" in l:
          try:
            os.remove(l.split("replay=", 1)[1].strip())
          except OSError:
            pass
finally:
  if "--in-repo" in sys.argv:
    subprocess.run(["git", "-C", "/repo", "checkout", "--", "."], check=True)
  else:
    shutil.rmtree(scratch, ignore_errors=True)
res["checks"] = detected
meta["verification"] = res
json.dump(meta, open(os.path.join(out, "meta.json"), "w"), indent=1)
print("saved", out)
