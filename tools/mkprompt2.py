"""Prompt for a SECOND seeded change of a property: same brief plus one line naming the first change (so that the new one uses another mechanism)."""
import glob, json, sys
props = {json.loads(l)["id"]: json.loads(l) for l in open("/verif/properties.jsonl")}
pid = sys.argv[1]
x = props[pid]
t = open("/verif/tools/agent_prompt.txt").read()
prev = []
for f in sorted(glob.glob(f"/verif/seeded/*/meta.json")):
  m = json.load(open(f))
  if m.get("property") == pid:
    prev.append(" ".join(str(m.get("summary", "")).split())[:400] + " [files: " + ", ".join(m.get("files", [])) + "]")
wt = f"/tmp/wt_{pid}" + (sys.argv[2] if len(sys.argv) > 2 else "b")
out = t.format(WT=wt, PID=pid, TITLE=x["title"], STATEMENT=x["statement"], QUANT=x["quantifier"]["text"])
if prev:
  out = out.replace("Prefer subtle, semantically meaningful changes over crashes.", "Prefer subtle, semantically meaningful changes over crashes.\nSomeone else has already produced the following change(s) for this property; yours must use a DIFFERENT mechanism, a different function and preferably a different part of the property's statement or quantifier:\n  - " + "\n  - ".join(prev))
print(out)
