#!/bin/bash
# Runs the quick tier of every registered check at the given seeds (evidence is not rewritten) and prints one line per run.
# usage: tools/run_quick_all.sh 2 3 4
export VF_NO_EVIDENCE=1
props=$(/venv/bin/python -c "import json;print(' '.join(c['property_id'] for c in json.load(open('MANIFEST.json'))['checks']))")
for seed in "$@"; do
  for p in $props; do
    out=$(VERIF_SEED=$seed /venv/bin/python -m vf.check $p --tier quick 2>&1)
    echo "$out" | grep "^VIOLATION" | head -3
    echo "$out" | grep "HARNESS-ERROR" | head -2 | cut -c1-300
    echo "$out" | grep "^\[$p " | tail -1
  done
done
echo "=== done $(date +%H:%M:%S)"
