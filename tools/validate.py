import json, glob, sys, jsonschema
ms=json.load(open('/root/.vp/MANIFEST.schema.json')); es=json.load(open('/root/.vp/EVIDENCE.schema.json'))
jsonschema.validate(json.load(open('/verif/MANIFEST.json')), ms)
bad=0
for f in sorted(glob.glob('/verif/evidence/*.json')):
    try: jsonschema.validate(json.load(open(f)), es)
    except Exception as e: print('INVALID', f, str(e)[:200]); bad+=1
print('manifest ok; evidence files', len(glob.glob('/verif/evidence/*.json')), 'invalid', bad)
