"""Re-run quick checks against a stored seeded change: tools/run_seeded.py <seeded-dir-name> [props...] [--seed N]

The patch is applied to a scratch copy of /repo's package put first on PYTHONPATH (nothing in /repo is touched); the copy is removed afterwards.
"""
import json, os, shutil, subprocess, sys

argv = list(sys.argv[1:])
seed = "1"
if "--seed" in argv:
  i = argv.index("--seed")
  seed = argv[i + 1]
  del argv[i : i + 2]
args = [a for a in argv if not a.startswith("--")]
name = args[0]
VERIF = os.path.dirname(os.path.dirname(os.path.abspath(__file__)))
sd = os.path.join(VERIF, "seeded", name)
props = args[1:] or [json.load(open(os.path.join(sd, "meta.json")))["property"]]
scratch = f"/tmp/seeded_{name}"
shutil.rmtree(scratch, ignore_errors=True)
os.makedirs(scratch)
shutil.copytree("/repo/mujoco_warp", os.path.join(scratch, "mujoco_warp"))
rc = 0
try:
  ap = subprocess.run(["patch", "-p1", "-s", "-i", os.path.join(sd, "patch.diff")], cwd=scratch, capture_output=True, text=True)
  if ap.returncode != 0:
    print("patch does not apply:", ap.stdout[-400:], ap.stderr[-400:])
    sys.exit(2)
  for p in props:
    r = subprocess.run(["/venv/bin/python", "-m", "vf.check", p, "--tier", "quick"], cwd=VERIF, capture_output=True, text=True,
                       env=dict(os.environ, VF_NO_EVIDENCE="1", PYTHONPATH=scratch, VERIF_SEED=seed, VF_REPLAY_DIR=os.path.join(scratch, "replays")))
    lines = [l for l in r.stdout.splitlines() if l.startswith("VIOLATION") or l.startswith("[")]
    print(name, p, "exit", r.returncode, lines[-1] if lines else r.stdout[-300:] + r.stderr[-300:])
    rc |= (r.returncode != 1)
finally:
  shutil.rmtree(scratch, ignore_errors=True)
sys.exit(rc)
