#!/bin/bash
# Re-runs the own-property quick check against every stored seeded change (scratch copies; /repo untouched). One line per change.
# usage: tools/run_seeded_all.sh [seed]
seed=${1:-1}
here=$(cd "$(dirname "$0")/.." && pwd)
for d in $here/seeded/*/; do
  n=$(basename $d)
  nice -n 5 /venv/bin/python $here/tools/run_seeded.py $n --seed $seed 2>&1 | tail -1 | cut -c1-220
done
echo "=== done $(date +%H:%M:%S)"
