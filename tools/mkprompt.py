import json, sys
props={json.loads(l)['id']:json.loads(l) for l in open('/verif/properties.jsonl')}
pid=sys.argv[1]; suffix=sys.argv[2] if len(sys.argv)>2 else ''
x=props[pid]
t=open('/verif/tools/agent_prompt.txt').read()
print(t.format(WT=f'/tmp/wt_{pid}{suffix}', PID=pid, TITLE=x['title'], STATEMENT=x['statement'], QUANT=x['quantifier']['text']))
