"""Debug aid: replays one case of a property in-process with every kernel launch printed (stderr, flushed),
so that the kernel in which a bounds assertion / crash happens is the last line printed.

usage: /venv/bin/python tools/trace_case.py CNN replay.json [release|debug|sched]
"""
import importlib
import json
import os
import sys

VERIF = os.path.dirname(os.path.dirname(os.path.abspath(__file__)))
sys.path.insert(0, VERIF)
from vf import core, worker

prop, path = sys.argv[1], sys.argv[2]
mod = importlib.import_module(f"vf.props.{prop.lower()}")
mode = sys.argv[3] if len(sys.argv) > 3 else getattr(mod, "WARP_MODE", "release")
if getattr(mod, "SCHED", False):
  from vf import sched

  sched.install()
  mode = "sched"
wp = worker._setup_warp(mode)
_ol, _olt = wp.launch, wp.launch_tiled


def _name(k):
  return getattr(k, "key", None) or getattr(k, "__name__", str(k))


def _l(kernel, *a, **k):
  print("LAUNCH", _name(kernel), "dim", k.get("dim", a[0] if a else None), file=sys.stderr, flush=True)
  return _ol(kernel, *a, **k)


def _lt(kernel, *a, **k):
  print("LAUNCH_TILED", _name(kernel), "dim", k.get("dim", a[0] if a else None), file=sys.stderr, flush=True)
  return _olt(kernel, *a, **k)


wp.launch, wp.launch_tiled = _l, _lt
data = json.load(open(path))
case = data["case"] if "case" in data and "property" in data else data
rec = core.Recorder(prop, "quick", 0, 1e9)
rec.begin(case)
try:
  mod.check(case, rec)
  print("check returned; evaluations", rec.evaluations, "classes", dict(rec.classes))
except core.Violation as v:
  print("VIOLATION", v.msg[:2000])
except core.Reject as r:
  print("REJECT", r)
