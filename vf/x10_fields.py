"""Helpers for C10 (per-world model parameters): run-time enumeration of the batchable ('*'-dimensioned) fields of
types.Model / Option / Statistic, a rule table "how to vary this field so that the model stays valid", and the rich model
grammar (one model that uses nearly every field) with the observers (sensors, cameras, lights) that make a field's effect
visible in Data."""

from __future__ import annotations

import copy
import dataclasses
import re

import mujoco
import numpy as np

from mujoco_warp._src import types as T
from mujoco_warp._src import warp_util

from vf import gen
from vf.gen import R, r6

# --------------------------------------------------------------------------------------
# enumeration by introspection


def batchable_fields():
  """[(owner, name)] with owner in {'opt', 'stat', 'model'}: every array field annotated array("*", ...)."""
  out = []
  for owner, cls in (("opt", T.Option), ("stat", T.Statistic), ("model", T.Model)):
    for f in dataclasses.fields(cls):
      if warp_util.is_array_spec(f.type):
        sh = getattr(f.type, "shape", ())
        if sh and sh[0] == "*":
          out.append((owner, f.name))
  return out


def field_spec(owner, name):
  cls = dict(opt=T.Option, stat=T.Statistic, model=T.Model)[owner]
  for f in dataclasses.fields(cls):
    if f.name == name:
      return f.type
  raise KeyError(name)


def owner_obj(m, owner):
  return m if owner == "model" else getattr(m, owner)


# fields that only the renderer reads (checked by C35's pipeline, not by step): skipped explicitly
RENDER_ONLY = {
  "geom_matid", "geom_rgba", "light_type", "light_castshadow", "light_active", "light_attenuation", "light_cutoff", "light_exponent",
  "light_ambient", "light_diffuse", "light_specular", "mat_texid", "mat_texrepeat", "mat_emission", "mat_specular", "mat_shininess", "mat_rgba",
}

# the four pose fields whose static elements are the F1 class (sig static-geom-pose)
POSE_FIELDS = ("geom_pos", "geom_quat", "body_pos", "body_quat")

# model features a field needs beyond the default rich grammar
FIELD_TAGS = {
  "geom_dataid": ("mesh",),
  "geom_gap": ("gapband",),
  "geom_margin": ("gapband",),
  "sleep_tolerance": ("sleep",),
  "ccd_tolerance": ("convex",),
  "actuator_acc0": ("muscle",),
  "actuator_lengthrange": ("muscle",),
  "actuator_cranklength": ("crank",),
  "impratio_invsqrt": ("elliptic",),
  "geom_surfacevel": ("surfacevel",),
  "cam_fovy": ("camproj",),
  "cam_intrinsic": ("camproj",),
  "tolerance": ("cg", "calm"),
  "ls_tolerance": ("cg", "calm", "lstol"),
  "meaninertia": ("cg", "calm"),
  "dof_solref": ("calm",),
  "dof_solimp": ("calm",),
  "dof_frictionloss": ("calm",),
  "tendon_solref_fri": ("calm",),
  "tendon_solimp_fri": ("calm",),
  "tendon_frictionloss": ("calm",),
}


# --------------------------------------------------------------------------------------
# perturbation primitives (in place on float64 numpy views of an MjModel copy)


def _scale(a, g, lo=0.6, hi=1.6):
  a *= g.uniform(lo, hi, size=a.shape)


def _scale_rows(a, g, lo=0.6, hi=1.6):
  """One common factor per leading row (keeps ratios inside a row: inertia triangle inequality, ...)."""
  f = g.uniform(lo, hi, size=(a.shape[0],) + (1,) * (a.ndim - 1))
  a *= f


def _add(a, g, s=0.1):
  a += g.uniform(-s, s, size=a.shape)


def _scale_add(a, g, s=0.1, lo=0.6, hi=1.6):
  """Scale, and move zeros off zero by a positive amount (for non-negative parameters whose zero is not a switch)."""
  a *= g.uniform(lo, hi, size=a.shape)
  a += g.uniform(0.0, s, size=a.shape)


def _small_quat(g, ang):
  ax = g.normal(size=3)
  ax /= np.linalg.norm(ax)
  th = g.uniform(-ang, ang)
  return np.concatenate([[np.cos(th / 2)], np.sin(th / 2) * ax])


def _qmul(p, q):
  out = np.zeros(4)
  mujoco.mju_mulQuat(out, p, q)
  return out


def _quat(a, g, ang=0.5):
  a2 = a.reshape(-1, 4)
  for i in range(a2.shape[0]):
    if not np.any(a2[i]):
      continue
    q = _qmul(a2[i] / np.linalg.norm(a2[i]), _small_quat(g, ang))
    a2[i] = q / np.linalg.norm(q)


def _unit(a, g, ang=0.5):
  a2 = a.reshape(-1, 3)
  for i in range(a2.shape[0]):
    n = np.linalg.norm(a2[i])
    if n == 0:
      continue
    out = np.zeros(3)
    mujoco.mju_rotVecQuat(out, a2[i] / n, _small_quat(g, ang))
    a2[i] = out / np.linalg.norm(out)


def _rot33(a, g, ang=0.5):
  a2 = a.reshape(-1, 9)
  for i in range(a2.shape[0]):
    Rm = np.zeros(9)
    mujoco.mju_quat2Mat(Rm, _small_quat(g, ang))
    a2[i] = (a2[i].reshape(3, 3) @ Rm.reshape(3, 3)).reshape(9)


def _range(a, g, d=0.1):
  """(lo, hi) pairs: shift lo, rescale the width; pairs with lo >= hi (unset) are left alone."""
  a2 = a.reshape(-1, 2)
  for i in range(a2.shape[0]):
    lo, hi = a2[i]
    if hi > lo:
      w = (hi - lo) * g.uniform(0.6, 1.5)
      lo = lo + g.uniform(-d, d) * max(1.0, abs(lo))
      a2[i] = (lo, lo + w)


def _symrange(a, g):
  """(lo<0, hi>0) force/control ranges: scale both ends."""
  a2 = a.reshape(-1, 2)
  for i in range(a2.shape[0]):
    if a2[i, 1] > a2[i, 0]:
      a2[i] *= g.uniform(0.5, 1.6, size=2)


def _solref(a, g):
  a2 = a.reshape(-1, 2)
  for i in range(a2.shape[0]):
    if a2[i, 0] > 0:
      a2[i] *= (g.uniform(0.7, 3.0), g.uniform(0.5, 1.5))
    elif a2[i, 0] < 0:
      a2[i] *= g.uniform(0.5, 2.0, size=2)


def _solimp(a, g):
  a2 = a.reshape(-1, 5)
  for i in range(a2.shape[0]):
    a2[i] = (g.uniform(0.5, 0.9), g.uniform(0.9, 0.99), a2[i, 2] * g.uniform(0.5, 2.0), g.uniform(0.2, 0.8), g.uniform(1.0, 3.0))


def _choice(vals):
  """Row r of a case gets vals[(start + r) % len]: rows of one case are pairwise different (start is drawn once per case)."""

  def f(a, g, row=0, ctx=None):
    if "start" not in ctx:
      ctx["start"] = int(g.integers(0, len(vals)))
    a[...] = vals[(ctx["start"] + row) % len(vals)]

  f.rowaware = True
  return f


def _logscale(lo, hi):
  def f(a, g):
    a *= np.exp(g.uniform(np.log(lo), np.log(hi), size=a.shape))

  return f


def _qpos_like(mjm, a, g, s=0.3):
  """qpos0 / qpos_spring: hinge and slide entries shifted, ball and free quaternions rotated (free positions shifted)."""
  for j in range(mjm.njnt):
    t, adr = mjm.jnt_type[j], mjm.jnt_qposadr[j]
    if t == mujoco.mjtJoint.mjJNT_FREE:
      a[adr : adr + 3] += g.uniform(-s, s, size=3)
      _quat(a[adr + 3 : adr + 7], g)
    elif t == mujoco.mjtJoint.mjJNT_BALL:
      _quat(a[adr : adr + 4], g)
    else:
      a[adr] += g.uniform(-s, s)


def _eq_data(mjm, a, g):
  for e in range(mjm.neq):
    t = mjm.eq_type[e]
    if t == mujoco.mjtEq.mjEQ_CONNECT:
      a[e, 0:6] += g.uniform(-0.05, 0.05, size=6)
    elif t == mujoco.mjtEq.mjEQ_WELD:
      a[e, 0:6] += g.uniform(-0.05, 0.05, size=6)
      _quat(a[e, 6:10], g, 0.3)
      a[e, 10] *= g.uniform(0.6, 1.6)
    elif int(t) in (int(mujoco.mjtEq.mjEQ_JOINT), int(mujoco.mjtEq.mjEQ_TENDON)):
      a[e, 0:5] += g.uniform(-0.1, 0.1, size=5)


def _lengthspring(a, g):
  a2 = a.reshape(-1, 2)
  for i in range(a2.shape[0]):
    lo, hi = a2[i]
    lo2 = lo + g.uniform(-0.1, 0.1)
    a2[i] = (lo2, lo2 + (hi - lo) * g.uniform(0.5, 1.5) + (g.uniform(0, 0.05) if hi > lo else 0.0))


def _geom_size(mjm, a, g):
  """Primitive sizes scaled; geom_rbound / geom_aabb recomputed as MuJoCo's compiler does for that size."""
  GT = mujoco.mjtGeom
  for i in range(mjm.ngeom):
    t = int(mjm.geom_type[i])
    if t in (int(GT.mjGEOM_PLANE), int(GT.mjGEOM_MESH), int(GT.mjGEOM_HFIELD), int(GT.mjGEOM_SDF)):
      continue
    a[i] *= g.uniform(0.7, 1.4, size=3)
    s = a[i]
    if t == GT.mjGEOM_SPHERE:
      rb, half = s[0], np.array([s[0]] * 3)
    elif t == GT.mjGEOM_CAPSULE:
      rb, half = s[0] + s[1], np.array([s[0], s[0], s[0] + s[1]])
    elif t == GT.mjGEOM_CYLINDER:
      rb, half = np.hypot(s[0], s[1]), np.array([s[0], s[0], s[1]])
    elif t == GT.mjGEOM_ELLIPSOID:
      rb, half = max(s), np.array(s)
    elif t == GT.mjGEOM_BOX:
      rb, half = np.linalg.norm(s), np.array(s)
    else:
      continue
    mjm.geom_rbound[i] = rb
    mjm.geom_aabb[i, 0:3] = 0.0
    mjm.geom_aabb[i, 3:6] = half


def _geom_dataid(mjm, a, g):
  GT = mujoco.mjtGeom
  for i in range(mjm.ngeom):
    if int(mjm.geom_type[i]) == int(GT.mjGEOM_MESH) and mjm.nmesh > 1:
      a[i] = int(g.integers(0, mjm.nmesh))


def _impratio(mjm, a, g):
  mjm.opt.impratio = float(mjm.opt.impratio * np.exp(g.uniform(np.log(0.2), np.log(8.0))))


def _geom_margin(mjm, a, g, row=0, ctx=None):
  """Margins grow/shrink; box and mesh geoms keep margin 0 (put_model rejects margins on box/mesh CCD pairs: a frozen decision); the two
  'gap band' spheres alternate between a margin that excludes and one that includes their contact."""
  GT = mujoco.mjtGeom
  for i in range(mjm.ngeom):
    if int(mjm.geom_type[i]) in (int(GT.mjGEOM_BOX), int(GT.mjGEOM_MESH)):
      continue
    a[i] = a[i] * g.uniform(0.6, 1.6) + g.uniform(0.0, 0.02)
  for gid, _, base in (ctx or {}).get("band", []):
    a[gid] = base * (0.3 if row % 2 == 0 else 1.5)


_geom_margin.rowaware = True


def _pair_margin(mjm, a, g):
  GT = mujoco.mjtGeom
  hard = (int(GT.mjGEOM_BOX), int(GT.mjGEOM_MESH))
  for i in range(mjm.npair):
    if int(mjm.geom_type[mjm.pair_geom1[i]]) in hard and int(mjm.geom_type[mjm.pair_geom2[i]]) in hard:
      continue
    a[i] = a[i] * g.uniform(0.6, 1.6) + g.uniform(0.0, 0.02)


def _geom_gap(a, g, row=0, ctx=None):
  """Gaps scaled and shifted; the two 'gap band' spheres (if the model has them) alternate between a gap that excludes and one that
  includes their contact, so that consecutive rows differ in whether that contact exists."""
  _scale_add(a, g, 0.01)
  for gid, base, _ in (ctx or {}).get("band", []):
    a[gid] = base * (0.35 if row % 2 == 0 else 1.4)


_geom_gap.rowaware = True


def _dynprm(a, g):
  a[:, 0:3] *= g.uniform(0.6, 1.6, size=a[:, 0:3].shape)


def _gainbias(a, g):
  a[:, 0:3] *= g.uniform(0.6, 1.6, size=a[:, 0:3].shape)
  a[:, 3:9] *= g.uniform(0.9, 1.1, size=a[:, 3:9].shape)


# name -> (function, needs_model).  Unknown float fields fall back to _scale (a new batchable field is picked up automatically).
RULES = {
  # Option / Statistic
  "timestep": (_scale, 0),
  "tolerance": (_choice([1e-6, 1e-4, 1e-2, 0.3]), 0),  # put_model clamps tolerance to >= 1e-6: stay in that domain
  "ls_tolerance": (_choice([1e-4, 0.01, 0.1, 0.5]), 0),
  "ccd_tolerance": (_choice([1e-6, 1e-4, 1e-3, 1e-2]), 0),
  "sleep_tolerance": (_choice([1e-6, 100.0, 1e-2, 1.0]), 0),
  "gravity": (lambda a, g: _add(a, g, 3.0), 0),
  "wind": (lambda a, g: _add(a, g, 2.0), 0),
  "magnetic": (lambda a, g: _add(a, g, 0.5), 0),
  "density": (_scale, 0),
  "viscosity": (_scale, 0),
  "impratio_invsqrt": (_impratio, 2),
  "meaninertia": (_logscale(0.01, 100.0), 0),
  # Model
  "qpos0": (_qpos_like, 1),
  "qpos_spring": (_qpos_like, 1),
  "body_pos": (lambda a, g: _add(a, g, 0.1), 0),
  "body_quat": (lambda a, g: _quat(a, g, 0.4), 0),
  "body_ipos": (lambda a, g: _add(a, g, 0.03), 0),
  "body_iquat": (lambda a, g: _quat(a, g, 0.6), 0),
  "body_mass": (_scale, 0),
  "body_subtreemass": (_scale, 0),
  "body_inertia": (_scale_rows, 0),
  "body_invweight0": (_scale, 0),
  "body_gravcomp": (_scale, 0),
  "jnt_solref": (_solref, 0),
  "jnt_solimp": (_solimp, 0),
  "jnt_pos": (lambda a, g: _add(a, g, 0.05), 0),
  "jnt_axis": (lambda a, g: _unit(a, g, 0.5), 0),
  "jnt_stiffness": (_scale, 0),
  "jnt_stiffnesspoly": (lambda a, g: _scale_add(a, g, 0.5), 0),
  "jnt_range": (lambda a, g: _range(a, g, 0.15), 0),
  "jnt_actfrcrange": (_symrange, 0),
  "jnt_margin": (lambda a, g: _scale_add(a, g, 0.05), 0),
  "dof_solref": (_solref, 0),
  "dof_solimp": (_solimp, 0),
  "dof_frictionloss": (_scale, 0),
  "dof_armature": (lambda a, g: _scale_add(a, g, 0.05), 0),
  "dof_damping": (lambda a, g: _scale_add(a, g, 0.1), 0),
  "dof_dampingpoly": (lambda a, g: _scale_add(a, g, 0.5), 0),
  "dof_invweight0": (_scale, 0),
  "geom_dataid": (_geom_dataid, 1),
  "geom_solmix": (_scale, 0),
  "geom_solref": (_solref, 0),
  "geom_solimp": (_solimp, 0),
  "geom_size": (_geom_size, 1),
  "geom_aabb": (lambda a, g: _scale(a[:, 3:6], g, 0.2, 1.2), 0),
  "geom_rbound": (lambda a, g: _scale(a, g, 0.2, 1.2), 0),
  "geom_pos": (lambda a, g: _add(a, g, 0.03), 0),
  "geom_quat": (lambda a, g: _quat(a, g, 0.5), 0),
  "geom_friction": (_scale, 0),
  "geom_margin": (_geom_margin, 1),
  "geom_gap": (_geom_gap, 0),
  "geom_surfacevel": (_scale, 0),  # zero stays zero (flg_surfacevel is frozen by put_model)
  "geom_adhesion": (_scale, 0),  # zero stays zero (flg_adhesion is frozen by put_model)
  "site_pos": (lambda a, g: _add(a, g, 0.05), 0),
  "site_quat": (lambda a, g: _quat(a, g, 0.5), 0),
  "cam_pos": (lambda a, g: _add(a, g, 0.1), 0),
  "cam_quat": (lambda a, g: _quat(a, g, 0.5), 0),
  "cam_poscom0": (lambda a, g: _add(a, g, 0.1), 0),
  "cam_pos0": (lambda a, g: _add(a, g, 0.1), 0),
  "cam_mat0": (lambda a, g: _rot33(a, g, 0.5), 0),
  "cam_fovy": (_scale, 0),
  "cam_intrinsic": (_scale, 0),
  "light_pos": (lambda a, g: _add(a, g, 0.1), 0),
  "light_dir": (lambda a, g: _unit(a, g, 0.5), 0),
  "light_poscom0": (lambda a, g: _add(a, g, 0.1), 0),
  "light_pos0": (lambda a, g: _add(a, g, 0.1), 0),
  "light_dir0": (lambda a, g: _unit(a, g, 0.5), 0),
  "pair_solref": (_solref, 0),
  "pair_solreffriction": (_solref, 0),
  "pair_solimp": (_solimp, 0),
  "pair_margin": (_pair_margin, 1),
  "pair_gap": (lambda a, g: _scale(a, g, 0.3, 1.5), 0),
  "pair_adhesion": (_scale, 0),
  "pair_friction": (_scale, 0),
  "eq_solref": (_solref, 0),
  "eq_solimp": (_solimp, 0),
  "eq_data": (_eq_data, 1),
  "tendon_solref_lim": (_solref, 0),
  "tendon_solimp_lim": (_solimp, 0),
  "tendon_solref_fri": (_solref, 0),
  "tendon_solimp_fri": (_solimp, 0),
  "tendon_range": (lambda a, g: _range(a, g, 0.1), 0),
  "tendon_actfrcrange": (_symrange, 0),
  "tendon_margin": (lambda a, g: _scale_add(a, g, 0.05), 0),
  "tendon_stiffness": (_scale, 0),
  "tendon_stiffnesspoly": (lambda a, g: _scale_add(a, g, 0.5), 0),
  "tendon_damping": (_scale, 0),
  "tendon_dampingpoly": (lambda a, g: _scale_add(a, g, 0.5), 0),
  "tendon_armature": (_scale, 0),
  "tendon_frictionloss": (_scale, 0),
  "tendon_lengthspring": (_lengthspring, 0),
  "tendon_length0": (lambda a, g: _add(a, g, 0.1), 0),
  "tendon_invweight0": (_scale, 0),
  "actuator_cranklength": (_scale, 0),
  "actuator_dynprm": (_dynprm, 0),
  "actuator_gainprm": (_gainbias, 0),
  "actuator_biasprm": (_gainbias, 0),
  "actuator_actrange": (_symrange, 0),
  "actuator_forcerange": (_symrange, 0),
  "actuator_ctrlrange": (_symrange, 0),
  "actuator_gear": (_scale, 0),
  "actuator_acc0": (_scale, 0),
  "actuator_lengthrange": (lambda a, g: _range(a, g, 0.05), 0),
}

# fields that are inputs of mj_setConst (mode 'consistent': derived fields recomputed per world by mj_setConst)
SETCONST_INPUTS = {
  "qpos0", "body_mass", "body_inertia", "body_pos", "body_quat", "body_ipos", "body_iquat", "dof_armature", "jnt_pos", "jnt_axis",
  "site_pos", "cam_pos", "cam_quat", "light_pos", "light_dir", "actuator_gear", "tendon_armature", "actuator_cranklength",
}
# derived fields: in mode 'consistent' they are varied through their inputs
DERIVED = {
  "body_subtreemass": ("body_mass",),
  "body_invweight0": ("body_mass", "body_inertia"),
  "dof_invweight0": ("body_mass", "body_inertia", "dof_armature"),
  "tendon_invweight0": ("body_mass", "body_inertia"),
  "tendon_length0": ("qpos0",),
  "actuator_acc0": ("body_mass", "body_inertia"),
  "meaninertia": ("body_mass", "body_inertia"),
  "cam_pos0": ("cam_pos", "qpos0"),
  "cam_poscom0": ("cam_pos", "body_ipos"),
  "cam_mat0": ("cam_quat",),
  "light_pos0": ("light_pos", "qpos0"),
  "light_poscom0": ("light_pos", "body_ipos"),
  "light_dir0": ("light_dir",),
}


def mj_array(mjm, owner, name):
  """The float64 numpy view of the MjModel counterpart of a batchable field (None when it has none)."""
  src = mjm if owner == "model" else getattr(mjm, owner)
  return getattr(src, name, None)


def static_masks(mjm):
  """F1 class: geoms whose body is welded to the world and not under a mocap body, and the static bodies that carry them."""
  nb = mjm.nbody
  static_body = np.array([mjm.body_weldid[b] == 0 and mjm.body_mocapid[mjm.body_rootid[b]] == -1 for b in range(nb)])
  static_geom = static_body[mjm.geom_bodyid] if mjm.ngeom else np.zeros(0, bool)
  carries = np.zeros(nb, bool)
  for gi in np.nonzero(static_geom)[0]:
    b = mjm.geom_bodyid[gi]
    while b > 0:
      carries[b] = True
      b = mjm.body_parentid[b]
  carries[0] = False
  return static_geom, carries & static_body


def perturb(mjm, base, owner, name, g, only_static=False, skip_static=True, row=0, ctx=None):
  """Varies field `name` of the MjModel copy `mjm` in place.  Returns the number of excluded (static-pose) elements."""
  fn, needs = RULES.get(name, (_scale, 0))
  if getattr(fn, "rowaware", False):
    f0 = fn
    if needs == 1:
      fn = lambda mm, a, gg: f0(mm, a, gg, row, ctx if ctx is not None else {})
    else:
      fn = lambda a, gg: f0(a, gg, row, ctx if ctx is not None else {})
  excluded = 0
  if needs == 2:
    fn(mjm, None, g)
    return 0
  arr = mj_array(mjm, owner, name)
  if arr is None:
    return 0
  if np.isscalar(arr) or getattr(arr, "ndim", 1) == 0:
    a = np.array([float(arr)])
    fn(a, g)
    setattr(mjm if owner == "model" else getattr(mjm, owner), name, float(a[0]))
    return 0
  if arr.dtype.kind not in "fiub":
    return 0
  before = np.array(arr)
  if arr.dtype.kind == "f":
    if needs:
      fn(mjm, arr, g)
    else:
      fn(arr, g)
  else:
    if needs:
      fn(mjm, arr, g)
  if name in POSE_FIELDS:
    sg, sb = static_masks(base)
    mask = sg if name.startswith("geom_") else sb
    if only_static:
      arr[~mask] = before[~mask]
    elif skip_static:
      excluded = int(mask.sum())
      arr[mask] = before[mask]
  return excluded


# --------------------------------------------------------------------------------------
# model grammar

_MODES = ["fixed", "track", "trackcom", "targetbody", "targetbodycom"]


def make_cfg(seed, tags=()):
  r = R([int(seed), 0xC10])
  geom_menu = ["sphere", "capsule", "box", "ellipsoid", "cylinder"] if ("convex" in tags or r.p(0.4)) else ["sphere", "capsule", "box"]
  cfg = dict(
    gen.DEFAULT_CFG,
    nroot=r.i(2, 3), maxdepth=r.i(1, 2), maxchild=1, p_multi_joint=0.3, p_weld=0.2, mocap=1, geom_menu=geom_menu, geoms_per_body=(1, 2),
    plane=True, sites=1.0, cameras=0, lights=0, tendons=0, spatial_tendons=0, equalities=0, actuators=0, dynamics=True, poly=True, limits=0.8,
    frictionloss=0.6, fluid=True, gravcomp=True, contacts="pile", condim_menu=[1, 3, 4, 6], margin=True, geom_params=True, geom_adhesion=True,
    actfrcrange=True, pairs=0, world_geoms=1, static_roots=0.0, inertial=True, seed=int(seed),
  )
  return cfg


def _add_static(spec, r):
  """A static (jointless, world-welded) body with a geom, a site and a camera, a jointless child of it, and a hinged grandchild:
  the F1 class (static geoms) next to things that do follow per-world body_pos/body_quat of a static body."""
  bodies = spec["bodies"]
  ng = sum(len(b["geoms"]) for b in bodies) + len(spec["world_geoms"])
  ns = sum(len(b["sites"]) for b in bodies)
  nj = sum(len(b["joints"]) for b in bodies)
  i0 = len(bodies)

  def geom(k):
    return dict(name=f"g{ng + k}", type="sphere", size=[r.u(0.04, 0.1)], pos=r.vec(3, -0.05, 0.05), quat=r.quat())

  bodies.append(dict(name="bs0", parent=-1, pos=[r.u(-0.4, 0.4), r.u(-0.4, 0.4), r.u(0.05, 0.3)], quat=r.quat(), joints=[], geoms=[geom(0)],
                     sites=[dict(name=f"s{ns}", pos=r.vec(3, -0.1, 0.1), quat=r.quat())], cameras=[], lights=[]))
  bodies.append(dict(name="bs1", parent=i0, pos=r.vec(3, -0.15, 0.15), quat=r.quat(), joints=[], geoms=[geom(1)], sites=[], cameras=[], lights=[]))
  bodies.append(dict(name="bs2", parent=i0 + 1, pos=r.vec(3, -0.15, 0.15), quat=r.quat(), joints=[dict(name=f"j{nj}", type="hinge", axis=r.unit(), pos=r.vec(3, -0.05, 0.05))],
                     geoms=[dict(geom(2), type="capsule", size=[0.03, r.u(0.05, 0.12)])], sites=[dict(name=f"s{ns + 1}", pos=r.vec(3, -0.1, 0.1), quat=r.quat())], cameras=[], lights=[]))


def _static_bodies(spec):
  bodies = spec["bodies"]
  st = set()
  for i, b in enumerate(bodies):
    if not b["joints"] and (b["parent"] == -1 or bodies[b["parent"]]["name"] in st):
      st.add(b["name"])
  return st


def _features(spec, r, tags):
  """Deterministic feature set: every batchable parameter family has a live user in every model."""
  bodies = spec["bodies"]
  stat = _static_bodies(spec)
  bnames = [b["name"] for b in bodies]
  joints = [(b["name"], j) for b in bodies for j in b["joints"]]
  scalar = [j for _, j in joints if j["type"] in ("hinge", "slide")]
  sites = [s["name"] for b in bodies for s in b["sites"]]
  site_body = {s["name"]: b["name"] for b in bodies for s in b["sites"]}
  movable = [b for b in bodies if b["name"] not in stat and not b.get("mocap")]

  plain = "sleep" in tags  # MuJoCo never lets trees with actuators/tendons fall asleep: the sleep model has neither
  if plain:
    scalar_all, scalar = scalar, []
    sites_all, sites = sites, []
  # --- tendons: t0 fixed with every parameter, t1 spatial (optional wrap), t2 fixed (partner for the tendon equality)
  tend = spec["tendons"]
  if scalar:
    js = [scalar[i] for i in r.g.permutation(len(scalar))[: min(3, len(scalar))]]
    lo = r.u(-0.5, 0.2)
    a0 = r.u(0.0, 0.4)
    tend.append(dict(name="t0", kind="fixed", joints=[[j["name"], r.u(0.5, 2) * r.ch([-1, 1])] for j in js], stiffness=r.u(2, 20), stiffnesspoly=[r.u(0.5, 5), r.u(0.2, 2)],
                     damping=r.u(0.1, 1), dampingpoly=[r.u(0.05, 0.5), r.u(0.02, 0.2)], armature=r.u(0.01, 0.1), springlength=[a0, r6(a0 + r.u(0.0, 0.3))],
                     frictionloss=r.u(0.2, 1.5), range=[lo, r6(lo + r.u(0.1, 1.0))], margin=r.u(0, 0.05), actuatorfrcrange=[-r.u(0.1, 1.0), r.u(0.1, 1.0)],
                     solreflimit=[r.u(0.01, 0.05), r.u(0.5, 1.5)], solreffriction=[r.u(0.01, 0.05), r.u(0.5, 1.5)]))
    js2 = [scalar[i] for i in r.g.permutation(len(scalar))[: min(2, len(scalar))]]
    t2 = dict(name="t2", kind="fixed", joints=[[j["name"], r.u(0.5, 2) * r.ch([-1, 1])] for j in js2])
    gen._tendon_params(r, dict(gen.DEFAULT_CFG, dynamics=True, poly=True, frictionloss=0.5, limits=0.5, margin=True, actfrcrange=True), t2)
    tend.append(t2)
  if len(sites) >= 2:
    ss = [sites[i] for i in r.g.permutation(len(sites))[: min(len(sites), r.i(2, 3))]]
    path = [["site", ss[0]]]
    wrapg = [g["name"] for b in bodies for g in b["geoms"] if g["type"] in ("sphere", "cylinder")]
    for s_ in ss[1:]:
      if wrapg and r.p(0.4):
        path.append(["geom", r.ch(wrapg)])
      path.append(["site", s_])
    lo = r.u(0.0, 0.5)
    t1 = dict(name="t1", kind="spatial", path=path, stiffness=r.u(2, 20), damping=r.u(0.1, 1), frictionloss=r.u(0.2, 1.0), range=[lo, r6(lo + r.u(0.1, 0.8))],
              margin=r.u(0, 0.05))
    if not any(p[0] == "geom" for p in path) and r.p(0.5):
      t1["armature"] = r.u(0.01, 0.1)
    tend.append(t1)
  tnames = [t["name"] for t in tend]

  if plain:
    scalar, sites = scalar_all, sites_all
  # --- equalities (all active): three of the four kinds, body- or site-based connect/weld
  kinds = [k for k in ["connect", "weld", "joint", "tendon"] if (k != "joint" or scalar) and (k != "tendon" or ("t0" in tnames and "sleep" not in tags and "sleepflag" not in tags))]
  kinds = [kinds[i] for i in r.g.permutation(len(kinds))[:3]]
  if plain:
    kinds = []
  for kind in kinds:
    e = dict(kind=kind, name=f"e{len(spec['equalities'])}", active=True)
    if kind in ("connect", "weld"):
      a = r.ch(movable)["name"]
      others = [n for n in bnames if n != a] + ["world"]
      if r.p(0.3) and len(sites) >= 2:
        s1 = r.ch(sites)
        s2 = r.ch([s for s in sites if site_body[s] != site_body[s1]] or [None])
        if s2 is not None and (site_body[s1] not in stat or site_body[s2] not in stat):
          e.update(site1=s1, site2=s2)
      if "site1" not in e:
        e.update(body1=a, body2=r.ch(others))
        if kind == "connect":
          e["anchor"] = r.vec(3, -0.1, 0.1)
        else:
          if r.p(0.5):
            e["anchor"] = r.vec(3, -0.1, 0.1)
          if r.p(0.5):
            e["relpose"] = r.vec(3, -0.2, 0.2) + r.quat()
      if kind == "weld":
        e["torquescale"] = r.u(0.3, 3)
    elif kind == "joint":
      a = r.ch(scalar)["name"]
      e["joint1"] = a
      if len(scalar) > 1 and r.p(0.7):
        e["joint2"] = r.ch([j["name"] for j in scalar if j["name"] != a])
      e["polycoef"] = [r.u(-0.1, 0.1), r.u(-2, 2), r.u(-0.5, 0.5), r.u(-0.2, 0.2), 0]
    else:
      e["tendon1"] = "t0"
      if "t2" in tnames and r.p(0.6):
        e["tendon2"] = "t2"
      e["polycoef"] = [r.u(-0.1, 0.1), r.u(-2, 2), r.u(-0.5, 0.5), 0, 0]
    e["solref"] = [r.u(0.01, 0.05), r.u(0.5, 1.5)]
    e["solimp"] = [r.u(0.5, 0.9), r.u(0.9, 0.99), r.lu(1e-3, 1e-2), r.u(0.2, 0.8), r.u(1, 3)]
    spec["equalities"].append(e)

  # --- actuators: clamped position servo, general with activation + affine gain/bias + actrange on a tendon, intvelocity, one random extra
  acts = spec["actuators"]
  nonfree = [j for _, j in joints if j["type"] != "free"]
  if plain:
    pass
  elif scalar:
    j0 = r.ch(scalar)
    j0["actuatorfrcrange"] = [-r.u(0.05, 0.5), r.u(0.05, 0.5)]
    acts.append(dict(name="a0", kind="position", joint=j0["name"], kp=r.u(5, 50), kv=r.u(0.1, 3), gear=[r.u(0.5, 3) * r.ch([-1, 1])], ctrlrange=[-r.u(0.2, 1), r.u(0.2, 1)]))
    j1 = r.ch(scalar)
    acts.append(dict(name="a2", kind="intvelocity", joint=j1["name"], kp=r.u(5, 50), actrange=[-r.u(0.05, 0.4), r.u(0.05, 0.4)], gear=[r.u(0.5, 3)],
                     forcerange=[-r.u(0.2, 2), r.u(0.2, 2)]))
  if "t0" in tnames and not plain:
    acts.append(dict(name="a1", kind="general", tendon="t0", dyntype=r.ch(["integrator", "filter", "filterexact"]), gaintype="affine", biastype="affine",
                     dynprm=[r.u(0.02, 0.5), 0, 0], gainprm=[r.u(1, 5), r.u(-1, 1), r.u(-1, 1)], biasprm=[r.u(-2, 2), r.u(-5, 5), r.u(-2, 2)], actlimited=True,
                     actrange=[-r.u(0.05, 0.4), r.u(0.05, 0.4)], actearly=r.p(0.5), ctrlrange=[-r.u(0.2, 1), r.u(0.2, 1)], gear=[r.u(0.5, 2)]))
  if plain:
    pass
  elif "muscle" in tags and (nonfree or "t0" in tnames):
    a = dict(name="a3", kind="muscle", timeconst=[r.u(0.005, 0.05), r.u(0.02, 0.1)], range=[r.u(0.5, 0.9), r.u(1.1, 1.6)], force=-1, scale=r.u(100, 400),
             lengthrange=[r.u(0.1, 0.5), r.u(0.8, 2.0)], ctrlrange=[0, 1])
    if scalar and r.p(0.6):
      a["joint"] = r.ch(scalar)["name"]
    elif "t0" in tnames:
      a["tendon"] = "t0"
    else:
      a["joint"] = r.ch(nonfree)["name"]
    acts.append(a)
  elif "crank" in tags or r.p(0.3):
    pairs_ = [(s1, s2) for s1 in sites for s2 in sites if site_body[s1] != site_body[s2] and site_body[s1] not in stat]
    if pairs_:
      s1, s2 = r.ch(pairs_)
      acts.append(dict(name="a3", kind=r.ch(["motor", "position"]), cranksite=s1, slidersite=s2, cranklength=r.u(0.3, 1.0), gear=[r.u(0.5, 2)]))
      if acts[-1]["kind"] == "position":
        acts[-1]["kp"] = r.u(5, 30)
  else:
    cfg = dict(gen.DEFAULT_CFG, act_menu=["motor", "velocity", "damper", "cylinder", "adhesion", "general"], trn_menu=["joint", "site", "jointinparent", "body", "tendon"],
               dyn_menu=["none", "integrator", "filter", "filterexact"])
    a = gen._actuator(r, cfg, "a3", joints, tend, sites, site_body, bnames, bodies)
    if a is not None:
      acts.append(a)

  # --- cameras and lights: all tracking modes present
  rot = r.i(0, 4)
  hosts = [b for b in bodies if not b.get("mocap")]
  for k in range(3):
    b = hosts[(k + rot) % len(hosts)]
    mode = ["track", "trackcom", ["fixed", "targetbody", "targetbodycom"][rot % 3]][k]
    c = dict(name=f"c{k}", pos=r.vec(3, -0.3, 0.3), quat=r.quat(), mode=mode, resolution=[64, 48])
    l = dict(name=f"l{k}", pos=r.vec(3, -0.3, 0.3), dir=r.unit(), mode=mode)
    if mode.startswith("target"):
      tgt = r.ch([n for n in bnames if n != b["name"]])
      c["target"] = tgt
      l["target"] = tgt
    if r.p(0.5):
      c["sensorsize"] = [r.u(0.005, 0.02), r.u(0.005, 0.02)]
      c["focal"] = [r.u(0.005, 0.03), r.u(0.005, 0.03)]
    else:
      c["fovy"] = r.u(20, 100)
    b["cameras"].append(c)
    hosts[(k + rot + 1) % len(hosts)]["lights"].append(l)
  sb = next(b for b in bodies if b["name"] == "bs0")
  sb["cameras"].append(dict(name="c3", pos=r.vec(3, -0.2, 0.2), quat=r.quat(), mode="fixed", resolution=[64, 48], fovy=r.u(20, 100)))



def add_pairs(spec, seed, touching, near=()):
  """Explicit <pair>s for geom pairs that do touch at the case's state (found by a first compile + mj_collision): MJWarp's
  broadphase ignores pair margins (known finding C04 pair-margin:broadphase), so only really touching pairs give pair contacts."""
  r = R([int(seed), 0x9A12])
  gtype = {g["name"]: g["type"] for b in spec["bodies"] for g in b["geoms"]}
  gtype.update({g["name"]: g["type"] for g in spec["world_geoms"]})
  for n1, n2 in touching[:2]:
    p = dict(geom1=n1, geom2=n2, condim=r.ch([1, 3, 4, 6]), friction=[r.u(0.2, 1.5), r.u(0.2, 1.5), r.lu(1e-3, 0.1), r.lu(1e-4, 0.01), r.lu(1e-4, 0.01)],
             solref=[r.u(0.01, 0.05), r.u(0.5, 1.5)], solimp=[r.u(0.5, 0.9), r.u(0.9, 0.99), r.lu(1e-3, 1e-2), r.u(0.2, 0.8), r.u(1, 3)],
             adhesion=r.lu(0.1, 10.0))
    if not (gtype[n1] in ("box", "mesh") and gtype[n2] in ("box", "mesh")):
      p["margin"] = r.u(0.01, 0.05)
      p["gap"] = r.u(0.0, 0.01)
    if r.p(0.5):
      p["solreffriction"] = [r.u(0.01, 0.05), r.u(0.5, 1.5)]
    spec["pairs"].append(p)
  for n1, n2, d0 in list(near)[:2]:  # the actual distance d0 lies in the gap band (margin, margin + gap): the contact exists while gap > 0.5 d0
    spec["pairs"].append(dict(geom1=n1, geom2=n2, margin=r6(0.5 * d0), gap=r6(0.8 * d0)))


def _sensors(spec, r):
  """A fixed battery of observers over whatever the model contains."""
  out = []
  bodies = spec["bodies"]
  joints = [j for b in bodies for j in b["joints"]]
  sites = [s["name"] for b in bodies for s in b["sites"]]
  cams = [c["name"] for b in bodies for c in b["cameras"]]
  for j in joints:
    if j["type"] in ("hinge", "slide"):
      out.append(dict(kind="jointactuatorfrc", joint=j["name"]))
      if "range" in j:
        out.append(dict(kind="jointlimitfrc", joint=j["name"]))
        out.append(dict(kind="jointlimitpos", joint=j["name"]))
  for t in spec["tendons"]:
    out.append(dict(kind="tendonpos", tendon=t["name"]))
    out.append(dict(kind="tendonactuatorfrc", tendon=t["name"]))
    if "range" in t:
      out.append(dict(kind="tendonlimitfrc", tendon=t["name"]))
      out.append(dict(kind="tendonlimitpos", tendon=t["name"]))
  for a in spec["actuators"]:
    out.append(dict(kind="actuatorfrc", actuator=a["name"]))
  for s in sites[:3]:
    out.append(dict(kind="magnetometer", site=s))
    out.append(dict(kind="accelerometer", site=s))
    out.append(dict(kind="framequat", objtype="site", objname=s))
  if sites:
    out.append(dict(kind="touch", site=sites[0]))
    out.append(dict(kind="rangefinder", site=sites[-1]))
    for c in cams:
      out.append(dict(kind="camprojection", site=sites[0], camera=c))
  for c in cams[:2]:
    out.append(dict(kind="framepos", objtype="camera", objname=c))
  for b in bodies[:2]:
    out.append(dict(kind="subtreecom", body=b["name"]))
    out.append(dict(kind="subtreeangmom", body=b["name"]))
  out.append(dict(kind="e_potential"))
  out.append(dict(kind="e_kinetic"))
  for i, s in enumerate(out):
    s["name"] = f"x{i}"
  return out


def build_spec(seed, opt, tags=()):
  """-> spec (with spec['_surfacevel']).  opt: dict(integrator, solver, cone, jacobian)."""
  cfg = make_cfg(seed, tags)
  r = R([int(seed), 0xF1E1D])
  option = dict(integrator=opt["integrator"], solver=opt["solver"], cone=opt["cone"], jacobian=opt["jacobian"], impratio=r.u(0.5, 4.0), magnetic=r.vec(3, -0.5, 0.5),
                iterations=50)  # (the CPU solver loop costs one launch set per iteration for the slowest world)
  flags = dict(energy="enable")
  if "elliptic" in tags:
    option["cone"] = "elliptic"
  if "cg" in tags:
    option["solver"] = "CG"
  if "lstol" in tags:
    option["tolerance"] = 1e-3  # the linesearch gradient tolerance is max(tolerance * ls_tolerance * |search| * scale, 1e-6): visible only with a loose main tolerance
  if "sleep" in tags or "sleepflag" in tags:
    option["solver"] = "Newton"
    option["jacobian"] = "dense"  # (Newton + sparse is reproducible to solver accuracy only; with sleeping that reaches every output)
    flags["sleep"] = "enable"
  option["flags"] = flags
  cfg["option"] = option
  spec = gen.make_spec(cfg)
  bodies = spec["bodies"]
  _add_static(spec, r)
  stat = _static_bodies(spec)
  allgeoms = [g for b in bodies for g in b["geoms"]] + spec["world_geoms"]
  if "mesh" in tags:
    names = ["tetra", "cube", "octa"]
    k = 0
    for b in bodies:
      if b["parent"] == -1 and b["name"] not in stat and not b.get("mocap") and b["geoms"]:
        g = b["geoms"][0]
        for key in ("size", "fluidshape", "fluidcoef", "margin", "gap"):
          g.pop(key, None)
        g["type"] = "mesh"
        g["mesh"] = names[k % 3]
        k += 1
    spec["meshes"] = sorted({g["mesh"] for g in allgeoms if g.get("mesh")} | {"tetra", "cube"})
  _features(spec, r, tags)
  if "gapband" in tags:  # two free spheres away from everything else, 0.3 apart (see fit_gap_band)
    for k, nm in enumerate(("gbA", "gbB")):
      bodies.append(dict(name=f"b{nm}", parent=-1, pos=[3.0, 0.4 * k, 1.0], quat=[1, 0, 0, 0], joints=[dict(name=f"j{nm}", type="free")],
                         geoms=[dict(name=nm, type="sphere", size=[0.05], pos=[0, 0, 0], quat=[1, 0, 0, 0])], sites=[], cameras=[], lights=[]))
  # put_model rejects margins on box/mesh pairs (multiccd / native ccd): keep those geoms and pairs margin-free
  gtype = {g["name"]: g["type"] for g in allgeoms}
  for g in allgeoms:
    if g["type"] in ("box", "mesh"):
      g.pop("margin", None)
      g.pop("gap", None)
  for p in spec["pairs"]:
    if gtype[p["geom1"]] in ("box", "mesh") and gtype[p["geom2"]] in ("box", "mesh"):
      p.pop("margin", None)
      p.pop("gap", None)
  surf = {}
  if "surfacevel" in tags or r.p(0.3):
    for g in allgeoms:
      if r.p(0.6) or g["type"] == "plane":
        surf[g["name"]] = r.vec(6, -1.0, 1.0)
  spec["sensors"] = _sensors(spec, r)
  spec["_surfacevel"] = surf
  return spec


def render_xml(spec):
  xml = gen.render(spec)
  for name, v in spec.get("_surfacevel", {}).items():
    xml = re.sub(rf'<geom name="{name}"', f'<geom name="{name}" surfacevel="{" ".join(repr(float(x)) for x in v)}"', xml, count=1)
  return xml


def touching_pairs(mjm, state):
  """Names of geom pairs in contact at the state (MuJoCo collision), movable-vs-anything, most penetrating first."""
  mjd = mujoco.MjData(mjm)
  mjd.qpos[:] = state["qpos"]
  if mjm.nmocap:
    mjd.mocap_pos[:] = state["mocap_pos"]
    mjd.mocap_quat[:] = state["mocap_quat"]
  mujoco.mj_kinematics(mjm, mjd)
  mujoco.mj_collision(mjm, mjd)
  seen, out, near = set(), [], []
  order = np.argsort(mjd.contact.dist[: mjd.ncon]) if mjd.ncon else []
  hard = (int(mujoco.mjtGeom.mjGEOM_BOX), int(mujoco.mjtGeom.mjGEOM_MESH))
  for i in order:
    g1, g2 = int(mjd.contact.geom1[i]), int(mjd.contact.geom2[i])
    if (g1, g2) in seen:
      continue
    seen.add((g1, g2))
    names = (mujoco.mj_id2name(mjm, mujoco.mjtObj.mjOBJ_GEOM, g1), mujoco.mj_id2name(mjm, mujoco.mjtObj.mjOBJ_GEOM, g2))
    if mjd.contact.dist[i] < -1e-3:
      out.append(names)
    elif mjd.contact.dist[i] > 2e-3 and not (int(mjm.geom_type[g1]) in hard and int(mjm.geom_type[g2]) in hard):
      near.append(names + (float(mjd.contact.dist[i]),))
  return out, near


def fit_limits_to_state(mjm, state, g, calm=False):
  """Edits the (copied) base model so that limits are active at the drawn state: about half of the limited scalar joints
  and limited tendons get a range whose upper or lower end the state violates (or sits inside the margin of); tendons with an
  actuatorfrcrange are marked limited (the grammar cannot render that attribute); muscle length ranges bracket the current length;
  calm: small violations and 50x friction loss, so that friction rows stay in their quadratic zone."""
  viol = 0.1 if calm else 1.0
  mjm.tendon_actfrclimited[:] = mjm.tendon_actfrcrange[:, 1] > mjm.tendon_actfrcrange[:, 0]
  if calm:
    mjm.dof_frictionloss[:] *= 50.0
    mjm.tendon_frictionloss[:] *= 50.0
  mjd = mujoco.MjData(mjm)
  mjd.qpos[:] = state["qpos"]
  if mjm.nmocap:
    mjd.mocap_pos[:] = state["mocap_pos"]
    mjd.mocap_quat[:] = state["mocap_quat"]
  mujoco.mj_kinematics(mjm, mjd)
  mujoco.mj_comPos(mjm, mjd)
  mujoco.mj_tendon(mjm, mjd)
  mujoco.mj_transmission(mjm, mjd)
  for a in range(mjm.nu):
    if int(mjm.actuator_gaintype[a]) == int(mujoco.mjtGain.mjGAIN_MUSCLE):
      L = mjd.actuator_length[a]
      mjm.actuator_lengthrange[a] = (L - g.uniform(0.2, 0.5), L + g.uniform(0.2, 0.5))
  for j in range(mjm.njnt):
    if not mjm.jnt_limited[j] or int(mjm.jnt_type[j]) not in (int(mujoco.mjtJoint.mjJNT_HINGE), int(mujoco.mjtJoint.mjJNT_SLIDE)):
      continue
    if g.uniform() < 0.6:
      q = mjd.qpos[mjm.jnt_qposadr[j]]
      off = g.uniform(0.01, 0.15) * viol
      w = g.uniform(0.3, 1.0)
      mjm.jnt_range[j] = (q + off, q + off + w) if g.uniform() < 0.5 else (q - off - w, q - off)
  for t in range(mjm.ntendon):
    if not mjm.tendon_limited[t]:
      continue
    if g.uniform() < 0.7:
      L = mjd.ten_length[t]
      off = g.uniform(0.01, 0.1) * viol
      w = g.uniform(0.2, 0.6)
      mjm.tendon_range[t] = (L + off, L + off + w) if g.uniform() < 0.5 else (L - off - w, L - off)


def fit_gap_band(mjm, state):
  """The two free spheres gbA/gbB (tag gapband) sit d0 apart at the drawn state: their margins and gaps are set so that d0 lies in the
  gap band (margin < d0 < margin + gap): the contact exists only while the summed gap exceeds 0.5 d0 - in the broadphase (for spheres
  its bounding-sphere test is exact) and in the narrowphase.  Returns [(geomid, base gap)]."""
  ids = [mujoco.mj_name2id(mjm, mujoco.mjtObj.mjOBJ_GEOM, n) for n in ("gbA", "gbB")]
  if min(ids) < 0:
    return []
  p = []
  for gid in ids:
    b = mjm.geom_bodyid[gid]
    adr = mjm.jnt_qposadr[mjm.body_jntadr[b]]
    p.append(np.array(state["qpos"][adr : adr + 3]))
  d0 = float(np.linalg.norm(p[0] - p[1]) - mjm.geom_size[ids[0], 0] - mjm.geom_size[ids[1], 0])
  if d0 < 0.01:
    return []
  out = []
  for gid in ids:
    mjm.geom_margin[gid] = 0.25 * d0
    mjm.geom_gap[gid] = 0.4 * d0
    out.append((int(gid), 0.4 * d0, 0.25 * d0))
  return out


def copy_model(mjm):
  return copy.deepcopy(mjm)


def clear_shortcut_flags(mjm):
  """MuJoCo's compiler marks geoms/sites/bodies whose frame coincides with the body or inertial frame (*_sameframe) and
  takes a copy shortcut in mj_kinematics; the marks are stale once pose fields are edited, so they are cleared (always valid)."""
  for k in ("body_sameframe", "geom_sameframe", "site_sameframe"):
    if hasattr(mjm, k):
      getattr(mjm, k)[:] = 0


def restore_nonbatchable(mr, base, batch_names):
  """After mj_setConst on a per-world copy: fields of Model that are not batchable (dof_length, ...) keep the base values,
  so that the per-world MjModel differs from the base one in batchable fields only."""
  for f in dataclasses.fields(T.Model):
    if f.name in batch_names:
      continue
    a = getattr(mr, f.name, None)
    if isinstance(a, np.ndarray) and a.size and a.dtype.kind in "fiub":
      b = getattr(base, f.name)
      if a.shape == b.shape and not np.array_equal(a, b):
        a[...] = b
