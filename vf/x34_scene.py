"""Scene builder shared by C34 (ray casting) and C35 (rendering): geoms of every type on static / mocap / jointed bodies.

Everything numeric is drawn from numpy RNGs seeded by integers of the case, so the case JSON determines the scene.
"""

from __future__ import annotations

import numpy as np

from vf import gen

TYPES = ["plane", "sphere", "capsule", "ellipsoid", "cylinder", "box", "mesh", "hfield"]
HOSTS = ["world", "static", "mocap", "free", "hinge", "slide", "child", "same"]
_STATIC_ONLY = ("plane", "hfield")  # MuJoCo: plane/hfield geoms only on static bodies


def _fmt(v):
  if isinstance(v, (list, tuple, np.ndarray)):
    return " ".join(_fmt(x) for x in v)
  if isinstance(v, (float, np.floating)):
    return repr(round(float(v), 6))
  return str(v)


def _quat(rng, mode):
  if mode == 0:
    return [1.0, 0.0, 0.0, 0.0]
  if mode == 1:  # axis-aligned 90 degree rotations
    q = [[1, 0, 0, 0], [0.70710678, 0.70710678, 0, 0], [0.70710678, 0, 0.70710678, 0], [0.70710678, 0, 0, 0.70710678], [0, 1, 0, 0]][int(rng.integers(0, 5))]
    return [float(x) for x in q]
  q = rng.normal(size=4)
  q /= np.linalg.norm(q)
  return [float(x) for x in q]


def geom_attrs(rng, gtype, k, assets, extent, upright_hfield=False):
  """Returns the attribute dict of one geom of the given type (adds mesh/hfield assets as needed)."""
  u = rng.uniform
  a = dict(type=gtype)
  if gtype == "plane":
    mode = int(rng.integers(0, 4))
    sx = 0.0 if mode in (0, 1) else float(u(0.3, 1.5))
    sy = 0.0 if mode in (0, 2) else float(u(0.3, 1.5))
    a["size"] = [sx, sy, 0.1]
  elif gtype == "sphere":
    a["size"] = [float(u(0.05, 0.4))]
  elif gtype in ("capsule", "cylinder"):
    a["size"] = [float(u(0.04, 0.25)), float(u(0.05, 0.4))]
  elif gtype in ("ellipsoid", "box"):
    a["size"] = [float(u(0.05, 0.4)), float(u(0.05, 0.4)), float(u(0.05, 0.4))]
  elif gtype == "mesh":
    base = ["tetra", "cube", "octa"][int(rng.integers(0, 3))]
    sc = [float(u(1.0, 4.0)), float(u(1.0, 4.0)), float(u(1.0, 4.0))] if rng.random() < 0.7 else [2.0, 2.0, 2.0]
    name = f"mesh{k}"
    assets.append(f'<mesh name="{name}" vertex="{gen._MESHES[base]}" scale="{_fmt(sc)}"/>')
    a["mesh"] = name
  elif gtype == "hfield":
    nrow, ncol = int(rng.integers(2, 6)), int(rng.integers(2, 6))
    el = rng.uniform(0, 1, size=(nrow, ncol))
    mode = int(rng.integers(0, 4))
    if mode == 0:  # plateaus: coplanar cells (merged by the BVH mesh builder)
      el = np.round(el * 2) / 2
    elif mode == 1:  # planar ramp
      el = np.add.outer(np.arange(nrow) * float(u(0, 0.3)), np.arange(ncol) * float(u(0, 0.3)))
    name = f"hf{k}"
    size = [float(u(0.2, 0.8)), float(u(0.2, 0.8)), float(u(0.05, 0.4)), float(u(0.02, 0.2))]
    assets.append(f'<hfield name="{name}" nrow="{nrow}" ncol="{ncol}" size="{_fmt(size)}" elevation="{_fmt(np.round(el, 3).ravel())}"/>')
    a["hfield"] = name
  a["pos"] = [float(x) for x in rng.uniform(-extent, extent, size=3)]
  a["quat"] = _quat(rng, int(rng.integers(0, 4)))
  if gtype == "hfield" and upright_hfield:  # terrain-like: below the scene, z up with a small tilt
    a["pos"][2] = float(-extent - rng.uniform(0.0, 0.3))
    q = np.array([1.0, 0.0, 0.0, 0.0]) + 0.1 * rng.normal(size=4)
    a["quat"] = [float(x) for x in q / np.linalg.norm(q)]
  return a


def _geom_xml(a, extra):
  keys = ["name", "type", "size", "pos", "quat", "mesh", "hfield", "group", "rgba", "material"]
  d = dict(a)
  d.update(extra)
  return "<geom" + "".join(f' {k}="{_fmt(d[k])}"' for k in keys if k in d) + ' contype="0" conaffinity="0"/>'


def build(geoms, scene_seed, cameras=(), extent=1.2, visual="", upright_hfield=False):
  """geoms: list of dicts {type, host, group, alpha (0/1), mat (0 none, 1 opaque material, 2 transparent material)}.

  cameras: list of dicts {host: world|mocap|free, attrs: {xml attribute: value}}.
  Returns the MJCF string.  Geom k is named g{k}; geom ids follow the MuJoCo compile order (world geoms first is NOT assumed:
  use mj_name2id).
  """
  rng = np.random.default_rng(int(scene_seed))
  assets = ['<material name="opaque" rgba="0.5 0.6 0.7 1"/>', '<material name="clear" rgba="0.5 0.6 0.7 0"/>']
  world = []
  bodies = []  # list of [open-tag, [inner xml], moving?]
  last_moving = None
  for k, g in enumerate(geoms):
    a = geom_attrs(rng, g["type"], k, assets, extent, upright_hfield)
    extra = dict(name=f"g{k}", group=int(g.get("group", 0)))
    alpha = 0 if g.get("alpha", 1) == 0 else 1
    extra["rgba"] = [0.8, 0.3, 0.3, alpha]
    if g.get("mat", 0) == 1:
      extra["material"] = "opaque"
    elif g.get("mat", 0) == 2:
      extra["material"] = "clear"
    host = g.get("host", "world")
    if g["type"] in _STATIC_ONLY and host not in ("world", "static"):
      host = "static" if host in ("mocap", "child") else "world"
    if host == "same" and not bodies:
      host = "free"
    if host == "child" and last_moving is None:
      host = "hinge"
    bpos = [float(x) for x in rng.uniform(-0.5, 0.5, size=3)]
    bquat = _quat(rng, int(rng.integers(0, 4)))
    if host == "world":
      world.append(_geom_xml(a, extra))
      continue
    # geoms on bodies: keep the geom offset small so the body pose dominates
    if host != "static":
      a["pos"] = [0.3 * x for x in a["pos"]]
    gx = _geom_xml(a, extra)
    if host == "same":
      bodies[-1][1].append(gx)
      continue
    if host == "static":
      bodies.append([f'<body pos="{_fmt(bpos)}" quat="{_fmt(bquat)}">', [gx], False, None])
    elif host == "mocap":
      bodies.append([f'<body mocap="true" pos="{_fmt(bpos)}" quat="{_fmt(bquat)}">', [gx], False, None])
    elif host == "free":
      bodies.append([f'<body pos="{_fmt(bpos)}" quat="{_fmt(bquat)}">', ["<freejoint/>", gx], True, None])
      last_moving = len(bodies) - 1
    elif host in ("hinge", "slide"):
      ax = rng.normal(size=3)
      ax /= np.linalg.norm(ax)
      jp = rng.uniform(-0.3, 0.3, size=3)
      bodies.append([f'<body pos="{_fmt(bpos)}" quat="{_fmt(bquat)}">', [f'<joint type="{host}" axis="{_fmt(ax)}" pos="{_fmt(jp)}"/>', gx], True, None])
      last_moving = len(bodies) - 1
    elif host == "child":
      bodies.append([f'<body pos="{_fmt([0.5 * x for x in bpos])}" quat="{_fmt(bquat)}">', [gx], False, last_moving])
  cam_world = []
  for i, c in enumerate(cameras):
    h = c.get("host", "world")
    attrs = dict(c["attrs"])
    pose = ""
    if h != "world":  # the body carries the pose, the camera sits at the body origin
      pose = "".join(f' {k}="{_fmt(attrs.pop(k))}"' for k in ("pos", "xyaxes") if k in attrs)
    cx = f'<camera name="cam{i}"' + "".join(f' {k}="{_fmt(v)}"' for k, v in attrs.items()) + "/>"
    if h == "world":
      cam_world.append(cx)
    elif h == "mocap":
      bodies.append([f'<body name="cb{i}" mocap="true"{pose}>', [cx], False, None])
    else:
      bodies.append([f'<body name="cb{i}"{pose}>', ["<freejoint/>", '<inertial pos="0 0 0" mass="1" diaginertia="1 1 1"/>', cx], True, None])
  # nest children
  kids = {}
  for i, b in enumerate(bodies):
    if b[3] is not None:
      kids.setdefault(b[3], []).append(i)

  def emit(i):
    b = bodies[i]
    return b[0] + "".join(b[1]) + "".join(emit(j) for j in kids.get(i, [])) + "</body>"

  body_xml = "".join(emit(i) for i, b in enumerate(bodies) if b[3] is None)
  return (
    '<mujoco><compiler angle="radian"/><option><flag contact="disable"/></option>'
    + visual
    + "<asset>"
    + "".join(assets)
    + "</asset><worldbody>"
    + "".join(world)
    + "".join(cam_world)
    + body_xml
    + "</worldbody></mujoco>"
  )


def rand_states(mjm, seed, nworld, sigma=0.4):
  """Per-world state dicts: qpos around qpos0 (free quaternions random), random mocap poses; float32-representable."""
  import mujoco

  out = []
  for w in range(nworld):
    g = np.random.default_rng(int(seed) + 7919 * w)
    qpos = np.array(mjm.qpos0, dtype=np.float64) + sigma * g.normal(size=mjm.nq)
    for j in range(mjm.njnt):
      if mjm.jnt_type[j] == mujoco.mjtJoint.mjJNT_FREE:
        a = mjm.jnt_qposadr[j]
        q = g.normal(size=4)
        qpos[a + 3 : a + 7] = q / np.linalg.norm(q)
    s = dict(qpos=np.float32(qpos).astype(np.float64))
    if mjm.nmocap:
      mp = np.zeros((mjm.nmocap, 3))
      for b in range(mjm.nbody):
        if mjm.body_mocapid[b] >= 0:
          mp[mjm.body_mocapid[b]] = mjm.body_pos[b]
      mp = mp + sigma * g.normal(size=mp.shape)
      mq = g.normal(size=(mjm.nmocap, 4))
      mq /= np.linalg.norm(mq, axis=1, keepdims=True)
      s["mocap_pos"] = np.float32(mp).astype(np.float64)
      s["mocap_quat"] = np.float32(mq).astype(np.float64)
    out.append(s)
  return out
