"""Sensor grammar for C07: decorates a gen.make_spec() spec (sites with shapes, cameras with intrinsics) and appends <sensor> elements.

Everything is drawn from a gen.R stream seeded from the case, so the case JSON determines the sensors.  The grammar only emits
attribute combinations that the MJCF schema of MuJoCo 3.13 accepts; which of them mujoco_warp supports is decided by put_model.
"""

from __future__ import annotations

from vf.gen import R, r6

FRAME_OBJ = ["body", "xbody", "geom", "site", "camera"]

POS_KINDS = ["jointpos", "tendonpos", "actuatorpos", "ballquat", "jointlimitpos", "tendonlimitpos", "framepos", "framequat", "framexaxis",
             "frameyaxis", "framezaxis", "subtreecom", "clock", "e_potential", "e_kinetic", "rangefinder", "camprojection", "magnetometer",
             "insidesite", "distance", "normal", "fromto"]
VEL_KINDS = ["velocimeter", "gyro", "jointvel", "tendonvel", "actuatorvel", "ballangvel", "jointlimitvel", "tendonlimitvel", "framelinvel",
             "frameangvel", "subtreelinvel", "subtreeangmom"]
ACC_KINDS = ["accelerometer", "force", "torque", "touch", "actuatorfrc", "jointactuatorfrc", "tendonactuatorfrc", "jointlimitfrc",
             "tendonlimitfrc", "framelinacc", "frameangacc", "contact"]
ALL_KINDS = POS_KINDS + VEL_KINDS + ACC_KINDS + ["tactile"]

EMPHASIS = {
  "all": ALL_KINDS,
  "frame": ["framepos", "framequat", "framexaxis", "frameyaxis", "framezaxis", "framelinvel", "frameangvel", "framelinacc", "frameangacc",
            "subtreecom", "subtreelinvel", "subtreeangmom", "velocimeter", "gyro", "accelerometer", "magnetometer", "camprojection"],
  "contact": ["touch", "touch", "contact", "contact", "contact", "contact", "force", "torque", "accelerometer", "jointlimitfrc", "tendonlimitfrc", "jointlimitpos",
              "jointlimitvel", "tendonlimitpos", "tendonlimitvel", "framelinacc", "frameangacc", "actuatorfrc", "jointactuatorfrc",
              "tendonactuatorfrc", "tactile"],
  "geom": ["distance", "normal", "fromto", "rangefinder", "insidesite", "camprojection", "e_potential", "e_kinetic", "clock"],
  "scalar": ["jointpos", "jointvel", "tendonpos", "tendonvel", "actuatorpos", "actuatorvel", "actuatorfrc", "jointactuatorfrc",
             "tendonactuatorfrc", "ballquat", "ballangvel", "jointlimitpos", "jointlimitvel", "jointlimitfrc", "tendonlimitpos",
             "tendonlimitvel", "tendonlimitfrc", "e_potential", "e_kinetic", "clock"],
}

CONTACT_DATA = ["found", "force", "torque", "dist", "pos", "normal", "tangent"]


def decorate(spec, seed):
  """Gives every site a shape and size (zones for touch / insidesite / contact sensors), every camera a resolution and sometimes
  explicit intrinsics, makes some geoms invisible (rangefinder), and adds a static site and camera to the world body."""
  r = R([int(seed), 0x0707])
  for b in spec["bodies"]:
    for s in b["sites"]:
      _site_shape(r, s)
    for c in b["cameras"]:
      _camera(r, c)
    for g in b["geoms"]:
      if r.p(0.1):
        g["rgba"] = [0.5, 0.5, 0.5, 0]
      if b.get("mocap"):
        # MJWarp collides mocap geoms with static geoms (plane), MuJoCo filters such pairs: a collision-filter difference (reported, not
        # a sensor matter) that would make every world with a plane incomparable; mocap bodies serve as moving reference frames here
        g["contype"], g["conaffinity"] = 0, 0
  # limit margins (jointlimitpos = distance - margin)
  for j in [j for b in spec["bodies"] for j in b["joints"]] + list(spec.get("tendons", [])):
    if "range" in j and "margin" not in j and r.p(0.4):
      j["margin"] = r.u(0.0, 0.08)
  if spec.get("tendons") and r.p(0.5):
    tn = r.ch([t["name"] for t in spec["tendons"]])
    for k in range(r.i(1, 2)):
      spec["actuators"].append(dict(name=f"ax{k}", kind="motor", tendon=tn, gear=[r.u(-2, 2)]))
  # scenery: static geoms that collide with nothing (rangefinder targets, distance/frame/insidesite objects)
  for k in range(r.i(0, 3)):
    t = r.ch(["sphere", "box", "capsule", "cylinder", "ellipsoid"])
    g = dict(name=f"gs{k}", type=t, contype=0, conaffinity=0, pos=[r.u(-1, 1), r.u(-1, 1), r.u(-0.2, 1.2)], quat=r.quat())
    g["size"] = [r.u(0.1, 0.4)] if t == "sphere" else [r.u(0.05, 0.3), r.u(0.1, 0.4)] if t in ("capsule", "cylinder") else r.vec(3, 0.08, 0.4)
    if r.p(0.2):
      g["group"] = r.i(0, 5)
    spec["world_geoms"].append(g)
  ws = dict(name="sw", pos=r.vec(3, -0.3, 0.3), quat=r.quat())
  ws["pos"][2] = r.u(0.0, 0.4)
  _site_shape(r, ws, big=True)
  spec["world_sites"] = [ws]
  wc = dict(name="cw", pos=[r.u(-0.5, 0.5), r.u(-0.5, 0.5), r.u(0.5, 1.5)], quat=r.quat())
  _camera(r, wc)
  spec["world_cameras"] = [wc]


def _site_shape(r, s, big=False):
  t = r.ch(["sphere", "capsule", "ellipsoid", "cylinder", "box"])
  lo, hi = (0.1, 0.4) if big or r.p(0.65) else (0.02, 0.12)
  s["type"] = t
  if t == "sphere":
    s["size"] = [r.u(lo, hi)]
  elif t in ("capsule", "cylinder"):
    s["size"] = [r.u(lo, hi), r.u(lo, hi)]
  else:
    s["size"] = r.vec(3, lo, hi)


def _camera(r, c):
  c["resolution"] = r.ch([[64, 48], [32, 32], [100, 40]])
  k = r.i(0, 3)
  if k == 0:
    c["fovy"] = r.u(20, 100)
  elif k == 1:
    c["sensorsize"] = [r.u(0.005, 0.02), r.u(0.005, 0.02)]
    c["focal"] = [r.u(0.005, 0.03), r.u(0.005, 0.03)]
    if r.p(0.5):
      c["principal"] = [r.u(-0.002, 0.002), r.u(-0.002, 0.002)]
  elif k == 2:
    c["sensorsize"] = [r.u(0.005, 0.02), r.u(0.005, 0.02)]
    c["focalpixel"] = [r.u(20, 90), r.u(20, 90)]
    if r.p(0.5):
      c["principalpixel"] = [r.u(-5, 5), r.u(-5, 5)]
  if r.p(0.2):
    c["projection"] = "orthographic"


class Inventory:
  def __init__(self, spec):
    bodies = spec["bodies"]
    self.bodies = [b["name"] for b in bodies]
    self.body_geoms = {b["name"]: [g["name"] for g in b["geoms"]] for b in bodies}
    self.body_geoms["world"] = [g["name"] for g in spec.get("world_geoms", [])]
    self.geoms = [g for b in bodies for g in self.body_geoms[b["name"]]] + self.body_geoms["world"]
    self.geom_body = {g: bn for bn, gs in self.body_geoms.items() for g in gs}
    self.geom_type = {g["name"]: g["type"] for b in bodies for g in b["geoms"]}
    self.geom_type.update({g["name"]: g["type"] for g in spec.get("world_geoms", [])})
    self.sites = [s["name"] for b in bodies for s in b["sites"]] + [s["name"] for s in spec.get("world_sites", [])]
    self.body_sites = [s["name"] for b in bodies for s in b["sites"]]
    self.site_body = {s["name"]: b["name"] for b in bodies for s in b["sites"]}
    self.sites_of = {b["name"]: [s["name"] for s in b["sites"]] for b in bodies}
    self.cams_of = {b["name"]: [c["name"] for c in b["cameras"]] for b in bodies}
    self.cameras = [c["name"] for b in bodies for c in b["cameras"]] + [c["name"] for c in spec.get("world_cameras", [])]
    joints = [j for b in bodies for j in b["joints"]]
    self.joints = [j["name"] for j in joints]
    self.scalar = [j["name"] for j in joints if j["type"] in ("hinge", "slide")]
    self.ball = [j["name"] for j in joints if j["type"] == "ball"]
    self.limited = [j["name"] for j in joints if j["type"] != "free" and "range" in j]
    self.tendons = [t["name"] for t in spec.get("tendons", [])]
    self.limtendons = [t["name"] for t in spec.get("tendons", []) if "range" in t]
    self.actuators = [a["name"] for a in spec.get("actuators", [])]
    self.meshes = list(spec.get("meshes", []))
    self.body_dict = {b["name"]: b for b in bodies}
    self.site_dict = {s["name"]: s for b in bodies for s in b["sites"]}
    self.parents = sorted({bodies[b["parent"]]["name"] for b in bodies if b["parent"] >= 0})
    self.colliding = [g["name"] for b in bodies for g in b["geoms"] if g.get("contype", 1) != 0]

  def frame_obj(self, r, exclude=None):
    """(objtype, objname) over body/xbody/geom/site/camera (occasionally the world body)."""
    for _ in range(8):
      t = r.ch(FRAME_OBJ)
      pool = dict(body=self.bodies, xbody=self.bodies, geom=self.geoms, site=self.sites, camera=self.cameras)[t]
      if t in ("body", "xbody") and r.p(0.07):
        pool = ["world"]
      if pool:
        n = r.ch(pool)
        if (t, n) != exclude:
          return t, n
    return None


def _cutoff(r, s, small=(0.02, 0.5), big=100.0, p=0.5):
  """cutoff in {0 (absent), small (active for typical magnitudes), large}."""
  if r.p(p):
    s["cutoff"] = r.u(*small) if r.p(0.6) else big
  return s


def _mk(kind, r, inv, refp):
  s = dict(kind=kind)
  if kind in ("jointpos", "jointvel", "jointactuatorfrc"):
    if not inv.scalar:
      return None
    s["joint"] = r.ch(inv.scalar)
    return _cutoff(r, s)
  if kind in ("jointlimitpos", "jointlimitvel", "jointlimitfrc"):
    pool = inv.limited
    if not pool:
      return None
    s["joint"] = r.ch(pool)
    return _cutoff(r, s, small=(0.005, 0.2))
  if kind in ("ballquat", "ballangvel"):
    if not inv.ball:
      return None
    s["joint"] = r.ch(inv.ball)
    return _cutoff(r, s) if kind == "ballangvel" else s
  if kind in ("tendonpos", "tendonvel", "tendonactuatorfrc"):
    if not inv.tendons:
      return None
    s["tendon"] = r.ch(inv.tendons)
    return _cutoff(r, s)
  if kind in ("tendonlimitpos", "tendonlimitvel", "tendonlimitfrc"):
    pool = inv.limtendons
    if not pool:
      return None
    s["tendon"] = r.ch(pool)
    return _cutoff(r, s, small=(0.005, 0.2))
  if kind in ("actuatorpos", "actuatorvel", "actuatorfrc"):
    if not inv.actuators:
      return None
    s["actuator"] = r.ch(inv.actuators)
    return _cutoff(r, s)
  if kind in ("framepos", "framequat", "framexaxis", "frameyaxis", "framezaxis", "framelinvel", "frameangvel", "framelinacc", "frameangacc"):
    o = inv.frame_obj(r)
    if o is None:
      return None
    s["objtype"], s["objname"] = o
    if kind not in ("framelinacc", "frameangacc") and r.p(refp):
      ref = inv.frame_obj(r, exclude=o)
      if ref is not None:
        s["reftype"], s["refname"] = ref
    return _cutoff(r, s, small=(0.05, 1.0)) if kind not in ("framequat", "framexaxis", "frameyaxis", "framezaxis") else s
  if kind in ("subtreecom", "subtreelinvel", "subtreeangmom"):
    s["body"] = r.ch(inv.bodies + (["world"] if r.p(0.1) else []))
    return _cutoff(r, s, small=(0.02, 0.5))
  if kind in ("clock", "e_potential", "e_kinetic"):
    return _cutoff(r, s, small=(0.1, 2.0))
  if kind == "rangefinder":
    # (rangefinder on a camera is a separate class, see c07.KNOWN_EXCLUDED)
    if inv.cameras and r.p(0.15):
      s["camera"] = r.ch(inv.cameras)
      return s
    s["site"] = r.ch(inv.sites)
    return _cutoff(r, s, small=(0.1, 1.0), p=0.3)
  if kind == "camprojection":
    if not inv.cameras:
      return None
    s["site"] = r.ch(inv.sites)
    s["camera"] = r.ch(inv.cameras)
    return _cutoff(r, s, small=(5.0, 60.0), big=1e4, p=0.3)
  if kind in ("magnetometer", "velocimeter", "gyro", "accelerometer", "force", "torque"):
    s["site"] = r.ch(inv.body_sites or inv.sites)
    return _cutoff(r, s, small=(0.05, 2.0) if kind != "accelerometer" else (0.5, 15.0))
  if kind == "touch":
    s["site"] = r.ch(inv.body_sites or inv.sites)
    return _cutoff(r, s, small=(0.5, 20.0), big=1e4, p=0.4)
  if kind == "insidesite":
    s["site"] = r.ch(inv.sites)
    o = None
    b = inv.site_body.get(s["site"])
    if b is not None and r.p(0.3):
      # zone boundary placed between the body frame origin and its inertial frame origin (body vs xbody semantics)
      bd, sd = inv.body_dict[b], inv.site_dict[s["site"]]
      c = bd["inertial"]["pos"] if bd.get("inertial") else [sum(g["pos"][k] for g in bd["geoms"]) / max(1, len(bd["geoms"])) for k in range(3)]
      d0 = sum(x * x for x in sd["pos"]) ** 0.5
      d1 = sum((x - y) ** 2 for x, y in zip(sd["pos"], c)) ** 0.5
      if abs(d0 - d1) > 0.01:
        sd["type"], sd["size"] = "sphere", [r6(0.5 * (d0 + d1))]
        o = (r.ch(["body", "body", "xbody"]), b)
    if o is None and b is not None and r.p(0.6):
      cand = [("body", b)] * 3 + [("xbody", b)] + [("geom", g) for g in inv.body_geoms[b]] + [("site", x) for x in inv.sites_of[b] if x != s["site"]] + [("camera", c) for c in inv.cams_of[b]]
      o = r.ch(cand)
    if o is None:
      o = inv.frame_obj(r, exclude=("site", s["site"]))
    if o is None:
      return None
    s["objtype"], s["objname"] = o
    return _cutoff(r, s, p=0.2)
  if kind in ("distance", "normal", "fromto"):
    sides = []
    for k in (1, 2):
      if r.p(0.6) or not inv.bodies:
        sides.append(("geom", r.ch(inv.geoms)))
      else:
        pool = [b for b in inv.bodies + ["world"] if inv.body_geoms[b]]
        sides.append(("body", r.ch(pool)))
    (t1, n1), (t2, n2) = sides
    g1 = [n1] if t1 == "geom" else inv.body_geoms[n1]
    g2 = [n2] if t2 == "geom" else inv.body_geoms[n2]
    if set(g1) & set(g2):
      return None
    s[f"{t1}1"], s[f"{t2}2"] = n1, n2
    s["cutoff"] = r.ch([0, r.u(0.02, 0.3), 10.0])
    return s
  if kind == "contact":
    k1 = r.ch(["none", "none", "geom1", "body1", "subtree1", "subtree1", "site"])
    k2 = r.ch(["none", "none", "none", "geom2", "body2", "subtree2"])
    for k in (k1, k2):
      if k == "none":
        continue
      if k.startswith("geom"):
        planes = [g for g in inv.body_geoms["world"] if inv.geom_type[g] == "plane"]
        s[k] = r.ch(planes) if planes and r.p(0.35) else r.ch(inv.colliding or inv.geoms)
      elif k == "site":
        s[k] = r.ch(inv.sites)
      elif k.startswith("subtree"):
        s[k] = r.ch(inv.parents) if inv.parents and r.p(0.8) else r.ch(inv.bodies + ["world"])
      else:
        s[k] = "world" if r.p(0.3) else r.ch(inv.bodies)
    s["num"] = r.i(1, 4)
    nd = r.i(1, 7)
    pick = sorted(r.g.choice(7, size=nd, replace=False).tolist())
    s["data"] = " ".join(CONTACT_DATA[i] for i in pick)
    red = r.ch(["none", "mindist", "maxforce", "netforce"])
    if red != "none" or r.p(0.5):
      s["reduce"] = red
    return _cutoff(r, s, small=(0.05, 5.0), p=0.25)
  if kind == "tactile":
    if not inv.meshes or not inv.geoms:
      return None
    s["geom"] = r.ch(inv.geoms)
    s["mesh"] = r.ch(inv.meshes)
    return s
  raise KeyError(kind)


def add_sensors(spec, seed, n, emphasis="all", refp=0.5, exclude_kinds=()):
  """Appends up to n sensors (at least 1 if anything is feasible).  Returns the list of appended dicts."""
  r = R([int(seed), 0x5E75])
  inv = Inventory(spec)
  menu = [k for k in EMPHASIS[emphasis] if k not in exclude_kinds]
  out = []
  tries = 0
  while len(out) < n and tries < 6 * n + 10:
    tries += 1
    kind = r.ch(menu) if r.p(0.8) else r.ch([k for k in ALL_KINDS if k not in exclude_kinds])
    s = _mk(kind, r, inv, refp)
    if s is None:
      continue
    s["name"] = f"x{len(out)}"
    out.append(s)
  spec["sensors"] = list(spec.get("sensors", [])) + out
  return out


_FRAME_REF_KINDS = ["framepos", "framequat", "framexaxis", "frameyaxis", "framezaxis", "framelinvel", "frameangvel"]


def add_frame_matrix(spec, seed, k=3):
  """Appends k frame sensors with a reference frame whose (kind, objtype, reftype) walks systematically through the 7 x 5 x 5 matrix (index derived
  from the seed), so that every combination is exercised several times per run instead of with probability ~1/1000 per drawn sensor."""
  r = R([int(seed), 0xF7A3])
  inv = Inventory(spec)
  pools = dict(body=inv.bodies, xbody=inv.bodies, geom=inv.geoms, site=inv.sites, camera=inv.cameras)
  out = []
  ncomb = len(_FRAME_REF_KINDS) * len(FRAME_OBJ) * len(FRAME_OBJ)
  for i in range(k):
    idx = (int(seed) * k + i) % ncomb
    kind = _FRAME_REF_KINDS[idx % len(_FRAME_REF_KINDS)]
    ot = FRAME_OBJ[(idx // len(_FRAME_REF_KINDS)) % len(FRAME_OBJ)]
    rt = FRAME_OBJ[idx // (len(_FRAME_REF_KINDS) * len(FRAME_OBJ))]
    if not pools[ot] or not pools[rt]:
      continue
    on = r.ch(pools[ot])
    cand = [n for n in pools[rt] if (rt, n) != (ot, on)]
    if not cand:
      continue
    s = dict(kind=kind, objtype=ot, objname=on, reftype=rt, refname=r.ch(cand), name=f"fm{i}")
    if kind in ("framepos", "framelinvel", "frameangvel"):
      _cutoff(r, s, small=(0.05, 1.0), p=0.3)
    out.append(s)
  spec["sensors"] = list(spec.get("sensors", [])) + out
  return out
