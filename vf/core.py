"""Core plumbing shared by all checks: recorder, violation type, comparison helpers, seeds."""

from __future__ import annotations

import hashlib
import json
import os
import time
from collections import Counter

import numpy as np

VERIF = os.path.dirname(os.path.dirname(os.path.abspath(__file__)))


class Violation(Exception):
  """The property under test does not hold for the current case."""

  def __init__(self, msg, sig=None, **details):
    super().__init__(msg)
    self.msg = msg
    self.sig = sig  # short stable signature used for known-finding matching
    self.details = details


class Reject(Exception):
  """Case is outside the property's domain (clean rejection by put_model etc.)."""


def derive_seed(seed: int, prop: str, shard: int) -> int:
  h = hashlib.sha256(f"{seed}:{prop}:{shard}".encode()).digest()
  return int.from_bytes(h[:4], "little")


def jsonable(x):
  if isinstance(x, dict):
    return {str(k): jsonable(v) for k, v in x.items()}
  if isinstance(x, (list, tuple)):
    return [jsonable(v) for v in x]
  if isinstance(x, np.ndarray):
    return jsonable(x.tolist())
  if isinstance(x, (np.floating,)):
    return float(x)
  if isinstance(x, (np.integer,)):
    return int(x)
  if isinstance(x, (np.bool_,)):
    return bool(x)
  if isinstance(x, float):
    if x != x:
      return "nan"
    if x in (float("inf"), float("-inf")):
      return "inf" if x > 0 else "-inf"
  return x


def case_hash(case) -> str:
  return hashlib.sha1(json.dumps(jsonable(case), sort_keys=True).encode()).hexdigest()[:16]


def load_known_findings():
  """Returns (findings, fixed): lists of dicts {property, sig, text}."""
  path = os.path.join(VERIF, "known_findings.txt")
  findings, fixed = [], []
  if os.path.exists(path):
    for line in open(path):
      line = line.strip()
      if not line or line.startswith("#"):
        continue
      kind, _, rest = line.partition(":")
      rest = rest.strip()
      toks = rest.split()
      d = {"text": rest}
      for t in toks:
        if t.startswith("property="):
          d["property"] = t.split("=", 1)[1]
        if t.startswith("sig="):
          d["sig"] = t.split("=", 1)[1]
      if kind == "finding":
        findings.append(d)
      elif kind == "fixed":
        fixed.append(d)
  return findings, fixed


class Recorder:
  """Collects coverage statistics for one worker."""

  def __init__(self, prop, tier, shard, budget_s, curfile=None):
    self.prop = prop
    self.tier = tier
    self.shard = shard
    self.t0 = time.time()
    self.budget_s = budget_s
    self.evaluations = 0  # oracle evaluations
    self.cases = 0
    self.nontrivial = set()
    self.classes = Counter()
    self.samples = []
    self.rejected = 0
    self.boundary_skipped = 0
    self.inconclusive = 0
    self.skipped_budget = 0
    self.known = {}  # sig -> count
    self.excluded = Counter()  # excluded by construction (known findings)
    self.curfile = curfile
    self.current = None
    self.last_violation = None
    self.notes = Counter()
    self.maxerr = {}
    findings, _ = load_known_findings()
    self.known_sigs = {f["sig"]: f for f in findings if f.get("property") == prop and "sig" in f}

  def over_budget(self):
    return time.time() - self.t0 > self.budget_s

  def begin(self, case):
    self.current = case
    self.cases += 1
    if self.curfile:
      with open(self.curfile, "w") as f:
        json.dump(jsonable(case), f)

  def ev(self, n=1):
    self.evaluations += n

  def cls(self, *names):
    for n in names:
      self.classes[str(n)] += 1

  def nt(self, case=None, extra=None):
    """Marks the current case (optionally with a sub-key) as non-trivial."""
    c = self.current if case is None else case
    h = case_hash([c, extra] if extra is not None else c)
    if h not in self.nontrivial and len(self.samples) < 4:
      s = jsonable(c)
      txt = json.dumps(s)
      if len(txt) > 6000:
        s = {"truncated_case_json": txt[:6000]}
      self.samples.append(s)
    self.nontrivial.add(h)

  def err(self, name, value):
    """Tracks the max observed error per quantity (for calibration reporting)."""
    v = float(value)
    if v == v and v > self.maxerr.get(name, 0.0):
      self.maxerr[name] = v

  def violation(self, msg, sig=None, **details):
    """Raise a violation unless its signature is a listed known finding."""
    if sig is not None and sig in self.known_sigs:
      self.known[sig] = self.known.get(sig, 0) + 1
      return
    raise Violation(msg, sig=sig, **details)

  def dump(self):
    return dict(
      prop=self.prop,
      shard=self.shard,
      evaluations=self.evaluations,
      cases=self.cases,
      nontrivial=sorted(self.nontrivial),
      classes=dict(self.classes),
      samples=self.samples,
      rejected=self.rejected,
      boundary_skipped=self.boundary_skipped,
      inconclusive=self.inconclusive,
      skipped_budget=self.skipped_budget,
      known=self.known,
      excluded=dict(self.excluded),
      notes=dict(self.notes),
      maxerr=self.maxerr,
      wall_s=time.time() - self.t0,
    )


# --------------------------------------------------------------------------------------
# numeric comparison


def maxabs(x):
  x = np.asarray(x, dtype=np.float64)
  return float(np.max(np.abs(x))) if x.size else 0.0


def relerr(a, b, scale=None, floor=1.0):
  """max |a-b| / max(scale, floor) where scale defaults to max|b|."""
  a = np.asarray(a, dtype=np.float64)
  b = np.asarray(b, dtype=np.float64)
  if a.shape != b.shape:
    return float("inf")
  if a.size == 0:
    return 0.0
  if not (np.all(np.isfinite(a)) and np.all(np.isfinite(b))):
    if np.array_equal(np.isnan(a), np.isnan(b)) and np.array_equal(np.isinf(a), np.isinf(b)):
      m = np.isfinite(a)
      if not m.any():
        return 0.0
      a, b = a[m], b[m]
    else:
      return float("inf")
  s = maxabs(b) if scale is None else scale
  return float(np.max(np.abs(a - b))) / max(s, floor)


def check_close(rec: Recorder, name, a, b, tol, scale=None, floor=1.0, sig=None, **ctx):
  e = relerr(a, b, scale=scale, floor=floor)
  rec.err(name, e)
  if not e <= tol:
    a = np.asarray(a, dtype=np.float64)
    b = np.asarray(b, dtype=np.float64)
    info = dict(field=name, err=e, tol=tol)
    if a.shape == b.shape and a.size:
      d = np.abs(a - b)
      d = np.where(np.isfinite(d), d, np.inf)
      idx = np.unravel_index(int(np.argmax(d)), d.shape)
      info.update(index=[int(i) for i in idx], got=float(a[idx]), want=float(b[idx]))
    else:
      info.update(shape_got=list(a.shape), shape_want=list(b.shape))
    info.update(ctx)
    rec.violation(f"{name}: err {e:.3g} > tol {tol:.3g} {info}", sig=sig or f"close:{name}", **info)


def check_equal(rec: Recorder, name, a, b, sig=None, **ctx):
  a = np.asarray(a)
  b = np.asarray(b)
  ok = a.shape == b.shape and (np.array_equal(a, b) or (a.dtype.kind == "f" and np.array_equal(a, b, equal_nan=True)))
  if not ok:
    info = dict(field=name)
    if a.shape == b.shape and a.size:
      ne = np.argwhere(~((a == b) | ((a != a) & (b != b)))) if a.dtype.kind == "f" else np.argwhere(a != b)
      idx = tuple(ne[0])
      info.update(index=[int(i) for i in idx], got=jsonable(a[idx]), want=jsonable(b[idx]), ndiff=int(len(ne)))
    else:
      info.update(shape_got=list(a.shape), shape_want=list(b.shape))
    info.update(ctx)
    rec.violation(f"{name}: not equal {info}", sig=sig or f"equal:{name}", **info)
