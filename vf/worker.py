"""One worker process: runs a Hypothesis campaign (or an enumeration shard, or a replay) for one property.

usage: python -m vf.worker PROP TIER SEED SHARD NSHARD OUT.json [--replay FILE ...]
"""

from __future__ import annotations

import importlib
import json
import os
import sys
import time
import traceback


def _install_arena_cache():
  """Speed-up only: see vf/native/arena_cache.c.  Silently skipped when no C compiler is available."""
  import ctypes
  import subprocess

  from vf.core import VERIF

  so = os.path.join(VERIF, ".cache", "arena_cache.so")
  src = os.path.join(VERIF, "vf", "native", "arena_cache.c")
  try:
    if not os.path.exists(so) or os.path.getmtime(so) < os.path.getmtime(src):
      os.makedirs(os.path.dirname(so), exist_ok=True)
      tmp = f"{so}.{os.getpid()}.tmp"
      subprocess.run(["gcc", "-O2", "-shared", "-fPIC", "-o", tmp, src], check=True, stdout=subprocess.DEVNULL, stderr=subprocess.DEVNULL)
      os.replace(tmp, so)
    ctypes.PyDLL(so).install()
  except Exception:
    pass


def _setup_warp(mode="release"):
  import warp as wp

  from vf.core import VERIF

  cache = os.path.join(VERIF, ".cache", f"warp-{mode}")
  os.makedirs(cache, exist_ok=True)
  wp.config.kernel_cache_dir = cache
  wp.config.quiet = True
  wp.config.verbose = False
  if mode == "debug":
    wp.config.mode = "debug"
  return wp


def main(argv):
  prop, tier, seed, shard, nshard, out = argv[0], argv[1], int(argv[2]), int(argv[3]), int(argv[4]), argv[5]
  replays = []
  if "--replay" in argv:
    replays = argv[argv.index("--replay") + 1 :]

  from vf import core

  _install_arena_cache()
  mod = importlib.import_module(f"vf.props.{prop.lower()}")
  warp_mode = getattr(mod, "WARP_MODE", "release")
  if getattr(mod, "SCHED", False):
    from vf import sched

    sched.install()
    warp_mode = "sched"
  if warp_mode != "none":
    _setup_warp(warp_mode)

  budget = mod.BUDGET[tier]  # dict: examples, seconds
  rec = core.Recorder(prop, tier, shard, budget.get("seconds", 1e9), curfile=out + ".cur")
  result = dict(status="ok")

  def run_case(case):
    rec.begin(case)
    try:
      mod.check(case, rec)
    except core.Reject as r:
      rec.rejected += 1
      import re as _re

      rec.notes["reject: " + _re.sub(r"[0-9]+(\.[0-9]+)?", "#", str(r))[:70]] += 1  # why inputs were outside the accepted domain (digits folded)

  try:
    if replays:
      for path in replays:
        with open(path) as f:
          data = json.load(f)
        case = data["case"] if "case" in data and "property" in data else data
        try:
          run_case(case)
        except core.Violation as v:
          result = dict(status="violation", msg=v.msg, sig=v.sig, details=core.jsonable(v.details), case=core.jsonable(case), replay_of=path)
          break
    elif hasattr(mod, "enumerate_cases") and getattr(mod, "ENUM_ONLY", False):
      cases = mod.enumerate_cases(tier, seed)
      for i, case in enumerate(cases):
        if i % nshard != shard:
          continue
        if rec.over_budget():
          rec.skipped_budget += 1
          continue
        try:
          run_case(case)
        except core.Violation as v:
          result = dict(status="violation", msg=v.msg, sig=v.sig, details=core.jsonable(v.details), case=core.jsonable(case))
          break
    else:
      import hypothesis
      from hypothesis import HealthCheck, Phase, given, settings

      # deterministic pre-pass: fixed enumerated cases (sharded)
      pre_violation = None
      if hasattr(mod, "enumerate_cases"):
        for i, case in enumerate(mod.enumerate_cases(tier, seed)):
          if i % nshard != shard:
            continue
          if rec.over_budget():
            rec.skipped_budget += 1
            continue
          try:
            run_case(case)
          except core.Violation as v:
            pre_violation = dict(status="violation", msg=v.msg, sig=v.sig, details=core.jsonable(v.details), case=core.jsonable(case))
            break
      if pre_violation:
        result = pre_violation
      else:
        n = max(1, budget["examples"] // nshard)
        phases = [Phase.generate]
        if tier == "thorough" or os.environ.get("VF_SHRINK") == "1":
          phases.append(Phase.shrink)
        st = mod.strategy(tier)
        state = dict(last=None)

        @hypothesis.seed(core.derive_seed(seed, prop, shard))
        @settings(
          max_examples=n,
          database=None,
          deadline=None,
          derandomize=False,
          report_multiple_bugs=False,
          phases=phases,
          suppress_health_check=list(HealthCheck),
          print_blob=False,
        )
        @given(st)
        def test(case):
          if rec.over_budget() and state["last"] is None:
            rec.skipped_budget += 1
            return
          try:
            run_case(case)
          except core.Violation as v:
            state["last"] = (case, v)
            raise

        try:
          test()
        except core.Violation:
          case, v = state["last"]
          result = dict(status="violation", msg=v.msg, sig=v.sig, details=core.jsonable(v.details), case=core.jsonable(case))
        except BaseException as e:  # hypothesis wraps some failures
          if state["last"] is not None:
            case, v = state["last"]
            result = dict(status="violation", msg=v.msg, sig=v.sig, details=core.jsonable(v.details), case=core.jsonable(case))
          else:
            raise
  except BaseException:
    result = dict(status="error", traceback=traceback.format_exc(), case=core.jsonable(rec.current))

  result["rec"] = rec.dump()
  with open(out, "w") as f:
    json.dump(result, f)
  try:
    os.remove(out + ".cur")
  except OSError:
    pass
  sys.stdout.flush()
  os._exit(0)  # skip slow warp teardown


if __name__ == "__main__":
  main(sys.argv[1:])
