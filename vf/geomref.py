"""Independent geometric reference: signed distance between two convex geoms via support functions.

signed distance = max over unit directions d of  s(d) = -h_B(-d) - h_A(d)   (h_X(d) = max_{x in X} d.x)
which is the separation distance when disjoint and minus the penetration depth (minimal translation) when overlapping.
Evaluated by dense direction sampling followed by local refinement.
"""

import numpy as np

_DIRS = None


def _dirs(n=40000):
  global _DIRS
  if _DIRS is None or len(_DIRS) != n:
    i = np.arange(n) + 0.5
    phi = np.arccos(1 - 2 * i / n)
    th = np.pi * (1 + 5**0.5) * i
    _DIRS = np.stack([np.cos(th) * np.sin(phi), np.sin(th) * np.sin(phi), np.cos(phi)], axis=1)
  return _DIRS


def support(gtype, size, pos, mat, d, verts=None):
  """h(d) for an array of unit directions d (n,3). mat columns are the geom axes in world."""
  d = np.atleast_2d(d)
  c = d @ pos
  l = d @ mat  # components along geom axes
  if gtype == "sphere":
    return c + size[0]
  if gtype == "capsule":
    return c + size[1] * np.abs(l[:, 2]) + size[0]
  if gtype == "cylinder":
    return c + size[1] * np.abs(l[:, 2]) + size[0] * np.sqrt(np.maximum(0.0, l[:, 0] ** 2 + l[:, 1] ** 2))
  if gtype == "box":
    return c + np.abs(l) @ np.asarray(size[:3])
  if gtype == "ellipsoid":
    return c + np.sqrt((l * np.asarray(size[:3])) ** 2 @ np.ones(3))
  if gtype == "mesh":
    return c + np.max(l @ np.asarray(verts).T, axis=1)
  raise ValueError(gtype)


def signed_distance(A, B, n=40000, refine=3):
  """A, B: dicts(type,size,pos,mat[,verts]).  Returns (dist, direction from A to B)."""
  d = _dirs(n)

  def s(dd):
    return -support(B["type"], B["size"], B["pos"], B["mat"], -dd, B.get("verts")) - support(A["type"], A["size"], A["pos"], A["mat"], dd, A.get("verts"))

  v = s(d)
  k = int(np.argmax(v))
  best, bd = float(v[k]), d[k]
  # local refinement: sample a shrinking cap around the best direction
  rad = 3.0 * np.sqrt(4 * np.pi / n)
  rng = np.random.default_rng(0)
  for it in range(refine * 4):
    t = rng.normal(size=(4000, 3)) * rad
    cand = bd + t
    cand /= np.linalg.norm(cand, axis=1, keepdims=True)
    v = s(cand)
    k = int(np.argmax(v))
    if v[k] > best:
      best, bd = float(v[k]), cand[k]
    rad *= 0.5
  return best, bd


def geom_from_model(mjm, xpos, xmat, g):
  import mujoco

  names = {0: "plane", 2: "sphere", 3: "capsule", 4: "ellipsoid", 5: "cylinder", 6: "box", 7: "mesh"}
  t = names[int(mjm.geom_type[g])]
  out = dict(type=t, size=np.array(mjm.geom_size[g]), pos=np.array(xpos[g], dtype=np.float64), mat=np.array(xmat[g], dtype=np.float64).reshape(3, 3))
  if t == "mesh":
    mid = int(mjm.geom_dataid[g])
    a, n = int(mjm.mesh_vertadr[mid]), int(mjm.mesh_vertnum[mid])
    out["verts"] = np.array(mjm.mesh_vert[a : a + n], dtype=np.float64)
  return out
