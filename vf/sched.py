"""Harness-owned task schedule for Warp's CPU device (DESIGN.md §2.4).

Warp's CPU backend runs the tasks of a launch in ascending index order inside one generated C
loop.  `install()` replaces that loop template (in this process only, before any kernel is
built) by one that visits the tasks in the order `vf_perm(k, n, mode)`; `mode` is read from the
environment variable MJW_VERIF_SCHED at every launch:

  0 / unset  ascending (stock behaviour)
  1          descending
  >= 2       a bijective pseudo-random permutation keyed by the mode
             (multiply / xorshift / add on ceil(log2 n) bits with cycle walking)

`set_mode(k)` changes the mode between launches.  `per_launch(seed, menu)` wraps wp.launch /
wp.launch_tiled so that every launch of kernel K uses mode f(seed, K.key) - i.e. different
kernels of the same step run under different orders ("reverse only the constraint builders").

Nothing in /repo is touched.  A separate kernel cache directory is mandatory (the module hash
does not cover the template); vf.worker selects .cache/warp-sched when a property sets SCHED.
"""

from __future__ import annotations

import hashlib
import os

_ENV = "MJW_VERIF_SCHED"

_TEMPLATE = """

extern "C" {{

extern "C" char* getenv(const char*);

static inline size_t vf_perm_{name}(size_t i, size_t n, unsigned long long mode)
{{
    if (mode == 0 || n < 2) return i;
    if (mode == 1) return n - 1 - i;
    unsigned b = 1;
    while ((((size_t)1) << b) < n) ++b;
    const size_t mask = ((((size_t)1) << b) - 1);
    const unsigned long long k1 = (mode * 0x9E3779B97F4A7C15ULL) | 1ULL;
    const unsigned long long k2 = (mode * 0xC2B2AE3D27D4EB4FULL) + 0x165667B19E3779F9ULL;
    size_t x = i;
    do {{
        x = (x * (size_t)k1) & mask;
        x ^= x >> ((b + 1) / 2);
        x = (x + (size_t)k2) & mask;
        x = (x * (size_t)(k2 | 1ULL)) & mask;
        x ^= x >> ((b + 2) / 3);
    }} while (x >= n);
    return x;
}}

// Python CPU entry points
WP_API void {name}_cpu_forward(
    wp::launch_bounds_t<{launch_ndim}> *dim,
    wp_args_{name} *_wp_args)
{{
    wp::tile_shared_storage_t tile_mem;
#if defined(WP_ENABLE_TILES_IN_STACK_MEMORY)
    wp::shared_tile_storage = &tile_mem;
#endif

    unsigned long long vf_mode = 0;
    const char* vf_s = getenv("MJW_VERIF_SCHED");
    if (vf_s) {{ while (*vf_s >= '0' && *vf_s <= '9') {{ vf_mode = vf_mode * 10ULL + (unsigned long long)(*vf_s - '0'); ++vf_s; }} }}

    for (size_t vf_k = 0; vf_k < dim->size; ++vf_k)
    {{
        size_t task_index = vf_perm_{name}(vf_k, dim->size, vf_mode);
        {name}_cpu_kernel_forward(*dim, task_index, _wp_args);
    }}
}}

}} // extern C

"""

_installed = False
_orig_launch = None
_orig_launch_tiled = None


def install():
  global _installed
  if _installed:
    return
  import warp._src.codegen as cg

  assert "task_index < dim->size" in cg.cpu_module_template_forward, "unexpected Warp CPU template"
  cg.cpu_module_template_forward = _TEMPLATE
  os.environ[_ENV] = "0"
  _installed = True


def set_mode(k: int):
  os.environ[_ENV] = str(int(k))  # os.environ.__setitem__ calls putenv(), so the C side sees it


def perm(i: int, n: int, mode: int) -> int:
  """Python transcription of vf_perm (for tests of the mechanism)."""
  if mode == 0 or n < 2:
    return i
  if mode == 1:
    return n - 1 - i
  b = 1
  while (1 << b) < n:
    b += 1
  mask = (1 << b) - 1
  M = (1 << 64) - 1
  k1 = ((mode * 0x9E3779B97F4A7C15) & M) | 1
  k2 = ((mode * 0xC2B2AE3D27D4EB4F) + 0x165667B19E3779F9) & M
  x = i
  while True:
    x = (x * k1) & mask
    x ^= x >> ((b + 1) // 2)
    x = (x + k2) & mask
    x = (x * (k2 | 1)) & mask
    x ^= x >> ((b + 2) // 3)
    if x < n:
      return x


def per_launch(seed, menu=(0, 1, 2, 3, 5, 7)):
  """Every launch of kernel K runs under mode menu[h(seed, K.key)].  seed=None restores plain launches."""
  import warp as wp

  global _orig_launch, _orig_launch_tiled
  if _orig_launch is None:
    _orig_launch, _orig_launch_tiled = wp.launch, wp.launch_tiled
  if seed is None:
    wp.launch, wp.launch_tiled = _orig_launch, _orig_launch_tiled
    return

  def mode_of(kernel):
    key = getattr(kernel, "key", None) or getattr(kernel, "__name__", "k")
    h = hashlib.sha1(f"{seed}:{key}".encode()).digest()
    return menu[h[0] % len(menu)]

  def launch(kernel, *a, **kw):
    set_mode(mode_of(kernel))
    return _orig_launch(kernel, *a, **kw)

  def launch_tiled(kernel, *a, **kw):
    set_mode(mode_of(kernel))
    return _orig_launch_tiled(kernel, *a, **kw)

  wp.launch, wp.launch_tiled = launch, launch_tiled
