"""Multi-tree models shared by C28 (constraint islands) and C38 (compacted solve).

* `exhaustive_model(variant)`: the 4-tree model whose 14 switchable constraints (6 tree pairs, 4 tree-world,
  4 self) enumerate every constraint graph over 4 trees as batched worlds.
* `cluster_spec(cfg)`: gen.make_spec output re-arranged into several spatial clusters of root bodies, so that
  contacts join only some of the trees and a random model has several islands.
* `expected_islands(...)`: the union-find reference.
"""

from __future__ import annotations

import itertools

import numpy as np

from vf import gen

PAIRS = list(itertools.combinations(range(4), 2))
PAIR_KINDS = ["connect", "weld", "jointeq", "tendoneq"]
WORLD_KINDS = ["connect", "weld", "contact"]
SELF_KINDS = ["limit", "jointeq", "connect", "tendonlimit"]


def _f(v):
  return " ".join(repr(float(f"{x:.5g}")) for x in v)


def exhaustive_model(variant: int, jacobian: str, sleep: bool):
  """Returns (xml, info).  info: per-switch description used to set eq_active / qpos per world.

  Trees: three `free root + hinge child` trees and one two-link hinge chain, the chain's position in the tree order and the
  kind of every switchable constraint are chosen by `variant`.  All geometry is generic (random axes/anchors) so that a
  constraint's Jacobian is non-zero on every tree it touches.
  """
  g = np.random.default_rng(1000 + int(variant))
  chain_at = int(variant) % 4
  # every variant carries all four pair kinds, all four self kinds and the world kinds, rotated over the trees by `variant`
  v = int(variant)
  pair_kind = [PAIR_KINDS[(k + v) % 4] for k in range(len(PAIRS))]
  world_kind = [WORLD_KINDS[(t + v) % 3] for t in range(4)]
  self_kind = [SELF_KINDS[(t + v // 2) % 4] for t in range(4)]
  if world_kind[chain_at] == "contact":  # the chain has no free joint: no switchable plane contact
    world_kind[chain_at] = WORLD_KINDS[v % 2]

  def unit():
    v = g.normal(size=3)
    return v / np.linalg.norm(v)

  def quat():
    q = g.normal(size=4)
    return q / np.linalg.norm(q)

  bodies = []
  hinge = {}  # tree -> name of its limited hinge (second body)
  hinge0 = {}  # tree -> another scalar joint of the tree (chain: first hinge; free trees: the child hinge as well)
  root = {}
  child = {}
  for t in range(4):
    p = [1.5 * t + g.uniform(-0.2, 0.2), g.uniform(-0.2, 0.2), 1.0 + g.uniform(-0.2, 0.2)]
    cpos = g.uniform(0.1, 0.3, size=3) * np.sign(g.normal(size=3))
    if t == chain_at:
      bodies.append(
        f'<body name="r{t}" pos="{_f(p)}" quat="{_f(quat())}"><joint name="h{t}a" type="hinge" axis="{_f(unit())}" pos="{_f(g.uniform(-.1, .1, size=3))}"/>'
        f'<geom size="0.05" pos="{_f(g.uniform(-.1, .1, size=3))}"/><site name="sr{t}" pos="{_f(g.uniform(-.1, .1, size=3))}"/>'
        f'<body name="c{t}" pos="{_f(cpos)}" quat="{_f(quat())}"><joint name="h{t}" type="hinge" axis="{_f(unit())}" pos="{_f(g.uniform(-.1, .1, size=3))}" range="-0.5 0.5"/>'
        f'<geom size="0.04" pos="{_f(g.uniform(-.1, .1, size=3))}"/><site name="sc{t}" pos="{_f(g.uniform(-.1, .1, size=3))}"/></body></body>'
      )
      hinge0[t] = f"h{t}a"
    else:
      bodies.append(
        f'<body name="r{t}" pos="{_f(p)}" quat="{_f(quat())}"><freejoint name="f{t}"/>'
        f'<geom name="ball{t}" size="0.05" conaffinity="{1 if world_kind[t] == "contact" else 0}"/><site name="sr{t}" pos="{_f(g.uniform(-.1, .1, size=3))}"/>'
        f'<body name="c{t}" pos="{_f(cpos)}" quat="{_f(quat())}"><joint name="h{t}" type="hinge" axis="{_f(unit())}" pos="{_f(g.uniform(-.1, .1, size=3))}" range="-0.5 0.5"/>'
        f'<geom size="0.04" pos="{_f(g.uniform(-.1, .1, size=3))}"/><site name="sc{t}" pos="{_f(g.uniform(-.1, .1, size=3))}"/></body></body>'
      )
      hinge0[t] = f"h{t}"
    hinge[t] = f"h{t}"
    root[t] = f"r{t}"
    child[t] = f"c{t}"

  tendons = []
  eqs = []  # (xml, switch index)
  switches = []  # per switch: dict(kind=..., via='eq'|'qpos', ...)

  def add_eq(xml, sw):
    eqs.append(xml)
    switches[sw]["eq"] = len(eqs) - 1

  # pair switches
  for k, (a, b) in enumerate(PAIRS):
    kind = pair_kind[k]
    switches.append(dict(role="pair", trees=[a, b], kind=kind, via="eq"))
    ba = root[a] if g.uniform() < 0.5 else child[a]
    bb = root[b] if g.uniform() < 0.5 else child[b]
    if g.uniform() < 0.5:
      ba, bb = bb, ba
    if kind == "connect":
      add_eq(f'<connect body1="{ba}" body2="{bb}" anchor="{_f(g.uniform(-.2, .2, size=3))}"/>', k)
    elif kind == "weld":
      sa = "s" + ba
      sb = "s" + bb
      add_eq(f'<weld site1="{sa}" site2="{sb}"/>', k)
    elif kind == "jointeq":
      j1, j2 = (hinge[a], hinge0[b]) if g.uniform() < 0.5 else (hinge0[b], hinge[a])
      add_eq(f'<joint joint1="{j1}" joint2="{j2}" polycoef="0.1 {g.uniform(0.5, 2):.4g} 0 0 0"/>', k)
    else:
      tn = f"tp{k}"
      tendons.append(f'<fixed name="{tn}"><joint joint="{hinge[a]}" coef="{g.uniform(0.5, 2):.4g}"/><joint joint="{hinge[b]}" coef="{-g.uniform(0.5, 2):.4g}"/></fixed>')
      add_eq(f'<tendon tendon1="{tn}" polycoef="0.05 1 0 0 0"/>', k)
  # world switches
  for t in range(4):
    kind = world_kind[t]
    sw = len(switches)
    if kind == "contact":
      switches.append(dict(role="world", trees=[t], kind=kind, via="z", joint=f"f{t}"))
    else:
      switches.append(dict(role="world", trees=[t], kind=kind, via="eq"))
      b1 = root[t] if g.uniform() < 0.5 else child[t]
      if kind == "connect":
        add_eq(f'<connect body1="{b1}" body2="world" anchor="{_f(g.uniform(-.2, .2, size=3))}"/>' if g.uniform() < 0.5 else f'<connect body1="world" body2="{b1}" anchor="{_f(g.uniform(-.2, .2, size=3))}"/>', sw)
      else:
        add_eq(f'<weld body1="{b1}" body2="anchor"/>' if g.uniform() < 0.5 else f'<weld body1="{b1}"/>', sw)
  # self switches
  for t in range(4):
    kind = self_kind[t]
    sw = len(switches)
    if kind == "limit":
      switches.append(dict(role="self", trees=[t], kind=kind, via="hinge", joint=hinge[t]))
    elif kind == "tendonlimit":
      tn = f"ts{t}"
      tendons.append(f'<fixed name="{tn}" range="-10 0.25"><joint joint="{hinge[t]}" coef="0.5"/></fixed>')
      switches.append(dict(role="self", trees=[t], kind=kind, via="hinge", joint=hinge[t]))
    elif kind == "jointeq":
      switches.append(dict(role="self", trees=[t], kind=kind, via="eq"))
      add_eq(f'<joint joint1="{hinge[t]}" polycoef="0.2 0 0 0 0"/>', sw)
    else:
      switches.append(dict(role="self", trees=[t], kind=kind, via="eq"))
      add_eq(f'<connect body1="{root[t]}" body2="{child[t]}" anchor="{_f(g.uniform(-.2, .2, size=3))}"/>', sw)

  flags = '<flag sleep="enable"/>' if sleep else ""
  xml = (
    f'<mujoco><option jacobian="{jacobian}" solver="Newton" iterations="3" ls_iterations="4">{flags}</option><compiler angle="radian"/>'
    '<default><geom contype="0" conaffinity="0"/></default><worldbody>'
    '<geom name="floor" type="plane" size="0 0 0.1" contype="1" conaffinity="0"/>'
    '<body name="anchor" pos="0 0 2"><geom size="0.02"/></body>'
    + "".join(bodies)
    + "</worldbody>"
    + ("<tendon>" + "".join(tendons) + "</tendon>" if tendons else "")
    + "<equality>" + "".join(eqs) + "</equality></mujoco>"
  )
  # a limited hinge can carry the tree's self "limit" and self "tendonlimit" only once; make sure the unused limits stay inactive:
  # hinge value 0 is inside [-0.5, 0.5] and below the tendon's 0.25/0.5 = 0.5 -> inactive; value 0.9 activates both kinds
  return xml, dict(switches=switches, neq=len(eqs), chain_at=chain_at, pair_kind=pair_kind, world_kind=world_kind, self_kind=self_kind)


def exhaustive_states(mjm, info, bits_list, seed):
  """qpos (nworld, nq) and eq_active (nworld, neq) realising the given 14-bit switch words."""
  import mujoco

  n = len(bits_list)
  g = np.random.default_rng(int(seed))
  qpos = np.tile(np.array(mjm.qpos0, dtype=np.float64), (n, 1))
  eq_active = np.zeros((n, mjm.neq), dtype=bool)
  # small generic perturbation of every hinge that is not a switch (keeps Jacobians generic, limits inactive)
  for w, bits in enumerate(bits_list):
    for j in range(mjm.njnt):
      if mjm.jnt_type[j] == mujoco.mjtJoint.mjJNT_HINGE:
        qpos[w, mjm.jnt_qposadr[j]] = g.uniform(-0.3, 0.3)
    for k, sw in enumerate(info["switches"]):
      on = bool((bits >> k) & 1)
      if sw["via"] == "eq":
        eq_active[w, sw["eq"]] = on
      elif sw["via"] == "hinge":
        j = mujoco.mj_name2id(mjm, mujoco.mjtObj.mjOBJ_JOINT, sw["joint"])
        qpos[w, mjm.jnt_qposadr[j]] = g.uniform(0.7, 1.1) if on else g.uniform(-0.3, 0.3)
      else:  # plane contact of the root ball: height
        j = mujoco.mj_name2id(mjm, mujoco.mjtObj.mjOBJ_JOINT, sw["joint"])
        qpos[w, mjm.jnt_qposadr[j] + 2] = g.uniform(0.01, 0.04) if on else g.uniform(0.6, 1.2)
  return qpos.astype(np.float32).astype(np.float64), eq_active


# --------------------------------------------------------------------------------------
# random multi-tree models


def cluster_spec(cfg, nclusters, spread=1.2):
  """gen.make_spec(cfg) with the root bodies re-positioned into `nclusters` piles `spread` apart (contacts only inside a pile)."""
  spec = gen.make_spec(cfg)
  r = gen.R([int(cfg["seed"]), 0xC28])
  roots = [b for b in spec["bodies"] if b["parent"] == -1]
  for b in roots:
    c = r.i(0, max(nclusters, 1) - 1)
    b["pos"] = [gen.r6(c * spread + r.u(-0.22, 0.22)), gen.r6(r.u(-0.22, 0.22)), r.u(0.05, 0.4)]
  for k, g in enumerate(spec["world_geoms"]):
    if g["type"] != "plane":
      c = r.i(0, max(nclusters, 1) - 1)
      g["pos"] = [gen.r6(c * spread + r.u(-0.3, 0.3)), gen.r6(r.u(-0.3, 0.3)), r.u(0.0, 0.25)]
  return spec


# --------------------------------------------------------------------------------------
# reference


class UF:
  def __init__(self, n):
    self.p = list(range(n))

  def find(self, a):
    while self.p[a] != a:
      self.p[a] = self.p[self.p[a]]
      a = self.p[a]
    return a

  def union(self, a, b):
    a, b = self.find(a), self.find(b)
    if a != b:
      self.p[max(a, b)] = min(a, b)


def expected_islands(ntree, row_trees):
  """row_trees: list (one per constraint row) of iterables of tree ids the row touches.

  Returns (tree_island array with -1 for untouched trees, nisland): connected components of the graph whose edges are the
  rows, islands numbered by their smallest tree.
  """
  uf = UF(ntree)
  touched = [False] * ntree
  for ts in row_trees:
    ts = [int(t) for t in ts]
    for t in ts:
      touched[t] = True
    for t in ts[1:]:
      uf.union(ts[0], t)
  label = {}
  out = np.full(ntree, -1, dtype=int)
  for t in range(ntree):
    if not touched[t]:
      continue
    root = uf.find(t)
    if root not in label:
      label[root] = len(label)
    out[t] = label[root]
  return out, len(label)
