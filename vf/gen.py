"""Model generator: cfg (drawn by Hypothesis) + seed -> explicit spec (JSON) -> MJCF XML.

The *spec* is the replay unit: it is fully explicit, so a replay file does not depend on
this generator staying unchanged.  All numeric values are rounded to 6 significant decimals
so that JSON round-trips exactly.
"""

from __future__ import annotations

import math

import numpy as np
from hypothesis import strategies as st


def r6(x):
  if isinstance(x, (list, tuple, np.ndarray)):
    return [r6(v) for v in x]
  return float(f"{float(x):.6g}")


class R:
  """Thin wrapper over a numpy Generator with helpers returning JSON-able values."""

  def __init__(self, seed):
    self.g = np.random.default_rng(seed if isinstance(seed, (list, tuple)) else int(seed))

  def u(self, lo, hi):
    return r6(self.g.uniform(lo, hi))

  def lu(self, lo, hi):
    return r6(math.exp(self.g.uniform(math.log(lo), math.log(hi))))

  def vec(self, n, lo, hi):
    return r6(self.g.uniform(lo, hi, size=n))

  def i(self, lo, hi):
    """Integer in [lo, hi]."""
    return int(self.g.integers(lo, hi + 1))

  def p(self, prob):
    return bool(self.g.uniform() < prob)

  def ch(self, seq):
    return seq[int(self.g.integers(0, len(seq)))]

  def quat(self, unnorm=False):
    q = self.g.normal(size=4)
    q /= np.linalg.norm(q)
    if unnorm:
      q *= math.exp(self.g.uniform(math.log(0.2), math.log(5.0)))
    return r6(q)

  def unit(self):
    v = self.g.normal(size=3)
    return r6(v / np.linalg.norm(v))


# --------------------------------------------------------------------------------------
# cfg strategy

DEFAULT_CFG = dict(
  nroot=2,  # number of root bodies
  maxdepth=2,
  maxchild=2,
  joint_menu=["free", "ball", "hinge", "slide"],
  p_multi_joint=0.2,
  p_weld=0.1,  # jointless child body
  mocap=0,  # number of mocap bodies
  geom_menu=["sphere", "capsule", "box"],
  geoms_per_body=(1, 2),
  plane=False,
  sites=0.5,  # prob of a site on a body
  cameras=0,
  lights=0,
  tendons=0,
  spatial_tendons=0,
  equalities=0,
  actuators=0,
  act_menu=["motor", "position", "velocity"],
  dynamics=False,  # armature/damping/stiffness/frictionloss etc
  limits=0.0,  # prob of joint limit
  frictionloss=0.0,
  fluid=False,
  gravcomp=False,
  contacts="none",  # none | pile
  condim_menu=[3],
  margin=False,
  geom_adhesion=False,  # passive contact adhesion (geom/pair `adhesion` attribute)
  aniso_pairs=0.0,  # probability per moving geom of an explicit (plane, geom) pair with strongly anisotropic tangential friction (post-pass, own stream)
  multi_pulley=0.0,  # probability of one extra spatial tendon with 2-4 branches separated by pulleys (post-pass, own random stream)
  nkey=0,
  nuserdata=0,
  unnorm=False,
  scale=0.3,  # typical body offset
)


def cfg_strategy(**over):
  """Hypothesis strategy for a cfg dict.  Values in `over` may be strategies or constants."""
  base = dict(DEFAULT_CFG)
  fixed = {}
  strat = {}
  for k, v in over.items():
    if isinstance(v, st.SearchStrategy):
      strat[k] = v
    else:
      fixed[k] = v
  base.update(fixed)
  return st.fixed_dictionaries(dict({k: st.just(v) for k, v in base.items()}, **strat, seed=st.integers(0, 2**31 - 1)))


# --------------------------------------------------------------------------------------
# spec construction


def _geom(r: R, cfg, name, moving=True):
  t = r.ch(cfg["geom_menu"])
  s = cfg["scale"]
  g = dict(name=name, type=t)
  if t == "sphere":
    g["size"] = [r.u(0.05, 0.15)]
  elif t in ("capsule", "cylinder"):
    g["size"] = [r.u(0.03, 0.1), r.u(0.05, 0.2)]
  elif t in ("box", "ellipsoid"):
    g["size"] = r.vec(3, 0.04, 0.15)
  elif t == "mesh":
    g["mesh"] = r.ch(["tetra", "cube", "octa"])
  g["pos"] = r.vec(3, -0.3 * s, 0.3 * s)
  g["quat"] = r.quat(cfg["unnorm"])
  cd = r.ch(cfg["condim_menu"])
  if cd != 3:
    g["condim"] = cd
  if cfg.get("geom_params"):
    g["friction"] = [r.u(0.2, 1.5), r.lu(1e-3, 0.1), r.lu(1e-4, 0.01)]
    if r.p(0.3):
      g["priority"] = r.i(0, 2)
    if r.p(0.5):
      g["solmix"] = r.u(0.1, 3.0)
    if r.p(0.5):
      if r.p(0.7):
        g["solref"] = [r.u(0.005, 0.05), r.u(0.3, 1.5)]
      else:
        g["solref"] = [-r.u(100, 2000), -r.u(1, 50)]
    if r.p(0.5):
      g["solimp"] = [r.u(0.5, 0.9), r.u(0.9, 0.99), r.lu(1e-4, 1e-2), r.u(0.2, 0.8), r.u(1, 3)]
  if cfg["margin"] and r.p(0.6):
    g["margin"] = r.u(0.0, 0.05)
    if r.p(0.5):
      g["gap"] = r.u(0.0, g["margin"])
  if cfg.get("masks") and r.p(0.7):
    g["contype"] = r.i(0, 7)
    g["conaffinity"] = r.i(0, 7)
  if cfg["fluid"] and t in ("ellipsoid", "box", "sphere", "capsule", "cylinder") and r.p(0.5):
    g["fluidshape"] = "ellipsoid"
    if r.p(0.5):
      g["fluidcoef"] = r.vec(5, 0.1, 2.0)
  if r.p(0.3):
    g["density"] = r.lu(200, 3000)
  if cfg.get("groups") and r.p(0.6):
    g["group"] = r.i(0, 5)
  return g


def _joint(r: R, cfg, name, jt):
  j = dict(name=name, type=jt)
  if jt == "free":
    if cfg["dynamics"] and r.p(0.3):
      j["damping"] = r.u(0.0, 0.5)
    if cfg.get("free_stiffness") and r.p(0.6):
      # opt-in (own draws only when enabled, so other properties' cases are unchanged): spring on a free joint, optionally polynomial
      j["stiffness"] = r.u(1.0, 30.0)
      if cfg.get("poly") and r.p(0.6):
        j["stiffnesspoly"] = [r.u(0, 30.0), r.u(0, 40.0)]
    return j
  if jt != "ball":
    j["axis"] = r.unit()
  j["pos"] = r.vec(3, -0.1, 0.1)
  if cfg["dynamics"]:
    if r.p(0.5):
      j["armature"] = r.u(0.0, 0.2)
    if r.p(0.5):
      j["damping"] = r.u(0.0, 1.0)
      if cfg.get("poly") and r.p(0.4):
        j["dampingpoly"] = [r.u(0, 0.5), r.u(0, 0.2)]
    if r.p(0.5):
      j["stiffness"] = r.u(0.0, 20.0)
      if jt != "ball" and r.p(0.5):
        j["springref"] = r.u(-0.5, 0.5)
      if cfg.get("poly") and r.p(0.4):
        j["stiffnesspoly"] = [r.u(0, 5.0), r.u(0, 2.0)]
  if r.p(cfg["frictionloss"]):
    j["frictionloss"] = r.u(0.05, 1.0)
  if r.p(cfg["limits"]):
    if jt == "ball":
      j["range"] = [0, r.u(0.1, 1.5)]
    else:
      lo = r.u(-1.0, 0.2)
      j["range"] = [lo, r6(lo + r.u(0.05, 1.5))]
    if cfg["margin"] and r.p(0.4):
      j["margin"] = r.u(0, 0.1)
    if r.p(0.3):
      j["solreflimit"] = [r.u(0.005, 0.05), r.u(0.3, 1.5)]
  if cfg.get("actfrcrange") and jt != "ball" and r.p(0.4):
    a = r.u(0.1, 3.0)
    j["actuatorfrcrange"] = [-a, r.u(0.1, 3.0)]
  if cfg["gravcomp"] and jt != "ball" and r.p(0.5):
    j["actuatorgravcomp"] = True
  return j


def make_spec(cfg) -> dict:
  """Deterministically expands cfg (+ cfg['seed']) into an explicit model spec."""
  r = R(cfg["seed"])
  ctr = dict(b=0, j=0, g=0, s=0, c=0, l=0)
  bodies = []  # flat list, each has 'parent' index (-1 world)
  s = cfg["scale"]

  def new_body(parent, depth, root_index=None):
    bi = ctr["b"]
    ctr["b"] += 1
    b = dict(name=f"b{bi}", parent=parent, joints=[], geoms=[], sites=[], cameras=[], lights=[])
    if parent == -1:
      if cfg["contacts"] == "pile":
        b["pos"] = [r.u(-0.25, 0.25), r.u(-0.25, 0.25), r.u(0.05, 0.35)]
      else:
        b["pos"] = [r.u(-1, 1) * s * 3, r.u(-1, 1) * s * 3, r.u(0.1, 1.0)]
    else:
      b["pos"] = r.vec(3, -s, s)
    b["quat"] = r.quat(cfg["unnorm"])
    # joints
    if parent == -1:
      menu = cfg["joint_menu"]
    else:
      menu = [j for j in cfg["joint_menu"] if j != "free"]
    welded = (parent != -1 and r.p(cfg["p_weld"])) or not menu
    if cfg.get("static_roots") and parent == -1 and r.p(cfg["static_roots"]):
      welded = True
    if not welded:
      jt = r.ch(menu)
      b["joints"].append(_joint(r, cfg, f"j{ctr['j']}", jt))
      ctr["j"] += 1
      if jt in ("hinge", "slide") and r.p(cfg["p_multi_joint"]):
        for _ in range(r.i(1, 2)):
          b["joints"].append(_joint(r, cfg, f"j{ctr['j']}", r.ch(["hinge", "slide"])))
          ctr["j"] += 1
    # geoms
    ng = r.i(*cfg["geoms_per_body"])
    for _ in range(ng):
      b["geoms"].append(_geom(r, cfg, f"g{ctr['g']}"))
      ctr["g"] += 1
    if ng == 0:
      b["inertial"] = dict(
        pos=r.vec(3, -0.05, 0.05), quat=r.quat(cfg["unnorm"]), mass=r.lu(0.1, 5.0), diaginertia=_diaginertia(r)
      )
    elif cfg.get("inertial") and r.p(0.3):
      b["inertial"] = dict(
        pos=r.vec(3, -0.05, 0.05), quat=r.quat(cfg["unnorm"]), mass=r.lu(0.1, 5.0), diaginertia=_diaginertia(r)
      )
    if r.p(cfg["sites"]):
      b["sites"].append(dict(name=f"s{ctr['s']}", pos=r.vec(3, -0.1, 0.1), quat=r.quat(cfg["unnorm"])))
      ctr["s"] += 1
    if cfg["gravcomp"] and r.p(0.5):
      b["gravcomp"] = r.u(0.0, 1.5)
    if cfg.get("sleep_policy") and parent == -1 and r.p(0.5):
      b["sleep"] = r.ch(cfg["sleep_policy"])
    bodies.append(b)
    idx = len(bodies) - 1
    if depth < cfg["maxdepth"]:
      for _ in range(r.i(0, cfg["maxchild"])):
        new_body(idx, depth + 1)
    return idx

  for k in range(cfg["nroot"]):
    new_body(-1, 0)

  # forced chains (tree-size menu): list of (kind, n)
  for kind, n in cfg.get("chains", []):
    parent = -1
    for k in range(n):
      bi = ctr["b"]
      ctr["b"] += 1
      b = dict(name=f"b{bi}", parent=parent, joints=[], geoms=[], sites=[], cameras=[], lights=[])
      b["pos"] = [r.u(-2, 2), r.u(-2, 2), r.u(0.5, 2)] if parent == -1 else r.vec(3, -0.1, 0.1)
      b["quat"] = r.quat()
      jt = "slide" if kind == "slide" else ("hinge" if kind == "hinge" else r.ch(["hinge", "slide"]))
      j = _joint(r, cfg, f"j{ctr['j']}", jt)
      ctr["j"] += 1
      b["joints"].append(j)
      b["inertial"] = dict(pos=r.vec(3, -0.05, 0.05), quat=r.quat(), mass=r.lu(0.2, 2.0), diaginertia=_diaginertia(r))
      bodies.append(b)
      idx = len(bodies) - 1
      if kind == "star":
        parent = -1 if k == 0 else (idx if r.p(0.5) else parent)
        if k == 0:
          parent = idx
      else:
        parent = idx

  # mocap bodies
  for k in range(cfg["mocap"]):
    bi = ctr["b"]
    ctr["b"] += 1
    b = dict(name=f"b{bi}", parent=-1, mocap=True, joints=[], geoms=[], sites=[], cameras=[], lights=[])
    b["pos"] = r.vec(3, -0.5, 0.5)
    b["quat"] = r.quat(cfg["unnorm"])
    g = _geom(r, cfg, f"g{ctr['g']}")
    ctr["g"] += 1
    b["geoms"].append(g)
    b["sites"].append(dict(name=f"s{ctr['s']}", pos=r.vec(3, -0.1, 0.1), quat=r.quat()))
    ctr["s"] += 1
    bodies.append(b)

  nb = len(bodies)
  bnames = [b["name"] for b in bodies]
  # cameras / lights
  modes = ["fixed", "track", "trackcom", "targetbody", "targetbodycom"]
  for k in range(cfg["cameras"]):
    b = bodies[r.i(0, nb - 1)]
    c = dict(name=f"c{ctr['c']}", pos=r.vec(3, -0.3, 0.3), quat=r.quat(cfg["unnorm"]), mode=r.ch(modes))
    if c["mode"].startswith("target"):
      c["target"] = r.ch([n for n in bnames if n != b["name"]] or bnames)
      if c["target"] == b["name"]:
        c["mode"] = "fixed"
        del c["target"]
    ctr["c"] += 1
    b["cameras"].append(c)
  if cfg.get("cam_vertical") and r.p(cfg["cam_vertical"]):
    # opt-in (own draws only when enabled): a target-mode camera EXACTLY above or below its target, where cross(z, view axis) vanishes and MuJoCo's
    # mju_normalize3 falls back to the x axis.  Exact in float32 and float64 by construction: dyadic x,y, identity orientations, unit mass, motion along z only.
    xy = [r.i(-4, 4) / 8.0, r.i(-4, 4) / 8.0]
    zt = r.i(1, 6) / 8.0
    tv = dict(name="btv", parent=-1, pos=[xy[0], xy[1], zt], quat=[1.0, 0.0, 0.0, 0.0], joints=[], geoms=[], sites=[], cameras=[], lights=[])
    tv["inertial"] = dict(pos=[0.0, 0.0, 0.0], quat=[1.0, 0.0, 0.0, 0.0], mass=1.0, diaginertia=[0.1, 0.1, 0.1])
    if r.p(0.7):
      tv["joints"].append(dict(name="jtv", type="slide", axis=[0.0, 0.0, 1.0], pos=[0.0, 0.0, 0.0]))
    cv = dict(name="bcv", parent=-1, pos=[xy[0], xy[1], zt + r.ch([-1.0, 1.0]) * r.i(2, 5) * 2.0], quat=[1.0, 0.0, 0.0, 0.0], joints=[], geoms=[], sites=[], cameras=[], lights=[])
    cv["cameras"].append(dict(name="ctv", pos=[0.0, 0.0, 0.0], quat=[1.0, 0.0, 0.0, 0.0], mode=r.ch(["targetbody", "targetbodycom"]), target="btv"))
    bodies.append(tv)
    bodies.append(cv)
  for k in range(cfg["lights"]):
    b = bodies[r.i(0, nb - 1)]
    l = dict(name=f"l{ctr['l']}", pos=r.vec(3, -0.3, 0.3), dir=r.unit(), mode=r.ch(modes))
    if l["mode"].startswith("target"):
      l["target"] = r.ch([n for n in bnames if n != b["name"]] or bnames)
      if l["target"] == b["name"]:
        l["mode"] = "fixed"
        del l["target"]
    ctr["l"] += 1
    b["lights"].append(l)

  spec = dict(bodies=bodies, world_geoms=[], tendons=[], equalities=[], actuators=[], sensors=[], pairs=[], excludes=[])
  if cfg["plane"]:
    pg = dict(name=f"g{ctr['g']}", type="plane", size=[0, 0, 0.1])
    ctr["g"] += 1
    if cfg.get("geom_params"):
      pg["friction"] = [r.u(0.2, 1.5), r.lu(1e-3, 0.1), r.lu(1e-4, 0.01)]
    cd = r.ch(cfg["condim_menu"])
    if cd != 3:
      pg["condim"] = cd
    if cfg["margin"] and r.p(0.5):
      pg["margin"] = r.u(0, 0.03)
    spec["world_geoms"].append(pg)
  for k in range(cfg.get("world_geoms", 0)):
    g = _geom(r, cfg, f"g{ctr['g']}")
    ctr["g"] += 1
    g["pos"] = [r.u(-0.4, 0.4), r.u(-0.4, 0.4), r.u(0.0, 0.3)]
    spec["world_geoms"].append(g)

  joints = [(b["name"], j) for b in bodies for j in b["joints"]]
  scalar_joints = [j["name"] for _, j in joints if j["type"] in ("hinge", "slide")]
  sites = [s_["name"] for b in bodies for s_ in b["sites"]]
  site_body = {s_["name"]: b["name"] for b in bodies for s_ in b["sites"]}
  geoms_wrap = [(g["name"], g["type"], b["name"]) for b in bodies for g in b["geoms"] if g["type"] in ("sphere", "cylinder")]

  # tendons
  for k in range(cfg["tendons"]):
    if not scalar_joints:
      break
    n = min(len(scalar_joints), r.i(1, 3))
    js = list(r.g.choice(scalar_joints, size=n, replace=False))
    t = dict(name=f"t{len(spec['tendons'])}", kind="fixed", joints=[[str(j), r.u(-2, 2)] for j in js])
    _tendon_params(r, cfg, t)
    spec["tendons"].append(t)
  for k in range(cfg["spatial_tendons"]):
    if len(sites) < 2:
      break
    n = min(len(sites), r.i(2, 4))
    ss = [str(x) for x in r.g.choice(sites, size=n, replace=False)]
    path = [["site", ss[0]]]
    for s_ in ss[1:]:
      if cfg.get("wrap") and geoms_wrap and r.p(0.4):
        gname, gtype, gbody = r.ch(geoms_wrap)
        path.append(["geom", gname])
      elif cfg.get("pulley") and r.p(0.2) and len(path) >= 2 and path[-1][0] == "site":
        path.append(["pulley", r.u(0.5, 3)])
        path.append(["site", s_])
        continue
      path.append(["site", s_])
    # a pulley must be followed by >=2 sites before another geom; keep it simple: validate
    t = dict(name=f"t{len(spec['tendons'])}", kind="spatial", path=path)
    _tendon_params(r, cfg, t)
    spec["tendons"].append(t)

  # equalities
  eq_kinds = cfg.get("eq_menu", ["connect", "weld", "joint", "tendon"])
  for k in range(cfg["equalities"]):
    kind = r.ch(eq_kinds)
    e = dict(kind=kind, active=not r.p(cfg.get("p_eq_inactive", 0.2)))
    if kind in ("connect", "weld"):
      if cfg.get("eq_sites") and len(sites) >= 2 and r.p(0.4):
        a, b_ = [str(x) for x in r.g.choice(sites, size=2, replace=False)]
        if site_body[a] == site_body[b_]:
          continue
        e.update(site1=a, site2=b_)
      else:
        movable = [b["name"] for b in bodies if not b.get("mocap")]
        if not movable:
          continue
        a = r.ch(movable)
        others = [n for n in bnames if n != a] + ["world"]
        b_ = r.ch(others)
        e.update(body1=a, body2=b_)
        if kind == "connect":
          e["anchor"] = r.vec(3, -0.1, 0.1)
        else:
          if r.p(0.5):
            e["anchor"] = r.vec(3, -0.1, 0.1)
          if r.p(0.5):
            e["relpose"] = r.vec(3, -0.2, 0.2) + r.quat()
          if r.p(0.5):
            e["torquescale"] = r.u(0.2, 3)
    elif kind == "joint":
      if not scalar_joints:
        continue
      a = r.ch(scalar_joints)
      e["joint1"] = a
      if r.p(0.7) and len(scalar_joints) > 1:
        e["joint2"] = r.ch([j for j in scalar_joints if j != a])
      e["polycoef"] = [r.u(-0.2, 0.2), r.u(-2, 2), r.u(-0.5, 0.5), r.u(-0.2, 0.2), 0]
    elif kind == "tendon":
      if not spec["tendons"]:
        continue
      tn = [t["name"] for t in spec["tendons"]]
      a = r.ch(tn)
      e["tendon1"] = a
      if r.p(0.6) and len(tn) > 1:
        e["tendon2"] = r.ch([t for t in tn if t != a])
      e["polycoef"] = [r.u(-0.2, 0.2), r.u(-2, 2), r.u(-0.5, 0.5), 0, 0]
    if r.p(0.4):
      e["solref"] = [r.u(0.005, 0.05), r.u(0.3, 1.5)]
    e["name"] = f"e{len(spec['equalities'])}"
    spec["equalities"].append(e)

  # actuators
  for k in range(cfg["actuators"]):
    a = _actuator(r, cfg, f"a{len(spec['actuators'])}", joints, spec["tendons"], sites, site_body, bnames, bodies)
    if a is not None:
      spec["actuators"].append(a)

  # pairs / excludes
  allgeoms = [(g["name"], b["name"]) for b in bodies for g in b["geoms"]] + [(g["name"], "world") for g in spec["world_geoms"]]
  for k in range(cfg.get("pairs", 0)):
    if len(allgeoms) < 2:
      break
    i1, i2 = r.g.choice(len(allgeoms), size=2, replace=False)
    p = dict(geom1=allgeoms[i1][0], geom2=allgeoms[i2][0])
    if any({q["geom1"], q["geom2"]} == {p["geom1"], p["geom2"]} for q in spec["pairs"]):
      continue
    if r.p(0.7):
      p["condim"] = r.ch([1, 3, 4, 6])
    if r.p(0.5):
      p["friction"] = [r.u(0.2, 1.5), r.u(0.2, 1.5), r.lu(1e-3, 0.1), r.lu(1e-4, 0.01), r.lu(1e-4, 0.01)]
    if r.p(0.5):
      p["solref"] = [r.u(0.005, 0.05), r.u(0.3, 1.5)]
    if r.p(0.3):
      p["solreffriction"] = [r.u(0.005, 0.05), r.u(0.3, 1.5)]
    if r.p(0.5):
      p["margin"] = r.u(0, 0.05)
      p["gap"] = r.u(0, p["margin"])
    spec["pairs"].append(p)
  for k in range(cfg.get("excludes", 0)):
    if nb < 2:
      break
    i1, i2 = r.g.choice(nb, size=2, replace=False)
    spec["excludes"].append(dict(body1=bnames[i1], body2=bnames[i2]))

  # keyframes are filled in after compile (sizes unknown here): just a count + seed
  spec["nkey"] = cfg["nkey"]
  spec["nuserdata"] = cfg["nuserdata"]
  spec["meshes"] = sorted({g["mesh"] for b in bodies for g in b["geoms"] if g.get("mesh")} | {g["mesh"] for g in spec["world_geoms"] if g.get("mesh")})
  spec["option"] = dict(cfg.get("option", {}))
  if cfg["fluid"]:
    spec["option"].setdefault("wind", r.vec(3, -2, 2))
    spec["option"].setdefault("density", r.u(0.5, 50))
    spec["option"].setdefault("viscosity", r.u(0.0, 0.5))
  if cfg.get("aniso_pairs"):
    # post-pass with its own stream: explicit pairs between the ground plane and moving geoms whose two tangential friction coefficients differ by 3-6x
    # (geom-derived contacts always have friction[0] == friction[1]; only <pair friction="a b ..."> makes the elliptic cone anisotropic)
    rq = R([int(cfg["seed"]), 0xA150])
    planes = [g["name"] for g in spec["world_geoms"] if g["type"] == "plane"]
    if planes:
      for b in bodies:
        for g in b["geoms"]:
          if g.get("contype", 1) == 0 or not rq.p(float(cfg["aniso_pairs"])):
            continue
          if any({q["geom1"], q["geom2"]} == {planes[0], g["name"]} for q in spec["pairs"]):
            continue
          hi = rq.u(0.6, 1.5)
          lo = hi / rq.u(3.0, 6.0)
          fr = [hi, lo] if rq.p(0.5) else [lo, hi]
          spec["pairs"].append(dict(geom1=planes[0], geom2=g["name"], condim=rq.ch([3, 3, 4, 6]), friction=fr + [rq.lu(1e-3, 0.1), rq.lu(1e-4, 0.01), rq.lu(1e-4, 0.01)]))
  if cfg.get("multi_pulley") and len(sites) >= 2:
    # post-pass with its own stream: a spatial tendon with several pulleys (each branch is divided by the divisor of the LAST pulley before it,
    # divisors do not compound), optionally starting with a pulley, optionally wrapping a geom inside a branch
    rp = R([int(cfg["seed"]), 0x9A11])
    if rp.p(float(cfg["multi_pulley"])):
      path = []
      nbranch = rp.i(2, 4)
      lead = rp.p(0.3)
      for bi in range(nbranch):
        if bi > 0 or lead:
          path.append(["pulley", rp.ch([2.0, 2.0, 3.0, 0.5, rp.u(0.5, 3)])])
        ns = rp.i(2, 3)
        prev = None
        for si in range(ns):
          cand = [x for x in sites if x != prev]
          sname = str(rp.ch(cand))
          if si > 0 and cfg.get("wrap") and geoms_wrap and rp.p(0.25):
            path.append(["geom", rp.ch(geoms_wrap)[0]])
          path.append(["site", sname])
          prev = sname
      t = dict(name=f"t{len(spec['tendons'])}", kind="spatial", path=path)
      _tendon_params(rp, cfg, t)
      spec["tendons"].append(t)
  if cfg.get("geom_adhesion"):
    # post-pass with its own stream, so that the rest of the spec is the same with and without adhesion
    ra = R([int(cfg["seed"]), 0xAD])
    for g in [g for b in bodies for g in b["geoms"]] + spec["world_geoms"]:
      if ra.p(0.6):
        g["adhesion"] = ra.lu(0.1, 30.0)
    for p in spec["pairs"]:
      if ra.p(0.6):
        p["adhesion"] = ra.lu(0.1, 30.0)
  return spec


def _diaginertia(r):
  a, b, c = sorted(r.vec(3, 0.002, 0.05))
  # triangle inequality: largest <= sum of two others
  c = min(c, 0.95 * (a + b))
  return r6([a, b, c])


def _tendon_params(r, cfg, t):
  if cfg["dynamics"]:
    if r.p(0.5):
      t["stiffness"] = r.u(0, 20)
      if cfg.get("poly") and r.p(0.4):
        t["stiffnesspoly"] = [r.u(0, 5), r.u(0, 2)]
    if r.p(0.5):
      t["damping"] = r.u(0, 1)
      if cfg.get("poly") and r.p(0.4):
        t["dampingpoly"] = [r.u(0, 0.5), r.u(0, 0.2)]
    if r.p(cfg.get("armature_p", 0.3)) and not any(it[0] == "geom" for it in t.get("path", [])):
      t["armature"] = r.u(0, cfg.get("armature_max", 0.1))
    if r.p(0.3):
      a = r.u(0.0, 0.5)
      t["springlength"] = [a, r6(a + r.u(0, 0.5))]
  if r.p(cfg["frictionloss"]):
    t["frictionloss"] = r.u(0.05, 1)
  if r.p(cfg["limits"]):
    if t["kind"] == "fixed":
      lo = r.u(-1.0, 0.2)
    else:
      lo = r.u(0.0, 0.6)
    t["range"] = [lo, r6(lo + r.u(0.05, 1.0))]
    if cfg["margin"] and r.p(0.4):
      t["margin"] = r.u(0, 0.1)
  if cfg.get("actfrcrange") and r.p(0.4):
    t["actuatorfrcrange"] = [-r.u(0.1, 3), r.u(0.1, 3)]


def _actuator(r, cfg, name, joints, tendons, sites, site_body, bnames, bodies):
  kind = r.ch(cfg["act_menu"])
  a = dict(name=name, kind=kind)
  # transmission
  trn_menu = cfg.get("trn_menu", ["joint"])
  trn = r.ch(trn_menu)
  if kind == "muscle" and trn not in ("joint", "tendon"):
    trn = "joint"
  nonfree = [j["name"] for _, j in joints if j["type"] != "free"]
  alljoints = [j["name"] for _, j in joints]
  if trn == "joint" and (nonfree or alljoints):
    a["joint"] = r.ch(nonfree or alljoints) if r.p(0.9) or not alljoints else r.ch(alljoints)
  elif trn == "jointinparent" and alljoints:
    a["jointinparent"] = r.ch(alljoints)
  elif trn == "tendon" and tendons:
    a["tendon"] = r.ch([t["name"] for t in tendons])
  elif trn == "site" and sites:
    a["site"] = r.ch(sites)
    if r.p(0.5) and len(sites) > 1:
      ref = r.ch([s for s in sites if s != a["site"]])
      a["refsite"] = ref
    a["gear"] = r.vec(6, -1, 1)
  elif trn == "slidercrank" and len(sites) > 1:
    a["cranksite"] = sites[0]
    a["slidersite"] = sites[1]
    if site_body[sites[0]] == site_body[sites[1]]:
      return None
    a["cranklength"] = r.u(0.2, 1.0)
  elif trn == "body" and kind == "adhesion":
    movable = [b["name"] for b in bodies if b["geoms"]]
    if not movable:
      return None
    a["body"] = r.ch(movable)
  else:
    if not (nonfree or alljoints):
      return None
    a["joint"] = r.ch(nonfree or alljoints)
  if kind == "adhesion":
    if "body" not in a:
      for k in ("joint", "jointinparent", "tendon", "site", "refsite", "cranksite", "slidersite", "cranklength", "gear"):
        a.pop(k, None)
      movable = [b["name"] for b in bodies if b["geoms"]]
      if not movable:
        return None
      a["body"] = r.ch(movable)
    a["gain"] = r.u(0.5, 20)
    a["ctrlrange"] = [0, r.u(0.5, 2)]
    return a
  if "gear" not in a and r.p(0.5):
    a["gear"] = [r.u(-3, 3)]
  if kind == "motor":
    pass
  elif kind == "position":
    a["kp"] = r.u(1, 50)
    if r.p(0.5):
      a["kv"] = r.u(0, 5)
    elif r.p(0.3):
      a["dampratio"] = r.u(0.1, 1.5)
    if r.p(0.3):
      a["timeconst"] = r.u(0.01, 0.5)
  elif kind == "velocity":
    a["kv"] = r.u(0.5, 10)
  elif kind == "intvelocity":
    a["kp"] = r.u(1, 50)
    a["actrange"] = [-r.u(0.2, 2), r.u(0.2, 2)]
  elif kind == "damper":
    a["kv"] = r.u(0.5, 10)
    a["ctrlrange"] = [0, r.u(0.5, 2)]
  elif kind == "cylinder":
    a["timeconst"] = r.u(0.01, 0.5)
    a["area"] = r.u(0.5, 2)
    a["bias"] = r.vec(3, -1, 1)
  elif kind == "muscle":
    if "gear" in a:
      a.pop("gear")
    a["timeconst"] = [r.u(0.005, 0.05), r.u(0.02, 0.1)]
    a["range"] = [r.u(0.5, 0.9), r.u(1.1, 1.6)]
    a["force"] = r.u(1, 100) if r.p(0.7) else -1
    a["scale"] = r.u(100, 400)
    a["lengthrange"] = [r.u(0.1, 0.5), r.u(0.8, 2.0)]
    if r.p(0.3):
      a["tausmooth"] = r.u(0, 0.3)
  elif kind == "general":
    a["dyntype"] = r.ch(cfg.get("dyn_menu", ["none", "integrator", "filter", "filterexact"]))
    a["gaintype"] = r.ch(["fixed", "affine"])
    a["biastype"] = r.ch(["none", "affine"])
    a["dynprm"] = [r.u(0.01, 0.5), 0, 0]
    a["gainprm"] = [r.u(-5, 5), r.u(-1, 1), r.u(-1, 1)]
    a["biasprm"] = [r.u(-2, 2), r.u(-5, 5), r.u(-2, 2)]
    if a["dyntype"] != "none" and r.p(0.4):
      a["actearly"] = True
    if a["dyntype"] != "none" and r.p(0.4):
      a["actlimited"] = True
      a["actrange"] = [-r.u(0.2, 2), r.u(0.2, 2)]
    if a["dyntype"] == "user":
      a["actdim"] = r.i(1, 3)
  if kind != "damper" and kind != "muscle" and "ctrlrange" not in a and r.p(0.5):
    a["ctrlrange"] = [-r.u(0.2, 2), r.u(0.2, 2)]
  if kind not in ("muscle",) and r.p(0.4):
    a["forcerange"] = [-r.u(0.2, 5), r.u(0.2, 5)]
  if cfg.get("delays") and r.p(0.6):
    a["nsample"] = r.i(1, 6)
    a["interp"] = r.ch(["zoh", "linear", "cubic"])
    a["delay"] = r6(r.ch([0.5, 1, 2.5, 4]) * cfg.get("timestep", 0.002))
  return a


# --------------------------------------------------------------------------------------
# rendering

_MESHES = {
  "tetra": "0 0 0  0.2 0 0  0 0.2 0  0 0 0.2",
  "cube": "-0.1 -0.1 -0.1  0.1 -0.1 -0.1  -0.1 0.1 -0.1  0.1 0.1 -0.1  -0.1 -0.1 0.1  0.1 -0.1 0.1  -0.1 0.1 0.1  0.1 0.1 0.1",
  "octa": "0.15 0 0  -0.15 0 0  0 0.12 0  0 -0.12 0  0 0 0.1  0 0 -0.1",
}


def _a(v):
  if isinstance(v, bool):
    return "true" if v else "false"
  if isinstance(v, (list, tuple)):
    return " ".join(_a(x) for x in v)
  if isinstance(v, float):
    return repr(v)
  return str(v)


def _attrs(d, keys):
  return "".join(f' {k}="{_a(d[k])}"' for k in keys if k in d and d[k] is not None)


_GEOM_KEYS = ["name", "type", "size", "pos", "quat", "condim", "friction", "priority", "solmix", "solref", "solimp", "margin", "gap",
              "adhesion", "contype", "conaffinity", "fluidshape", "fluidcoef", "density", "group", "mesh", "hfield", "rgba", "mass"]
_JOINT_KEYS = ["name", "type", "axis", "pos", "armature", "damping", "stiffness", "springref", "frictionloss", "range", "margin",
               "solreflimit", "actuatorfrcrange", "actuatorgravcomp", "ref"]


def _poly(d, k):
  """MuJoCo 3.13 polynomial stiffness/damping: attribute takes up to 3 numbers (linear + poly)."""
  return d


def render(spec) -> str:
  out = ['<mujoco>']
  opt = dict(spec.get("option", {}))
  flags = opt.pop("flags", {})
  out.append(f"<option{_attrs(opt, list(opt.keys()))}>")
  if flags:
    out.append(f"<flag{_attrs(flags, list(flags.keys()))}/>")
  out.append("</option>")
  size = []
  if spec.get("nuserdata"):
    size.append(f'nuserdata="{spec["nuserdata"]}"')
  if spec.get("nkey"):
    size.append(f'nkey="{spec["nkey"]}"')
  if size:
    out.append(f"<size {' '.join(size)}/>")
  if spec.get("compiler"):
    out.append(f"<compiler{_attrs(spec['compiler'], list(spec['compiler'].keys()))}/>")
  assets = []
  for mname in spec.get("meshes", []):
    assets.append(f'<mesh name="{mname}" vertex="{_MESHES[mname]}"/>')
  for h in spec.get("hfields", []):
    assets.append(f'<hfield name="{h["name"]}" nrow="{h["nrow"]}" ncol="{h["ncol"]}" size="{_a(h["size"])}" elevation="{_a(h["elevation"])}"/>')
  if assets:
    out.append("<asset>" + "".join(assets) + "</asset>")
  if spec.get("custom"):
    out.append("<custom>" + "".join(f'<numeric name="{k}" data="{_a(v)}"/>' for k, v in spec["custom"].items()) + "</custom>")
  out.append("<worldbody>")
  for g in spec.get("world_geoms", []):
    out.append(f"<geom{_attrs(g, _GEOM_KEYS)}/>")
  for s_ in spec.get("world_sites", []):
    out.append(f"<site{_attrs(s_, ['name', 'pos', 'quat', 'size', 'type'])}/>")
  for c in spec.get("world_cameras", []):
    out.append(f"<camera{_attrs(c, list(c.keys()))}/>")
  bodies = spec["bodies"]
  children = {}
  for i, b in enumerate(bodies):
    children.setdefault(b["parent"], []).append(i)

  def emit(i):
    b = bodies[i]
    out.append(f"<body{_attrs(b, ['name', 'pos', 'quat', 'mocap', 'gravcomp', 'sleep'])}>")
    if b.get("inertial"):
      out.append(f"<inertial{_attrs(b['inertial'], ['pos', 'quat', 'mass', 'diaginertia'])}/>")
    for j in b["joints"]:
      if j["type"] == "free":
        if "damping" not in j and "stiffness" not in j:
          out.append(f'<freejoint name="{j["name"]}"/>')
        else:
          jj = dict(j)
          if "stiffnesspoly" in jj:
            jj["stiffness"] = [jj.get("stiffness", 0.0)] + jj["stiffnesspoly"]
          out.append(f"<joint{_attrs(jj, ['name', 'type', 'damping', 'stiffness'])}/>")
      else:
        jj = dict(j)
        if "dampingpoly" in jj:
          jj["damping"] = [jj.get("damping", 0.0)] + jj["dampingpoly"]
        if "stiffnesspoly" in jj:
          jj["stiffness"] = [jj.get("stiffness", 0.0)] + jj["stiffnesspoly"]
        out.append(f"<joint{_attrs(jj, _JOINT_KEYS)}/>")
    for g in b["geoms"]:
      out.append(f"<geom{_attrs(g, _GEOM_KEYS)}/>")
    for s_ in b["sites"]:
      out.append(f"<site{_attrs(s_, ['name', 'pos', 'quat', 'size', 'type'])}/>")
    for c in b["cameras"]:
      out.append(f"<camera{_attrs(c, list(c.keys()))}/>")
    for l in b["lights"]:
      out.append(f"<light{_attrs(l, list(l.keys()))}/>")
    for ci in children.get(i, []):
      emit(ci)
    out.append("</body>")

  for i in children.get(-1, []):
    emit(i)
  out.append("</worldbody>")
  if spec.get("tendons"):
    out.append("<tendon>")
    for t in spec["tendons"]:
      tt = dict(t)
      if "dampingpoly" in tt:
        tt["damping"] = [tt.get("damping", 0.0)] + tt["dampingpoly"]
      if "stiffnesspoly" in tt:
        tt["stiffness"] = [tt.get("stiffness", 0.0)] + tt["stiffnesspoly"]
      keys = ["name", "stiffness", "damping", "armature", "springlength", "frictionloss", "range", "margin", "actuatorfrcrange", "limited"]
      if t["kind"] == "fixed":
        out.append(f"<fixed{_attrs(tt, keys)}>")
        for jn, c in t["joints"]:
          out.append(f'<joint joint="{jn}" coef="{_a(c)}"/>')
        out.append("</fixed>")
      else:
        out.append(f"<spatial{_attrs(tt, keys)}>")
        for item in t["path"]:
          if item[0] == "site":
            out.append(f'<site site="{item[1]}"/>')
          elif item[0] == "geom":
            ss = f' sidesite="{item[2]}"' if len(item) > 2 and item[2] else ""
            out.append(f'<geom geom="{item[1]}"{ss}/>')
          else:
            out.append(f'<pulley divisor="{_a(item[1])}"/>')
        out.append("</spatial>")
    out.append("</tendon>")
  if spec.get("pairs") or spec.get("excludes"):
    out.append("<contact>")
    for p in spec.get("pairs", []):
      out.append(f"<pair{_attrs(p, ['geom1', 'geom2', 'condim', 'friction', 'solref', 'solreffriction', 'solimp', 'margin', 'gap', 'adhesion'])}/>")
    for e in spec.get("excludes", []):
      out.append(f"<exclude{_attrs(e, ['body1', 'body2'])}/>")
    out.append("</contact>")
  if spec.get("equalities"):
    out.append("<equality>")
    for e in spec["equalities"]:
      keys = ["name", "body1", "body2", "site1", "site2", "anchor", "relpose", "torquescale", "joint1", "joint2", "tendon1", "tendon2",
              "polycoef", "active", "solref", "solimp"]
      out.append(f"<{e['kind']}{_attrs(e, keys)}/>")
    out.append("</equality>")
  if spec.get("actuators"):
    out.append("<actuator>")
    for a in spec["actuators"]:
      keys = [k for k in a.keys() if k != "kind"]
      out.append(f"<{a['kind']}{_attrs(a, keys)}/>")
    out.append("</actuator>")
  if spec.get("sensors"):
    out.append("<sensor>")
    for s_ in spec["sensors"]:
      keys = [k for k in s_.keys() if k != "kind"]
      out.append(f"<{s_['kind']}{_attrs(s_, keys)}/>")
    out.append("</sensor>")
  if spec.get("keyframe_xml"):
    out.append(spec["keyframe_xml"])
  if spec.get("extra_xml"):
    out.append(spec["extra_xml"])
  out.append("</mujoco>")
  return "\n".join(out)


# --------------------------------------------------------------------------------------
# contact scenes: free bodies with one geom each, chain placement at controlled separations


def scene_strategy(types=("sphere", "capsule", "box"), nmax=5, **over):
  d = dict(
    n=st.integers(2, nmax),
    types=types if isinstance(types, st.SearchStrategy) else st.just(list(types)),
    plane=st.booleans(),
    margin=st.sampled_from([False, False, True]),
    params=st.booleans(),
    pairs=st.integers(0, 1),
    aligned=st.sampled_from([0.0, 0.3, 1.0]),
    condim_menu=st.sampled_from([[3], [1, 3, 4, 6]]),
    seed=st.integers(0, 2**31 - 1),
    static=st.sampled_from([0.0, 0.3]),
    late_plane=st.just(False),  # True: the plane sits on a static body declared after the moving bodies (highest geom id), origin offset laterally, optionally tilted
  )
  for k, v in over.items():
    d[k] = v if isinstance(v, st.SearchStrategy) else st.just(v)
  return st.fixed_dictionaries(d)


_AXQUATS = [[1, 0, 0, 0], [0.707107, 0.707107, 0, 0], [0.707107, 0, 0.707107, 0], [0.707107, 0, 0, 0.707107], [0.92388, 0, 0, 0.382683]]


def _rbound(g):
  t, s = g["type"], g.get("size", [0.1])
  if t == "sphere":
    return s[0]
  if t == "capsule":
    return s[0] + s[1]
  if t == "cylinder":
    return math.hypot(s[0], s[1])
  if t in ("box", "ellipsoid"):
    return math.sqrt(sum(x * x for x in s)) if t == "box" else max(s)
  if t == "mesh":
    return {"tetra": 0.2, "cube": 0.173, "octa": 0.15}[g["mesh"]]
  return 0.1


def make_scene(sc) -> dict:
  """Explicit spec for a contact scene.  Bodies are free (or static); body pose = geom pose."""
  r = R(sc["seed"])
  cfg = dict(DEFAULT_CFG, geom_menu=sc["types"], margin=sc["margin"], geom_params=sc["params"], condim_menu=sc["condim_menu"], scale=0.0, unnorm=False, fluid=False)
  bodies = []
  prev = None
  for i in range(sc["n"]):
    g = _geom(r, cfg, f"g{i}")
    g["pos"] = [0, 0, 0]
    g["quat"] = [1, 0, 0, 0]
    g.pop("density", None)
    if sc["margin"] and g["type"] in ("box", "mesh") :
      # put_model rejects margins on box/mesh multiccd pairs: keep those geoms margin-free
      g.pop("margin", None)
      g.pop("gap", None)
    quat = r.ch(_AXQUATS) if r.p(sc["aligned"]) else r.quat()
    rb = _rbound(g)
    if prev is None:
      pos = [0.0, 0.0, r.u(0.0, 0.3) + (rb if sc["plane"] else 0.0) * r.u(0.6, 1.3)]
    else:
      ppos, prb, pg = prev
      direction = r.ch([[1, 0, 0], [0, 1, 0], [0, 0, 1], [-1, 0, 0]]) if r.p(sc["aligned"]) else r.unit()
      cls = r.ch(["deep", "shallow", "touch", "near", "far"])
      if g["type"] == "sphere" and pg["type"] == "sphere":
        sep = dict(deep=-0.5 * min(rb, prb), shallow=-0.01, touch=0.0, near=0.01, far=0.2)[cls]
        dist = rb + prb + sep
      else:
        f = dict(deep=r.u(0.3, 0.6), shallow=r.u(0.6, 0.8), touch=r.u(0.8, 0.95), near=r.u(0.95, 1.05), far=1.5)[cls]
        dist = (rb + prb) * f
      pos = r6([ppos[k] + direction[k] * dist for k in range(3)])
    b = dict(name=f"b{i}", parent=-1, pos=pos, quat=quat, joints=[], geoms=[g], sites=[], cameras=[], lights=[])
    if not r.p(sc["static"]) or i == 0:
      b["joints"].append(dict(name=f"j{i}", type="free"))
    bodies.append(b)
    prev = (pos, rb, g)
  spec = dict(bodies=bodies, world_geoms=[], tendons=[], equalities=[], actuators=[], sensors=[], pairs=[], excludes=[])
  if sc["plane"]:
    pg = dict(name=f"g{sc['n']}", type="plane", size=[0, 0, 0.1])
    if sc["params"]:
      pg["friction"] = [r.u(0.2, 1.5), r.lu(1e-3, 0.1), r.lu(1e-4, 0.01)]
      if r.p(0.5):
        pg["priority"] = r.i(0, 2)
      if r.p(0.5):
        pg["solmix"] = r.u(0.1, 3)
      if r.p(0.5):
        pg["solref"] = [r.u(0.005, 0.05), r.u(0.3, 1.5)]
    cd = r.ch(sc["condim_menu"])
    if cd != 3:
      pg["condim"] = cd
    if sc["margin"] and r.p(0.5):
      pg["margin"] = r.u(0, 0.03)
    if sc.get("late_plane"):
      # own stream: everything else of the scene is the same with and without this option.  A plane shifted inside itself is the same surface, so
      # the contacts do not depend on the offset; the broadphase plane filter does (it measures from the plane's origin along its normal)
      rl = R([int(sc["seed"]), 0x91A])
      tilt = rl.ch([0.0, 0.0, rl.u(-0.25, 0.25)])
      ax = rl.unit()
      q = [math.cos(tilt / 2), math.sin(tilt / 2) * ax[0], math.sin(tilt / 2) * ax[1], 0.0]
      nq = math.sqrt(sum(x * x for x in q))
      bodies.append(dict(name="bplane", parent=-1, pos=r6([rl.u(-3, 3), rl.u(-3, 3), 0.0]), quat=r6([x / nq for x in q]), joints=[], geoms=[pg], sites=[], cameras=[], lights=[]))
    else:
      spec["world_geoms"].append(pg)
  names = [f"g{i}" for i in range(sc["n"] + (1 if sc["plane"] else 0))]
  for k in range(sc["pairs"]):
    i1, i2 = r.g.choice(len(names), size=2, replace=False)
    p = dict(geom1=names[i1], geom2=names[i2])
    if r.p(0.7):
      p["condim"] = r.ch([1, 3, 4, 6])
    if r.p(0.5):
      p["friction"] = [r.u(0.2, 1.5), r.u(0.2, 1.5), r.lu(1e-3, 0.1), r.lu(1e-4, 0.01), r.lu(1e-4, 0.01)]
    if r.p(0.5):
      p["solref"] = [r.u(0.005, 0.05), r.u(0.3, 1.5)]
    if r.p(0.3):
      p["solreffriction"] = [r.u(0.005, 0.05), r.u(0.3, 1.5)]
    t1 = next(b["geoms"][0]["type"] for b in bodies if b["geoms"][0]["name"] == names[i1])  if i1 < sc["n"] else "plane"
    t2 = next(b["geoms"][0]["type"] for b in bodies if b["geoms"][0]["name"] == names[i2]) if i2 < sc["n"] else "plane"
    if sc["margin"] and not (t1 in ("box", "mesh") and t2 in ("box", "mesh")) and r.p(0.5):
      p["margin"] = r.u(0, 0.05)
      p["gap"] = r.u(0, p["margin"])
    spec["pairs"].append(p)
  spec["meshes"] = sorted({b["geoms"][0]["mesh"] for b in bodies if b["geoms"][0].get("mesh")})
  spec["option"] = dict(sc.get("option", {}))
  spec["nkey"] = 0
  spec["nuserdata"] = 0
  return spec


# --------------------------------------------------------------------------------------
# "rich" models: contacts + every constraint kind + actuators, used by the metamorphic / stateful checks


def rich_cfg(**over):
  base = dict(
    nroot=st.integers(1, 4),
    maxdepth=st.integers(0, 2),
    maxchild=st.integers(1, 2),
    plane=True,
    contacts="pile",
    dynamics=True,
    limits=st.sampled_from([0.0, 0.5]),
    frictionloss=st.sampled_from([0.0, 0.3]),
    tendons=st.integers(0, 1),
    spatial_tendons=st.integers(0, 1),
    equalities=st.integers(0, 2),
    eq_sites=st.booleans(),
    actuators=st.integers(0, 3),
    act_menu=st.sampled_from([["motor", "position", "velocity"], ["motor", "general", "intvelocity", "position"], ["motor"]]),
    trn_menu=st.sampled_from([["joint"], ["joint", "tendon", "site"]]),
    condim_menu=st.sampled_from([[3], [1, 3, 4, 6]]),
    geom_menu=st.sampled_from([["sphere", "capsule", "box"], ["sphere", "capsule"], ["sphere"]]),
    mocap=st.integers(0, 1),
    sites=1.0,
    pairs=st.integers(0, 2),
    excludes=st.integers(0, 1),
  )
  base.update(over)
  return cfg_strategy(**base)


def option_strategy(integrators=("Euler", "implicitfast", "implicit", "RK4"), solvers=("Newton", "CG"), cones=("pyramidal", "elliptic"), jacobians=("dense", "sparse")):
  return st.fixed_dictionaries(
    dict(
      integrator=st.sampled_from(list(integrators)),
      solver=st.sampled_from(list(solvers)),
      cone=st.sampled_from(list(cones)),
      jacobian=st.sampled_from(list(jacobians)),
    )
  )
