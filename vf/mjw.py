"""Helpers around mujoco / mujoco_warp used by the property modules."""

from __future__ import annotations

import functools
import hashlib
import warnings

import mujoco
import numpy as np
import warp as wp

import mujoco_warp as mjw
from mujoco_warp._src import io as mjw_io
from mujoco_warp._src import types as mjw_types

from vf import gen
from vf.core import Reject

warnings.filterwarnings("ignore")

_MODEL_CACHE = {}


def compile_xml(xml: str) -> mujoco.MjModel:
  h = hashlib.sha1(xml.encode()).hexdigest()
  if h in _MODEL_CACHE:
    return _MODEL_CACHE[h]
  try:
    m = mujoco.MjModel.from_xml_string(xml)
  except Exception as e:  # generator produced an invalid model: not in the domain
    raise Reject(f"mujoco compile: {e}")
  if len(_MODEL_CACHE) > 64:
    _MODEL_CACHE.clear()
  _MODEL_CACHE[h] = m
  return m


def compile_spec(spec) -> mujoco.MjModel:
  return compile_xml(gen.render(spec))


def put_model(mjm, **kw):
  """put_model; documented rejections become Reject."""
  try:
    return mjw.put_model(mjm, **kw)
  except (NotImplementedError, ValueError) as e:
    raise Reject(f"put_model: {e}")


def make_data(mjm, **kw):
  try:
    return mjw.make_data(mjm, **kw)
  except (NotImplementedError, ValueError) as e:
    raise Reject(f"make_data: {e}")


def put_data(mjm, mjd, **kw):
  try:
    return mjw.put_data(mjm, mjd, **kw)
  except (NotImplementedError, ValueError) as e:
    raise Reject(f"put_data: {e}")


def is_sparse(mjm):
  return mjw_io.is_sparse(mjm)


# --------------------------------------------------------------------------------------
# state


def f32(x):
  return np.asarray(x, dtype=np.float32).astype(np.float64)


def rand_state(mjm, seed, sigma=0.3, vel=1.0, unnorm=False, ctrl=True, applied=False, act=True, mocap=True):
  """Random state dict (float32-representable float64 arrays)."""
  g = np.random.default_rng(int(seed))
  qpos = np.array(mjm.qpos0, dtype=np.float64)
  qpos = qpos + sigma * g.normal(size=mjm.nq)
  for j in range(mjm.njnt):
    t = mjm.jnt_type[j]
    a = mjm.jnt_qposadr[j]
    if t == mujoco.mjtJoint.mjJNT_FREE:
      q = qpos[a + 3 : a + 7]
      q = q / np.linalg.norm(q)
      if unnorm:
        q = q * np.exp(g.uniform(np.log(0.2), np.log(5)))
      qpos[a + 3 : a + 7] = q
    elif t == mujoco.mjtJoint.mjJNT_BALL:
      q = qpos[a : a + 4]
      q = q / np.linalg.norm(q)
      if unnorm:
        q = q * np.exp(g.uniform(np.log(0.2), np.log(5)))
      qpos[a : a + 4] = q
  s = dict(qpos=f32(qpos), qvel=f32(vel * g.normal(size=mjm.nv)))
  if mjm.nu:
    c = g.normal(size=mjm.nu) * (2.0 if ctrl else 0.0)
    # keep adhesion/damper controls non-negative where a ctrlrange demands it? MuJoCo clamps itself.
    s["ctrl"] = f32(c)
  else:
    s["ctrl"] = np.zeros(0)
  s["act"] = f32(g.normal(size=mjm.na) * (0.5 if act else 0.0))
  if applied:
    s["qfrc_applied"] = f32(g.normal(size=mjm.nv))
    x = g.normal(size=(mjm.nbody, 6))
    x[0] = 0
    s["xfrc_applied"] = f32(x)
  else:
    s["qfrc_applied"] = np.zeros(mjm.nv)
    s["xfrc_applied"] = np.zeros((mjm.nbody, 6))
  if mjm.nmocap:
    mp = np.array(mjm.body_pos[mjm.body_mocapid >= 0], dtype=np.float64)
    # body_mocapid order
    mpos = np.zeros((mjm.nmocap, 3))
    mquat = np.zeros((mjm.nmocap, 4))
    for b in range(mjm.nbody):
      k = mjm.body_mocapid[b]
      if k >= 0:
        mpos[k] = mjm.body_pos[b]
        mquat[k] = mjm.body_quat[b]
    if mocap:
      mpos = mpos + 0.2 * g.normal(size=mpos.shape)
      q = g.normal(size=mquat.shape)
      q /= np.linalg.norm(q, axis=1, keepdims=True)
      if unnorm:
        q *= np.exp(g.uniform(np.log(0.2), np.log(5), size=(mjm.nmocap, 1)))
      mquat = q
    s["mocap_pos"] = f32(mpos)
    s["mocap_quat"] = f32(mquat)
  else:
    s["mocap_pos"] = np.zeros((0, 3))
    s["mocap_quat"] = np.zeros((0, 4))
  return s


_STATE_FIELDS = ["qpos", "qvel", "act", "ctrl", "qfrc_applied", "xfrc_applied", "mocap_pos", "mocap_quat"]


def set_mjd(mjd, s):
  for k in _STATE_FIELDS:
    if k in s and getattr(mjd, k).size:
      getattr(mjd, k)[:] = np.asarray(s[k]).reshape(getattr(mjd, k).shape)
  if "time" in s:
    mjd.time = float(s["time"])
  if "eq_active" in s and mjd.eq_active.size:
    mjd.eq_active[:] = s["eq_active"]
  if "qacc_warmstart" in s:
    mjd.qacc_warmstart[:] = s["qacc_warmstart"]
  if "userdata" in s and mjd.userdata.size:
    mjd.userdata[:] = s["userdata"]


def assign(arr: wp.array, value):
  """Copy a numpy array into an existing warp array (any dtype), shape checked on the numpy side."""
  cur = arr.numpy()
  v = np.asarray(value).astype(cur.dtype).reshape(cur.shape)
  arr.assign(v)


def set_world(arr: wp.array, w, value):
  cur = arr.numpy()
  cur[w] = np.asarray(value).reshape(cur[w].shape)
  arr.assign(cur)


def set_data(d, states):
  """states: list (one per world) of state dicts, or a single dict (broadcast)."""
  nworld = d.nworld
  if isinstance(states, dict):
    states = [states] * nworld
  for k in _STATE_FIELDS + ["eq_active", "qacc_warmstart", "userdata", "time"]:
    if k not in states[0]:
      continue
    arr = getattr(d, k)
    cur = arr.numpy()
    if cur.size == 0:
      continue
    for w in range(nworld):
      cur[w] = np.asarray(states[w][k]).reshape(cur[w].shape)
    arr.assign(cur)


def np_(x):
  return x.numpy()


# --------------------------------------------------------------------------------------
# contacts and constraint rows


def contacts(d, world=None):
  """Returns list of contact dicts (optionally for one world)."""
  n = int(d.nacon.numpy()[0])
  n = min(n, d.naconmax)
  c = d.contact
  wid = c.worldid.numpy()[:n]
  out = dict(
    worldid=wid,
    dist=c.dist.numpy()[:n],
    pos=c.pos.numpy()[:n],
    frame=c.frame.numpy()[:n],
    includemargin=c.includemargin.numpy()[:n],
    friction=c.friction.numpy()[:n],
    solref=c.solref.numpy()[:n],
    solreffriction=c.solreffriction.numpy()[:n],
    solimp=c.solimp.numpy()[:n],
    dim=c.dim.numpy()[:n],
    geom=c.geom.numpy()[:n],
    efc_address=c.efc_address.numpy()[:n],
    type=c.type.numpy()[:n],
  )
  if world is not None:
    m = wid == world
    out = {k: v[m] for k, v in out.items()}
  return out


def mj_contacts(mjd):
  c = mjd.contact
  n = mjd.ncon
  return dict(
    dist=np.array(c.dist[:n]),
    pos=np.array(c.pos[:n]).reshape(n, 3),
    frame=np.array(c.frame[:n]).reshape(n, 3, 3),
    includemargin=np.array(c.includemargin[:n]),
    friction=np.array(c.friction[:n]).reshape(n, 5),
    solref=np.array(c.solref[:n]).reshape(n, 2),
    solreffriction=np.array(c.solreffriction[:n]).reshape(n, 2),
    solimp=np.array(c.solimp[:n]).reshape(n, 5),
    dim=np.array(c.dim[:n]),
    geom=np.array(c.geom[:n]).reshape(n, 2),
    efc_address=np.array(c.efc_address[:n]),
  )


def contact_sort_key(cs):
  """Canonical order of a contact set: (geom1, geom2, rounded pos)."""
  n = len(cs["dist"])
  keys = [(int(cs["geom"][i][0]), int(cs["geom"][i][1]), *np.round(cs["pos"][i], 3).tolist(), float(np.round(cs["dist"][i], 4))) for i in range(n)]
  return sorted(range(n), key=lambda i: keys[i])


def match_contacts(a, b, postol=1e-3):
  """Greedy nearest matching inside (geom1, geom2) buckets.  Returns list of (ia, ib), unmatched_a, unmatched_b."""
  na, nb = len(a["dist"]), len(b["dist"])
  ba = {}
  for i in range(na):
    ba.setdefault((int(a["geom"][i][0]), int(a["geom"][i][1])), []).append(i)
  bb = {}
  for i in range(nb):
    bb.setdefault((int(b["geom"][i][0]), int(b["geom"][i][1])), []).append(i)
  pairs, ua, ub = [], [], []
  for k in set(ba) | set(bb):
    ia, ib = list(ba.get(k, [])), list(bb.get(k, []))
    cand = sorted(((float(np.linalg.norm(a["pos"][i] - b["pos"][j])), i, j) for i in ia for j in ib))
    useda, usedb = set(), set()
    for dist, i, j in cand:
      if i in useda or j in usedb:
        continue
      useda.add(i)
      usedb.add(j)
      pairs.append((i, j))
    ua += [i for i in ia if i not in useda]
    ub += [j for j in ib if j not in usedb]
  return pairs, ua, ub


def efc_dense(m, d, world):
  """Returns dict with dense J (nefc, nv) and row arrays for one world."""
  nefc = int(d.nefc.numpy()[world])
  nefc = min(nefc, d.njmax)
  nv = m.nv
  e = d.efc
  J = np.zeros((nefc, nv))
  if m.is_sparse:
    rownnz = e.J_rownnz.numpy()[world]
    rowadr = e.J_rowadr.numpy()[world]
    colind = e.J_colind.numpy()[world, 0]
    Jv = e.J.numpy()[world, 0]
    for r in range(nefc):
      a, n = int(rowadr[r]), int(rownnz[r])
      if n > 0 and a >= 0 and a + n <= len(Jv):
        np.add.at(J[r], colind[a : a + n], Jv[a : a + n])
  else:
    J[:, :] = e.J.numpy()[world, :nefc, :nv]
  out = dict(J=J, nefc=nefc)
  for k in ("type", "id", "pos", "margin", "D", "vel", "aref", "frictionloss", "force", "state"):
    out[k] = getattr(e, k).numpy()[world, :nefc]
  return out


def mj_efc_dense(mjm, mjd):
  nefc = mjd.nefc
  nv = mjm.nv
  J = np.zeros((nefc, nv))
  if nefc:
    if mujoco.mj_isSparse(mjm):
      mujoco.mju_sparse2dense(J, mjd.efc_J, mjd.efc_J_rownnz, mjd.efc_J_rowadr, mjd.efc_J_colind)
    else:
      J[:] = np.asarray(mjd.efc_J)[: nefc * nv].reshape(nefc, nv)
  out = dict(J=J, nefc=nefc)
  for k in ("type", "id", "pos", "margin", "D", "vel", "aref", "frictionloss", "force", "state"):
    out[k] = np.array(getattr(mjd, "efc_" + k)[:nefc])
  return out


def dense_M(mjm, Mvals):
  """CSR lower-triangular M (Model M_rownnz/rowadr/colind) -> dense symmetric."""
  nv = mjm.nv
  M = np.zeros((nv, nv))
  for i in range(nv):
    a, n = mjm.M_rowadr[i], mjm.M_rownnz[i]
    for k in range(n):
      j = mjm.M_colind[a + k]
      M[i, j] = Mvals[a + k]
      M[j, i] = Mvals[a + k]
  return M


def mj_dense_M(mjm, mjd):
  return dense_M(mjm, np.asarray(mjd.M))


def overflow(d):
  return d.overflow.numpy().copy()


def overflow_fwd(d):
  """Overflow word as a check that only calls forward() has to read it: NEFC / NARROWPHASE are written into Data.overflow at the end of step() only
  (C16's statement is about step()), so after forward() alone an exceeded row / contact capacity shows in nefc > njmax / nacon > naconmax."""
  from mujoco_warp._src.types import OverflowType as OT

  of = d.overflow.numpy().copy()
  of[d.nefc.numpy() > d.njmax] |= int(OT.NEFC)
  if int(d.nacon.numpy()[0]) > d.naconmax:
    of |= int(OT.NARROWPHASE)
  return of


def zero_overflow(d):
  d.overflow.zero_()


INTEGRATION_SIG = int(mujoco.mjtState.mjSTATE_INTEGRATION)


def state_size(mjm, sig):
  return mujoco.mj_stateSize(mjm, sig)


def get_state(m, d, mjm, sig=None):
  sig = INTEGRATION_SIG if sig is None else sig
  n = mujoco.mj_stateSize(mjm, sig)
  out = wp.zeros((d.nworld, n), dtype=float)
  mjw.get_state(m, d, out, sig)
  return out.numpy()


def set_state(m, d, mjm, state, sig=None):
  sig = INTEGRATION_SIG if sig is None else sig
  arr = wp.array(np.asarray(state, dtype=np.float32), dtype=float)
  mjw.set_state(m, d, arr, sig)
