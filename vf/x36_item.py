"""C36 helper: runs one (model, options, capacities) item and returns its observable result.

Used in-process by vf.props.c36 (after other items ran in the same process) and as a fresh child process:
  python -m vf.x36_item  < item.json  > result.json
"""

from __future__ import annotations

import base64
import json
import sys

import numpy as np


def run_item(item):
  import mujoco_warp as mjw

  from vf import gen, mjw as H

  cfg = dict(item["cfg"])
  cfg["option"] = dict(item["opt"])
  if (item.get("flags") or {}).get("sleep") != "enable" or not cfg.get("sleep_policy"):
    cfg.pop("sleep_policy", None)  # per-body sleep policies only with the sleep flag on
  if item.get("flags"):
    cfg["option"]["flags"] = dict(item["flags"])
  spec = gen.make_scene(cfg) if item.get("scene") else gen.make_spec(cfg)
  if item.get("scene"):
    spec["option"] = dict(cfg["option"])
  mo = item.get("mopt") or {}
  if mo.get("fluid"):
    spec["option"]["density"], spec["option"]["viscosity"] = mo["fluid"]
  if (item.get("flags") or {}).get("sleep") == "enable":
    spec["option"]["solver"] = "Newton"  # sleeping is accepted with the Newton solver only
  mjm = H.compile_spec(spec)
  m = H.put_model(mjm)
  from mujoco_warp._src import types as T

  if mo.get("broadphase") is not None:
    m.opt.broadphase = T.BroadphaseType(mo["broadphase"])
  if mo.get("broadphase_filter") is not None:
    m.opt.broadphase_filter = T.BroadphaseFilter(mo["broadphase_filter"])
  if mo.get("warn_overflow") is not None:
    m.opt.warn_overflow = bool(mo["warn_overflow"])
  n = item["nworld"]
  d = H.make_data(mjm, nworld=n, nconmax=item["nconmax"], njmax=item["njmax"])
  presleep = bool(item.get("asleep")) and (item.get("flags") or {}).get("sleep") == "enable" and mjm.ntree > 0
  states = [H.rand_state(mjm, item["state_seed"] + 13 * w, sigma=0.1, vel=0.5, applied=not presleep) for w in range(n)]  # applied forces would wake every tree
  if not item.get("scene"):
    H.set_data(d, states)
  else:
    # contact scenes are placed by construction: keep qpos0, random velocities only
    for s in states:
      s["qpos"] = np.array(mjm.qpos0, dtype=np.float64)
    H.set_data(d, states)
  if presleep:
    # some islands / unconstrained trees start asleep (written the way sleep_test.py does it: tree_asleep cycles + update_sleep, zero velocity)
    from mujoco_warp._src import sleep as mjw_sleep

    mjw.forward(m, d)
    g = np.random.default_rng(item["state_seed"] + 5)
    ti = d.tree_island.numpy() if d.tree_island.shape[1] else np.full((n, mjm.ntree), -1)
    asleep = d.tree_asleep.numpy().copy()
    qvel = d.qvel.numpy().copy()
    for w in range(n):
      groups = {}
      for t in range(mjm.ntree):
        groups.setdefault(("i", int(ti[w, t])) if ti[w, t] >= 0 else ("t", t), []).append(t)
      for key in sorted(groups):
        if g.uniform() < item["asleep"]:
          grp = groups[key]
          for k, t in enumerate(grp):
            asleep[w, t] = grp[(k + 1) % len(grp)]
            a = int(mjm.tree_dofadr[t])
            qvel[w, a : a + int(mjm.tree_dofnum[t])] = 0.0
    d.qvel.assign(qvel)
    d.tree_asleep.assign(asleep)
    mjw_sleep.update_sleep(m, d)
  out = {}
  for k in range(item["nstep"]):
    mjw.step(m, d)
  for f in ("qpos", "qvel", "act", "qacc", "qacc_warmstart", "sensordata", "qfrc_constraint", "time"):
    out[f] = getattr(d, f).numpy()
  out["overflow"] = d.overflow.numpy()
  out["nefc"] = d.nefc.numpy()
  out["niter"] = d.solver_niter.numpy()
  nacon = min(int(d.nacon.numpy()[0]), d.naconmax)
  out["nacon"] = np.array([nacon])
  c = d.contact
  wid, geom, dist, pos = c.worldid.numpy()[:nacon], c.geom.numpy()[:nacon], c.dist.numpy()[:nacon], c.pos.numpy()[:nacon]
  order = sorted(range(nacon), key=lambda i: (int(wid[i]), int(geom[i][0]), int(geom[i][1]), float(dist[i]), *[float(x) for x in pos[i]]))
  out["contact.worldid"] = wid[order]
  out["contact.geom"] = geom[order]
  out["contact.dist"] = dist[order]
  out["contact.pos"] = pos[order]
  out["contact.frame"] = c.frame.numpy()[:nacon][order]
  out["contact.dim"] = c.dim.numpy()[:nacon][order]
  return out


def encode(out):
  return {k: dict(dtype=str(v.dtype), shape=list(v.shape), b64=base64.b64encode(np.ascontiguousarray(v).tobytes()).decode()) for k, v in out.items()}


def decode(enc):
  return {k: np.frombuffer(base64.b64decode(v["b64"]), dtype=np.dtype(v["dtype"])).reshape(v["shape"]) for k, v in enc.items()}


def main():
  from vf import worker

  worker._install_arena_cache()
  worker._setup_warp("release")
  item = json.load(sys.stdin)
  from vf.core import Reject

  # a list = a program: every item but the last is run for its side effects on the process (rejected ones are skipped), the last one is reported
  items = item if isinstance(item, list) else [item]
  nrej = 0
  for it in items[:-1]:
    try:
      run_item(it)
    except Reject:
      nrej += 1
  try:
    res = dict(status="ok", out=encode(run_item(items[-1])), earlier_rejected=nrej)
  except Reject as r:
    res = dict(status="reject", msg=str(r))
  sys.stdout.write("\n@@RESULT@@" + json.dumps(res) + "\n")
  sys.stdout.flush()
  import os

  os._exit(0)


if __name__ == "__main__":
  main()
