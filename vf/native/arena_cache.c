// Caching arena allocator for CPython (installed with PyObject_SetArenaAllocator).
// CPython 3.12 allocates 16 KiB "data stack chunks" with mmap and frees them with munmap every
// time a call crosses a chunk boundary; with many worker processes in this sandbox the
// mmap/munmap traffic dominates the run time.  This allocator never unmaps: freed blocks are
// kept on per-size free lists and reused.  Purely a harness speed-up, no effect on results.
#include <stddef.h>
#include <stdlib.h>
#include <sys/mman.h>

#define NCLASS 8
#define MAXCACHED 64

typedef struct { size_t size; void* blocks[MAXCACHED]; int n; } SizeClass;
static SizeClass classes[NCLASS];

typedef struct { void* ctx; void* (*alloc)(void*, size_t); void (*free)(void*, void*, size_t); } PyObjectArenaAllocator;
extern void PyObject_SetArenaAllocator(PyObjectArenaAllocator*);

static void* cache_alloc(void* ctx, size_t size) {
  for (int i = 0; i < NCLASS; i++) {
    if (classes[i].size == size && classes[i].n > 0) return classes[i].blocks[--classes[i].n];
  }
  void* p = mmap(NULL, size, PROT_READ | PROT_WRITE, MAP_PRIVATE | MAP_ANONYMOUS, -1, 0);
  return p == MAP_FAILED ? NULL : p;
}

static void cache_free(void* ctx, void* ptr, size_t size) {
  for (int i = 0; i < NCLASS; i++) {
    if (classes[i].size == size || classes[i].size == 0) {
      classes[i].size = size;
      if (classes[i].n < MAXCACHED) { classes[i].blocks[classes[i].n++] = ptr; return; }
      break;
    }
  }
  munmap(ptr, size);
}

void install(void) {
  static PyObjectArenaAllocator a = {NULL, cache_alloc, cache_free};
  PyObject_SetArenaAllocator(&a);
}
