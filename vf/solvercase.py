"""Shared evaluation for the solver-output properties C06 (optimality), C24 (admissibility), C39 (contact_force)."""

from __future__ import annotations

import numpy as np
import warp as wp
from hypothesis import strategies as st

import mujoco
import mujoco_warp as mjw
from mujoco_warp._src.types import OverflowType as OT

from vf import gen, mjw as H
from vf.core import Reject
from vf.props import c05


def strategy(tier, adhesion=False, contact_adhesion=False):
  return st.fixed_dictionaries(
    dict(
      cfg=gen.rich_cfg(
        geom_menu=st.sampled_from([["sphere", "capsule"], ["sphere"], ["sphere", "capsule", "box"]]),
        equalities=st.integers(0, 2),
        limits=st.sampled_from([0.0, 0.6]),
        frictionloss=st.sampled_from([0.0, 0.5]),
        actuators=st.integers(0, 2) if not adhesion else st.integers(1, 3),
        act_menu=["motor", "position"] if not adhesion else st.sampled_from([["adhesion"], ["adhesion", "motor"]]),
        trn_menu=["joint"] if not adhesion else ["body", "joint"],
        condim_menu=st.sampled_from([[3], [1, 3, 4, 6], [4], [6]]),
        geom_params=st.booleans(),
        geom_adhesion=contact_adhesion,
        aniso_pairs=st.sampled_from([0.0, 0.0, 0.7]),
        # long limited/frictional chains: dense rows wider than one 20-dof chunk (nv up to 60), active rows on high dof indices
        chains=st.sampled_from([[], [], [], [], [["hinge", 24]], [["mixed", 45]], [["hinge", 50]]]),
      ),
      opt=gen.option_strategy(integrators=("Euler",)),
      impratio=st.sampled_from([1.0, 1.0, 5.0]),
      warmstart=st.sampled_from(["zero", "random", "disabled"]),
      nworld=st.integers(1, 2),
      seed=st.integers(0, 10**6),
      sigma=st.sampled_from([0.05, 0.3]),
    )
  )


class World:
  pass


def evaluate(case, rec):
  """Runs forward on MJWarp and MuJoCo; returns (mjm, m, d, [World...]) with rows mapped onto MuJoCo's order, or raises Reject."""
  cfg = dict(case["cfg"])
  opt = dict(case["opt"])
  opt["impratio"] = case["impratio"]
  if case["warmstart"] == "disabled":
    opt["flags"] = dict(warmstart="disable")
  cfg["option"] = opt
  mjm = H.compile_spec(gen.make_spec(cfg))
  if mjm.nv == 0:
    raise Reject("nv=0")
  n = case["nworld"]
  m = H.put_model(mjm)
  d = H.make_data(mjm, nworld=n, nconmax=150, njmax=600)
  states = [H.rand_state(mjm, case["seed"] + 23 * w, sigma=case["sigma"], vel=0.3, applied=True) for w in range(n)]
  g = np.random.default_rng(case["seed"] + 1)
  for s in states:
    s["qacc_warmstart"] = H.f32(g.normal(size=mjm.nv) * (5.0 if case["warmstart"] == "random" else 0.0))
    if mjm.nu:
      s["ctrl"] = H.f32(np.abs(s["ctrl"])) if (mjm.actuator_gaintype.size and np.any(mjm.actuator_trntype == int(mujoco.mjtTrn.mjTRN_BODY))) else s["ctrl"]
  # settle with MuJoCo C for a few steps so that most states are physically plausible (shallow penetrations, moderate forces)
  nset = [0, 5, 30][case["seed"] % 3]
  if nset:
    for s in states:
      tmp = mujoco.MjData(mjm)
      H.set_mjd(tmp, s)
      try:
        for _ in range(nset):
          mujoco.mj_step(mjm, tmp)
      except mujoco.FatalError:
        raise Reject("mujoco aborts on this model")
      if np.all(np.isfinite(tmp.qpos)) and np.all(np.isfinite(tmp.qvel)) and np.max(np.abs(tmp.qvel), initial=0) < 50:
        s["qpos"], s["qvel"], s["act"] = H.f32(tmp.qpos), H.f32(tmp.qvel), H.f32(tmp.act)
  H.set_data(d, states)
  mjw.forward(m, d)
  of = H.overflow_fwd(d)
  if (of & int(OT.NEFC | OT.NJMAX_NNZ | OT.BROADPHASE | OT.NARROWPHASE)).any():
    rec.inconclusive += 1
    return mjm, m, d, []
  # reference model: same physics, tight solver
  ref = mjm.__copy__()
  ref.opt.tolerance = 1e-10
  ref.opt.iterations = 200
  ref.opt.ls_iterations = 100
  ref.opt.solver = int(mujoco.mjtSolver.mjSOL_NEWTON)
  worlds = []
  for w in range(n):
    mjd = mujoco.MjData(ref)
    H.set_mjd(mjd, states[w])
    try:
      mujoco.mj_forward(ref, mjd)
    except mujoco.FatalError:
      rec.rejected += 1  # MuJoCo aborts on explicit pairs between static bodies
      continue
    W = World()
    W.w, W.mjd, W.state = w, mjd, states[w]
    W.cw, W.cm = H.contacts(d, w), H.mj_contacts(mjd)
    W.ew, W.em = H.efc_dense(m, d, w), H.mj_efc_dense(ref, mjd)
    W.overflow = int(of[w])
    W.comparable = False
    # same-solver reference (same solver type, tolerance and iteration limits as MJWarp uses)
    same = mjm.__copy__()
    same.opt.tolerance = max(mjm.opt.tolerance, 1e-6)
    mjd2 = mujoco.MjData(same)
    H.set_mjd(mjd2, states[w])
    try:
      mujoco.mj_forward(same, mjd2)
    except mujoco.FatalError:
      rec.rejected += 1
      continue
    W.qacc_same = np.array(mjd2.qacc)
    pairs, ua, ub = H.match_contacts(W.cw, W.cm)
    ok = not (ua or ub) and all(
      np.linalg.norm(W.cw["pos"][a] - W.cm["pos"][b]) < 1e-3 and abs(W.cw["dist"][a] - W.cm["dist"][b]) < 1e-4 and np.max(np.abs(np.asarray(W.cw["frame"][a], dtype=np.float64) - W.cm["frame"][b])) < 1e-3
      for a, b in pairs
    )
    if ok and W.ew["nefc"] == W.em["nefc"]:
      cw = dict(W.cw)
      cw["pos"] = np.array(cw["pos"], dtype=np.float64)
      for a, b in pairs:
        cw["pos"][a] = W.cm["pos"][b]
      wid = d.contact.worldid.numpy()[: min(int(d.nacon.numpy()[0]), d.naconmax)]
      gids = np.nonzero(wid == w)[0]
      W.gids = gids
      idmap = {int(gid): k for k, gid in enumerate(gids)}
      rw, rm = c05.rows_keyed(W.ew, cw, mjm, idmap), c05.rows_keyed(W.em, W.cm, mjm)
      if [k for k, _ in rw] == [k for k, _ in rm]:
        # perm[i_mj] = i_mjw
        perm = np.zeros(W.em["nefc"], dtype=int)
        for (_, iw), (_, im) in zip(rw, rm):
          perm[im] = iw
        W.perm = perm
        W.pairs = dict((b, a) for a, b in pairs)  # mj contact id -> local mjw contact id
        W.comparable = bool(W.em["nefc"] == 0 or np.max(np.abs(W.ew["J"][perm] - W.em["J"])) < 2e-3)
        # the unconstrained part is C02/C03's business: the certificate needs the same qacc_smooth
        qs = d.qacc_smooth.numpy()[w]
        if np.max(np.abs(qs - mjd.qacc_smooth)) > 2e-3 * max(1.0, float(np.max(np.abs(mjd.qacc_smooth)))):
          W.comparable = False
          rec.cls("skipped:qacc_smooth-differs")
    worlds.append(W)
  return mjm, m, d, worlds


def total_cost(mjm, W, qacc):
  """MuJoCo's Gauss cost at qacc using MuJoCo's own rows and mj_constraintUpdate.  Returns (cost, force, grad)."""
  mjd = W.mjd
  nv = mjm.nv
  M = H.mj_dense_M(mjm, mjd)
  dq = np.asarray(qacc, dtype=np.float64) - mjd.qacc_smooth
  J = W.em["J"]
  jar = J @ np.asarray(qacc, dtype=np.float64) - W.em["aref"] if W.em["nefc"] else np.zeros(0)
  cost = np.zeros((1, 1))
  keep_force = np.array(mjd.efc_force)
  keep_state = np.array(mjd.efc_state)
  keep_q = np.array(mjd.qfrc_constraint)
  if W.em["nefc"]:
    mujoco.mj_constraintUpdate(mjm, mjd, jar.reshape(-1, 1), cost, 0)
  force = np.array(mjd.efc_force)
  state = np.array(mjd.efc_state)
  mjd.efc_force[:] = keep_force
  mjd.efc_state[:] = keep_state
  mjd.qfrc_constraint[:] = keep_q
  gauss = 0.5 * dq @ M @ dq
  grad = M @ dq - (J.T @ force if W.em["nefc"] else 0.0)
  return float(gauss + cost[0, 0]), force, state, grad, M
