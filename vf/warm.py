"""Pre-compiles the common mujoco_warp kernels into /verif/.cache (run by MANIFEST.setup_cmd).

Purely an optimisation: every check compiles whatever it still needs on demand, and Warp
re-compiles any kernel whose source in /repo changed (module hash).
"""

import os
import subprocess
import sys
import time

VARIANTS = [
  ("dense", "pyramidal", "Newton", "Euler"),
  ("sparse", "pyramidal", "Newton", "implicitfast"),
  ("dense", "elliptic", "CG", "RK4"),
  ("sparse", "elliptic", "CG", "implicit"),
  ("dense", "elliptic", "Newton", "implicitfast"),
  ("sparse", "pyramidal", "CG", "Euler"),
]
# (variant index, warp mode): the bounds-checked build (C17) and the permuted-schedule build (C11, C29) have their own kernel caches
JOBS = [(i, "release") for i in range(len(VARIANTS))] + [(0, "debug"), (1, "debug"), (4, "debug"), (0, "sched"), (1, "sched"), (4, "sched")]


def one(j):
  from vf import worker

  i, mode = JOBS[j]
  worker._install_arena_cache()
  if mode == "sched":
    from vf import sched

    sched.install()
  worker._setup_warp(mode)
  import mujoco
  import mujoco_warp as mjw

  from vf import gen

  jac, cone, solver, integ = VARIANTS[i]
  cfg = dict(
    gen.DEFAULT_CFG,
    nroot=3,
    dynamics=True,
    limits=0.5,
    frictionloss=0.3,
    tendons=1,
    equalities=2,
    actuators=2,
    plane=True,
    contacts="pile",
    seed=i,
    condim_menu=[1, 3, 4, 6],
    option=dict(jacobian=jac, cone=cone, solver=solver, integrator=integ),
  )
  mjm = mujoco.MjModel.from_xml_string(gen.render(gen.make_spec(cfg)))
  m = mjw.put_model(mjm)
  d = mjw.make_data(mjm, nworld=2, nconmax=200, njmax=400)
  for _ in range(2):
    mjw.step(m, d)
  mjw.forward(m, d)
  os._exit(0)


if __name__ == "__main__":
  if len(sys.argv) > 1:
    one(int(sys.argv[1]))
  t0 = time.time()
  env = dict(os.environ, PYTHONPATH=os.path.dirname(os.path.dirname(os.path.abspath(__file__))))
  ps = [subprocess.Popen([sys.executable, "-m", "vf.warm", str(j)], env=env, stdout=subprocess.DEVNULL, stderr=subprocess.DEVNULL) for j in range(len(JOBS))]
  for p in ps:
    try:
      p.wait(timeout=900)
    except subprocess.TimeoutExpired:
      p.kill()
  print(f"warm: {time.time() - t0:.1f}s")
