"""C13 reset_data restores a fresh Data (model-based, generated histories and masks)."""

from __future__ import annotations

import numpy as np
import warp as wp
from hypothesis import strategies as st

import mujoco
import mujoco_warp as mjw

from vf import gen, mjw as H
from vf.core import Reject, check_close, check_equal

RULE = (
  "case = rich model incl. activation dimension > actuator count (dyntype=user actdim>1), actuator/sensor delays, mocap, inactive equalities, userdata; "
  "1-4 worlds; history of 1-6 steps with random ctrl/xfrc/mocap/eq_active/userdata edits; reset_data(mask) with mask None/bool/int, all/none/single/random; "
  "then 3 more steps. Model: selected worlds == same world of a fresh make_data (state fields, act, act_dot, history, eq_active, mocap, userdata, time, overflow, "
  "and the subsequent trajectory, bitwise); unselected worlds == a twin Data with the same history that was never reset (state, contact multiset, trajectory). "
  "history is cross-checked against MuJoCo mj_resetData. evaluation = one world judged; non-trivial = partial mask with contacts in an unselected world, or na>nu, or nhistory>0"
)
ASSUMPTIONS = ["fresh make_data and MuJoCo mj_resetData are the reference", "same nworld/capacities for all compared Data objects (bitwise comparison)"]
BUDGET = {"quick": dict(examples=240, seconds=420, workers=16), "thorough": dict(examples=5000, seconds=1500, workers=16)}

_STATE = ["time", "qpos", "qvel", "act", "history", "qacc_warmstart", "ctrl", "qfrc_applied", "xfrc_applied", "eq_active", "mocap_pos", "mocap_quat", "userdata", "act_dot", "qacc", "overflow"]
_TRAJ = ["time", "qpos", "qvel", "act", "history", "qacc_warmstart", "qacc", "sensordata"]


def strategy(tier):
  return st.fixed_dictionaries(
    dict(
      cfg=gen.rich_cfg(
        actuators=st.integers(1, 3),
        act_menu=st.sampled_from([["general"], ["motor", "general", "position"], ["general", "intvelocity"]]),
        dyn_menu=st.sampled_from([["user"], ["none", "integrator", "user"], ["filter", "filterexact", "integrator"]]),
        delays=st.booleans(),
        nuserdata=st.integers(0, 3),
        mocap=st.integers(0, 1),
        equalities=st.integers(0, 2),
        p_eq_inactive=0.5,
      ),
      opt=gen.option_strategy(integrators=("Euler", "implicitfast", "RK4")),
      sensor_delay=st.booleans(),
      nworld=st.integers(1, 4),
      hist=st.integers(1, 6),
      mask_kind=st.sampled_from(["none_arg", "all", "nothing", "single", "random", "random"]),
      mask_dtype=st.sampled_from(["bool", "int"]),
      seed=st.integers(0, 10**6),
    )
  )


def build(case):
  cfg = dict(case["cfg"])
  cfg["option"] = dict(case["opt"], timestep=0.002)
  cfg["timestep"] = 0.002
  spec = gen.make_spec(cfg)
  if case["sensor_delay"]:
    scal = [j["name"] for b in spec["bodies"] for j in b["joints"] if j["type"] in ("hinge", "slide")]
    for k, jn in enumerate(scal[:2]):
      spec["sensors"].append(dict(kind="jointpos" if k == 0 else "jointvel", joint=jn, delay=0.004 * (k + 1), nsample=3 + k, interp=["zoh", "linear"][k]))
    # vector-valued delayed / interval sensors (history value blocks of n*dim entries)
    sites = [s_["name"] for b in spec["bodies"] for s_ in b["sites"]]
    kinds = [("framepos", dict(delay=0.006, nsample=3, interp="linear")), ("framequat", dict(delay=0.004, nsample=2)), ("framelinvel", dict(interval=[0.006, -0.002], delay=0.002, nsample=2))]
    for k, sn in enumerate(sites[:3]):
      kind, extra = kinds[(k + case["seed"]) % 3]
      spec["sensors"].append(dict(kind=kind, objtype="site", objname=sn, **extra))
  return H.compile_spec(spec)


def edit(mjm, d, g):
  """Random user edits of the non-physics state (same for every Data that replays the history)."""
  n = d.nworld
  if mjm.nu:
    d.ctrl.assign(H.f32(g.normal(size=(n, mjm.nu))).astype(np.float32))
  x = g.normal(size=(n, mjm.nbody, 6)) * (g.uniform(size=(n, 1, 1)) < 0.5)
  x[:, 0] = 0
  d.xfrc_applied.assign(x.astype(np.float32))
  d.qfrc_applied.assign((0.3 * g.normal(size=(n, mjm.nv))).astype(np.float32))
  if mjm.neq:
    d.eq_active.assign(g.uniform(size=(n, mjm.neq)) < 0.6)
  if mjm.nmocap:
    d.mocap_pos.assign((d.mocap_pos.numpy() + 0.05 * g.normal(size=(n, mjm.nmocap, 3))).astype(np.float32))
  if mjm.nuserdata:
    d.userdata.assign(g.normal(size=(n, mjm.nuserdata)).astype(np.float32))
  if mjm.na:
    # activations are state: also perturb them (dyntype=user keeps whatever is written)
    d.act.assign((d.act.numpy() + 0.1 * g.normal(size=(n, mjm.na))).astype(np.float32))


def run_history(mjm, m, d, case):
  g = np.random.default_rng(case["seed"])
  n = d.nworld
  H.set_data(d, [H.rand_state(mjm, case["seed"] + 17 * w, sigma=0.1, vel=0.5) for w in range(n)])
  for _ in range(case["hist"]):
    edit(mjm, d, g)
    mjw.step(m, d)


def world_contacts(d, w):
  c = H.contacts(d, w)
  o = H.contact_sort_key(c)
  return dict(geom=c["geom"][o], dist=c["dist"][o], pos=c["pos"][o], dim=c["dim"][o])


def check(case, rec):
  mjm = build(case)
  if mjm.nv == 0:
    raise Reject("nv=0")
  m = H.put_model(mjm)
  n = case["nworld"]
  caps = dict(nconmax=120, njmax=400)
  D = H.make_data(mjm, nworld=n, **caps)
  T = H.make_data(mjm, nworld=n, **caps)  # twin: same history, never reset
  F = H.make_data(mjm, nworld=n, **caps)  # fresh
  run_history(mjm, m, D, case)
  run_history(mjm, m, T, case)
  if not np.all(np.isfinite(D.qpos.numpy())):
    rec.inconclusive += 1
    return
  g = np.random.default_rng(case["seed"] + 5)
  kind = case["mask_kind"]
  if kind in ("none_arg", "all"):
    mask = np.ones(n, dtype=bool)
  elif kind == "nothing":
    mask = np.zeros(n, dtype=bool)
  elif kind == "single":
    mask = np.zeros(n, dtype=bool)
    mask[int(g.integers(0, n))] = True
  else:
    mask = g.uniform(size=n) < 0.5
  before = {w: world_contacts(D, w) for w in range(n)}
  if kind == "none_arg":
    mjw.reset_data(m, D)
  elif case["mask_dtype"] == "bool":
    mjw.reset_data(m, D, wp.array(mask, dtype=bool))
  else:
    mjw.reset_data(m, D, wp.array(mask.astype(np.int32) * 3, dtype=int))

  # MuJoCo reference for the history buffer
  mjd = mujoco.MjData(mjm)
  mujoco.mj_resetData(mjm, mjd)
  fresh = {k: getattr(F, k).numpy() for k in _STATE}
  got = {k: getattr(D, k).numpy() for k in _STATE}
  twin = {k: getattr(T, k).numpy() for k in _STATE}
  for w in range(n):
    rec.ev()
    if mask[w]:
      for k in _STATE:
        check_equal(rec, k, got[k][w], fresh[k][w], sig=f"selected:{k}", world=w, mask=mask.tolist())
      if mjm.nhistory:
        check_close(rec, "history_vs_mujoco", got["history"][w], mjd.history, 1e-6, sig="selected:history-mujoco", world=w)
      cw = world_contacts(D, w)
      if len(cw["dist"]) != 0:
        rec.violation(f"reset world {w} still reports {len(cw['dist'])} contacts", sig="selected:contacts", world=w, mask=mask.tolist())
    else:
      for k in _STATE:
        check_equal(rec, k, got[k][w], twin[k][w], sig=f"unselected:{k}", world=w, mask=mask.tolist())
      cw = world_contacts(D, w)
      for f in ("geom", "dist", "pos", "dim"):
        check_equal(rec, f"contact.{f}", cw[f], before[w][f], sig="unselected:contacts", world=w, mask=mask.tolist(), ncon_before=len(before[w]["dist"]), ncon_after=len(cw["dist"]))
  # fresh make_data must also agree with MuJoCo's initial history
  if mjm.nhistory:
    check_close(rec, "make_data_history_vs_mujoco", fresh["history"][0], mujoco.MjData(mjm).history, 1e-6, sig="make_data:history")

  # subsequent trajectory: D vs fresh (selected) / twin (unselected), same controls everywhere
  g2 = np.random.default_rng(case["seed"] + 9)
  for s in range(3):
    ctrl = H.f32(g2.normal(size=(n, mjm.nu))).astype(np.float32)
    for d in (D, T, F):
      if mjm.nu:
        d.ctrl.assign(ctrl)
      mjw.step(m, d)
    for w in range(n):
      ref = F if mask[w] else T
      for k in _TRAJ:
        check_equal(rec, f"traj.{k}", getattr(D, k).numpy()[w], getattr(ref, k).numpy()[w], sig=f"{'selected' if mask[w] else 'unselected'}:traj:{k}", world=w, step=s, mask=mask.tolist())
    # keep ctrl of the reference runs identical: F/T worlds not compared may diverge, that is fine
  partial = 0 < int(mask.sum()) < n
  uns_con = any((not mask[w]) and len(before[w]["dist"]) > 0 for w in range(n))
  rec.cls(f"mask:{kind}", f"dtype:{case['mask_dtype']}", f"na>nu:{mjm.na > mjm.nu}", f"nhistory>0:{mjm.nhistory > 0}", f"partial_with_contacts:{partial and uns_con}")
  if (partial and uns_con) or mjm.na > mjm.nu or mjm.nhistory > 0:
    rec.nt()
