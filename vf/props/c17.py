"""C17 No out-of-bounds access or crash on accepted inputs (fuzzing under Warp's bounds-checked debug build)."""

from __future__ import annotations

import numpy as np
import warp as wp
from hypothesis import strategies as st

import mujoco
import mujoco_warp as mjw

from vf import gen, mjw as H
from vf.core import Reject

WARP_MODE = "debug"  # every array access is asserted in range; a failed assertion kills the worker (SIGILL)
CRASH_IS_VIOLATION = True  # vf.check turns a dead worker into VIOLATION with the case that was running

RULE = (
  "case = random model from the wide grammar (contacts incl. box/mesh/ellipsoid/cylinder, every constraint kind, tendons, actuators with dynamics and delays, mocap, "
  "sleeping with/without islands) x solver/cone/jacobian/integrator x capacities drawn from {0, tiny, near the measured need, ample} for nconmax/naconmax, njmax, njmax_nnz, "
  "nvmax, nccdmax x 1-3 worlds x random finite state x program of 2-6 public calls (step, forward, step1/step2, inverse, fwd_* stages, reset_data with masks, get_data_into, "
  "contact_force, get_state/set_state); oracle: run under Warp's debug build (bounds-asserted array accesses): the worker process must survive and no simulation function may "
  "raise; exceptions from put_model/make_data/put_data are clean rejections; evaluation = one executed call; non-trivial = a call ran with nefc>0 or nacon>0 under a non-ample capacity "
  "or with sleeping enabled"
)
ASSUMPTIONS = [
  "Warp debug mode asserts 0 <= i < shape for every array access (negative indices >= -shape wrap as in Python and are not trapped)",
  "NaN-free inputs; numerical blow-up is not judged here",
  "CPU device",
]
BUDGET = {"quick": dict(examples=160, seconds=420, workers=16), "thorough": dict(examples=6000, seconds=2400, workers=16)}

_CALLS = ["step", "step", "forward", "step12", "inverse", "stages", "reset", "reset_mask", "get_data_into", "contact_force", "state_roundtrip", "collision", "sensor"]


def strategy(tier):
  base = _strategy(tier)
  # 1 case in 6: many kinematic trees densely linked by constraint rows, sleeping with islands (island discovery: edge lists, flood-fill work stack, cycles)
  dense = _strategy(
    tier,
    cfg_over=dict(nroot=st.sampled_from([5, 6, 7, 8]), maxdepth=st.integers(0, 1), equalities=st.sampled_from([10, 14, 18]), eq_menu=st.sampled_from([["connect"], ["connect", "weld"]]), p_eq_inactive=0.0,
                  tendons=0, spatial_tendons=0, actuators=st.integers(0, 1)),
    over=dict(sleep=st.just(True), island=st.just(True), nworld=st.sampled_from([1, 2])),
  )
  return st.one_of(base, base, base, base, base, dense)


def _strategy(tier, cfg_over=None, over=None):
  cap = st.sampled_from(["ample", "ample", "zero", "one", "tiny", "near"])
  cfg_kw = dict(
        nroot=st.integers(1, 4),
        geom_menu=st.sampled_from([["sphere", "capsule", "box"], ["box", "mesh", "ellipsoid", "cylinder", "sphere"], ["sphere"], ["capsule", "box"]]),
        equalities=st.integers(0, 3),
        tendons=st.integers(0, 2),
        spatial_tendons=st.integers(0, 1),
        wrap=st.booleans(),
        limits=st.sampled_from([0.0, 0.6]),
        frictionloss=st.sampled_from([0.0, 0.4]),
        actuators=st.integers(0, 3),
        act_menu=st.sampled_from([["motor", "position"], ["general", "intvelocity", "cylinder", "muscle"], ["adhesion", "motor"], ["damper", "velocity"]]),
        trn_menu=st.sampled_from([["joint"], ["joint", "tendon", "site", "body"], ["slidercrank", "jointinparent", "joint"]]),
        dyn_menu=["none", "integrator", "filter", "filterexact"],
        delays=st.booleans(),
        margin=st.booleans(),
        mocap=st.integers(0, 1),
        sleep_policy=st.sampled_from([None, None, None, ["auto", "never", "allowed", "init"]]),  # put_model accepts only "auto": the others are clean rejections
        nkey=0,
  )
  cfg_kw.update(cfg_over or {})
  d = dict(
      cfg=gen.rich_cfg(**cfg_kw),
      opt=gen.option_strategy(),
      sleep=st.sampled_from([False, False, True]),
      island=st.booleans(),
      nworld=st.integers(1, 3),
      cap_con=cap,
      cap_con_kind=st.sampled_from(["nconmax", "naconmax"]),
      cap_j=st.sampled_from(["ample", "ample", "zero", "one", "tiny", "near", "m16", "m16"]),
      cap_nnz=st.sampled_from(["default", "default", "zero", "tiny", "near"]),
      cap_nv=st.sampled_from(["default", "default", "half", "one"]),
      cap_ccd=st.sampled_from(["default", "default", "one"]),
      calls=st.lists(st.sampled_from(_CALLS), min_size=2, max_size=6),
      seed=st.integers(0, 10**6),
      sigma=st.sampled_from([0.05, 0.3]),
  )
  d.update(over or {})
  return st.fixed_dictionaries(d)


def _cap(kind, need, rng_i):
  # values are quantised to a small menu so that the number of kernel specialisations (debug builds are slow to compile) stays bounded
  if kind == "ample":
    return None
  if kind == "zero":
    return 0
  if kind == "one":
    return 1
  if kind == "tiny":
    return [2, 3, 5][rng_i % 3]
  if kind == "m16":
    # a multiple of 16 just below the need: per-row arrays are padded to multiples of 16, so only then does a row block that straddles
    # the capacity reach past the allocation
    return max(16, (max(need - 1, 0) // 16) * 16 - 16 * (rng_i % 2 if need > 32 else 0))
  return max(0, need + [-1, 0, 1][rng_i % 3])  # near


def check(case, rec):
  cfg = dict(case["cfg"])
  if cfg.get("sleep_policy") is None or not case["sleep"]:
    cfg.pop("sleep_policy", None)
  opt = dict(case["opt"])
  flags = {}
  if case["sleep"]:
    opt["solver"] = "Newton"
    flags["sleep"] = "enable"
  if not case["island"]:
    flags["island"] = "disable"
  if cfg.get("margin") and {"box", "mesh"} & set(cfg.get("geom_menu", [])):
    flags["multiccd"] = "disable"  # put_model rejects margins on box/mesh pairs with MULTICCD (and on box-box with NATIVECCD): keep such models in the domain
    if "box" in cfg.get("geom_menu", []):
      flags["nativeccd"] = "disable"
  if flags:
    opt["flags"] = flags
  cfg["option"] = opt
  cfg["timestep"] = 0.002
  mjm = H.compile_spec(gen.make_spec(cfg))
  if mjm.nv == 0:
    raise Reject("nv=0")
  n = case["nworld"]
  m = H.put_model(mjm)
  states = [H.rand_state(mjm, case["seed"] + 31 * w, sigma=case["sigma"], vel=1.0, applied=(w % 2 == 0)) for w in range(n)]

  # measuring run (ample) to aim the "near" capacities; it runs under the debug build as well
  AMPLE = dict(nconmax=64, njmax=256)
  d0 = H.make_data(mjm, nworld=n, **AMPLE)
  H.set_data(d0, states)
  mjw.forward(m, d0)
  rec.ev()
  need_con = int(d0.nacon.numpy()[0])
  need_j = int(d0.nefc.numpy().max())
  need_nnz = 0
  if m.is_sparse and need_j:
    rn = d0.efc.J_rownnz.numpy()
    need_nnz = int(max(rn[w, : int(d0.nefc.numpy()[w])].sum() for w in range(n)))
  s = case["seed"]
  kw = {}
  c = _cap(case["cap_con"], need_con if case["cap_con_kind"] == "naconmax" else -(-need_con // n), s)
  kw[case["cap_con_kind"]] = 64 * (n if case["cap_con_kind"] == "naconmax" else 1) if c is None else c
  j = _cap(case["cap_j"], need_j, s // 3)
  kw["njmax"] = 256 if j is None else j
  if case["cap_nnz"] != "default" and m.is_sparse:
    kw["njmax_nnz"] = _cap(case["cap_nnz"], need_nnz, s // 9)
  if case["cap_nv"] != "default":
    kw["nvmax"] = max(1, mjm.nv // 2) if case["cap_nv"] == "half" else 1
  if case["cap_ccd"] == "one":
    kw["nccdmax"] = 1
  tight = any(case[k] not in ("ample", "default") for k in ("cap_con", "cap_j", "cap_nnz", "cap_nv", "cap_ccd"))
  d = H.make_data(mjm, nworld=n, **kw)  # ValueError/NotImplementedError -> Reject (clean rejection)
  H.set_data(d, states)
  g = np.random.default_rng(case["seed"])
  busy = False

  def run(name, fn):
    nonlocal busy
    try:
      fn()
    except Reject:
      raise
    except Exception as e:  # a simulation function raised on an accepted input
      rec.violation(f"{name} raised {type(e).__name__}: {str(e)[:300]} (capacities {kw})", sig=f"raises:{name}:{type(e).__name__}", call=name, caps=kw)
    rec.ev()
    rec.cls(f"call:{name}")
    if int(d.nacon.numpy()[0]) > 0 or int(d.nefc.numpy().max()) > 0:
      busy = True

  for name in case["calls"]:
    if name == "step":
      if mjm.nu:
        d.ctrl.assign(H.f32(g.normal(size=(n, mjm.nu))).astype(np.float32))
      run("step", lambda: mjw.step(m, d))
    elif name == "forward":
      run("forward", lambda: mjw.forward(m, d))
    elif name == "step12":
      if case["opt"]["integrator"] == "RK4":
        continue
      run("step1", lambda: mjw.step1(m, d))
      run("step2", lambda: mjw.step2(m, d))
    elif name == "inverse":
      run("forward", lambda: mjw.forward(m, d))
      run("inverse", lambda: mjw.inverse(m, d))
    elif name == "stages":
      def stages():
        mjw.fwd_position(m, d)
        mjw.sensor_pos(m, d)
        mjw.fwd_velocity(m, d)
        mjw.sensor_vel(m, d)
        mjw.fwd_actuation(m, d)
        mjw.fwd_acceleration(m, d)
        mjw.solve(m, d)
        mjw.sensor_acc(m, d)
      run("stages", stages)
    elif name == "reset":
      run("reset_data", lambda: mjw.reset_data(m, d))
    elif name == "reset_mask":
      mask = wp.array(g.uniform(size=n) < 0.5, dtype=bool)
      run("reset_data(mask)", lambda: mjw.reset_data(m, d, mask))
    elif name == "get_data_into":
      def gdi():
        for w in range(n):
          mjd = mujoco.MjData(mjm)
          mjw.get_data_into(mjd, mjm, d, world_id=w)
      run("get_data_into", gdi)
    elif name == "contact_force":
      def cf():
        ids = wp.array(np.arange(max(1, d.naconmax), dtype=np.int32), dtype=int)
        out = wp.zeros(max(1, d.naconmax), dtype=wp.spatial_vector)
        mjw.contact_force(m, d, ids, bool(case["seed"] % 2), out)
      run("contact_force", cf)
    elif name == "state_roundtrip":
      def rt():
        st_ = H.get_state(m, d, mjm)
        H.set_state(m, d, mjm, st_)
      run("get_state/set_state", rt)
    elif name == "collision":
      def col():
        mjw.kinematics(m, d)
        mjw.com_pos(m, d)
        mjw.collision(m, d)
        mjw.make_constraint(m, d)  # keep contacts and constraint rows consistent (a lone collision() leaves stale rows behind)
      run("collision", col)
    elif name == "sensor":
      def sen():
        mjw.forward(m, d)
        mjw.energy_pos(m, d)
        mjw.energy_vel(m, d)
      run("sensor", sen)
  rec.cls(f"tight:{tight}", f"sleep:{case['sleep']}", f"island:{case['island']}", f"sparse:{bool(m.is_sparse)}", f"solver:{opt['solver']}", f"cone:{opt['cone']}",
          f"cap_con:{case['cap_con']}", f"cap_j:{case['cap_j']}", f"cap_nnz:{case['cap_nnz'] if m.is_sparse else 'n/a'}", f"cap_nv:{case['cap_nv']}")
  if busy and (tight or case["sleep"]):
    rec.nt()
