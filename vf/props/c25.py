"""C25 Solver termination is correctly reported and transparent."""

from __future__ import annotations

import numpy as np
from hypothesis import strategies as st

import mujoco_warp as mjw
from mujoco_warp._src.types import OverflowType as OT

from vf import gen, mjw as H
from vf.core import Reject, check_equal

RULE = (
  "case = rich constrained model x batch of 2-4 worlds of different difficulty (different states) x solver/cone/jacobian; reference = forward() with "
  "iteration limit 200 giving N*_w per world; then limits L in {1..max N*+2} (quick: subset) and graph_conditional on/off. Oracle: niter_w <= L; "
  "L < N*_w => niter_w == L and ITERATIONS bit set; L >= N*_w => niter_w == N*_w, bit clear, qacc and efc.force bit-identical to the reference; "
  "per-world tolerances (batched opt.tolerance, a third of the cases): world w of the mixed batch stops exactly where it stops when every world gets w's tolerance (niter, bit, qacc bit-identical), "
  "also under limits just below the per-world counts; companion invariance: replacing the other worlds' states (same batch size and position) leaves world 0's niter/qacc/efc.force bit-identical; "
  "evaluation = one (limit or companion) run; non-trivial = worlds with >=2 distinct N*; at L=0 only niter==0 is judged"
)
ASSUMPTIONS = ["CPU device; same batch size and world position in all compared runs, so bitwise equality is demanded", "L=0: the statement does not pin the ITERATIONS bit (no tolerance test is ever evaluated)"]
BUDGET = {"quick": dict(examples=160, seconds=420, workers=16), "thorough": dict(examples=3000, seconds=1500, workers=16)}


def strategy(tier):
  return st.fixed_dictionaries(
    dict(
      cfg=gen.rich_cfg(actuators=0, mocap=0),
      opt=gen.option_strategy(integrators=("Euler",)),
      nworld=st.integers(2, 4),
      seed=st.integers(0, 10**6),
      limits=st.lists(st.integers(0, 40), min_size=2, max_size=4),
      graph_conditional=st.booleans(),
      # per-world solver tolerances (batched Option field, >= 1e-6: put_model's clamp), None = the model's single tolerance
      tols=st.sampled_from([None, None, [1e-6, 1e-2, 1e-4, 1e-3], [1e-2, 1e-6, 1e-6, 1e-4], [1e-4, 1e-4, 1e-2, 1e-6]]),
    )
  )


def solve(mjm, m, states, L, graph_conditional=True, tol=None):
  import warp as wp

  m.opt.iterations = int(L)
  if tol is not None:
    m.opt.tolerance = wp.array(np.atleast_1d(np.asarray(tol, dtype=np.float32)), dtype=float)  # shape (1,) or (nworld,)
  m.opt.graph_conditional = bool(graph_conditional)
  d = H.make_data(mjm, nworld=len(states), nconmax=120, njmax=400)
  H.set_data(d, states)
  mjw.forward(m, d)
  return dict(
    niter=d.solver_niter.numpy().copy(),
    overflow=d.overflow.numpy().copy(),
    qacc=d.qacc.numpy().copy(),
    force=d.efc.force.numpy().copy(),
    nefc=d.nefc.numpy().copy(),
    qfrc=d.qfrc_constraint.numpy().copy(),
  )


def check(case, rec):
  cfg = dict(case["cfg"])
  cfg["option"] = dict(case["opt"])
  mjm = H.compile_spec(gen.make_spec(cfg))
  if mjm.nv == 0:
    raise Reject("nv=0")
  m = H.put_model(mjm)
  n = case["nworld"]
  # worlds of different difficulty: world 0 near qpos0, later worlds more perturbed / faster
  states = [H.rand_state(mjm, case["seed"] + 11 * w, sigma=0.05 + 0.15 * w, vel=0.2 + 1.5 * w, applied=(w % 2 == 1)) for w in range(n)]
  ref = solve(mjm, m, states, 200)
  if not np.all(np.isfinite(ref["qacc"])):
    rec.inconclusive += 1
    return
  converged = (ref["overflow"] & int(OT.ITERATIONS)) == 0
  N = ref["niter"]
  rec.cls(f"solver:{case['opt']['solver']}", f"cone:{case['opt']['cone']}", f"sparse:{bool(m.is_sparse)}", f"distinct_N:{len(set(N.tolist())) > 1}", f"any_unconverged:{not converged.all()}")
  for w in range(n):
    if N[w] > 200:
      rec.violation(f"niter {N[w]} exceeds limit 200", sig="niter>limit", world=w)

  # companion invariance
  for variant in ("easy", "hard"):
    others = []
    for w in range(1, n):
      if variant == "easy":
        s = dict(states[w])
        s["qpos"] = H.f32(mjm.qpos0) + 0 * s["qpos"]
        s["qvel"] = 0 * s["qvel"]
        # lift free bodies far above the floor: no contacts at all
        others.append(H.rand_state(mjm, 1, sigma=0.0, vel=0.0))
      else:
        others.append(H.rand_state(mjm, case["seed"] + 999 * w, sigma=0.6, vel=5.0, applied=True))
    r = solve(mjm, m, [states[0]] + others, 200)
    rec.ev()
    ctx = dict(variant=variant, niter_ref=int(N[0]), niter=int(r["niter"][0]), others_niter=r["niter"][1:].tolist(), ref_others_niter=N[1:].tolist())
    check_equal(rec, "niter[world0]", r["niter"][0], N[0], sig="companion:niter", **ctx)
    check_equal(rec, "qacc[world0]", r["qacc"][0], ref["qacc"][0], sig="companion:qacc", **ctx)
    check_equal(rec, "efc.force[world0]", r["force"][0][: ref["nefc"][0]], ref["force"][0][: ref["nefc"][0]], sig="companion:force", **ctx)
    check_equal(rec, "qfrc_constraint[world0]", r["qfrc"][0], ref["qfrc"][0], sig="companion:qfrc", **ctx)

  # iteration limits
  Nmax = int(N.max())
  limits = sorted({0, 1} | {min(l, Nmax + 2) for l in case["limits"]} | {int(x) for x in N if x <= 40} | {Nmax + 1 if Nmax < 60 else 60})
  for L in limits:
    r = solve(mjm, m, states, L, graph_conditional=case["graph_conditional"])
    rec.ev()
    for w in range(n):
      ctx = dict(L=L, world=w, Nstar=int(N[w]), niter=int(r["niter"][w]), overflow=int(r["overflow"][w]), graph_conditional=case["graph_conditional"])
      if r["niter"][w] > L:
        rec.violation(f"niter exceeds the limit {ctx}", sig="niter>limit", **ctx)
      if L == 0 or int(ref["nefc"][w]) == 0:
        continue
      if not converged[w]:
        continue  # N* unknown for worlds that never converge within 200
      bit = bool(r["overflow"][w] & int(OT.ITERATIONS))
      if L < N[w]:
        if r["niter"][w] != L:
          rec.violation(f"world stopped early without converging {ctx}", sig="limit:niter", **ctx)
        if not bit:
          rec.violation(f"ITERATIONS bit not set although the limit cut the solve short {ctx}", sig="limit:bit-missing", **ctx)
      else:
        if r["niter"][w] != N[w]:
          rec.violation(f"niter differs from the converged count {ctx}", sig="limit:niter-converged", **ctx)
        if bit:
          rec.violation(f"ITERATIONS bit set although the world converged {ctx}", sig="limit:bit-spurious", **ctx)
        check_equal(rec, "qacc", r["qacc"][w], ref["qacc"][w], sig="limit:qacc", **ctx)
        check_equal(rec, "efc.force", r["force"][w][: ref["nefc"][w]], ref["force"][w][: ref["nefc"][w]], sig="limit:force", **ctx)
  # per-world tolerances: world w of the mixed batch must stop exactly where it stops in the same batch with its tolerance given to every world
  if case.get("tols"):
    tols = [float(t) for t in case["tols"][:n]]
    uni = {t: solve(mjm, m, states, 200, tol=[t]) for t in sorted(set(tols))}
    Nw = np.array([int(uni[tols[w]]["niter"][w]) for w in range(n)])
    conv = np.array([not (uni[tols[w]]["overflow"][w] & int(OT.ITERATIONS)) for w in range(n)])
    cand = sorted({200} | {int(x) for x in Nw if 1 <= x <= 60} | {int(x) - 1 for x in Nw if 2 <= x <= 60})
    rec.cls(f"tols:distinctN:{len(set(Nw.tolist())) > 1}")
    for L in cand[:4] if L_quick(case) else cand:
      r = solve(mjm, m, states, L, graph_conditional=case["graph_conditional"], tol=tols)
      rec.ev()
      for w in range(n):
        if not conv[w] or int(ref["nefc"][w]) == 0:
          continue
        u = uni[tols[w]]
        ctx = dict(L=L, world=w, tolerance=tols[w], tols=tols, Nstar=int(Nw[w]), niter=int(r["niter"][w]), overflow=int(r["overflow"][w]))
        bit = bool(r["overflow"][w] & int(OT.ITERATIONS))
        if L < Nw[w]:
          if r["niter"][w] != L:
            rec.violation(f"per-world tolerance: world stopped before the limit without meeting its own tolerance {ctx}", sig="tols:niter", **ctx)
          if not bit:
            rec.violation(f"per-world tolerance: ITERATIONS bit not set although the limit cut the solve short {ctx}", sig="tols:bit-missing", **ctx)
        else:
          if r["niter"][w] != Nw[w]:
            rec.violation(f"per-world tolerance: niter differs from the count under this world's own tolerance {ctx}", sig="tols:niter-converged", **ctx)
          if bit:
            rec.violation(f"per-world tolerance: ITERATIONS bit set although the world met its tolerance {ctx}", sig="tols:bit-spurious", **ctx)
          check_equal(rec, "qacc (per-world tolerance)", r["qacc"][w], u["qacc"][w], sig="tols:qacc", **ctx)
    solve(mjm, m, states, 200, tol=[float(mjm.opt.tolerance if mjm.opt.tolerance >= 1e-6 else 1e-6)])  # (restore the model's own tolerance on m)
    if len(set(Nw.tolist())) > 1 and len(set(tols)) > 1:
      rec.nt(extra="tols")
  if len(set(N.tolist())) > 1:
    rec.nt()


def L_quick(case):
  return True
