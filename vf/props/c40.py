"""C40 Flex deformables agree with MuJoCo C (differential, deliberately narrow grammar)."""

from __future__ import annotations

import numpy as np
from hypothesis import strategies as st

import mujoco
import mujoco_warp as mjw

from vf import mjw as H
from vf.core import Reject, check_close, check_equal

RULE = (
  "case = (3 in 4) one <flexcomp> (1D grid/circle 3-8 verts, 2D grid 3x3..5x5, 3D grid/box 2x2x2..3x3x3; dof=full vertex bodies, dof=2d/radial, dof=trilinear node bodies) under the "
  "world or under a jointed parent body, random spacing/mass/radius, one of {edge equality, strain equality (trilinear), elasticity young/poisson/damping/elastic2d, edge "
  "stiffness/damping, nothing}, pinned vertices, selfcollide none/narrow/bvh/sap/auto, optionally one colliding plane/sphere/capsule/box (static or on a free body) placed at a drawn "
  "penetration under a drawn vertex, condim 1/3/4/6, margin, both cones, dense/sparse, Newton/CG x random small deformation (qpos, qvel; optional fold that brings two non-adjacent "
  "vertices within a radius) in 1-2 worlds with different states; (1 in 4) a hand-written <deformable><flex> (dim 1 chain / dim 2 triangle strip) over 3-5 user bodies with "
  "free/ball/hinge/3-slide/no joints in separate kinematic trees, vertices offset from the body frames, optionally two vertices on one body, edge equality or elasticity with damping, random poses and velocities. oracle = mj_forward on the float32-rounded state: flexvert_xpos; flexedge_length/velocity/J where MuJoCo computes "
  "them; qfrc_spring/damper/passive; ne and the flex equality rows (J,pos,vel,D,aref, matched per equality); flex contacts as a multiset keyed by (geom,flex,elem,vert) per side: "
  "exact for flex-plane (dist/pos/normal/params); presence, deepest penetration, normal orientation and parameters (MuJoCo contacts without an MJWarp contact nearby reported under their own signature) for "
  "non-plane geoms and self-collision; all constraint rows when the contact sets are identical (qacc is recorded as a statistic only). one evaluation = one world compared; non-trivial = MuJoCo reports >=1 "
  "flex contact or >=1 flex equality row or a non-zero flex elastic force; distinct by sha1(case)"
)
ASSUMPTIONS = [
  "MuJoCo C 3.13 mj_forward is the reference",
  "flexedge_length / flexedge_velocity / flexedge_J are compared only where MuJoCo computes them (reference array not identically zero: MuJoCo skips them for interpolated and for constraint-free, force-free flexes)",
  "contacts within 1e-4 of the inclusion margin are boundary-skipped; a MuJoCo flex pair truncated at mjMAXCONPAIR=50 is not used for the one-sided comparison",
  "tolerances: positions/lengths 2e-5*scale, edge velocity/J 1e-4, passive forces 5e-4*scale, rows J 5e-4 / pos 1e-4 / D, aref 2e-3 relative, contact geometry 1e-4 (plane, 1D) and 2e-3 (element narrow phase)",
]
BUDGET = {"quick": dict(examples=200, seconds=420, workers=16), "thorough": dict(examples=12000, seconds=1500, workers=16)}

_CONTACT_TYPES = (5, 6, 7)
_NCONMAX, _NJMAX = 600, 2400

# topology menus: (dim, type, count, dof)
_TOPO_QUICK = [
  (1, "grid", [4, 1, 1], "full"),
  (1, "grid", [6, 1, 1], "full"),
  (2, "grid", [3, 3, 1], "full"),
  (2, "grid", [4, 4, 1], "full"),
  (3, "grid", [2, 2, 2], "full"),
  (3, "grid", [3, 3, 3], "trilinear"),
  (3, "box", [3, 3, 3], "full"),
]
_TOPO_THOROUGH = _TOPO_QUICK + [
  (1, "grid", [3, 1, 1], "full"),
  (1, "grid", [5, 1, 1], "full"),
  (1, "grid", [8, 1, 1], "full"),
  (1, "circle", [6, 1, 1], "full"),
  (1, "grid", [5, 1, 1], "radial"),
  (2, "grid", [3, 4, 1], "full"),
  (2, "grid", [5, 5, 1], "full"),
  (2, "grid", [3, 3, 1], "2d"),
  (3, "grid", [2, 3, 2], "full"),
  (3, "grid", [3, 3, 3], "full"),
  (3, "grid", [2, 2, 2], "trilinear"),
  (3, "box", [3, 3, 3], "trilinear"),
  (3, "grid", [3, 2, 3], "trilinear"),
]


def _topos(tier):
  return _TOPO_THOROUGH if tier == "thorough" else _TOPO_QUICK


def strategy(tier):
  f = lambda a, b: st.floats(a, b, allow_nan=False, allow_infinity=False)
  geom = st.fixed_dictionaries(
    dict(
      kind=st.sampled_from(["none", "plane", "plane", "sphere", "capsule", "box"]),
      pen=st.sampled_from([-0.003, 0.001, 0.004, 0.01]),
      tv=f(0.0, 0.999),
      off=st.tuples(f(-0.5, 0.5), f(-0.5, 0.5)),
      euler=st.tuples(f(-12, 12), f(-12, 12), f(-90, 90)),
      size=st.tuples(f(0.03, 0.1), f(0.03, 0.12), f(0.02, 0.06)),
      free=st.booleans(),
    )
  )
  return st.fixed_dictionaries(
    dict(
      tier=st.just(tier),
      topo=st.sampled_from(list(range(len(_topos(tier))))),
      spacing=st.tuples(*[st.sampled_from([0.05, 0.08, 0.1, 0.15])] * 3),
      mass=f(0.1, 5.0),
      rfrac=f(0.05, 0.4),
      # weights: the classes with a recorded defect (edge stiffness/damping, jointed parent) are kept rare so that the rest is judged
      mode=st.sampled_from(["equality"] * 6 + ["elastic"] * 6 + ["none"] * 2 + ["edge"]),
      young=st.sampled_from([3e2, 1e3, 1e4, 5e4]),
      poisson=f(0.0, 0.45),
      edamp=st.sampled_from([0.0, 0.003, 0.03]),
      thickness=st.sampled_from([0.005, 0.02]),
      elastic2d=st.sampled_from(["both", "both", "stretch", "bend"]),
      estiff=st.sampled_from([0.0, 5.0, 80.0]),
      edgedamp=st.sampled_from([0.0, 0.2]),
      selfcollide=st.sampled_from(["none", "none", "narrow", "bvh", "sap", "auto"]),
      geom=geom,
      condim=st.sampled_from([3, 3, 1, 4, 6]),
      margin=st.sampled_from([0.0, 0.0, 0.004]),
      friction=f(0.2, 1.5),
      pins=st.sampled_from([[], [], [0.0], [0.0, 0.999], [0.5]]),
      parent=st.sampled_from(["world"] * 9 + ["moving"]),
      cone=st.sampled_from(["pyramidal", "elliptic"]),
      jacobian=st.sampled_from(["dense", "sparse"]),
      solver=st.sampled_from(["Newton", "CG"]),
      nworld=st.sampled_from([1, 2]),
      seed=st.integers(0, 10**6),
      sigma=st.sampled_from([0.0, 0.003, 0.01, 0.03]),
      vel=st.sampled_from([0.0, 0.3, 1.0]),
      fold=st.sampled_from([False, False, True]),
      # hand-written <deformable><flex> over user bodies with free / ball / hinge / slide joints in separate kinematic trees, vertices offset from the body frames
      # contact parameter mixing: priorities of the flex and of the geom, a geom condim of its own (the higher priority side wins, else the max condim)
      fprio=st.sampled_from([0, 0, 0, 1, 2]),
      gprio=st.sampled_from([0, 0, 1]),
      gcondim=st.sampled_from([0, 0, 1, 3, 4, 6]),
      raw=st.sampled_from([0, 0, 0, 1]),
      raw_n=st.integers(3, 5),
      raw_joints=st.lists(st.sampled_from(["free", "free", "ball", "hinge", "slide", "none"]), min_size=5, max_size=5),
      raw_dim=st.sampled_from([1, 2, 2]),
      raw_share=st.booleans(),
    )
  )


# --------------------------------------------------------------------------------------
# model


def _flex_xml(case, geom_xml=""):
  dim, typ, count, dof = _topos(case["tier"])[case["topo"]]
  sp = [float(s) for s in case["spacing"]]
  if typ == "circle":
    sp = [sp[0]] * 3
  active = sp[:dim] if typ != "circle" else sp[:1]
  radius = float(case["rfrac"]) * min(sp)  # flexcomp requires spacing > 2*radius on every axis
  interp = dof == "trilinear"
  mode = case["mode"]
  if interp:
    mode = {"equality": "strain", "edge": "elastic"}.get(mode, mode)
  elif dim == 1 and mode == "elastic":
    mode = "equality"  # 1D elasticity produces no force
  elif dim > 1 and mode == "edge":
    mode = "elastic"  # MuJoCo: edge stiffness only for dim=1
  elif dof in ("2d", "radial") and mode == "elastic":
    mode = "equality"
  inner = []
  if mode == "equality":
    inner.append('<edge equality="true"/>')
  elif mode == "strain":
    inner.append('<edge equality="strain"/>')
  elif mode == "edge":
    inner.append(f'<edge stiffness="{case["estiff"]}" damping="{case["edgedamp"]}"/>')
  elif mode == "elastic":
    extra = f' thickness="{case["thickness"]}" elastic2d="{case["elastic2d"]}"' if dim == 2 else ""
    inner.append(f'<elasticity young="{case["young"]}" poisson="{float(case["poisson"]):.6f}" damping="{case["edamp"]}"{extra}/>')
  sc = "none" if interp else case["selfcollide"]
  inner.append(f'<contact selfcollide="{sc}" internal="false" condim="{case["condim"]}" priority="{int(case.get("fprio", 0))}" margin="{case["margin"]}" friction="{float(case["friction"]):.6f} 0.005 0.0001"/>')
  nvert = int(np.prod(count)) if typ != "circle" else count[0]
  pins = []
  if not interp and dof == "full":
    pins = sorted({min(nvert - 1, int(p * nvert)) for p in case["pins"]})
    if len(pins) >= nvert - 1:
      pins = pins[:1]
  moving = case["parent"] == "moving"
  if moving and dim == 2 and mode == "elastic":
    pins = []  # MuJoCo: pinned vertices with bending require a jointless pin body
  if pins:
    inner.append(f'<pin id="{" ".join(str(p) for p in pins)}"/>')
  moving = case["parent"] == "moving"
  fpos = "0 0 0" if moving else "0 0 1"
  dofattr = "" if dof == "full" else f' dof="{dof}"'
  flex = (
    f'<flexcomp name="f" type="{typ}" count="{count[0]} {count[1]} {count[2]}" spacing="{sp[0]} {sp[1]} {sp[2]}" dim="{dim}" mass="{float(case["mass"]):.6f}" '
    f'radius="{radius:.6f}" pos="{fpos}"{dofattr}>' + "".join(inner) + "</flexcomp>"
  )
  if moving:
    flex = (
      '<body name="base" pos="0 0 1"><joint type="slide" axis="1 0.3 0"/><joint type="hinge" axis="0 1 0.2"/>'
      '<geom type="sphere" size="0.02" contype="0" conaffinity="0" mass="0.5"/>' + flex + "</body>"
    )
  # a (non-colliding) geom is always present: a flex-only model with a self-contact crashes sensor_acc (recorded C17-class finding)
  dummy = '<geom name="dummy" type="sphere" size="0.01" pos="0 0 -5" contype="0" conaffinity="0"/>'
  jac = "sparse" if 3 * nvert > 60 and not interp else case["jacobian"]  # put_model: dense is unsupported for nv > 60
  xml = (
    f'<mujoco><option timestep="0.002" cone="{case["cone"]}" jacobian="{jac}" solver="{case["solver"]}" iterations="100" tolerance="1e-10"/>'
    f'<size memory="50M"/><worldbody>{dummy}{geom_xml}{flex}</worldbody></mujoco>'
  )
  return xml, dict(dim=dim, typ=typ, dof=dof, interp=interp, mode=mode, radius=radius, selfcollide=sc, pins=pins, moving=moving, spacing=min(active))


def _geom_xml(case, info, vx):
  """Places the colliding geom under vertex `tv` at the drawn penetration (vx: flex vertex positions at qpos0)."""
  x = _geom_xml0(case, info, vx)
  extra = f' priority="{int(case.get("gprio", 0))}"' + (f' condim="{int(case["gcondim"])}"' if case.get("gcondim") else "")
  return x.replace('<geom name="col"', '<geom name="col"' + extra) if x else x


def _geom_xml0(case, info, vx):
  g = case["geom"]
  kind = g["kind"]
  if kind == "none":
    return ""
  # target vertex among the lowest layer, so that the geom touches the flex surface from outside (deep interior overlap is algorithm-dependent)
  low = np.nonzero(vx[:, 2] <= vx[:, 2].min() + 1e-6)[0]
  t = int(low[min(len(low) - 1, int(float(g["tv"]) * len(low)))])
  p = np.array(vx[t], dtype=np.float64)
  r = info["radius"]
  pen = float(g["pen"])
  ex, ey, ez = (float(e) for e in g["euler"])
  s0, s1, s2 = (float(s) for s in g["size"])
  off = np.array([float(g["off"][0]), float(g["off"][1]), 0.0]) * info["spacing"]
  if kind == "plane":
    return f'<geom name="col" type="plane" size="2 2 0.1" pos="{p[0]:.6f} {p[1]:.6f} {p[2] - r + pen:.6f}" euler="{ex * 0.4:.5f} {ey * 0.4:.5f} 0"/>'
  if kind == "sphere":
    c = p + off * 0.3 + np.array([0, 0, -(s0 + r - pen)])
    body = f'<geom name="col" type="sphere" size="{s0:.6f}"'
    eul = "0 0 0"
  elif kind == "capsule":
    c = p + off * 0.3 + np.array([0, 0, -(s2 + r - pen)])
    body = f'<geom name="col" type="capsule" size="{s2:.6f} {s1:.6f}"'
    eul = f"0 {90 + ex:.5f} {ez:.5f}"
  else:
    c = p + off * 0.5 + np.array([0, 0, -(s2 + r - pen)])
    body = f'<geom name="col" type="box" size="{s0:.6f} {s1:.6f} {s2:.6f}"'
    eul = f"{ex * 0.5:.5f} {ey * 0.5:.5f} {ez:.5f}"
  if g["free"]:
    return f'<body name="gb" pos="{c[0]:.6f} {c[1]:.6f} {c[2]:.6f}" euler="{eul}"><freejoint/>{body} mass="0.3"/></body>'
  return f'{body} pos="{c[0]:.6f} {c[1]:.6f} {c[2]:.6f}" euler="{eul}"/>'


def _raw_xml(case):
  """<deformable><flex> on user bodies: the vertex bodies carry rotational dofs (free/ball/hinge), sit in different trees and the vertices are offset from the body origins."""
  g = np.random.default_rng(int(case["seed"]) + 99)
  n = int(case["raw_n"])
  dim = int(case["raw_dim"])
  joints = list(case["raw_joints"])[:n]
  if all(j == "none" for j in joints):
    joints[0] = "free"
  bodies, names = [], []
  for i, j in enumerate(joints):
    pos = np.array([0.3 * i, 0.0, 1.0]) + g.uniform(-0.12, 0.12, 3)
    jx = {"free": "<freejoint/>", "ball": '<joint type="ball"/>', "hinge": f'<joint type="hinge" axis="{g.normal():.4f} {g.normal():.4f} 1"/>',
          "slide": '<joint type="slide" axis="1 0 0"/><joint type="slide" axis="0 1 0"/><joint type="slide" axis="0 0 1"/>', "none": ""}[j]
    bodies.append(f'<body name="b{i}" pos="{pos[0]:.5f} {pos[1]:.5f} {pos[2]:.5f}">{jx}<geom type="box" size=".04 .03 .05" mass="{g.uniform(0.1, 0.5):.4f}" contype="0" conaffinity="0"/></body>')
    names.append(f"b{i}")
  vb = list(names)
  if case["raw_share"]:
    vb.append(names[int(g.integers(0, n - 2))])  # two vertices on one body, never joined by an edge (MuJoCo's compiler crashes on an edge inside one body)
  nv_ = len(vb)
  verts = g.uniform(-0.08, 0.08, (nv_, 3))
  if dim == 1:
    elems = [(i, i + 1) for i in range(nv_ - 1)]
  else:
    elems = [(i, i + 1, i + 2) for i in range(nv_ - 2)]
  mode = {"edge": "none", "strain": "equality"}.get(case["mode"], case["mode"])
  if dim == 1 and mode == "elastic":
    mode = "equality"
  inner = ""
  if mode == "elastic":
    inner = f'<elasticity young="{case["young"]}" poisson="{float(case["poisson"]):.6f}" damping="{case["edamp"]}" thickness="{case["thickness"]}" elastic2d="{case["elastic2d"]}"/>'
  radius = 0.01
  flex = (
    f'<flex name="f" dim="{dim}" body="{" ".join(vb)}" radius="{radius}" element="{" ".join(str(k) for e in elems for k in e)}" '
    f'vertex="{" ".join(f"{x:.5f}" for x in verts.reshape(-1))}">{inner}<contact selfcollide="none" internal="false"/></flex>'
  )
  eq = '<equality><flex flex="f"/></equality>' if mode == "equality" else ""
  dummy = '<geom name="dummy" type="sphere" size="0.01" pos="0 0 -5" contype="0" conaffinity="0"/>'
  xml = (
    f'<mujoco><option timestep="0.002" cone="{case["cone"]}" jacobian="{case["jacobian"]}" solver="{case["solver"]}" iterations="100" tolerance="1e-10"/>'
    f'<size memory="50M"/><worldbody>{dummy}{"".join(bodies)}</worldbody><deformable>{flex}</deformable>{eq}</mujoco>'
  )
  return xml, dict(dim=dim, typ="raw", dof="raw:" + "+".join(sorted(set(joints))), interp=False, mode=mode, radius=radius, selfcollide="none", pins=[], moving=False, spacing=0.3)


def build(case):
  if case.get("raw"):
    xml, info = _raw_xml(case)
    return H.compile_xml(xml), info
  xml0, info = _flex_xml(case)
  if case["geom"]["kind"] == "none":
    return H.compile_xml(xml0), info
  m0 = H.compile_xml(xml0)
  d0 = mujoco.MjData(m0)
  mujoco.mj_kinematics(m0, d0)
  mujoco.mj_flex(m0, d0)
  xml, info = _flex_xml(case, _geom_xml(case, info, np.array(d0.flexvert_xpos)))
  return H.compile_xml(xml), info


def _state(mjm, info, case, w):
  seed = int(case["seed"]) + 31 * w
  s = H.rand_state(mjm, seed, sigma=float(case["sigma"]), vel=float(case["vel"]))
  if not (case["fold"] and info["selfcollide"] != "none" and not info["interp"] and not info["moving"] and info["dof"] == "full"):
    return s, False
  g = np.random.default_rng(seed + 7)
  nvt = mjm.nflexvert
  edges = {tuple(sorted(e)) for e in mjm.flex_edge.reshape(-1, 2).tolist()}
  pick = None
  for _ in range(60):
    a, b = (int(x) for x in g.integers(0, nvt, 2))
    ba = int(mjm.flex_vertbodyid[a])
    if a == b or tuple(sorted((a, b))) in edges or mjm.body_dofnum[ba] != 3 or mjm.body_parentid[ba] != 0:
      continue
    pick = (a, b, ba)
    break
  if pick is None:
    return s, False
  a, b, ba = pick
  mjd = mujoco.MjData(mjm)
  mjd.qpos[:] = s["qpos"]
  mujoco.mj_kinematics(mjm, mjd)
  mujoco.mj_flex(mjm, mjd)
  u = g.normal(size=3)
  u /= np.linalg.norm(u)
  target = mjd.flexvert_xpos[b] + u * g.uniform(1.2, 1.9) * info["radius"]
  adr = int(mjm.jnt_qposadr[mjm.body_jntadr[ba]])
  q = np.array(s["qpos"], dtype=np.float64)
  q[adr : adr + 3] += target - mjd.flexvert_xpos[a]  # vertex bodies: three world-aligned slides
  s["qpos"] = H.f32(q)
  return s, True


# --------------------------------------------------------------------------------------
# contacts


def _canon(c):
  """Orients a contact so that side 0 <= side 1 (flips the normal when the sides are swapped)."""
  if c["s0"] > c["s1"]:
    c["s0"], c["s1"] = c["s1"], c["s0"]
    c["normal"] = -c["normal"]
    c["flipped"] = True
  return c


def _contacts_w(d, w):
  n = min(int(d.nacon.numpy()[0]), d.naconmax)
  c = d.contact
  wid = c.worldid.numpy()[:n]
  idx = np.nonzero(wid == w)[0]
  geom, flex, elem, vert = c.geom.numpy()[:n], c.flex.numpy()[:n], c.elem.numpy()[:n], c.vert.numpy()[:n]
  dist, pos, frame = c.dist.numpy()[:n], c.pos.numpy()[:n], c.frame.numpy()[:n]
  inc, fr, sr, si, dm = c.includemargin.numpy()[:n], c.friction.numpy()[:n], c.solref.numpy()[:n], c.solimp.numpy()[:n], c.dim.numpy()[:n]
  out = []
  for i in idx:
    out.append(
      _canon(
        dict(
          id=int(i),
          s0=(int(geom[i][0]), int(flex[i][0]), int(elem[i][0]), int(vert[i][0])),
          s1=(int(geom[i][1]), int(flex[i][1]), int(elem[i][1]), int(vert[i][1])),
          dist=float(dist[i]),
          pos=np.array(pos[i], dtype=np.float64),
          normal=np.array(frame[i][0], dtype=np.float64),
          includemargin=float(inc[i]),
          friction=np.array(fr[i], dtype=np.float64),
          solref=np.array(sr[i], dtype=np.float64),
          solimp=np.array(si[i], dtype=np.float64),
          dim=int(dm[i]),
          flipped=False,
        )
      )
    )
  return out


def _contacts_m(mjd):
  out = []
  for i in range(mjd.ncon):
    c = mjd.contact[i]
    out.append(
      _canon(
        dict(
          id=i,
          s0=(int(c.geom[0]), int(c.flex[0]), int(c.elem[0]), int(c.vert[0])),
          s1=(int(c.geom[1]), int(c.flex[1]), int(c.elem[1]), int(c.vert[1])),
          dist=float(c.dist),
          pos=np.array(c.pos, dtype=np.float64),
          normal=np.array(c.frame[:3], dtype=np.float64),
          includemargin=float(c.includemargin),
          friction=np.array(c.friction, dtype=np.float64),
          solref=np.array(c.solref, dtype=np.float64),
          solimp=np.array(c.solimp, dtype=np.float64),
          dim=int(c.dim),
          flipped=False,
          exclude=int(c.exclude),
        )
      )
    )
  return out


def _cclass(mjm, c):
  """plane | g1d | gelem | self1d | selfnd | geom (no flex side)."""
  sides = (c["s0"], c["s1"])
  fl = [s[1] for s in sides if s[1] >= 0]
  ge = [s[0] for s in sides if s[0] >= 0]
  if not fl:
    return "geom"
  dim = int(mjm.flex_dim[fl[0]])
  if ge:
    if int(mjm.geom_type[ge[0]]) == int(mujoco.mjtGeom.mjGEOM_PLANE):
      return "plane"
    return "g1d" if dim == 1 else "gelem"
  return "self1d" if dim == 1 else "selfnd"


def _pins_on_geom_body(mjm, g):
  """True if some flex vertex is attached to the weld body of geom g."""
  vb = mjm.flex_vertbodyid
  vb = vb[vb >= 0]
  return bool(np.any(mjm.body_weldid[vb] == mjm.body_weldid[mjm.geom_bodyid[g]]))


def _greedy(A, B, cost):
  cand = sorted((cost(a, b), i, j) for i, a in enumerate(A) for j, b in enumerate(B))
  ua, ub, pairs = set(), set(), []
  for c, i, j in cand:
    if i in ua or j in ub:
      continue
    ua.add(i)
    ub.add(j)
    pairs.append((i, j, c))
  return pairs


def _compare_contacts(rec, mjm, cw, cm, ctx):
  """Returns (identical, idmap W contact id -> M contact id)."""
  clsw = [_cclass(mjm, c) for c in cw]
  clsm = [_cclass(mjm, c) for c in cm]
  identical = True
  idmap = {}
  for cl in sorted(set(clsw) | set(clsm)):
    W = [c for c, k in zip(cw, clsw) if k == cl]
    M = [c for c, k in zip(cm, clsm) if k == cl]
    rec.cls(f"contacts:{cl}")
    exact = cl in ("plane", "geom")
    gtol = 1e-4 if exact else 2e-3
    near = lambda c: abs(c["dist"] - c["includemargin"]) < 1e-4 or (c["includemargin"] == 0 and abs(c["dist"] - float(np.max(mjm.flex_margin))) < 1e-4)
    # ---- key multisets
    kw = sorted((c["s0"], c["s1"]) for c in W)
    km = sorted((c["s0"], c["s1"]) for c in M)
    if exact:
      if kw != km:
        if any(near(c) for c in W + M):
          rec.boundary_skipped += 1
          identical = False
          continue
        onlyw = [k for k in kw if k not in km][:3]
        onlym = [k for k in km if k not in kw][:3]
        identical = False
        rec.violation(f"{cl} contacts: key multisets differ ({len(W)} vs MuJoCo {len(M)}): only mjwarp {onlyw} only mujoco {onlym}", sig=f"contacts:{cl}:keys", **ctx)
        continue
      for key in sorted(set(kw)):
        Wk = [c for c in W if (c["s0"], c["s1"]) == key]
        Mk = [c for c in M if (c["s0"], c["s1"]) == key]
        for i, j, _ in _greedy(Wk, Mk, lambda a, b: float(np.linalg.norm(a["pos"] - b["pos"]))):
          a, b = Wk[i], Mk[j]
          idmap[a["id"]] = b["id"]
          _cmp_geometry(rec, cl, a, b, gtol, ctx)
          _cmp_params(rec, cl, a, b, ctx)
      continue
    # ---- one-sided classes: the narrow phases differ by design (MJWarp: one candidate per (geom, element) resp. vertex spheres for 1D flexes, position
    # de-duplication; MuJoCo: a contact per touching element / edge capsule, non-unique closest points on parallel faces).  Judged as C04 judges
    # multi-contact pairs: presence, deepest penetration, orientation of the normal, parameters; MuJoCo contacts with no MJWarp contact nearby are
    # reported under the class' "missing" signature.
    if len(M) >= 50:
      rec.cls(f"contacts:{cl}:mujoco-truncated")
      identical = False
      continue
    if len(W) != len(M) or kw != km:
      identical = False
    gid = [c["s1"][0] for c in W + M if c["s1"][0] >= 0]
    if cl in ("gelem", "g1d") and gid and _pins_on_geom_body(mjm, gid[0]):
      # pinned vertices live on the geom's own (weld) body: MuJoCo filters every vertex/element attached to it, MJWarp's 1D-vertex and 3D-element
      # paths do not (and MJWarp's element ids are not reliable enough to tell which contacts those are): only "MuJoCo's contacts are present" is judged
      rec.cls(f"contacts:{cl}:pins-on-geom-body")
      identical = False
      extra = [a for a in W if not near(a) and not any(float(np.linalg.norm(a["pos"] - b["pos"])) < 3e-3 and abs(a["dist"] - b["dist"]) < 3e-3 for b in M)]
      if extra:
        a = min(extra, key=lambda c: c["dist"])
        rec.violation(
          f"{cl}: {len(extra)} MJWarp contacts between geom {gid[0]} and flex vertices/elements without MuJoCo counterpart while pinned vertices share the geom's (weld) body "
          f"(MuJoCo filters those pairs); deepest at {np.round(a['pos'], 4).tolist()} dist {a['dist']:.5f}",
          sig="contacts:same-body",
          **ctx,
        )
      W = [a for a in W if a not in extra]
      if not W and not M:
        continue
    if W and not M:
      if all(near(c) for c in W):
        rec.boundary_skipped += 1
        continue
      if not exact and all(c["dist"] - c["includemargin"] > -gtol for c in W):
        # within the geometric tolerance of the element narrow phase (2e-3) of not being a contact at all: thorough tier saw a box 7e-5 outside an inflated
        # tetrahedron (independent support-function distance) reported at -8.8e-4 by MJWarp, none by MuJoCo
        rec.boundary_skipped += 1
        rec.cls(f"contacts:{cl}:phantom-within-gtol")
        continue
      a = min(W, key=lambda c: c["dist"])
      if True:
        rec.violation(f"{cl}: MJWarp reports {len(W)} contacts (deepest {a['s0']}-{a['s1']} dist {a['dist']:.5f} at {np.round(a['pos'], 4).tolist()}), MuJoCo none", sig=f"contacts:{cl}:phantom", **ctx)
      continue
    # MuJoCo contacts not covered by any MJWarp contact within the de-duplication radius
    missing = [b for b in M if not near(b) and not any(float(np.linalg.norm(a["pos"] - b["pos"])) < 3e-3 and abs(a["dist"] - b["dist"]) < 3e-3 for a in W)]
    if missing:
      identical = False
      b = min(missing, key=lambda c: c["dist"])
      sig = {"g1d": "contacts:1d-vertex-only", "gelem": "contacts:geom-elem:missing", "selfnd": "contacts:self:missing", "self1d": "contacts:self:missing"}[cl]
      rec.violation(
        f"{cl}: {len(missing)} of {len(M)} MuJoCo contacts have no MJWarp contact within 3e-3 (MJWarp reports {len(W)}); deepest missing {b['s0']}-{b['s1']} dist {b['dist']:.5f} at {np.round(b['pos'], 4).tolist()}",
        sig=sig,
        **ctx,
      )
    if not W:
      continue
    dW, dM = min(c["dist"] for c in W), min(c["dist"] for c in M)
    gbox = cl == "g1d" and gid and int(mjm.geom_type[gid[0]]) == int(mujoco.mjtGeom.mjGEOM_BOX)
    if gbox:
      rec.cls("contacts:g1d:box-deepest-not-judged")  # MuJoCo's capsule-box primitive can miss the deeper end of an edge capsule lying on a box face
    if not missing and not gbox and not any(near(c) for c in W + M):
      rec.err(f"contact.deepest({cl})", abs(dW - dM) if cl != "g1d" else max(0.0, dM - dW))
      # a vertex sphere of a 1D flex is never deeper than the edge capsules it belongs to; otherwise the deepest penetrations agree
      bad = (dW < dM - 2e-3) if cl == "g1d" else abs(dW - dM) > 2e-3
      if bad:
        identical = False
        rad = float(np.max(mjm.flex_radius))
        # recorded finding, routed narrowly: element contact deeper than twice the flex radius, MJWarp shallower than MuJoCo by less than 25 %
        deep = cl == "gelem" and dM < -2.0 * rad and dW > dM and (dW - dM) < 0.25 * abs(dM)
        rec.violation(f"{cl}: deepest penetration {dW:.5f} vs MuJoCo {dM:.5f}", sig=f"contacts:{cl}:deepest" + (":deep-underestimate" if deep else ""), **ctx)
    for a in W:
      best, bj = None, -1
      for j, b in enumerate(M):
        c = float(np.linalg.norm(a["pos"] - b["pos"])) + abs(a["dist"] - b["dist"])
        if best is None or c < best:
          best, bj = c, j
      if best > 2 * gtol:
        rec.cls(f"contacts:{cl}:other-point")
        identical = False
        continue
      b = M[bj]
      dot = float(np.dot(a["normal"], b["normal"]))
      if (a["s0"][0] >= 0) != (b["s0"][0] >= 0):
        dot = -dot
      if dot < -0.9 and cl == "selfnd" and abs(b["dist"] + 2.0 * float(mjm.flex_radius[0])) < 1e-4:
        rec.cls("contacts:selfnd:coplanar-overlap")  # coplanar overlapping elements (dist = -2r): the sign of the normal is arbitrary
        identical = False
      elif dot < -0.9 and cl in ("selfnd", "self1d") and (a["s0"], a["s1"]) != (b["s0"], b["s1"]):
        rec.cls(f"contacts:{cl}:other-pair")  # another element pair at the same point: the orientation is not comparable
        identical = False
      elif dot < -0.9:
        identical = False
        sig = "contacts:1d-vertex-normal" if cl == "g1d" else f"contacts:{cl}:normal-inverted"
        rec.violation(f"{cl}: contact at {np.round(a['pos'], 4).tolist()} has the opposite normal {np.round(a['normal'], 3).tolist()} vs MuJoCo {np.round(b['normal'], 3).tolist()} (same point, same dist)", sig=sig, **ctx)
      elif dot < 1 - 5e-3:
        identical = False
        rec.cls(f"contacts:{cl}:other-normal")
      _cmp_params(rec, cl, a, b, ctx)
      if (a["s0"], a["s1"]) == (b["s0"], b["s1"]) and dot >= 1 - 5e-3 and b["id"] not in idmap.values():
        idmap[a["id"]] = b["id"]
        if cl == "self1d":
          a["axisdist"] = 2.0 * float(mjm.flex_radius[0]) + b["dist"]
          _cmp_geometry(rec, cl, a, b, 1e-4, ctx)  # capsule-capsule primitive on both sides
  return identical and len(cw) == len(cm) and len(idmap) == len(cw), idmap


def _cmp_geometry(rec, cl, a, b, tol, ctx):
  check_close(rec, f"contact.dist({cl})", a["dist"], b["dist"], tol, scale=1.0, sig=f"contacts:{cl}:dist", **ctx)
  check_close(rec, f"contact.pos({cl})", a["pos"], b["pos"], tol, scale=1.0, sig=f"contacts:{cl}:pos", **ctx)
  # capsule-capsule normals of deeply overlapping, nearly touching axes are ill-conditioned: CCD-level tolerance for 1D self-collision
  ntol = max(tol, 2e-4)
  if cl == "self1d":
    ntol = min(0.1, max(2e-3, 2e-4 / max(a.get("axisdist", 1.0), 1e-4)))  # closest points of two capsule axes a distance h apart: normal error ~ pos error / h
  check_close(rec, f"contact.normal({cl})", a["normal"], b["normal"], ntol, scale=1.0, sig=f"contacts:{cl}:normal", **ctx)


def _cmp_params(rec, cl, a, b, ctx):
  check_equal(rec, "contact.dim", a["dim"], b["dim"], sig="contacts:params:dim", **ctx)
  check_close(rec, "contact.includemargin", a["includemargin"], b["includemargin"], 1e-6, scale=1.0, sig="contacts:params:includemargin", **ctx)
  check_close(rec, "contact.friction", a["friction"], b["friction"], 1e-6, scale=1.0, sig="contacts:params:friction", **ctx)
  check_close(rec, "contact.solref", a["solref"], b["solref"], 1e-5, scale=1.0, sig="contacts:params:solref", **ctx)
  check_close(rec, "contact.solimp", a["solimp"], b["solimp"], 1e-5, scale=1.0, sig="contacts:params:solimp", **ctx)


# --------------------------------------------------------------------------------------
# rows


def _cmp_rows(rec, ew, em, iw, im, tag, ctx, elliptic_friction=None):
  if not len(im):
    return
  iw, im = np.asarray(iw), np.asarray(im)
  pw, mw = np.array(ew["pos"], dtype=np.float64), np.array(ew["margin"], dtype=np.float64)
  if elliptic_friction is not None and elliptic_friction.any():
    # C05 finding rows:elliptic-friction-pos (pos = margin = includemargin on friction rows): compare pos - margin there
    idx = iw[elliptic_friction]
    pw[idx] -= mw[idx]
    mw[idx] = 0.0
  check_close(rec, f"efc.J({tag})", ew["J"][iw], em["J"][im], 5e-4, scale=1.0, sig=f"rows:{tag}:J", **ctx)
  check_close(rec, f"efc.pos({tag})", pw[iw], em["pos"][im], 1e-4, scale=1.0, sig=f"rows:{tag}:pos", **ctx)
  check_close(rec, f"efc.margin({tag})", mw[iw], em["margin"][im], 1e-5, scale=1.0, sig=f"rows:{tag}:margin", **ctx)
  check_close(rec, f"efc.vel({tag})", ew["vel"][iw], em["vel"][im], 2e-4, sig=f"rows:{tag}:vel", **ctx)
  Dw, Dm = ew["D"][iw].astype(np.float64), em["D"][im]
  rel = np.abs(Dw - Dm) / np.maximum(np.abs(Dm), 1e-6)
  rec.err(f"efc.D({tag},rel)", float(np.max(rel)))
  if np.max(rel) > 2e-3:
    j = int(np.argmax(rel))
    rec.violation(f"efc.D differs ({tag}): row {int(im[j])} got {Dw[j]} want {Dm[j]}", sig=f"rows:{tag}:D", **ctx)
  sa = max(1.0, float(np.max(np.abs(em["aref"]))))
  aw, am = ew["aref"][iw].astype(np.float64), em["aref"][im]
  # aref = -b*vel - k*imp*pos with k ~ 3e3, b ~ 1e2 for the default solref: float32 noise in pos/vel (1e-7) gives an absolute error ~1e-3
  rel = np.maximum(np.abs(aw - am) - 1e-3, 0.0) / np.maximum(np.abs(am), 1e-2 * sa)
  rec.err(f"efc.aref({tag},rel)", float(np.max(rel)))
  if np.max(rel) > 2e-3:
    j = int(np.argmax(rel))
    rec.violation(f"efc.aref differs ({tag}): row {int(im[j])} got {aw[j]} want {am[j]}", sig=f"rows:{tag}:aref", **ctx)


def _match_equality_rows(ew, em):
  """Greedy nearest match of equality rows inside each equality id.  Returns (iw, im) or None when the counts differ."""
  iw, im = [], []
  idsw = ew["id"][ew["type"] == 0]
  idsm = em["id"][em["type"] == 0]
  for e in sorted(set(idsm.tolist()) | set(idsw.tolist())):
    rw = np.nonzero((ew["type"] == 0) & (ew["id"] == e))[0]
    rm = np.nonzero((em["type"] == 0) & (em["id"] == e))[0]
    if len(rw) != len(rm):
      return None
    cost = np.max(np.abs(ew["J"][rw][:, None, :] - em["J"][rm][None, :, :]), axis=2) + np.abs(ew["pos"][rw][:, None] - em["pos"][rm][None, :])
    order = np.dstack(np.unravel_index(np.argsort(cost, axis=None, kind="stable"), cost.shape))[0]
    ua, ub = set(), set()
    for i, j in order:
      if int(i) in ua or int(j) in ub:
        continue
      ua.add(int(i))
      ub.add(int(j))
      iw.append(int(rw[i]))
      im.append(int(rm[j]))
  return iw, im


# --------------------------------------------------------------------------------------


def check(case, rec):
  mjm, info = build(case)
  if mjm.nflex != 1 or mjm.nv == 0:
    raise Reject("no flex / nv=0")
  if case["geom"]["kind"] == "none" or case.get("raw"):
    # flex-only models (ngeom == 0) with a flex contact crash sensor_acc (_preprocess_tactile_contacts reads geom_bodyid[-1]): a dummy geom is always added
    rec.excluded["crash:tactile-preprocess-flex-contact"] += 1
  n = case["nworld"]
  m = H.put_model(mjm)
  d = H.make_data(mjm, nworld=n, nconmax=_NCONMAX, njmax=_NJMAX)
  states, folded = [], False
  for w in range(n):
    s, f = _state(mjm, info, case, w)
    states.append(s)
    folded |= f
  H.set_data(d, states)
  mjw.forward(m, d)
  if H.overflow_fwd(d).any():
    rec.inconclusive += 1
    rec.cls("inconclusive:overflow")
    return
  dim = info["dim"]
  rec.cls(
    f"dim:{dim}", f"type:{info['typ']}", f"dof:{info['dof']}", f"mode:{info['mode']}", f"selfcollide:{info['selfcollide']}", f"geom:{'none' if case.get('raw') else case['geom']['kind']}", f"raw:{int(bool(case.get('raw')))}", f"prio:{'flex' if case.get('fprio', 0) > case.get('gprio', 0) else 'geom' if case.get('fprio', 0) < case.get('gprio', 0) else 'tie'}",
    f"geomfree:{bool(case['geom']['free'] and case['geom']['kind'] not in ('none', 'plane'))}", f"pins:{len(info['pins'])}", f"parent:{case['parent']}",
    f"cone:{case['cone']}", f"sparse:{bool(m.is_sparse)}", f"solver:{case['solver']}", f"nworld:{n}", f"folded:{folded}", f"condim:{case['condim']}",
  )  # fmt: skip
  got = {k: getattr(d, k).numpy() for k in ("flexvert_xpos", "flexedge_length", "flexedge_velocity", "flexedge_J", "qfrc_spring", "qfrc_damper", "qfrc_passive", "qacc")}
  niter_w = d.solver_niter.numpy()
  nontrivial = False
  for w in range(n):
    mjd = mujoco.MjData(mjm)
    H.set_mjd(mjd, states[w])
    try:
      mujoco.mj_forward(mjm, mjd)
    except mujoco.FatalError:
      rec.rejected += 1
      rec.cls("discarded:mujoco-fatal")
      continue
    if np.any(np.asarray(mjd.warning.number) > 0) or not np.all(np.isfinite(mjd.qacc)):
      rec.rejected += 1
      rec.cls("discarded:mujoco-warning")
      continue
    rec.ev()
    ctx = dict(world=w)
    # ---- kinematics
    check_close(rec, "flexvert_xpos", got["flexvert_xpos"][w], mjd.flexvert_xpos, 2e-5, sig="kin:flexvert_xpos", **ctx)
    ref_len = np.asarray(mjd.flexedge_length)
    if np.any(ref_len != 0):
      check_close(rec, "flexedge_length", got["flexedge_length"][w], ref_len, 2e-5, sig="kin:flexedge_length", **ctx)
      rec.cls("judged:edge_length")
    else:
      rec.cls("skipped:ref-no-edge-length")
    ref_J = np.asarray(mjd.flexedge_J).reshape(-1)
    edge_ok = True
    if np.any(ref_J != 0):
      rec.cls("judged:edge_J")
      e1 = _relerr(got["flexedge_J"][w].reshape(-1), ref_J, 1.0)
      e2 = _relerr(got["flexedge_velocity"][w], mjd.flexedge_velocity, max(1.0, float(np.max(np.abs(mjd.flexedge_velocity)))))
      tag = "(jointed parent)" if info["moving"] else ""
      rec.err("flexedge_J" + tag, e1)
      rec.err("flexedge_velocity" + tag, e2)
      if e1 > 1e-4 or e2 > 1e-4:
        edge_ok = False
        which = "flexedge_J" if e1 > 1e-4 else "flexedge_velocity"
        sig = "edgeJ:moving-parent" if info["moving"] else f"kin:{which}"
        rec.violation(f"{which} differs from MuJoCo (J err {e1:.3g}, velocity err {e2:.3g}; layout flexedge_J_rowadr/colind; parent {case['parent']})", sig=sig, **ctx)
    else:
      rec.cls("skipped:ref-no-edge-J")
    if not edge_ok:
      rec.cls("skipped:downstream-of-edgeJ")
      continue
    # ---- passive forces
    fscale = max(1.0, float(np.max(np.abs(mjd.qfrc_passive))), float(np.max(np.abs(mjd.qfrc_spring))), float(np.max(np.abs(mjd.qfrc_damper))))
    if mjm.nflexstiffness:
      # elastic forces are stiffness * (deformed^2 - reference^2) * edge: the float32 cancellation noise (seen 3e-3 at rest with max stiffness 7e5) scales with
      # stiffness * L^2, not with the force: floor the scale accordingly (a 1 % strain still gives forces ~20x this floor)
      fscale = max(fscale, 1e-3 * float(np.max(np.abs(mjm.flex_stiffness))) * float(np.max(mjm.flexedge_length0)) ** 2 * (1.0 + float(np.max(mjm.flex_damping)) / mjm.opt.timestep))
    passive_ok = True
    for k in ("qfrc_spring", "qfrc_damper", "qfrc_passive"):
      e = _relerr(got[k][w], getattr(mjd, k), fscale)
      rec.err(k + ("(edge spring class)" if info["mode"] == "edge" else "(jointed parent)" if info["moving"] else ""), e)
      if e > 5e-4:
        passive_ok = False
        edge_force = info["mode"] == "edge" and (case["estiff"] > 0 or case["edgedamp"] > 0)
        # under a jointed parent MJWarp projects the (internal) flex forces on the ancestors' dofs too (apply_ft), MuJoCo adds them to the node/vertex dofs only
        sig = "passive:edge-spring-damper" if edge_force else ("passive:moving-parent" if info["moving"] else f"passive:{k}")
        j = int(np.argmax(np.abs(got[k][w] - getattr(mjd, k))))
        rec.violation(f"{k} differs: dof {j} (body {int(mjm.dof_bodyid[j])}) got {float(got[k][w][j]):.6f} want {float(getattr(mjd, k)[j]):.6f} (err {e:.3g} of scale {fscale:.3g}; mode {info['mode']})", sig=sig, **ctx)
        break
    elastic = float(np.max(np.abs(mjd.qfrc_spring))) > 1e-6
    # ---- contacts
    cw, cm = _contacts_w(d, w), _contacts_m(mjd)
    if any(c.get("exclude", 0) != 0 for c in cm):
      rec.cls("skipped:mujoco-excluded-contact")
      rec.boundary_skipped += 1
      continue
    identical, idmap = _compare_contacts(rec, mjm, cw, cm, ctx)
    nflexcon = sum(1 for c in cm if _cclass(mjm, c) != "geom")
    # ---- constraint rows
    ew, em = H.efc_dense(m, d, w), H.mj_efc_dense(mjm, mjd)
    ne_w = int(d.ne.numpy()[w])
    nrigid = int(np.count_nonzero(mjm.flexedge_rigid)) if info["mode"] == "equality" else 0
    if ne_w != mjd.ne and nrigid and ne_w - mjd.ne == nrigid:
      # an edge between two pinned vertices is rigid: MuJoCo emits no row for it
      zero = [i for i in np.nonzero(ew["type"] == 0)[0] if np.max(np.abs(ew["J"][i])) < 1e-6]
      if len(zero) == nrigid:
        rec.violation(f"edge equality: {nrigid} rigid edge(s) (both vertices pinned) get rows with an all-zero Jacobian; MuJoCo emits none (ne {ne_w} vs {mjd.ne})", sig="rows:eq:rigid-edge", **ctx)
        keep = np.array([i for i in range(ew["nefc"]) if i not in set(zero)], dtype=int)
        ew = {k: (v[keep] if isinstance(v, np.ndarray) else v) for k, v in ew.items()}
        ew["nefc"] = len(keep)
        ne_w -= nrigid
        identical = False  # row indices shifted: contact rows are not compared in this world
    check_equal(rec, "ne", ne_w, mjd.ne, sig="rows:ne", **ctx)
    eq = _match_equality_rows(ew, em)
    if eq is None:
      rec.violation("flex equality rows: per-equality row counts differ", sig="rows:eq:count", **ctx)
    else:
      _cmp_rows(rec, ew, em, eq[0], eq[1], "flexeq", ctx)
    rows_ok = identical
    if identical:
      check_equal(rec, "nefc", ew["nefc"], em["nefc"], sig="rows:nefc", **ctx)
      iw, im, ell = list(eq[0]), list(eq[1]), [False] * len(eq[0])
      seen = {}
      bym = {}
      for i in range(em["nefc"]):
        if int(em["type"][i]) in _CONTACT_TYPES:
          bym.setdefault((int(em["type"][i]), int(em["id"][i])), []).append(i)
      for i in range(ew["nefc"]):
        t = int(ew["type"][i])
        if t not in _CONTACT_TYPES:
          continue
        cid = idmap.get(int(ew["id"][i]))
        k = seen.get((t, cid), 0)
        seen[(t, cid)] = k + 1
        lst = bym.get((t, cid), [])
        if cid is None or k >= len(lst):
          rows_ok = False
          rec.violation(f"contact row {i} (type {t}, contact {int(ew['id'][i])}) has no MuJoCo row", sig="rows:contact:keys", **ctx)
          break
        iw.append(i)
        im.append(lst[k])
        ell.append(t == 7 and k > 0)
      if rows_ok and len(im) == em["nefc"]:
        # a flipped side order (self-collision pair listed the other way round) changes the sign convention of the rows: geometry was compared, rows are not
        mflip = {c["id"]: c["flipped"] for c in cm}
        if any(a["flipped"] != mflip.get(idmap.get(a["id"])) for a in cw):
          rec.cls("skipped:rows-side-order")
          rows_ok = False
        else:
          ciw, cim = np.array(iw[len(eq[0]) :], dtype=int), np.array(im[len(eq[0]) :], dtype=int)
          cell = np.array(ell[len(eq[0]) :], dtype=bool)
          # how MJWarp distributes the contact point over bodies depends on the kind of contact: group the rows accordingly
          wcl = {c["id"]: _row_group(mjm, info, c) for c in cw}
          grp = np.array([wcl[int(ew["id"][i])] for i in ciw]) if len(ciw) else np.array([])
          for gname in sorted(set(grp.tolist())):
            sel = grp == gname
            if gname != "exact":
              e = _relerr(ew["J"][ciw[sel]], em["J"][cim[sel]], 1.0)
              rec.err(f"efc.J(contact:{gname})", e)
              if e > 5e-4:
                rows_ok = False
                rec.violation(f"contact rows ({gname}): efc.J differs from MuJoCo by {e:.3g}: {_GROUP_TEXT[gname]}", sig=f"rows:contact:{gname}", **ctx)
              # the weights of these groups are approximations by design: vel/aref/D inherit a J difference that may sit just inside the J tolerance
              continue
            _cmp_rows(rec, ew, em, ciw[sel], cim[sel], "contact", ctx, elliptic_friction=cell[sel])
      else:
        rows_ok = False
    # ---- qacc
    if rows_ok and passive_ok and mjd.solver_niter[0] < mjm.opt.iterations and int(niter_w[w]) < mjm.opt.iterations:
      sc = max(1.0, float(np.max(np.abs(mjd.qacc))))
      # a force error inside the passive-force tolerance is amplified by 1/lambda_min(M): keep the qacc tolerance consistent with it
      lmin = float(np.linalg.eigvalsh(H.mj_dense_M(mjm, mjd))[0])
      tol = 5e-3 + 5e-4 * fscale / max(lmin, 1e-12) / sc
      if tol > 0.05:
        rec.boundary_skipped += 1
        rec.cls("skipped:qacc-ill-conditioned")
      else:
        # qacc is not part of the statement (solver agreement is C06's): recorded as a statistic, never a violation
        e = _relerr(got["qacc"][w], mjd.qacc, sc)
        rec.err("qacc(statistic)", e)
        rec.cls("qacc:agrees" if e <= tol else "qacc:differs(statistic only)")
    elif rows_ok and passive_ok:
      rec.boundary_skipped += 1
      rec.cls("skipped:qacc-unconverged")
    rec.cls(f"ne>0:{mjd.ne > 0}", f"flexcontacts>0:{nflexcon > 0}", f"elastic:{elastic}", f"contacts-identical:{identical}")
    if nflexcon > 0 or mjd.ne > 0 or elastic:
      nontrivial = True
  if nontrivial:
    rec.nt()


_GROUP_TEXT = {
  "interp-truncated": "the contact point of an interpolated (trilinear) flex is distributed over at most 4 node bodies (MuJoCo: all 8 nodes of the cell)",
  "1d-elem-zeroJ": "element contacts of a 1D flex (self-collision of edge capsules) get no bodies at all: all-zero Jacobian rows",
  "elem-weights": "element contacts of 2D/3D flexes use inverse-distance vertex weights, MuJoCo barycentric weights",
}


def _row_group(mjm, info, c):
  """exact | interp-truncated | 1d-elem-zeroJ | elem-weights for the rows of an MJWarp contact."""
  sides = [s for s in (c["s0"], c["s1"]) if s[1] >= 0]
  if not sides:
    return "exact"
  if info["interp"]:
    return "interp-truncated"
  if all(s[3] >= 0 for s in sides):
    return "exact"  # vertex contacts: one body, weight 1
  return "1d-elem-zeroJ" if info["dim"] == 1 else "elem-weights"


def _relerr(a, b, scale):
  a = np.asarray(a, dtype=np.float64).reshape(-1)
  b = np.asarray(b, dtype=np.float64).reshape(-1)
  if a.shape != b.shape:
    return float("inf")
  if a.size == 0:
    return 0.0
  if not (np.all(np.isfinite(a)) and np.all(np.isfinite(b))):
    return float("inf")
  return float(np.max(np.abs(a - b))) / scale
