"""C34 Ray casting returns the nearest eligible hit (mjw.ray / mjw.rays vs mujoco.mj_ray; BVH path vs brute-force path)."""

from __future__ import annotations


import mujoco
import numpy as np
import warp as wp
from hypothesis import strategies as st

import mujoco_warp as mjw
from mujoco_warp._src.types import vec6

from vf import mjw as H
from vf import x34_scene as X
from vf.core import Reject

RULE = (
  "case = scene of 2-10 geoms drawn from all 8 geom types (plane finite/infinite, sphere, capsule, ellipsoid, cylinder, box, scaled convex mesh, "
  "hfield) hosted on the world, static child bodies, mocap bodies, free/hinge/slide bodies and jointless children, random geom groups, "
  "transparent rgba/material; nworld 1-2 with different qpos/mocap poses; 64 rays per world (toward a geom, from inside a geom, grazing at "
  "support*(1+-1e-3), along geom axes, pointing away, global random; unit or scaled direction) shared or per world; filters geomgroup "
  "(None or 6 flags), flg_static, per-ray bodyexclude; render context with all or a subset of groups (mask restricted to the subset). "
  "oracle = mujoco.mj_ray on the float32 geom poses computed by mjw.kinematics: hit/no-hit, geomid (unless two eligible geoms tie), "
  "dist (2e-5/|vec| + 2e-4*dist + 2*sensitivity), normal (2e-3 + normal sensitivity, judged when sensitivity <= 0.05), sensitivity = change of the reference under the 1e-4 perturbations; mjw.rays(rc=rc) after refit_bvh must equal "
  "the brute-force mjw.rays (geomid, dist 1e-5*(1+dist), normal 2e-3); mjw.ray == mjw.rays bitwise for two rays per case. Rays whose reference "
  "geomid or hit/no-hit flips under a 1e-4 perturbation of origin/direction (silhouettes, grazing ties) are boundary-skipped. "
  "evaluation = one (world, ray) comparison; non-trivial = ray hitting >=2 eligible geoms or whose unfiltered nearest geom is filtered out"
)
ASSUMPTIONS = [
  "MuJoCo C 3.13 mj_ray is the reference; geom poses are taken from mjw.kinematics (float32) so kinematics error is not judged here",
  "the BVH path is used as in the repo tests: create_render_context(enabled groups) + refit_bvh; the geomgroup mask is restricted to the context's groups",
  "direction vectors are non-zero; distances are in units of |vec| as in mj_ray",
]
BUDGET = {
  "quick": dict(examples=560, seconds=420, workers=16),
  "thorough": dict(examples=16000, seconds=1500, workers=16),
}
NRAY = 64
_GT = mujoco.mjtGeom
_TNAME = {0: "plane", 1: "hfield", 2: "sphere", 3: "capsule", 4: "ellipsoid", 5: "cylinder", 6: "box", 7: "mesh"}


def strategy(tier):
  geom = st.fixed_dictionaries(
    dict(
      type=st.sampled_from(X.TYPES),
      host=st.sampled_from(X.HOSTS),
      group=st.integers(0, 5),
      alpha=st.sampled_from([1, 1, 1, 1, 1, 1, 1, 0]),
      mat=st.sampled_from([0, 0, 0, 0, 0, 1, 2]),
    )
  )
  return st.fixed_dictionaries(
    dict(
      geoms=st.lists(geom, min_size=2, max_size=10 if tier == "quick" else 14),
      scene_seed=st.integers(0, 10**6),
      state_seed=st.integers(0, 10**6),
      ray_seed=st.integers(0, 10**6),
      nworld=st.sampled_from([1, 2]),
      shared_rays=st.booleans(),
      geomgroup=st.one_of(st.none(), st.lists(st.sampled_from([1, 1, 1, 0]), min_size=6, max_size=6)),
      flg_static=st.sampled_from([True, True, True, False]),
      rc_groups=st.one_of(st.none(), st.lists(st.sampled_from([1, 1, 1, 0]), min_size=6, max_size=6)),
      vec_mode=st.sampled_from(["unit", "unit", "unit", "scaled"]),
    )
  )


def enumerate_cases(tier, seed):
  """Fixed cases run before the random campaign: they exercise the recorded finding classes that random scenes reach only rarely."""
  mesh = dict(type="mesh", group=0, alpha=1, mat=0)
  return [
    # two scaled tetrahedra, nothing else in the scene BVH: rays across a tetra tip miss its mis-centred leaf box (bvh:mesh-bounds)
    dict(geoms=[dict(mesh, host="world"), dict(mesh, host="free", group=1)], scene_seed=11, state_seed=11, ray_seed=11, nworld=2, shared_rays=False, geomgroup=None, flg_static=True, rc_groups=None, vec_mode="unit"),
  ]


# --------------------------------------------------------------------------------------
# ray generation


def _unit(rng):
  v = rng.normal(size=3)
  return v / np.linalg.norm(v)


def _perp(rng, v):
  while True:
    p = np.cross(v, _unit(rng))
    n = np.linalg.norm(p)
    if n > 0.1:
      return p / n


def _support(mjm, g, R, p):
  """max over the geom's shape of p.(x - geom origin), p unit in world frame, R = geom rotation."""
  t = mjm.geom_type[g]
  s = mjm.geom_size[g]
  pl = R.T @ p
  if t == _GT.mjGEOM_SPHERE:
    return s[0]
  if t == _GT.mjGEOM_CAPSULE:
    return s[0] + s[1] * abs(pl[2])
  if t == _GT.mjGEOM_CYLINDER:
    return s[1] * abs(pl[2]) + s[0] * np.sqrt(max(0.0, 1 - pl[2] ** 2))
  if t == _GT.mjGEOM_ELLIPSOID:
    return float(np.linalg.norm(s * pl))
  if t == _GT.mjGEOM_BOX:
    return float(np.sum(s * np.abs(pl)))
  if t == _GT.mjGEOM_MESH:
    mid = mjm.geom_dataid[g]
    v = mjm.mesh_vert[mjm.mesh_vertadr[mid] : mjm.mesh_vertadr[mid] + mjm.mesh_vertnum[mid]]
    return float(np.max(v @ pl))
  c, e = mjm.geom_aabb[g, :3], mjm.geom_aabb[g, 3:]
  return float(pl @ c + np.sum(e * np.abs(pl)))


_KINDS = ["toward", "through", "inside", "graze", "axis", "away", "global"]
_KIND_P = [0.22, 0.15, 0.13, 0.18, 0.14, 0.06, 0.12]


def gen_rays(rng, mjm, xpos, xmat, nray, vec_mode):
  P = np.zeros((nray, 3))
  V = np.zeros((nray, 3))
  kinds, targets = [], []
  for r in range(nray):
    g = int(rng.integers(0, mjm.ngeom))
    kind = _KINDS[int(rng.choice(len(_KINDS), p=_KIND_P))]
    t = mjm.geom_type[g]
    c, R = xpos[g], xmat[g]
    if t == _GT.mjGEOM_PLANE:
      cl, ext = np.zeros(3), np.array([1.5, 1.5, 0.0])
      if kind == "graze":
        kind = "axis"
    else:
      cl, ext = np.array(mjm.geom_aabb[g, :3]), np.array(mjm.geom_aabb[g, 3:])
    L = float(rng.uniform(0.3, 3.0))
    if t == _GT.mjGEOM_HFIELD and rng.random() < 0.75:
      # mostly look at height fields from above (hits through the base / side walls are a recorded finding: keep them at low weight)
      kind = "toward"
      tgt = c + R @ (cl + rng.uniform(-0.9, 0.9, size=3) * ext)
      dl = _unit(rng)
      dl[2] = abs(dl[2]) + 0.5
      dirn = R @ (dl / np.linalg.norm(dl))
      o = tgt + dirn * L
      v = -dirn
    elif kind == "toward":
      tgt = c + R @ (cl + rng.uniform(-0.9, 0.9, size=3) * ext)
      dirn = _unit(rng)
      if t == _GT.mjGEOM_MESH and rng.random() < 0.4:
        # across the tip of the mesh (the vertex farthest from the geom origin), perpendicular to the origin-tip direction
        mid = mjm.geom_dataid[g]
        mv = mjm.mesh_vert[mjm.mesh_vertadr[mid] : mjm.mesh_vertadr[mid] + mjm.mesh_vertnum[mid]]
        tip = R @ mv[int(np.argmax(np.linalg.norm(mv, axis=1)))]
        tgt = c + float(rng.uniform(0.8, 0.97)) * tip
        dirn = _perp(rng, tip / np.linalg.norm(tip))
      o = tgt + dirn * L
      v = -dirn
    elif kind == "through":  # through a point of this geom and a point of another geom: nearest-of-many
      g2 = int(rng.integers(0, mjm.ngeom))
      t1 = c + R @ (cl + rng.uniform(-0.5, 0.5, size=3) * ext)
      e2 = np.array([1.5, 1.5, 0.0]) if mjm.geom_type[g2] == _GT.mjGEOM_PLANE else np.array(mjm.geom_aabb[g2, 3:])
      c2 = np.zeros(3) if mjm.geom_type[g2] == _GT.mjGEOM_PLANE else np.array(mjm.geom_aabb[g2, :3])
      t2 = xpos[g2] + xmat[g2] @ (c2 + rng.uniform(-0.5, 0.5, size=3) * e2)
      dv = t1 - t2
      if np.linalg.norm(dv) < 1e-3:
        dv = _unit(rng)
      v = dv / np.linalg.norm(dv)
      o = t2 - v * L
    elif kind == "inside":
      u = rng.uniform(-1, 1, size=3)
      if t == _GT.mjGEOM_PLANE:
        lp = np.array([u[0] * 1.5, u[1] * 1.5, 0.05 * (1 if u[2] > 0 else -1)])
      elif t == _GT.mjGEOM_HFIELD:
        hs = mjm.hfield_size[mjm.geom_dataid[g]]
        lp = np.array([u[0] * hs[0] * 0.9, u[1] * hs[1] * 0.9, rng.uniform(-hs[3], hs[2])])
      elif t == _GT.mjGEOM_MESH:
        lp = 0.1 * u * ext
      else:
        lp = 0.3 * u * ext
      o = c + R @ lp
      v = _unit(rng)
    elif kind == "graze":
      v = _unit(rng)
      p = _perp(rng, v)
      h = _support(mjm, g, R, p)
      eps = float(rng.choice([1e-3, -1e-3, 1e-3, -1e-3, 1e-5, -1e-5]))
      o = c + p * h * (1 + eps) - v * L
    elif kind == "axis":
      j = int(rng.integers(0, 3))
      a = R[:, j] * (1 if rng.random() < 0.5 else -1)
      u = rng.uniform(-1, 1, size=3) * 1.2
      if rng.random() < 0.15:
        u[int(rng.integers(0, 3))] = 1.0 if rng.random() < 0.5 else -1.0
      lp = cl + u * ext
      if t == _GT.mjGEOM_PLANE and rng.random() < 0.9:
        lp[2] = float(rng.uniform(-0.3, 0.3))  # in-plane directions: lift the origin off the plane (else ill-conditioned)
        if j < 2:  # almost parallel to the plane, tilted by a well-conditioned angle (exactly parallel rays are boundary-skipped)
          a = a + float(rng.choice([0.0, 1e-3, -1e-3, 1e-2, -1e-2, 0.1, -0.1])) * R[:, 2]
          a = a / np.linalg.norm(a)
      o = c + R @ lp - a * L
      v = a
    elif kind == "away":
      dirn = _unit(rng)
      o = c + dirn * (mjm.geom_rbound[g] * float(rng.uniform(1.05, 2.0)) + 0.05)
      v = dirn
    else:
      o = rng.uniform(-2.5, 2.5, size=3)
      v = _unit(rng)
    if vec_mode == "scaled" and rng.random() < 0.5:
      v = v * float(rng.choice([0.25, 0.5, 2.0, 4.0]))
    P[r], V[r] = o, v
    kinds.append(kind)
    targets.append(g)
  P = P.astype(np.float32).astype(np.float64)
  V = V.astype(np.float32).astype(np.float64)
  return P, V, kinds, targets


# --------------------------------------------------------------------------------------
# reference


def _cast(mjm, mjd, p, v, gg, flg, bex):
  gid = np.full(1, -1, dtype=np.int32)
  n = np.zeros(3)
  dist = mujoco.mj_ray(mjm, mjd, p, v, gg, flg, int(bex), gid, n)
  return float(dist), int(gid[0]), n


def _geom_dist(mjm, mjd, g, p, v):
  t = mjm.geom_type[g]
  if t == _GT.mjGEOM_MESH:
    return mujoco.mj_rayMesh(mjm, mjd, g, p, v)
  if t == _GT.mjGEOM_HFIELD:
    return mujoco.mj_rayHfield(mjm, mjd, g, p, v)
  return mujoco.mju_rayGeom(mjd.geom_xpos[g], mjd.geom_xmat[g], mjm.geom_size[g], p, v, int(t))


def _eligible(mjm, gg, flg, bex):
  out = []
  for g in range(mjm.ngeom):
    b = mjm.geom_bodyid[g]
    if b == bex:
      continue
    mid = mjm.geom_matid[g]
    if mid < 0 and mjm.geom_rgba[g, 3] == 0:
      continue
    if mid >= 0 and mjm.mat_rgba[mid, 3] == 0:
      continue
    if not flg and mjm.body_weldid[b] == 0:
      continue
    if gg is not None and not gg[min(5, max(0, mjm.geom_group[g]))]:
      continue
    out.append(g)
  return out


def _route(rec, sig, msg, **details):
  rec.violation(msg, sig=sig, **details)


def check(case, rec):
  geoms = case["geoms"]
  xml = X.build(geoms, case["scene_seed"])
  mjm = H.compile_xml(xml)
  nworld = case["nworld"]
  m = H.put_model(mjm)
  d = H.make_data(mjm, nworld=nworld)
  states = X.rand_states(mjm, case["state_seed"], nworld)
  H.set_data(d, states)
  mjw.kinematics(m, d)
  gx = d.geom_xpos.numpy().astype(np.float64)
  gm = d.geom_xmat.numpy().astype(np.float64).reshape(nworld, mjm.ngeom, 3, 3)
  if not (np.all(np.isfinite(gx)) and np.all(np.isfinite(gm))):
    rec.inconclusive += 1
    return
  mjds = []
  for w in range(nworld):
    mjd = mujoco.MjData(mjm)
    H.set_mjd(mjd, states[w])
    mujoco.mj_kinematics(mjm, mjd)
    if np.max(np.abs(mjd.geom_xpos - gx[w])) > 1e-3:  # kinematics is C01's business; here it only guards the harness
      rec.inconclusive += 1
      return
    mjd.geom_xpos[:] = gx[w]
    mjd.geom_xmat[:] = gm[w].reshape(mjm.ngeom, 9)
    mjds.append(mjd)

  # filters
  rcg = case["rc_groups"]
  groups_all = list(range(6))
  if rcg is None or not any(rcg) or not any(rcg[min(5, max(0, int(g)))] for g in mjm.geom_group):
    rc_groups = groups_all
  else:
    rc_groups = [i for i in range(6) if rcg[i]]
  mask = case["geomgroup"]
  if rc_groups != groups_all:
    mask = [int((1 if mask is None else mask[i]) and (i in rc_groups)) for i in range(6)]
  gg = None if mask is None else np.array(mask, dtype=np.uint8)
  ggw = vec6(-1, -1, -1, -1, -1, -1) if mask is None else vec6(*[float(x) for x in mask])
  flg = bool(case["flg_static"])

  # rays
  rng = np.random.default_rng(case["ray_seed"])
  nwr = 1 if (case["shared_rays"] or nworld == 1) else nworld
  Ps, Vs, kinds, targets = [], [], [], []
  for w in range(nwr):
    P, V, k, t = gen_rays(rng, mjm, gx[w], gm[w], NRAY, case["vec_mode"])
    Ps.append(P)
    Vs.append(V)
    kinds.append(k)
    targets.append(t)
  bex = np.full(NRAY, -1, dtype=np.int32)
  for r in range(NRAY):
    u = rng.random()
    if u < 0.2:
      bex[r] = mjm.geom_bodyid[targets[0][r]]
    elif u < 0.3:
      bex[r] = int(rng.integers(0, mjm.nbody))
  P32 = np.stack(Ps).astype(np.float32)
  V32 = np.stack(Vs).astype(np.float32)
  pnt = wp.array(P32, dtype=wp.vec3)
  vec = wp.array(V32, dtype=wp.vec3)
  bexw = wp.array(bex, dtype=int)

  def run(rc):
    dist = wp.full((nworld, NRAY), -7.0, dtype=float)
    gid = wp.full((nworld, NRAY), -7, dtype=int)
    nrm = wp.zeros((nworld, NRAY), dtype=wp.vec3)
    mjw.rays(m, d, pnt, vec, ggw, flg, bexw, dist, gid, nrm, rc)
    return dist.numpy().astype(np.float64), gid.numpy(), nrm.numpy().astype(np.float64)

  bd, bg, bn = run(None)
  try:
    rc = mjw.create_render_context(mjm, nworld=nworld, enabled_geom_groups=rc_groups)
  except (NotImplementedError, ValueError) as e:
    raise Reject(f"create_render_context: {e}")
  mjw.refit_bvh(m, d, rc)
  vd, vg, vn = run(rc)

  # single-ray API == multi-ray API (same kernels, same inputs)
  for r in (0, NRAY - 1):
    for rcx, (xd, xg, xn), tag in ((None, (bd, bg, bn), "brute"), (rc, (vd, vg, vn), "bvh")):
      p1 = wp.array(P32[:, r : r + 1], dtype=wp.vec3)
      v1 = wp.array(V32[:, r : r + 1], dtype=wp.vec3)
      sd, sg, sn = mjw.ray(m, d, p1, v1, None if mask is None else ggw, flg, int(bex[r]), rcx)
      rec.ev()
      ok = np.array_equal(sd.numpy()[:, 0].astype(np.float64), xd[:, r]) and np.array_equal(sg.numpy()[:, 0], xg[:, r]) and np.array_equal(sn.numpy()[:, 0].astype(np.float64), xn[:, r])
      if not ok:
        rec.violation(f"ray() != rays() ({tag}) ray {r}: {sd.numpy()[:, 0]} {sg.numpy()[:, 0]} vs {xd[:, r]} {xg[:, r]}", sig=f"ray-vs-rays:{tag}")

  gtype = mjm.geom_type
  nt = False
  for w in range(nworld):
    mjd = mjds[w]
    wr = w if nwr > 1 else 0
    for r in range(NRAY):
      p, v = Ps[wr][r], Vs[wr][r]
      vn_ = float(np.linalg.norm(v))
      if vn_ < 1e-6:
        continue
      vh = v / vn_
      be = int(bex[r])
      d0, g0, n0 = _cast(mjm, mjd, p, v, gg, flg, be)
      rec.ev()
      # reference stability under 1e-4 perturbations of the ray
      e1 = np.cross(vh, [1.0, 0, 0] if abs(vh[0]) < 0.9 else [0, 1.0, 0])
      e1 /= np.linalg.norm(e1)
      e2 = np.cross(vh, e1)
      flip = False
      sens = 0.0
      nsens = 0.0
      for k in range(10):
        e = (e1, e2, e1, e2, vh)[k // 2]
        s = 1e-4 if k % 2 == 0 else -1e-4
        if k < 4 or k >= 8:
          dk, gk, nk = _cast(mjm, mjd, p + s * e, v, gg, flg, be)
        else:
          dk, gk, nk = _cast(mjm, mjd, p, v + s * vn_ * e, gg, flg, be)
        if gk != g0:
          flip = True
          break
        if g0 >= 0:
          if k < 8:
            sens = max(sens, abs(dk - d0))
          nsens = max(nsens, float(np.max(np.abs(nk - n0))))
      kind = kinds[wr][r]
      gname = "none" if g0 < 0 else _TNAME[int(gtype[g0])]
      rec.cls(f"kind:{kind}", f"hit:{gname}")
      if flip or sens > 1e-2 * (1 + abs(d0)):
        rec.boundary_skipped += 1
        rec.cls("boundary:flip" if flip else "boundary:sens")
        continue
      # per-geom reference distances: non-triviality, ties
      elig = _eligible(mjm, gg, flg, be)
      # a ray lying (almost) inside an eligible plane: x = -lpnt_z / lvec_z is 0/0, float32 and float64 legitimately disagree
      degenerate = False
      for g in elig:
        if gtype[g] == _GT.mjGEOM_PLANE:
          lvz, lpz = abs(gm[w][g][:, 2] @ vh), abs(gm[w][g][:, 2] @ (p - gx[w][g]))
          # parallel within float32 round-off (the sign of lvec_z, hence hit/no-hit at ~1e8, is not determined), or lying in the plane
          if lvz < 1e-5 or (lvz < 1e-3 and lpz < 1e-3):
            degenerate = True
      if degenerate:
        rec.boundary_skipped += 1
        rec.cls("boundary:ray-parallel-to-plane")
        continue
      alld = np.array([_geom_dist(mjm, mjd, g, p, v) for g in range(mjm.ngeom)])
      hits = sorted(alld[g] for g in elig if alld[g] >= 0)
      allhit = [g for g in range(mjm.ngeom) if alld[g] >= 0]
      g_unf = min(allhit, key=lambda g: alld[g]) if allhit else -1
      filtered_nearest = g_unf >= 0 and g_unf not in elig
      if len(hits) >= 2 or filtered_nearest:
        nt = True
        rec.cls("nt:nearest-of-many" if len(hits) >= 2 else "nt:filtered-nearest")
      if filtered_nearest:
        rec.cls("filtered-nearest")
      tol_d = 2e-5 / vn_ + 2e-4 * abs(d0) + 2.0 * sens
      tie = len(hits) >= 2 and hits[1] - hits[0] <= 2 * tol_d
      if tie:
        rec.cls("tie")
      # element classes of recorded findings (used only to label a mismatch of the BVH path, never to skip a comparison)
      cls_bvh = None
      if g0 >= 0 and gtype[g0] == _GT.mjGEOM_MESH:
        mid = mjm.geom_dataid[g0]
        mv = mjm.mesh_vert[mjm.mesh_vertadr[mid] : mjm.mesh_vertadr[mid] + mjm.mesh_vertnum[mid]]
        half = 0.5 * (mv.max(axis=0) - mv.min(axis=0))
        hl = gm[w][g0].T @ (p + d0 * v - gx[w][g0])
        if np.any(np.abs(hl) > half * (1 - 1e-6)):  # hit lies outside the scene-BVH box (centred at the geom origin)
          cls_bvh = "bvh:mesh-bounds"
      elif g0 >= 0 and gtype[g0] == _GT.mjGEOM_HFIELD:
        # hit through a side wall / the base box of the hfield (the BVH path only knows the top surface)
        nl = gm[w][g0].T @ n0
        hl = gm[w][g0].T @ (p + d0 * v - gx[w][g0])
        if nl[2] <= 1e-6:
          cls_bvh = "bvh:hfield-base-side"
        else:
          hs = mjm.hfield_size[mjm.geom_dataid[g0]]
          top = gx[w][g0] + gm[w][g0] @ np.array([hl[0], hl[1], hs[2] + 1.0])
          dz = mujoco.mj_rayHfield(mjm, mjd, int(g0), top, -gm[w][g0][:, 2].copy())
          if dz >= 0 and (hs[2] + 1.0 - dz) - hl[2] > 1e-5:  # hit lies below the surface: top face of the base box
            cls_bvh = "bvh:hfield-base-side"
      ctx = dict(world=w, ray=r, kind=kind, pnt=p.tolist(), vec=v.tolist(), bodyexclude=be, mask=mask, flg_static=flg, ref=[d0, g0, n0.tolist()])

      def judge(tag, dd, dg, dn, rd, rg, rn, tol, sig_known):
        """Compare one result (dd, dg, dn) with its reference (rd, rg, rn)."""
        if (dg < 0) != (rg < 0) or (dd < 0) != (rd < 0):
          return _route(rec, sig_known or f"{tag}:hit-nohit", f"{tag}: hit/no-hit differs: got dist {dd} geom {dg}, want dist {rd} geom {rg} {ctx}", got=[dd, int(dg)], **ctx)
        if rg < 0:
          return
        if not sig_known:
          rec.err(f"{tag}:dist/tol", abs(dd - rd) / tol)
        if abs(dd - rd) > tol:
          return _route(rec, sig_known or f"{tag}:dist", f"{tag}: dist {dd} vs {rd} (tol {tol:.3g}) geom {dg} vs {rg} {ctx}", got=[dd, int(dg)], **ctx)
        if tie:
          return
        if dg != rg:
          return _route(rec, sig_known or f"{tag}:geomid", f"{tag}: geomid {dg} vs {rg} dist {dd} vs {rd} {ctx}", got=[dd, int(dg)], **ctx)
        if nsens <= 0.05:
          en = float(np.max(np.abs(dn - rn)))
          if not sig_known:
            rec.err(f"{tag}:normal/tol", en / (2e-3 + 1.0 * nsens))
          if en > 2e-3 + 1.0 * nsens:
            return _route(rec, sig_known or f"{tag}:normal", f"{tag}: normal {dn.tolist()} vs {rn.tolist()} geom {rg} {ctx}", got=[dd, int(dg)], **ctx)

      # brute-force path vs mj_ray
      judge("mjray", bd[w, r], int(bg[w, r]), bn[w, r], d0, g0, n0, tol_d, None)
      # BVH path vs brute-force path
      rec.ev()
      tol_b = 1e-5 / vn_ + 1e-5 * abs(bd[w, r]) + 0.1 * sens
      judge("bvh", vd[w, r], int(vg[w, r]), vn[w, r], bd[w, r], int(bg[w, r]), bn[w, r], tol_b, cls_bvh)

  rec.cls(f"nworld:{nworld}", f"shared_rays:{nwr == 1 and nworld > 1}", f"mask:{'none' if mask is None else 'set'}", f"flg_static:{flg}", f"rc_groups:{'all' if rc_groups == groups_all else 'subset'}", f"vec:{case['vec_mode']}")
  for t in sorted(set(int(x) for x in gtype)):
    rec.cls(f"scene-has:{_TNAME[t]}")
  if nt:
    rec.nt()
