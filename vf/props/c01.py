"""C01 Kinematics agree with MuJoCo C (differential)."""

from __future__ import annotations

import numpy as np
from hypothesis import strategies as st

import mujoco
import mujoco_warp as mjw

from vf import gen, mjw as H
from vf.core import Reject, check_close, check_equal

RULE = (
  "case = random kinematic tree (free/ball/hinge/slide, several joints per body, welded bodies, mocap, unnormalised quats, "
  "cameras/lights in all tracking modes, fixed + spatial tendons with sphere/cylinder wrapping and pulleys) x nworld in {1,3} different qpos; "
  "oracle = mj_kinematics+mj_comPos+mj_camlight+mj_tendon on the float32-rounded state; evaluation = one (case, world); "
  "non-trivial = nbody>=3 and (non-hinge joint or tendon/camera/light present); distinct by sha1(case)"
)
ASSUMPTIONS = ["MuJoCo C 3.13 python bindings are the reference", "tolerances: 2e-5*scale kinematics, 1e-4 com/inertia/tendon", "CPU device"]
BUDGET = {
  "quick": dict(examples=640, seconds=420, workers=16),
  "thorough": dict(examples=16000, seconds=1200, workers=16),
}


def strategy(tier):
  big = tier == "thorough"
  return st.fixed_dictionaries(
    dict(
      cfg=gen.cfg_strategy(
        nroot=st.integers(1, 5 if big else 3),
        maxdepth=st.integers(0, 5 if big else 3),
        maxchild=st.integers(1, 3),
        p_multi_joint=st.sampled_from([0.0, 0.3, 0.6]),
        p_weld=st.sampled_from([0.0, 0.2, 0.5]),
        mocap=st.integers(0, 2),
        cameras=st.integers(0, 3),
        cam_vertical=st.sampled_from([0.0, 0.5]),
        lights=st.integers(0, 3),
        tendons=st.integers(0, 2),
        spatial_tendons=st.integers(0, 3),
        wrap=st.booleans(),
        pulley=st.booleans(),
        multi_pulley=st.sampled_from([0.0, 0.0, 0.7]),
        unnorm=st.booleans(),
        sites=st.sampled_from([0.5, 1.0]),
        geom_menu=st.sampled_from([["sphere", "capsule", "box"], ["sphere", "cylinder", "ellipsoid", "box", "capsule"]]),
        geoms_per_body=st.sampled_from([(0, 2), (1, 2), (1, 3)]),
        inertial=st.booleans(),
        static_roots=st.sampled_from([0.0, 0.3]),
      ),
      nworld=st.sampled_from([1, 3]),
      state_seed=st.integers(0, 10**6),
      sigma=st.sampled_from([0.0, 1e-3, 0.3, 3.0]),
      unnorm_state=st.booleans(),
    )
  )


def _sign_fix(q, ref):
  q = np.array(q, dtype=np.float64)
  s = np.sign(np.sum(q * ref, axis=-1, keepdims=True))
  s[s == 0] = 1
  return q * s


def _near_tangent_wrap(mjm, mjd):
  """True if some tendon wraps a geom with its two tangent points closer than 5% of the geom radius (MuJoCo's result)."""
  wx = np.array(mjd.wrap_xpos).reshape(-1, 3)
  wo = np.array(mjd.wrap_obj).reshape(-1)
  for t in range(mjm.ntendon):
    a, n = int(mjd.ten_wrapadr[t]), int(mjd.ten_wrapnum[t])
    for i in range(a, a + n - 1):
      if wo[i] >= 0 and wo[i + 1] == wo[i]:
        r = float(mjm.geom_size[wo[i], 0])
        if np.linalg.norm(wx[i + 1] - wx[i]) < 0.05 * r:
          return True
  return False


def check(case, rec):
  spec = gen.make_spec(case["cfg"])
  mjm = H.compile_spec(spec)
  if mjm.nq == 0 and mjm.nmocap == 0:
    raise Reject("no dofs")
  nworld = case["nworld"]
  m = H.put_model(mjm)
  d = H.make_data(mjm, nworld=nworld)
  states = [H.rand_state(mjm, case["state_seed"] + 31 * w, sigma=case["sigma"], unnorm=case["unnorm_state"]) for w in range(nworld)]
  H.set_data(d, states)
  mjw.fwd_kinematics(m, d)

  jt = set(int(t) for t in mjm.jnt_type)
  nontriv = mjm.nbody >= 3 and (bool(jt - {3}) or mjm.ntendon > 0 or mjm.ncam > 0 or mjm.nlight > 0)
  rec.cls(f"nbody>=3:{mjm.nbody >= 3}", f"tendon:{mjm.ntendon > 0}", f"wrap:{bool((mjm.wrap_type >= 3).any()) if mjm.nwrap else False}", f"mocap:{mjm.nmocap > 0}", f"cam:{mjm.ncam > 0}", f"unnorm:{case['unnorm_state']}")

  fields = dict(
    xpos=2e-5, xmat=2e-5, xipos=2e-5, ximat=2e-5, xanchor=2e-5, xaxis=2e-5, geom_xpos=2e-5, geom_xmat=2e-5, site_xpos=2e-5, site_xmat=2e-5,
    cam_xpos=2e-5, cam_xmat=2e-5, light_xpos=2e-5, light_xdir=2e-5, subtree_com=1e-4, cdof=1e-4, cinert=1e-4, ten_length=1e-4,
  )
  got = {k: getattr(d, k).numpy() for k in fields}
  got["xquat"] = d.xquat.numpy()
  got["ten_J"] = d.ten_J.numpy()
  got["ten_wrapnum"] = d.ten_wrapnum.numpy()
  got["ten_wrapadr"] = d.ten_wrapadr.numpy()
  got["wrap_xpos"] = d.wrap_xpos.numpy()
  got["wrap_obj"] = d.wrap_obj.numpy()

  for w in range(nworld):
    mjd = mujoco.MjData(mjm)
    H.set_mjd(mjd, states[w])
    mujoco.mj_kinematics(mjm, mjd)
    mujoco.mj_comPos(mjm, mjd)
    mujoco.mj_camlight(mjm, mjd)
    mujoco.mj_tendon(mjm, mjd)
    rec.ev()
    # tendon wrap tangency switches are discontinuous: skip tendon comparison if MuJoCo itself is unstable under a tiny perturbation
    skip_tendon = False
    if mjm.ntendon and mjm.nwrap and (mjm.wrap_type >= 3).any():
      mjd2 = mujoco.MjData(mjm)
      H.set_mjd(mjd2, states[w])
      mjd2.qpos[:] += 1e-5 * np.sin(np.arange(mjm.nq) + 1.0)
      mujoco.mj_kinematics(mjm, mjd2)
      mujoco.mj_comPos(mjm, mjd2)
      mujoco.mj_tendon(mjm, mjd2)
      if not np.array_equal(mjd2.ten_wrapnum, mjd.ten_wrapnum) or np.max(np.abs(mjd2.ten_length - mjd.ten_length)) > 1e-3:
        skip_tendon = True
        rec.boundary_skipped += 1
    # near-tangent wraps: MuJoCo's two wrap points on a sphere/cylinder almost coincide (chord < 5% of the radius).  MJWarp's float32
    # wrap picks the long arc around the object there for some geometries (recorded finding wrap:near-tangent-arc); the tendon
    # outputs of such a world are attributed to that finding when they differ, and judged normally when they agree.
    if mjm.ntendon and mjm.nwrap and not skip_tendon and _near_tangent_wrap(mjm, mjd):
      g_len = got["ten_length"][w].reshape(np.asarray(mjd.ten_length).shape)
      if np.max(np.abs(g_len - mjd.ten_length)) > 1e-4 * max(1.0, float(np.max(np.abs(mjd.ten_length)))):
        rec.violation(f"tendon length differs at a near-tangent wrap: {g_len.tolist()} vs {np.asarray(mjd.ten_length).tolist()}", sig="wrap:near-tangent-arc", world=w)
        skip_tendon = True
        rec.cls("skipped:near-tangent-wrap")
    scale = max(1.0, float(np.max(np.abs(mjd.xpos))))
    for k, tol in fields.items():
      if k == "ten_length" and skip_tendon:
        continue
      ref = np.asarray(getattr(mjd, k))
      g = got[k][w].reshape(ref.shape)
      sc = scale if k not in ("cinert",) else None
      check_close(rec, k, g, ref, tol, scale=sc, world=w)
    # quaternion up to sign
    check_close(rec, "xquat", _sign_fix(got["xquat"][w], mjd.xquat), mjd.xquat, 2e-5, scale=1.0, world=w)
    if mjm.ntendon and not skip_tendon:
      # tendon Jacobian (model CSR structure) -> dense
      J = np.zeros((mjm.ntendon, mjm.nv))
      gj = got["ten_J"][w]
      for t in range(mjm.ntendon):
        a, n = int(m.ten_J_rowadr.numpy()[t]), int(m.ten_J_rownnz.numpy()[t])
        J[t, m.ten_J_colind.numpy()[a : a + n]] = gj[a : a + n]
      Jref = np.zeros((mjm.ntendon, mjm.nv))
      mujoco.mju_sparse2dense(Jref, mjd.ten_J, mjm.ten_J_rownnz, mjm.ten_J_rowadr, mjm.ten_J_colind)
      check_close(rec, "ten_J", J, Jref, 1e-4, world=w)
      check_equal(rec, "ten_wrapnum", got["ten_wrapnum"][w], mjd.ten_wrapnum, world=w)
      # wrap points
      for t in range(mjm.ntendon):
        a, n = int(mjd.ten_wrapadr[t]), int(mjd.ten_wrapnum[t])
        ga = int(got["ten_wrapadr"][w][t])
        gw = got["wrap_xpos"][w].reshape(-1, 3)
        check_close(rec, "wrap_xpos", gw[ga : ga + n], np.array(mjd.wrap_xpos).reshape(-1, 3)[a : a + n], 1e-4, scale=scale, world=w, tendon=t)
        check_equal(rec, "wrap_obj", got["wrap_obj"][w].reshape(-1)[ga : ga + n], np.array(mjd.wrap_obj).reshape(-1)[a : a + n], world=w, tendon=t)
  if nontriv:
    rec.nt()
