"""C11 Results are independent of parallel thread order (harness-owned serial schedules, DESIGN.md §2.4)."""

from __future__ import annotations

import numpy as np
from hypothesis import strategies as st

import mujoco
import mujoco_warp as mjw
from mujoco_warp._src.types import OverflowType as OT

from vf import gen, mjw as H, sched
from vf.core import Reject, check_close, check_equal
from vf.props import c05

SCHED = True  # vf.worker installs the permuted task loop and uses the warp-sched kernel cache

RULE = (
  "case = rich model (contacts on a plane, every constraint kind, tendons, actuators; optionally sleeping/islands enabled) x 1-3 worlds with different states x "
  "capacities (ample, or exactly the measured need) x schedule (global: descending or one of several pseudo-random task permutations applied to every launch; "
  "mixed: a different permutation per kernel) x 1-3 steps with per-step resynchronisation; oracle: step under the schedule vs step under the ascending order from the "
  "identical state: overflow bits, ne/nf/nl/nefc, nacon, per-world contact multisets (exact), constraint rows as a keyed multiset (1e-5), island partition / nisland, "
  "tree_asleep sign pattern equal; continuous outputs within re-association round-off (1e-4 smooth, 2e-3 solver outputs); evaluation = one (step, schedule) comparison; "
  "non-trivial = some world has >=2 contacts or >=2 rows and the raw contact/row order actually differed between the schedules"
)
ASSUMPTIONS = [
  "serial task orders only: every task of a launch runs to completion before the next (no instruction-level interleaving of two tasks)",
  "cases where either run reports a capacity overflow bit are discarded and counted (the statement is conditional on no overflow)",
  "solver outputs compared to 2e-3 (Newton) / 2e-2 (CG, whose iterates are far more sensitive to the summation order) of their scale; worlds that hit the iteration limit are judged on everything except solver outputs",
  "RK4 is not generated: its contacts/rows are those of the last sub-stage, whose state already carries the solver round-off of the earlier stages",
]
BUDGET = {"quick": dict(examples=200, seconds=420, workers=16), "thorough": dict(examples=5000, seconds=1500, workers=16)}

_CAP = int(OT.NEFC | OT.NJMAX_NNZ | OT.BROADPHASE | OT.NARROWPHASE | OT.CCD | OT.NVMAX | OT.HFIELD | OT.EPA_HORIZON | OT.CONTACT_MATCH)
_SMOOTH = ["xpos", "xquat", "subtree_com", "cinert", "crb", "qfrc_bias", "qfrc_passive", "qfrc_actuator", "actuator_force", "ten_length", "cvel"]
_SOLVED = ["qacc_smooth", "qacc", "qfrc_constraint", "qpos", "qvel", "act", "qacc_warmstart", "sensordata", "time"]


def strategy(tier):
  return st.fixed_dictionaries(
    dict(
      cfg=gen.rich_cfg(
        nroot=st.integers(2, 5),
        maxdepth=st.integers(0, 3),
        maxchild=st.integers(1, 3),
        equalities=st.integers(0, 3),
        tendons=st.integers(0, 2),
        limits=st.sampled_from([0.0, 0.6]),
        frictionloss=st.sampled_from([0.0, 0.4]),
        sleep_policy=st.sampled_from([None, ["auto", "never", "allowed", "init"]]),
        # jointless root bodies (static pedestals with several jointed children) and mocap bodies: frames that only one task of a launch writes and others may read
        static_roots=st.sampled_from([0.0, 0.0, 0.5]),
        mocap=st.integers(0, 2),
        # long chains: kernels that split one row / one tree over several tasks (dense rows are cut into dof chunks above nv 20)
        chains=st.sampled_from([[], [], [], [["mixed", 24]], [["hinge", 31]], [["star", 20]]]),
      ),
      opt=gen.option_strategy(integrators=("Euler", "implicitfast", "implicit")),
      sleep=st.sampled_from([False, False, True]),
      nworld=st.sampled_from([1, 2, 3]),
      caps=st.sampled_from(["ample", "ample", "exact"]),
      sched=st.one_of(st.sampled_from([1, 2, 3, 5, 7, 11, 13]), st.integers(1000, 1000000)),  # >=1000: mixed per-kernel modes, value = seed
      state_seed=st.integers(0, 10**6),
      nstep=st.integers(1, 3),
    )
  )


def _snap(m, d, mjm, sleep):
  n = d.nworld
  out = {k: getattr(d, k).numpy().copy() for k in _SMOOTH + _SOLVED + ["M"]}
  out.update(ne=d.ne.numpy().copy(), nf=d.nf.numpy().copy(), nl=d.nl.numpy().copy(), nefc=d.nefc.numpy().copy(), nacon=int(d.nacon.numpy()[0]),
             niter=d.solver_niter.numpy().copy(), overflow=d.overflow.numpy().copy())
  out["contacts"] = [H.contacts(d, w) for w in range(n)]
  out["efc"] = [H.efc_dense(m, d, w) for w in range(n)]
  wid = d.contact.worldid.numpy()[: min(out["nacon"], d.naconmax)]
  out["wid"] = wid
  out["raw_geom"] = d.contact.geom.numpy()[: min(out["nacon"], d.naconmax)].copy()
  for k in ("tree_island", "nisland", "tree_asleep", "tree_awake", "body_awake") if sleep else ():
    if hasattr(d, k):
      out[k] = getattr(d, k).numpy().copy()
  return out


def _partition(labels):
  groups = {}
  for i, l in enumerate(labels):
    if l >= 0:
      groups.setdefault(int(l), []).append(i)
  return sorted(tuple(v) for v in groups.values())


def _compare(rec, mjm, a, b, ctx, soltol=2e-3):
  """a: ascending order (reference), b: permuted order."""
  n = len(a["contacts"])
  check_equal(rec, "overflow(capacity bits)", b["overflow"] & _CAP, a["overflow"] & _CAP, sig="overflow", **ctx)
  # worlds whose solve hit the iteration limit in either run have no converged result to compare (ITERATIONS is not a capacity bit)
  conv = ((a["overflow"] | b["overflow"]) & int(OT.ITERATIONS)) == 0
  rec.notes["worlds_unconverged"] += int((~conv).sum())
  cond = np.ones(n)
  for w in range(n):
    ev = np.linalg.eigvalsh(H.dense_M(mjm, a["M"][w]))
    cond[w] = ev[-1] / max(ev[0], 1e-300) if ev[0] > 0 else np.inf
  rec.boundary_skipped += int((cond > 1e6).sum())
  for k in ("ne", "nf", "nl", "nefc"):
    check_equal(rec, k, b[k], a[k], sig=f"count:{k}", **ctx)
  check_equal(rec, "nacon", b["nacon"], a["nacon"], sig="count:nacon", **ctx)
  order_differs = False
  for w in range(n):
    ca, cb = a["contacts"][w], b["contacts"][w]
    pairs, ua, ub = H.match_contacts(cb, ca)
    if ua or ub:
      rec.violation(f"contact sets differ in world {w}: only permuted {[cb['geom'][i].tolist() for i in ua][:3]} only ascending {[ca['geom'][i].tolist() for i in ub][:3]}", sig="contacts:set", world=w, **ctx)
      return False
    ib = [i for i, _ in pairs]
    ia = [j for _, j in pairs]
    if ib != ia:
      order_differs = True
    for f in ("dist", "pos", "frame", "includemargin", "friction", "solref", "solreffriction", "solimp"):
      check_close(rec, f"contact.{f}", cb[f][ib], ca[f][ia], 1e-6, sig=f"contacts:{f}", world=w, **ctx)
    check_equal(rec, "contact.dim", cb["dim"][ib], ca["dim"][ia], sig="contacts:dim", world=w, **ctx)
    # rows as a keyed multiset; contact ids are mapped to the local contact list and keyed by the reference contact's position
    # synthetic position = index of the matched reference contact, so that two contacts of one geom pair can never share a key
    cak, cbk = dict(ca), dict(cb)
    cak["pos"] = np.array([[j, 0.0, 0.0] for j in range(len(ca["dist"]))], dtype=np.float64).reshape(-1, 3)
    cbk["pos"] = np.zeros((len(cb["dist"]), 3))
    for i, j in pairs:
      cbk["pos"][i] = [j, 0.0, 0.0]
    ida = {int(g): k for k, g in enumerate(np.nonzero(a["wid"] == w)[0])}
    idb = {int(g): k for k, g in enumerate(np.nonzero(b["wid"] == w)[0])}
    ea, eb = a["efc"][w], b["efc"][w]
    ra, rb = c05.rows_keyed(ea, cak, mjm, ida), c05.rows_keyed(eb, cbk, mjm, idb)
    if [k for k, _ in ra] != [k for k, _ in rb]:
      onlyb = [k for k in dict(rb) if k not in dict(ra)][:3]
      onlya = [k for k in dict(ra) if k not in dict(rb)][:3]
      rec.violation(f"constraint row multisets differ in world {w}: only permuted {onlyb} only ascending {onlya}", sig="rows:keys", world=w, **ctx)
      return False
    ja = [i for _, i in ra]
    jb = [i for _, i in rb]
    if ja != jb:
      order_differs = True
    if ja:
      for f, tol in (("J", 1e-5), ("pos", 1e-5), ("margin", 1e-6), ("D", 1e-5), ("aref", 1e-4), ("vel", 1e-4), ("frictionloss", 1e-6)):
        check_close(rec, f"efc.{f}", eb[f][jb], ea[f][ja], tol, sig=f"rows:{f}", world=w, **ctx)
      # force/state belong to the solver: tolerance of the solve
      fs = max(1.0, float(np.max(np.abs(ea["force"]))))
      if conv[w]:
        check_close(rec, "efc.force", eb["force"][jb], ea["force"][ja], 2.5 * soltol, scale=fs, sig="rows:force", world=w, **ctx)
  for k in _SMOOTH:
    if a[k].shape == b[k].shape and np.array_equal(a[k], b[k], equal_nan=True):
      rec.notes["bitwise_equal_fields"] += 1
      continue
    rec.notes["non_bitwise_fields"] += 1
    if k == "xquat":
      s = np.sign(np.sum(a[k] * b[k], axis=-1, keepdims=True))
      s[s == 0] = 1
      check_close(rec, k, b[k] * s, a[k], 1e-5, sig=f"smooth:{k}", **ctx)
    else:
      check_close(rec, k, b[k], a[k], 1e-4, sig=f"smooth:{k}", **ctx)
  for k in _SOLVED:
    if a[k].shape == b[k].shape and np.array_equal(a[k], b[k], equal_nan=True):
      rec.notes["bitwise_equal_fields"] += 1
      continue
    rec.notes["non_bitwise_fields"] += 1
    for w in range(n):
      if cond[w] > 1e6 or not (conv[w] or k in ("time", "qacc_smooth")):
        continue
      # M^-1 amplifies the re-association round-off of M and the forces by cond(M)
      check_close(rec, k, b[k][w], a[k][w], max(soltol if k not in ("time", "qacc_smooth") else 2e-3, 3e-7 * cond[w]), sig=f"solved:{k}", world=w, cond=float(cond[w]), **ctx)
  if np.max(np.abs(a["niter"] - b["niter"])) > 3:
    rec.notes["niter_differs_by_more_than_3"] += 1
  if "tree_island" in a:
    for w in range(n):
      if _partition(a["tree_island"][w]) != _partition(b["tree_island"][w]):
        rec.violation(f"island partition differs in world {w}: {a['tree_island'][w].tolist()} vs {b['tree_island'][w].tolist()}", sig="island:partition", world=w, **ctx)
    if "nisland" in a:
      check_equal(rec, "nisland", b["nisland"], a["nisland"], sig="island:nisland", **ctx)
  if "tree_asleep" in a:
    check_equal(rec, "tree_asleep<0", b["tree_asleep"] < 0, a["tree_asleep"] < 0, sig="sleep:pattern", **ctx)
    for w in range(n):
      # sleeping trees: the cycle they belong to must be the same set
      def cycles(t):
        out = set()
        for i in range(len(t)):
          if t[i] >= 0:
            cyc, j, guard = [i], int(t[i]), 0
            while j != i and 0 <= j < len(t) and t[j] >= 0 and guard < len(t):
              cyc.append(j)
              j = int(t[j])
              guard += 1
            out.add(tuple(sorted(cyc)))
        return out
      if cycles(a["tree_asleep"][w]) != cycles(b["tree_asleep"][w]):
        rec.violation(f"sleep cycles differ in world {w}: {a['tree_asleep'][w].tolist()} vs {b['tree_asleep'][w].tolist()}", sig="sleep:cycles", world=w, **ctx)
  if "body_awake" in a:
    check_equal(rec, "body_awake", b["body_awake"], a["body_awake"], sig="sleep:body_awake", **ctx)
  return order_differs


def _apply_sched(s):
  if s >= 1000:
    sched.per_launch(s)
  else:
    sched.per_launch(None)
    sched.set_mode(s)


def _reset_sched():
  sched.per_launch(None)
  sched.set_mode(0)


def check(case, rec):
  _reset_sched()
  cfg = dict(case["cfg"])
  if cfg.get("sleep_policy") is None:
    cfg.pop("sleep_policy", None)
  opt = dict(case["opt"])
  if case["sleep"]:
    opt["solver"] = "Newton"  # put_model: sleeping requires the Newton solver
    opt["flags"] = dict(sleep="enable")
  else:
    cfg.pop("sleep_policy", None)
  cfg["option"] = opt
  mjm = H.compile_spec(gen.make_spec(cfg))
  if mjm.nv == 0:
    raise Reject("nv=0")
  m = H.put_model(mjm)
  n = case["nworld"]
  states = [H.rand_state(mjm, case["state_seed"] + 101 * w, sigma=0.15 * (1 + w % 2), vel=0.5 * (w + 1) if not case["sleep"] else 0.02 * w, applied=(w % 2 == 1)) for w in range(n)]
  g = np.random.default_rng(case["state_seed"] + 5)
  for w in range(n):
    if mjm.neq:
      states[w]["eq_active"] = g.uniform(size=mjm.neq) < 0.7
  caps = dict(nconmax=120, njmax=400)
  try:
    if case["caps"] == "exact":
      # measuring run under the ascending order: exact need over the steps we are going to take
      P = H.make_data(mjm, nworld=n, **caps)
      H.set_data(P, states)
      need_con, need_efc = 0, 0
      for _ in range(case["nstep"]):
        mjw.step(m, P)
        need_con = max(need_con, int(P.nacon.numpy()[0]), int(P.ncollision.numpy()[0]))  # broadphase pairs share the capacity
        need_efc = max(need_efc, int(P.nefc.numpy().max()))
      if (H.overflow(P) & _CAP).any() or need_con == 0:
        rec.inconclusive += 1
        rec.cls("discarded:measure")
        return
      # quantise to limit kernel specialisations: exact on the contact buffer (shared atomically), rows exact up to a multiple of 8
      A = H.make_data(mjm, nworld=n, naconmax=need_con, njmax=max(8, -(-need_efc // 8) * 8))
      B = H.make_data(mjm, nworld=n, naconmax=need_con, njmax=max(8, -(-need_efc // 8) * 8))
    else:
      A = H.make_data(mjm, nworld=n, **caps)
      B = H.make_data(mjm, nworld=n, **caps)
    H.set_data(A, states)
    H.set_data(B, states)
    nt = False
    for s in range(case["nstep"]):
      _reset_sched()
      mjw.step(m, A)
      _apply_sched(case["sched"])
      mjw.step(m, B)
      _reset_sched()
      a, b = _snap(m, A, mjm, case["sleep"]), _snap(m, B, mjm, case["sleep"])
      if ((a["overflow"] | b["overflow"]) & _CAP).any():
        rec.inconclusive += 1
        rec.cls("discarded:overflow" + (":only-permuted" if not (a["overflow"] & _CAP).any() else ""))
        return
      if not all(np.all(np.isfinite(a[k])) for k in ("qpos", "qvel", "qacc")):
        rec.inconclusive += 1
        rec.cls("discarded:nonfinite")
        return
      rec.ev()
      differs = _compare(rec, mjm, a, b, dict(step=s, sched=case["sched"]), soltol=2e-3 if opt["solver"] == "Newton" else 2e-2)
      many = any(len(a["contacts"][w]["dist"]) >= 2 or a["efc"][w]["nefc"] >= 2 for w in range(n))
      rec.cls(f"raw-order-differs:{bool(differs)}")
      nt |= bool(differs and many)
      # resynchronise B onto A's state (full physics state incl. warmstart) so that round-off is never amplified over steps
      st_ = H.get_state(m, A, mjm, int(mujoco.mjtState.mjSTATE_FULLPHYSICS | mujoco.mjtState.mjSTATE_WARMSTART))
      H.set_state(m, B, mjm, st_, int(mujoco.mjtState.mjSTATE_FULLPHYSICS | mujoco.mjtState.mjSTATE_WARMSTART))
      if "tree_asleep" in a:
        for k in ("tree_asleep", "tree_awake", "body_awake"):
          if hasattr(A, k):
            getattr(B, k).assign(getattr(A, k).numpy())
  finally:
    _reset_sched()
  rec.cls(f"sched:{'mixed' if case['sched'] >= 1000 else case['sched']}", f"caps:{case['caps']}", f"sleep:{case['sleep']}", f"nworld:{n}", f"solver:{opt['solver']}", f"sparse:{bool(m.is_sparse)}")
  if nt:
    rec.nt()
