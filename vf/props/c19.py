"""C19 Contact pair filtering follows MuJoCo's rules (reference predicate + MuJoCo differential on geometry-free scenes)."""

from __future__ import annotations

import numpy as np
from hypothesis import strategies as st

import mujoco
import mujoco_warp as mjw

from vf import gen, mjw as H
from vf.core import Reject, check_close, check_equal

RULE = (
  "case = random kinematic tree of 2-8 bodies (parent drawn per body; joint none/hinge/slide/ball, free or mocap for roots; nested jointless chains "
  "to the world and below jointed bodies), 1-2 geoms per body + 0-2 world geoms, every geom a sphere (world: also a plane) that deeply overlaps every "
  "other geom so that geometry never filters; drawn 4-bit contype/conaffinity masks, 0-3 <exclude>s (incl. world), 0-3 explicit <pair>s (also on "
  "same-body, same-weld, parent-child, masked, excluded and static-static geoms) with their own condim/friction/solref/solreffriction/solimp/margin/gap, "
  "0-3 distance/normal/fromto sensors on drawn geom or body pairs (they keep filtered pairs in the broadphase list), filterparent flag on/off, nworld 1-2 (slightly different joint positions). Oracle per world = the set of unordered geom pairs of the constraint contacts (ContactType.CONSTRAINT) in Data.contact after "
  "mjw.kinematics+mjw.collision must equal (a) the reference predicate written from the statement [explicit pair OR (mask test AND different weld "
  "bodies AND not both without degrees of freedom AND not weld-parent/weld-child (only with filterparent, never for the world weld) AND no <exclude> "
  "of the two bodies)] and (b) the pair set of mj_collision; each pair is reported once; contacts of explicit pairs carry pair_dim/friction/solref/"
  "solreffriction/solimp/margin (vs Model.pair_* and vs MuJoCo's contact, 1e-5). evaluation = one world; non-trivial = candidate pairs were "
  "removed by >=2 different rules in that case; distinct by sha1(case)"
)
ASSUMPTIONS = [
  "MuJoCo C 3.13 mj_collision is the reference for the pair set; the predicate is judged only where it agrees with MuJoCo (disagreements are counted in notes and never reported)",
  "weld body / no-dof status are computed from the generated tree, not read from the model",
  "all geoms overlap by >= 1 cm (checked per case on MuJoCo's geom poses, else the case is rejected)",
]
BUDGET = {
  "quick": dict(examples=2400, seconds=420, workers=16),
  "thorough": dict(examples=24000, seconds=1200, workers=16),
}

_ROOT_KINDS = ["none", "none", "free", "hinge", "slide", "ball", "mocap"]
_CHILD_KINDS = ["none", "none", "hinge", "slide", "ball"]
_MASKS = [0, 0, 1, 2, 4, 8, 3, 5, 6, 9, 10, 12, 7, 11, 13, 14, 15]


def _mask():
  return st.sampled_from(_MASKS)


def _geom_st():
  return st.fixed_dictionaries(dict(ct=_mask(), ca=_mask()))


@st.composite
def _case(draw, tier):
  nb = draw(st.integers(2, 8 if tier == "thorough" else 7))
  bodies = []
  for i in range(nb):
    parent = draw(st.integers(-1, i - 1))
    kind = draw(st.sampled_from(_ROOT_KINDS if parent == -1 else _CHILD_KINDS))
    ng = draw(st.sampled_from([1, 1, 2]))
    bodies.append(dict(parent=parent, kind=kind, geoms=[draw(_geom_st()) for _ in range(ng)]))
  world = [draw(_geom_st()) for _ in range(draw(st.integers(0, 2)))]
  plane = draw(st.booleans())
  ngeom = len(world) + sum(len(b["geoms"]) for b in bodies) + (1 if plane else 0)
  # body index -1 is the world
  excludes = []
  for _ in range(draw(st.integers(0, 3))):
    a = draw(st.integers(-1, nb - 1))
    b = draw(st.integers(-1, nb - 1))
    if a != b and [a, b] not in excludes and [b, a] not in excludes:
      excludes.append([a, b])
  pairs = []
  for _ in range(draw(st.integers(0, 3))):
    a = draw(st.integers(0, ngeom - 1))
    b = draw(st.integers(0, ngeom - 1))
    if a != b and not any({a, b} == {p[0], p[1]} for p in pairs):
      pairs.append([a, b])
  # collision sensors (distance / normal / fromto) between drawn geoms or bodies: they keep a pair in the broadphase list even when every rule filters it,
  # and such a pair must still not become a constraint contact
  dsens = []
  for _ in range(draw(st.sampled_from([0, 0, 1, 2, 3]))):
    a = draw(st.integers(0, ngeom - 1))
    b = draw(st.integers(0, ngeom - 1))
    if a != b:
      dsens.append([draw(st.sampled_from(["distance", "normal", "fromto"])), a, b, draw(st.booleans())])
  return dict(
    dsens=dsens,
    bodies=bodies,
    world=world,
    plane=plane,
    plane_mask=draw(_geom_st()),
    excludes=excludes,
    pairs=pairs,
    filterparent=draw(st.booleans()),
    nworld=draw(st.sampled_from([1, 1, 2])),
    seed=draw(st.integers(0, 2**31 - 1)),
  )


def strategy(tier):
  return _case(tier)


# --------------------------------------------------------------------------------------
# model construction


def build_spec(case):
  """Explicit gen.render spec.  Returns (spec, geoms) with geoms = list of dicts(body=<index, -1 world>, name, plane) in MuJoCo geom-id order."""
  r = gen.R(case["seed"])
  off = 0.004

  def geom(name, mk, plane=False):
    g = dict(name=name, contype=mk["ct"], conaffinity=mk["ca"])
    if plane:
      g.update(type="plane", size=[0, 0, 0.1], pos=[0, 0, r.u(-0.01, 0.01)])
    else:
      g.update(type="sphere", size=[r.u(0.1, 0.2)], pos=r.vec(3, -off, off))
    if r.p(0.6):
      g["condim"] = r.ch([1, 3, 4, 6])
    if r.p(0.6):
      g["friction"] = [r.u(0.2, 1.5), r.lu(1e-3, 0.1), r.lu(1e-4, 0.01)]
    if r.p(0.3):
      g["priority"] = r.i(0, 2)
    if r.p(0.4):
      g["solref"] = [r.u(0.005, 0.05), r.u(0.3, 1.5)]
    if r.p(0.4):
      g["solimp"] = [r.u(0.5, 0.9), r.u(0.9, 0.99), r.lu(1e-4, 1e-2), r.u(0.2, 0.8), r.u(1, 3)]
    if r.p(0.4):
      g["margin"] = r.u(0.0, 0.03)
      if r.p(0.5):
        g["gap"] = r.u(0.0, g["margin"])
    return g

  geoms = []  # geom-id order of the compiled model: world geoms first, then bodies depth-first in document order
  world_geoms = []
  k = 0
  for mk in case["world"]:
    world_geoms.append(geom(f"g{k}", mk))
    k += 1
  if case["plane"]:
    world_geoms.append(geom(f"g{k}", case["plane_mask"], plane=True))
    k += 1
  bodies = []
  for i, b in enumerate(case["bodies"]):
    sb = dict(name=f"b{i}", parent=b["parent"], pos=r.vec(3, -off, off), quat=r.quat(), joints=[], geoms=[], sites=[], cameras=[], lights=[])
    kind = b["kind"]
    if kind == "mocap":
      sb["mocap"] = True
    elif kind == "free":
      sb["joints"].append(dict(name=f"j{i}", type="free"))
    elif kind != "none":
      j = dict(name=f"j{i}", type=kind, pos=r.vec(3, -off, off))
      if kind != "ball":
        j["axis"] = r.unit()
      sb["joints"].append(j)
      if kind in ("hinge", "slide") and r.p(0.2):
        sb["joints"].append(dict(name=f"j{i}b", type=r.ch(["hinge", "slide"]), pos=r.vec(3, -off, off), axis=r.unit()))
    for _ in b["geoms"]:
      sb["geoms"].append(None)  # named after the document order is known
    sb["inertial"] = dict(pos=[0, 0, 0], mass=1.0, diaginertia=[0.01, 0.01, 0.01])
    bodies.append(sb)
  # document (depth-first) order = compiled body order
  children = {}
  for i, b in enumerate(case["bodies"]):
    children.setdefault(b["parent"], []).append(i)
  order = []

  def walk(i):
    order.append(i)
    for c in children.get(i, []):
      walk(c)

  for i in children.get(-1, []):
    walk(i)
  geom_owner = [dict(body=-1, name=g["name"], plane=g["type"] == "plane") for g in world_geoms]
  for i in order:
    for gi, mk in enumerate(case["bodies"][i]["geoms"]):
      g = geom(f"g{k}", mk)
      bodies[i]["geoms"][gi] = g
      geom_owner.append(dict(body=i, name=g["name"], plane=False))
      k += 1
  spec = dict(bodies=bodies, world_geoms=world_geoms, tendons=[], equalities=[], actuators=[], sensors=[], pairs=[], excludes=[])
  bname = lambda i: "world" if i < 0 else f"b{i}"
  for a, b in case["excludes"]:
    spec["excludes"].append(dict(body1=bname(a), body2=bname(b)))
  for a, b in case["pairs"]:
    if geom_owner[a]["plane"] and geom_owner[b]["plane"]:
      continue
    p = dict(geom1=geom_owner[a]["name"], geom2=geom_owner[b]["name"])
    if r.p(0.7):
      p["condim"] = r.ch([1, 3, 4, 6])
    if r.p(0.6):
      p["friction"] = [r.u(0.2, 1.5), r.u(0.2, 1.5), r.lu(1e-3, 0.1), r.lu(1e-4, 0.01), r.lu(1e-4, 0.01)]
    if r.p(0.6):
      p["solref"] = [r.u(0.005, 0.05), r.u(0.3, 1.5)] if r.p(0.7) else [-r.u(100, 2000), -r.u(1, 50)]
    if r.p(0.4):
      p["solreffriction"] = [r.u(0.005, 0.05), r.u(0.3, 1.5)]
    if r.p(0.5):
      p["solimp"] = [r.u(0.5, 0.9), r.u(0.9, 0.99), r.lu(1e-4, 1e-2), r.u(0.2, 0.8), r.u(1, 3)]
    if r.p(0.6):
      p["margin"] = r.u(0, 0.05)
      p["gap"] = r.u(0, p["margin"])
    spec["pairs"].append(p)
  for kind, a, b, by_body in case.get("dsens", []):
    oa, ob = geom_owner[a], geom_owner[b]
    if oa["plane"] or ob["plane"]:
      continue  # (mj_geomDistance does not take planes)
    if by_body and oa["body"] >= 0 and ob["body"] >= 0 and oa["body"] != ob["body"]:
      spec["sensors"].append(dict(kind=kind, body1=bname(oa["body"]), body2=bname(ob["body"]), cutoff=1))
    else:
      spec["sensors"].append(dict(kind=kind, geom1=oa["name"], geom2=ob["name"], cutoff=1))
  spec["meshes"] = []
  spec["option"] = dict(flags=dict(filterparent="enable" if case["filterparent"] else "disable"))
  spec["nkey"] = 0
  spec["nuserdata"] = 0
  return spec, geom_owner


# --------------------------------------------------------------------------------------
# reference predicate (from the statement; body indices of the *case*, -1 = world)


def tree_info(case):
  nb = len(case["bodies"])
  weld, nodof = {-1: -1}, {-1: True}
  for i, b in enumerate(case["bodies"]):  # parents precede children
    jointed = b["kind"] not in ("none", "mocap")
    if jointed:
      weld[i] = i
      nodof[i] = False
    elif b["kind"] == "mocap":
      weld[i] = i  # a mocap body is its own weld body (it moves), but has no degrees of freedom
      nodof[i] = True
    else:
      weld[i] = weld[b["parent"]]
      nodof[i] = nodof[b["parent"]]
  parent = {-1: -1}
  for i, b in enumerate(case["bodies"]):
    parent[i] = b["parent"]
  weldparent = {w: weld[parent[w]] for w in set(weld.values())}
  return weld, nodof, weldparent


def predicate(case, geom_owner, masks):
  """Returns dict {(g1,g2) g1<g2: rule} where rule is 'explicit', 'pass', or the name of the first rule that removes the pair."""
  weld, nodof, weldparent = tree_info(case)
  excl = {frozenset(e) for e in case["excludes"]}
  expl = {frozenset(p) for p in case["pairs"]}
  out = {}
  n = len(geom_owner)
  for g1 in range(n):
    for g2 in range(g1 + 1, n):
      if geom_owner[g1]["plane"] and geom_owner[g2]["plane"]:
        continue
      b1, b2 = geom_owner[g1]["body"], geom_owner[g2]["body"]
      w1, w2 = weld[b1], weld[b2]
      rules = []
      if not ((masks[g1][0] & masks[g2][1]) or (masks[g2][0] & masks[g1][1])):
        rules.append("mask")
      if w1 == w2:
        rules.append("sameweld")
      elif nodof[b1] and nodof[b2]:
        rules.append("nodof")
      if case["filterparent"] and w1 != -1 and w2 != -1 and w1 != w2 and (weldparent[w1] == w2 or weldparent[w2] == w1):
        rules.append("parentchild")
      if frozenset((b1, b2)) in excl and b1 != b2:
        rules.append("exclude")
      if frozenset((g1, g2)) in expl:
        out[(g1, g2)] = ("explicit", rules)
      else:
        # 'nodof' names the pair only when no other rule removes it (it is the class of a recorded MJWarp deviation)
        first = next((x for x in rules if x != "nodof"), "nodof")
        out[(g1, g2)] = ("pass" if not rules else first, rules)
  return out


# --------------------------------------------------------------------------------------


def _pairset(geom):
  out = {}
  for i in range(len(geom)):
    a, b = int(geom[i][0]), int(geom[i][1])
    out.setdefault((min(a, b), max(a, b)), []).append(i)
  return out


def check(case, rec):
  spec, geom_owner = build_spec(case)
  mjm = H.compile_spec(spec)
  if mjm.ngeom != len(geom_owner):
    raise Reject("geom order")
  for g, o in enumerate(geom_owner):
    if mujoco.mj_id2name(mjm, mujoco.mjtObj.mjOBJ_GEOM, g) != o["name"]:
      raise RuntimeError("C19 harness: geom order of the compiled model differs from the generated order")
  masks = [(int(mjm.geom_contype[g]), int(mjm.geom_conaffinity[g])) for g in range(mjm.ngeom)]
  pred = predicate(case, geom_owner, masks)
  pairid = {}
  for k in range(mjm.npair):
    a, b = int(mjm.pair_geom1[k]), int(mjm.pair_geom2[k])
    pairid[(min(a, b), max(a, b))] = k

  nworld = case["nworld"]
  m = H.put_model(mjm)
  d = H.make_data(mjm, nworld=nworld, nconmax=160, njmax=16)
  g = np.random.default_rng(case["seed"])
  states = []
  for w in range(nworld):
    q = np.array(mjm.qpos0)
    if w > 0:
      for j in range(mjm.njnt):
        a = int(mjm.jnt_qposadr[j])
        t = int(mjm.jnt_type[j])
        if t == 0:
          q[a : a + 3] += g.uniform(-0.003, 0.003, size=3)
        elif t in (2, 3):
          q[a] += g.uniform(-0.003, 0.003)
    states.append(dict(qpos=H.f32(q), qvel=np.zeros(mjm.nv)))
  H.set_data(d, states)
  mjw.kinematics(m, d)
  mjw.collision(m, d)
  if int(d.nacon.numpy()[0]) > d.naconmax:
    rec.inconclusive += 1
    return

  removed = set()
  for key, (rule, rules) in pred.items():
    if rule not in ("pass", "explicit"):
      removed.add(rule)
      rec.cls(f"removed:{rule}")
    elif rule == "explicit":
      rec.cls("explicit:" + ("otherwise-" + rules[0] if rules else "otherwise-pass"))
    else:
      rec.cls("kept")
    b1, b2 = geom_owner[key[0]]["body"], geom_owner[key[1]]["body"]
    if rule == "pass" and not case["filterparent"]:
      weld, _, weldparent = tree_info(case)
      w1, w2 = weld[b1], weld[b2]
      if w1 != -1 and w2 != -1 and (weldparent[w1] == w2 or weldparent[w2] == w1):
        rec.cls("kept:parentchild-filter-disabled")
    if rule == "pass" and case["filterparent"]:
      weld, _, weldparent = tree_info(case)
      w1, w2 = weld[b1], weld[b2]
      if (w1 == -1) != (w2 == -1) and (weldparent[w1] == w2 or weldparent[w2] == w1):
        rec.cls("kept:child-of-world-weld")
  rec.cls(f"filterparent:{case['filterparent']}", f"nrules:{len(removed)}", f"npair:{mjm.npair}", f"nexclude:{mjm.nexclude}")

  for w in range(nworld):
    mjd = mujoco.MjData(mjm)
    H.set_mjd(mjd, states[w])
    mujoco.mj_kinematics(mjm, mjd)
    # geometry must not filter: every candidate pair overlaps by >= 1 cm
    xp = np.array(mjd.geom_xpos)
    for a, b in pred:
      ra, rb = float(mjm.geom_size[a][0]), float(mjm.geom_size[b][0])
      if geom_owner[a]["plane"] or geom_owner[b]["plane"]:
        pl, sp = (a, b) if geom_owner[a]["plane"] else (b, a)
        nrm = np.array(mjd.geom_xmat[pl]).reshape(3, 3)[:, 2]
        dist = float(nrm @ (xp[sp] - xp[pl])) - float(mjm.geom_size[sp][0])
      else:
        dist = float(np.linalg.norm(xp[a] - xp[b])) - ra - rb
      if dist > -0.01:
        raise Reject("geoms do not overlap")
    mujoco.mj_collision(mjm, mjd)
    rec.ev()
    cm = H.mj_contacts(mjd)
    cw = H.contacts(d, w)
    # constraint contacts only: pairs kept for a collision sensor are written with ContactType.SENSOR alone
    keep = [i for i in range(len(cw["dist"])) if int(cw["type"][i]) & 1]
    nsensor_only = len(cw["dist"]) - len(keep)
    if nsensor_only:
      rec.cls("sensor-only-contacts")
    cw = {k: (np.asarray(v)[keep] if hasattr(v, "__len__") and len(v) == len(cw["dist"]) else v) for k, v in cw.items()}
    pm, pw = _pairset(cm["geom"]), _pairset(cw["geom"])
    ctx = dict(world=w, filterparent=case["filterparent"])
    for key in sorted(pred):
      rule, rules = pred[key]
      want_pred = rule in ("pass", "explicit")
      want_mj = key in pm
      got = key in pw
      info = dict(pair=list(key), bodies=[geom_owner[key[0]]["body"], geom_owner[key[1]]["body"]], rule=rule, rules=rules, in_mujoco=want_mj, in_predicate=want_pred, in_mjwarp=got, **ctx)
      if want_pred != want_mj:
        # the reference predicate and MuJoCo disagree: not judged (never seen on the unchanged tree; counted so that it cannot hide)
        rec.notes["predicate_disagrees_with_mujoco"] += 1
        rec.boundary_skipped += 1
        continue
      if got and not want_pred:
        rec.violation(f"geom pair {key} is reported although rule '{rule}' removes it {info}", sig=f"pair:extra:{rule}", **info)
        continue
      if want_pred and not got:
        rec.violation(f"geom pair {key} ({rule}) is not reported {info}", sig=f"pair:missing:{rule}", **info)
        continue
      if not got:
        continue
      if len(pw[key]) != len(pm[key]):
        rec.violation(f"geom pair {key} reported {len(pw[key])} times (MuJoCo {len(pm[key])}) {info}", sig="pair:duplicate", **info)
        continue
      if rule == "explicit":
        k = pairid[key]
        iw, im = pw[key][0], pm[key][0]
        want = dict(
          dim=int(mjm.pair_dim[k]),
          friction=np.maximum(np.array(mjm.pair_friction[k]), 1e-5),
          solref=np.array(mjm.pair_solref[k]),
          solreffriction=np.array(mjm.pair_solreffriction[k]),
          solimp=np.array(mjm.pair_solimp[k]),
          includemargin=float(mjm.pair_margin[k]),  # MuJoCo 3.13: includemargin = margin (the gap only widens detection)
        )
        check_equal(rec, "contact.dim[pair]", cw["dim"][iw], want["dim"], sig="pairparam:dim", **info)
        check_equal(rec, "contact.dim[pair] vs mujoco", cw["dim"][iw], cm["dim"][im], sig="pairparam:dim", **info)
        for f in ("friction", "solref", "solreffriction", "solimp", "includemargin"):
          check_close(rec, f"contact.{f}[pair] vs model", cw[f][iw], want[f], 1e-5, sig=f"pairparam:{f}", **info)
          check_close(rec, f"contact.{f}[pair] vs mujoco", cw[f][iw], cm[f][im], 1e-5, sig=f"pairparam:{f}", **info)
    extra = sorted(set(pw) - set(pred))
    if extra:
      rec.violation(f"contacts between geom pairs that cannot collide: {extra}", sig="pair:extra:impossible", pairs=[list(e) for e in extra], **ctx)
  if len(removed) >= 2:
    rec.nt()
