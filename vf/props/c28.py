"""C28 Constraint islands are the connected components of the constraint graph.

Two domains:
* exhaustive: a 4-tree model (x28_trees.exhaustive_model) with 6 tree-pair, 4 tree-world and 4 self constraints that are
  switched per world (eq_active / qpos), so all 2^14 constraint graphs over 4 trees are evaluated as batched worlds
  (deterministic pre-pass, 1024 worlds per case);
* random: 5-12 trees in several spatial clusters with contacts (also with static geoms/bodies and mocap bodies), connect/weld
  (bodies and sites), joint/tendon equalities, joint/tendon limits and friction loss (dof and tendon) - tendons span 1-3 trees.

Oracle: union-find over the constraint rows MJWarp emitted, where the trees a row touches are read off the dense Jacobian row's
non-zero columns through MuJoCo's dof_treeid (independent of island.py's per-type shortcuts).
"""

from __future__ import annotations

import numpy as np
from hypothesis import strategies as st

import mujoco
import mujoco_warp as mjw
from mujoco_warp._src import island as mjw_island
from mujoco_warp._src.types import OverflowType as OT

from vf import gen, mjw as H, x28_trees as X
from vf.core import Reject

RULE = (
  "case (exhaustive) = 1024 consecutive 14-bit switch words of the 4-tree model (6 pair / 4 world / 4 self constraints of kinds connect, weld, joint and tendon equality, "
  "plane contact, joint and tendon limit; dense or sparse; called directly [fwd_position + island + compute_island_mapping] or through forward() with sleeping enabled), "
  "all 2^14 words per (variant, jacobian, path); case (random) = clustered model with 5-12 trees, contacts incl. static geoms, equalities of every kind, limits, "
  "friction loss, 1-3 worlds with random state and eq_active; oracle = union-find over MJWarp's own rows with row->trees from the non-zero columns of the dense J row "
  "(cross-checked against the row's structural tree set; a world where the two disagree is skipped and counted): tree_island == component label numbered by smallest tree, "
  "untouched trees -1, nisland, island_nv/nefc/ne/nf == counted sizes, island_idofadr/iefcadr prefix sums, nidof, dof and efc maps mutually inverse permutations laid out "
  "per island ([equality | friction | other] inside an island); second oracle: MuJoCo mj_forward's nisland/tree_island/island_nv/nefc/ne/nf when its row multiset equals MJWarp's; "
  "evaluation = one world; non-trivial = >=2 islands or an island with >=3 trees"
)
ASSUMPTIONS = [
  "the constraint rows themselves (C05) are taken as given: the graph is built from the rows MJWarp emitted",
  "a row whose Jacobian is exactly zero on a tree it is structurally attached to (degenerate geometry, sparse structural zeros) makes the world a counted boundary skip",
  "all trees awake (make_data default) when islands are computed through forward() with sleeping enabled",
]
EXHAUSTIVE = {"quick": True, "thorough": True}
BUDGET = {"quick": dict(examples=320, seconds=420, workers=16), "thorough": dict(examples=12000, seconds=1500, workers=16)}
CHUNK = 1024
NBITS = 14
_CONTACT = (5, 6, 7)
_EQ, _FDOF, _FTEN, _LJNT, _LTEN = 0, 1, 2, 3, 4
_CAPACITY = int(OT.NEFC | OT.NJMAX_NNZ | OT.BROADPHASE | OT.NARROWPHASE | OT.NVMAX)


def enumerate_cases(tier, seed):
  """All 2^14 switch words for a set of (variant, jacobian, path) combinations."""
  combos = []
  nvar = 2 if tier == "quick" else 12
  for v in range(nvar):
    variant = (int(seed) * 7 + v) % 1000
    combos.append((variant, "dense" if v % 2 == 0 else "sparse", "direct"))
    combos.append((variant, "sparse" if v % 2 == 0 else "dense", "sleep" if v % 2 == 0 else "direct"))
  cases = []
  for variant, jac, path in combos:
    for lo in range(0, 1 << NBITS, CHUNK):
      cases.append(dict(kind="exhaustive", variant=variant, jacobian=jac, path=path, lo=lo, hi=lo + CHUNK, seed=int(seed) * 100003 + lo))
  return cases


def strategy(tier):
  cfg = gen.cfg_strategy(
    nroot=st.integers(5, 12),
    maxdepth=st.integers(0, 1),
    maxchild=st.integers(1, 2),
    joint_menu=st.sampled_from([["free", "hinge", "slide"], ["free", "ball", "hinge", "slide"], ["hinge", "slide"], ["free"]]),
    plane=st.booleans(),
    contacts="pile",
    world_geoms=st.integers(0, 3),
    static_roots=st.sampled_from([0.0, 0.15]),
    mocap=st.integers(0, 1),
    sites=0.8,
    geom_menu=st.sampled_from([["sphere", "capsule"], ["sphere"], ["capsule"]]),  # primitive pairs only (convex pairs cost seconds of kernel generation per process)
    geoms_per_body=(1, 1),
    condim_menu=st.sampled_from([[3], [1, 3, 4, 6], [1]]),
    tendons=st.integers(0, 4),
    spatial_tendons=st.integers(0, 2),
    equalities=st.integers(0, 8),
    eq_menu=st.sampled_from([["connect", "weld"], ["connect", "weld", "joint", "tendon"], ["joint", "tendon"], ["connect"]]),
    eq_sites=st.booleans(),
    p_eq_inactive=0.2,
    limits=st.sampled_from([0.0, 0.3, 0.8]),
    frictionloss=st.sampled_from([0.0, 0.0, 0.15, 0.5]),
    pairs=st.integers(0, 2),
  )
  return st.fixed_dictionaries(
    dict(
      kind=st.just("random"),
      cfg=cfg,
      nclusters=st.integers(1, 6),
      jacobian=st.sampled_from(["dense", "sparse"]),
      cone=st.sampled_from(["pyramidal", "elliptic"]),
      path=st.sampled_from(["direct", "direct", "sleep"]),
      nworld=st.integers(1, 3),
      seed=st.integers(0, 10**6),
      sigma=st.sampled_from([0.02, 0.1, 0.3]),
      p_eq_flip=st.sampled_from([0.0, 0.3]),
    )
  )


# --------------------------------------------------------------------------------------


class Batch:
  """Host copies of everything the oracle reads (taken once per case)."""

  def __init__(self, m, d):
    self.nworld = d.nworld
    self.nv = m.nv
    self.sparse = bool(m.is_sparse)
    e = d.efc
    self.nefc = np.minimum(d.nefc.numpy(), d.njmax)
    self.type = e.type.numpy()
    self.id = e.id.numpy()
    self.J = e.J.numpy()
    self.efc_island = e.island.numpy()
    if self.sparse:
      self.rownnz = e.J_rownnz.numpy()
      self.rowadr = e.J_rowadr.numpy()
      self.colind = e.J_colind.numpy()
    nacon = min(int(d.nacon.numpy()[0]), d.naconmax)
    self.cgeom = d.contact.geom.numpy()[:nacon]
    self.cworld = d.contact.worldid.numpy()[:nacon]
    for k in ("nisland", "tree_island", "island_nv", "island_nefc", "island_ne", "island_nf", "island_idofadr", "island_iefcadr", "nidof",
              "map_dof2idof", "map_idof2dof", "map_efc2iefc", "map_iefc2efc", "overflow"):
      setattr(self, k, getattr(d, k).numpy())

  def rows(self, w):
    """Returns (nz, struct): per row the column sets with a non-zero value / in the stored structure."""
    n = int(self.nefc[w])
    nz, struct = [], []
    if self.sparse:
      vals, cols = self.J[w, 0], self.colind[w, 0]
      for r in range(n):
        a, k = int(self.rowadr[w, r]), int(self.rownnz[w, r])
        c = cols[a : a + k]
        struct.append(c)
        nz.append(c[vals[a : a + k] != 0.0])
    else:
      for r in range(n):
        c = np.nonzero(self.J[w, r, : self.nv])[0]
        nz.append(c)
        struct.append(c)
    return nz, struct


def _trees(cols, dof_treeid):
  out = []
  for c in cols:
    t = int(dof_treeid[int(c)])
    if t >= 0 and t not in out:
      out.append(t)
  return out


def _structural_trees(mjm, B, w, r, struct_cols):
  """The trees row r is attached to by the definition of its constraint (model structure), not by Jacobian values."""
  t, i = int(B.type[w, r]), int(B.id[w, r])
  bt = mjm.body_treeid
  if t == _EQ and mjm.eq_type[i] in (int(mujoco.mjtEq.mjEQ_CONNECT), int(mujoco.mjtEq.mjEQ_WELD)):
    b1, b2 = int(mjm.eq_obj1id[i]), int(mjm.eq_obj2id[i])
    if mjm.eq_objtype[i] == int(mujoco.mjtObj.mjOBJ_SITE):
      b1, b2 = int(mjm.site_bodyid[b1]), int(mjm.site_bodyid[b2])
    ts = [int(bt[b1]), int(bt[b2])]
  elif t == _FDOF:
    ts = [int(mjm.dof_treeid[i])]
  elif t == _LJNT:
    ts = [int(mjm.dof_treeid[mjm.jnt_dofadr[i]])]
  elif t in _CONTACT:
    g1, g2 = (int(x) for x in B.cgeom[i])
    if g1 < 0 or g2 < 0:
      return _trees(struct_cols, mjm.dof_treeid)
    ts = [int(bt[mjm.geom_bodyid[g1]]), int(bt[mjm.geom_bodyid[g2]])]
  else:
    return _trees(struct_cols, mjm.dof_treeid)
  out = []
  for x in ts:
    if x >= 0 and x not in out:
      out.append(x)
  return out


def judge_world(mjm, B, w, rec, ctx):
  """Compares world w of the batch with the union-find reference.  Returns (tree_island_expected, nisland, rows_trees) or None if skipped."""
  ntree, nv = mjm.ntree, mjm.nv
  n = int(B.nefc[w])
  nz, struct = B.rows(w)
  rt_nz = [_trees(c, mjm.dof_treeid) for c in nz]
  rt_st = [_structural_trees(mjm, B, w, r, struct[r]) for r in range(n)]
  exp, nisl = X.expected_islands(ntree, rt_nz)
  exp_st, nisl_st = X.expected_islands(ntree, rt_st)
  if nisl != nisl_st or not np.array_equal(exp, exp_st):
    rec.boundary_skipped += 1
    rec.cls("skipped:jacobian-zero-on-attached-tree")
    return None
  rec.ev()
  got = B.tree_island[w, :ntree]
  gn = int(B.nisland[w])
  if gn != nisl:
    rec.violation(f"nisland = {gn}, the constraint graph has {nisl} components (tree_island {got.tolist()}, expected {exp.tolist()}) {ctx}", sig="nisland", world=w, **ctx)
  if not np.array_equal(got, exp):
    kind = "numbering" if _same_partition(got, exp) else "components"
    rec.violation(f"tree_island = {got.tolist()}, expected {exp.tolist()} (row trees {sorted({tuple(sorted(t)) for t in rt_nz})}) {ctx}", sig=f"tree_island:{kind}", world=w, **ctx)
  # per-island counts
  tree_nv = np.asarray(mjm.tree_dofnum)
  e_nv = np.array([int(tree_nv[exp == i].sum()) for i in range(nisl)], dtype=int)
  row_island = np.array([int(exp[t[0]]) if t else -1 for t in rt_nz], dtype=int)
  # a row whose Jacobian is all zero although its constraint is attached to a tree (e.g. the rotational rows of a weld on a tree without
  # rotational dofs) touches no dof: it may be counted with its constraint's island or with none; MJWarp's own choice is used for the counts
  for r in range(n):
    if not rt_nz[r] and rt_st[r]:
      got_i = int(B.efc_island[w, r])
      if got_i not in (-1, int(exp[rt_st[r][0]])):
        rec.violation(f"all-zero row {r} (type {int(B.type[w, r])}) is assigned to island {got_i}, its constraint is attached to island {int(exp[rt_st[r][0]])} {ctx}", sig="efc-island:zero-row", world=w, **ctx)
      row_island[r] = got_i
      rec.cls("zero-row-attached")
  typ = B.type[w, :n]
  e_nefc = np.array([int(np.sum(row_island == i)) for i in range(nisl)], dtype=int)
  e_ne = np.array([int(np.sum((row_island == i) & (typ == _EQ))) for i in range(nisl)], dtype=int)
  e_nf = np.array([int(np.sum((row_island == i) & ((typ == _FDOF) | (typ == _FTEN)))) for i in range(nisl)], dtype=int)
  for name, want in (("island_nv", e_nv), ("island_nefc", e_nefc), ("island_ne", e_ne), ("island_nf", e_nf)):
    g_ = getattr(B, name)[w, :nisl]
    if not np.array_equal(g_, want):
      rec.violation(f"{name} = {g_.tolist()}, counted {want.tolist()} (tree_island {exp.tolist()}) {ctx}", sig=f"count:{name}", world=w, **ctx)
  e_idofadr = np.concatenate([[0], np.cumsum(e_nv)[:-1]]).astype(int) if nisl else np.zeros(0, dtype=int)
  e_iefcadr = np.concatenate([[0], np.cumsum(e_nefc)[:-1]]).astype(int) if nisl else np.zeros(0, dtype=int)
  if nisl:
    for name, want in (("island_idofadr", e_idofadr), ("island_iefcadr", e_iefcadr)):
      g_ = getattr(B, name)[w, :nisl]
      if not np.array_equal(g_, want):
        rec.violation(f"{name} = {g_.tolist()}, prefix sums give {want.tolist()} {ctx}", sig=f"adr:{name}", world=w, **ctx)
  nidof = int(e_nv.sum())
  if int(B.nidof[w]) != nidof:
    rec.violation(f"nidof = {int(B.nidof[w])}, islands hold {nidof} dofs {ctx}", sig="count:nidof", world=w, **ctx)
  if nisl == 0:
    return exp, nisl, rt_nz
  # dof maps: mutually inverse permutations of range(nv), island i occupying [idofadr_i, idofadr_i + nv_i)
  d2i = B.map_dof2idof[w, :nv]
  i2d = B.map_idof2dof[w, :nv]
  if sorted(d2i.tolist()) != list(range(nv)) or sorted(i2d.tolist()) != list(range(nv)):
    rec.violation(f"dof maps are not permutations: dof2idof {d2i.tolist()} idof2dof {i2d.tolist()} {ctx}", sig="maps:dof-permutation", world=w, **ctx)
  if not np.array_equal(i2d[d2i], np.arange(nv)) or not np.array_equal(d2i[i2d], np.arange(nv)):
    rec.violation(f"dof maps are not mutually inverse: dof2idof {d2i.tolist()} idof2dof {i2d.tolist()} {ctx}", sig="maps:dof-inverse", world=w, **ctx)
  dof_isl = exp[np.asarray(mjm.dof_treeid)]
  for dof in range(nv):
    i = int(dof_isl[dof])
    k = int(d2i[dof])
    ok = (e_idofadr[i] <= k < e_idofadr[i] + e_nv[i]) if i >= 0 else (k >= nidof)
    if not ok:
      rec.violation(f"dof {dof} (island {i}) is mapped to idof {k}, outside its island's range (idofadr {e_idofadr.tolist()}, nv {e_nv.tolist()}, nidof {nidof}) {ctx}", sig="maps:dof-range", world=w, **ctx)
  # efc maps
  mapped = np.nonzero(row_island >= 0)[0]
  total = int(e_nefc.sum())
  e2i = B.map_efc2iefc[w, :n]
  i2e = B.map_iefc2efc[w]
  img = e2i[mapped]
  if sorted(img.tolist()) != list(range(total)):
    rec.violation(f"efc2iefc does not map the {total} island rows onto 0..{total - 1}: {img.tolist()} {ctx}", sig="maps:efc-permutation", world=w, **ctx)
  if not np.array_equal(i2e[img], mapped) or sorted(i2e[:total].tolist()) != mapped.tolist():
    rec.violation(f"efc maps are not mutually inverse: efc2iefc {e2i.tolist()} iefc2efc {i2e[:total].tolist()} {ctx}", sig="maps:efc-inverse", world=w, **ctx)
  for r in mapped:
    i = int(row_island[r])
    k = int(e2i[r])
    t = int(typ[r])
    lo = e_iefcadr[i]
    if t == _EQ:
      a, b = lo, lo + e_ne[i]
    elif t in (_FDOF, _FTEN):
      a, b = lo + e_ne[i], lo + e_ne[i] + e_nf[i]
    else:
      a, b = lo + e_ne[i] + e_nf[i], lo + e_nefc[i]
    if not (lo <= k < lo + e_nefc[i]):
      rec.violation(f"row {int(r)} (island {i}) is mapped to iefc {k}, outside its island's range [{lo}, {lo + e_nefc[i]}) {ctx}", sig="maps:efc-range", world=w, **ctx)
    if not (a <= k < b):
      rec.violation(f"row {int(r)} (type {t}, island {i}) is mapped to iefc {k}, outside its [equality | friction | other] block [{a}, {b}) given island_ne {e_ne.tolist()} island_nf {e_nf.tolist()} {ctx}", sig="maps:efc-layout", world=w, **ctx)
  return exp, nisl, rt_nz


def _same_partition(a, b):
  """Same grouping of touched trees (labels may differ)."""
  if not np.array_equal(a >= 0, b >= 0):
    return False
  m = {}
  minv = {}
  for x, y in zip(a.tolist(), b.tolist()):
    if x < 0:
      continue
    if m.setdefault(x, y) != y or minv.setdefault(y, x) != x:
      return False
  return True


def _row_multiset(types, ids, cgeom):
  out = []
  for t, i in zip(types.tolist(), ids.tolist()):
    if t in _CONTACT:
      out.append((t, int(cgeom[i][0]), int(cgeom[i][1])))
    else:
      out.append((t, int(i)))
  return sorted(out)


def mujoco_compare(mjm, B, w, qpos, state, exp, nisl, rec, ctx):
  """Second oracle: MuJoCo C's island arrays when its rows are the same multiset."""
  if mjm.opt.enableflags & int(mujoco.mjtEnableBit.mjENBL_SLEEP):
    # islands do not depend on the sleep flag; MuJoCo C aborts on tendon equalities when sleeping is enabled
    mjm = _nosleep(mjm)
  mjd = mujoco.MjData(mjm)
  H.set_mjd(mjd, state)
  try:
    mujoco.mj_forward(mjm, mjd)
  except mujoco.FatalError:
    rec.cls("mujoco:fatal")
    return
  n = int(B.nefc[w])
  if mjd.nefc != n or mjd.nefc == 0:
    rec.cls("mujoco:rows-differ" if mjd.nefc != n else "mujoco:no-rows")
    return
  mine = _row_multiset(B.type[w, :n], B.id[w, :n], B.cgeom)
  theirs = _row_multiset(np.asarray(mjd.efc_type), np.asarray(mjd.efc_id), np.asarray(mjd.contact.geom).reshape(-1, 2))
  if mine != theirs:
    rec.cls("mujoco:rows-differ")
    return
  rec.cls("mujoco:compared")
  mt = np.array(mjd.tree_island[: mjm.ntree]) if mjd.nisland else np.full(mjm.ntree, -1)
  got = B.tree_island[w, : mjm.ntree]
  if int(mjd.nisland) != int(B.nisland[w]) or not np.array_equal(mt, got):
    if int(mjd.nisland) == nisl and np.array_equal(mt, exp):
      return  # already reported against the union-find reference
    # MuJoCo itself departs from the connected components: note it, the statement is judged by the union-find reference
    if not (int(B.nisland[w]) == nisl and np.array_equal(got, exp)):
      rec.violation(f"nisland/tree_island = {int(B.nisland[w])}/{got.tolist()}, MuJoCo {int(mjd.nisland)}/{mt.tolist()} {ctx}", sig="mujoco:tree_island", world=w, **ctx)
    rec.notes["mujoco_differs_from_components"] += 1
    return
  k = int(mjd.nisland)
  for name in ("island_nv", "island_nefc", "island_ne", "island_nf"):
    a, b = getattr(B, name)[w, :k], np.array(getattr(mjd, name)[:k])
    if not np.array_equal(a, b):
      rec.violation(f"{name} = {a.tolist()}, MuJoCo {b.tolist()} {ctx}", sig=f"mujoco:{name}", world=w, **ctx)


_NOSLEEP = {}


def _nosleep(mjm):
  k = id(mjm)
  if k not in _NOSLEEP:
    if len(_NOSLEEP) > 8:
      _NOSLEEP.clear()
    c = mjm.__copy__()
    c.opt.enableflags &= ~int(mujoco.mjtEnableBit.mjENBL_SLEEP)
    _NOSLEEP[k] = (mjm, c)
  return _NOSLEEP[k][1]


def run(m, d, path):
  m.opt.warn_overflow = False
  if path == "sleep":
    mjw.forward(m, d)
  else:
    mjw.fwd_position(m, d)
    mjw.island(m, d)
    mjw_island.compute_island_mapping(m, d)


def check(case, rec):
  if case["kind"] == "exhaustive":
    return check_exhaustive(case, rec)
  return check_random(case, rec)


def check_exhaustive(case, rec):
  sleep = case["path"] == "sleep"
  xml, info = X.exhaustive_model(case["variant"], case["jacobian"], sleep)
  mjm = H.compile_xml(xml)
  assert mjm.ntree == 4, mjm.ntree
  m = H.put_model(mjm)
  bits = list(range(case["lo"], case["hi"]))
  n = len(bits)
  qpos, eqa = X.exhaustive_states(mjm, info, bits, case["seed"])
  d = H.make_data(mjm, nworld=n, nconmax=8, njmax=64, **(dict(njmax_nnz=64 * mjm.nv) if H.is_sparse(mjm) else {}))
  d.qpos.assign(qpos.astype(np.float32))
  d.eq_active.assign(eqa)
  run(m, d, case["path"])
  B = Batch(m, d)
  rec.cls(f"exh:jacobian:{case['jacobian']}", f"exh:path:{case['path']}")
  for k in info["pair_kind"]:
    rec.cls(f"exh:pair:{k}")
  for k in info["world_kind"]:
    rec.cls(f"exh:world:{k}")
  for k in info["self_kind"]:
    rec.cls(f"exh:self:{k}")
  for w in range(n):
    if B.overflow[w] & _CAPACITY:
      rec.inconclusive += 1
      continue
    ctx = dict(bits=bits[w], variant=case["variant"])
    out = judge_world(mjm, B, w, rec, ctx)
    if out is None:
      continue
    exp, nisl, rt = out
    # the switches must have realised the intended graph (guards the enumeration itself: a harness matter, never a violation)
    want_rows = _intended_graph(info, bits[w])
    want, wn = X.expected_islands(4, want_rows)
    if wn != nisl or not np.array_equal(want, exp):
      raise AssertionError(f"switch word {bits[w]} did not realise its graph: rows give {exp.tolist()}, intended {want.tolist()}")
    state = dict(qpos=qpos[w], eq_active=eqa[w])
    mujoco_compare(mjm, B, w, qpos[w], state, exp, nisl, rec, ctx)
    sizes = np.bincount(exp[exp >= 0], minlength=1) if nisl else np.zeros(1, dtype=int)
    rec.cls(f"nisland:{nisl}")
    if nisl >= 2 or sizes.max() >= 3:
      rec.nt(extra=[case["variant"], case["jacobian"], case["path"], bits[w]])


def _intended_graph(info, bits):
  rows = []
  for k, sw in enumerate(info["switches"]):
    if (bits >> k) & 1:
      rows.append(sw["trees"])
  return rows


def check_random(case, rec):
  cfg = dict(case["cfg"])
  sleep = case["path"] == "sleep"
  opt = dict(jacobian=case["jacobian"], cone=case["cone"], solver="Newton" if sleep else ["Newton", "CG"][case["seed"] % 2], iterations=5, ls_iterations=5)
  if sleep:
    opt["flags"] = dict(sleep="enable")
  cfg["option"] = opt
  spec = X.cluster_spec(cfg, case["nclusters"])
  mjm = H.compile_spec(spec)
  if mjm.nv == 0 or mjm.ntree < 2:
    raise Reject("fewer than two trees")
  m = H.put_model(mjm)
  n = case["nworld"]
  d = H.make_data(mjm, nworld=n, nconmax=200, njmax=700, **(dict(njmax_nnz=700 * mjm.nv) if H.is_sparse(mjm) else {}))
  g = np.random.default_rng(case["seed"])
  states = []
  for w in range(n):
    s = H.rand_state(mjm, case["seed"] + 31 * w, sigma=case["sigma"], vel=0.2)
    ea = np.array(mjm.eq_active0, dtype=bool)
    flip = g.uniform(size=mjm.neq) < case["p_eq_flip"]
    s["eq_active"] = np.where(flip, ~ea, ea)
    states.append(s)
  H.set_data(d, states)
  run(m, d, case["path"])
  B = Batch(m, d)
  rec.cls(f"jacobian:{case['jacobian']}", f"path:{case['path']}", f"ntree:{min(mjm.ntree, 12)}")
  for w in range(n):
    if B.overflow[w] & _CAPACITY:
      rec.inconclusive += 1
      continue
    ctx = dict(ntree=int(mjm.ntree))
    out = judge_world(mjm, B, w, rec, ctx)
    if out is None:
      continue
    exp, nisl, rt = out
    mujoco_compare(mjm, B, w, states[w]["qpos"], states[w], exp, nisl, rec, ctx)
    nn = int(B.nefc[w])
    typ, ids = B.type[w, :nn], B.id[w, :nn]
    kinds = set()
    for r in range(nn):
      t = int(typ[r])
      if t in _CONTACT:
        g1, g2 = (int(x) for x in B.cgeom[int(ids[r])])
        static = mjm.body_treeid[mjm.geom_bodyid[g1]] < 0 or mjm.body_treeid[mjm.geom_bodyid[g2]] < 0
        kinds.add("contact-static" if static else ("contact-2tree" if len(rt[r]) >= 2 else "contact-self"))
      elif t == _EQ:
        et = int(mjm.eq_type[int(ids[r])])
        name = {0: "connect", 1: "weld", 2: "joint-eq", 3: "tendon-eq"}.get(et, "eq-other")
        kinds.add(f"{name}-{min(len(rt[r]), 3)}tree")
      elif t in (_FTEN, _LTEN):
        kinds.add(f"{'tendon-friction' if t == _FTEN else 'tendon-limit'}-{min(len(rt[r]), 3)}tree")
      else:
        kinds.add("dof-friction" if t == _FDOF else "joint-limit")
    rec.cls(*[f"row:{k}" for k in sorted(kinds)])
    sizes = np.bincount(exp[exp >= 0], minlength=1) if nisl else np.zeros(1, dtype=int)
    rec.cls(f"nisland:{min(nisl, 6)}", f"maxtrees:{min(int(sizes.max()), 6)}", f"untouched:{bool((exp < 0).any())}")
    if nisl >= 2 or sizes.max() >= 3:
      rec.nt(extra=w)
