"""C05 Constraint assembly agrees with MuJoCo C (rows as a canonical multiset)."""

from __future__ import annotations

import numpy as np
from hypothesis import strategies as st

import mujoco
import mujoco_warp as mjw
from mujoco_warp._src.types import OverflowType as OT

from vf import gen, mjw as H
from vf.core import Reject, check_close, check_equal

RULE = (
  "case = random model with connect/weld (body and site), joint and tendon equalities (active or not), dof/tendon frictionloss, joint (hinge/slide/ball) and tendon "
  "limits with margins, contacts of condim 1/3/4/6 between primitive geoms, dense/sparse, Newton/CG, both cones x random state (qpos near limits, non-zero qvel) in 1-2 worlds; "
  "oracle = mj_forward rows: ne/nf/nl/nefc equal and rows compared as a multiset keyed by (type, object, index within object; contacts keyed by geom pair + position): "
  "J, pos, margin, D, vel, aref, frictionloss; plus contact.efc_address consistency; non-trivial = >=2 constraint kinds and nefc>=3; distinct by sha1(case)"
)
ASSUMPTIONS = ["MuJoCo C 3.13 is the reference", "cases whose contact sets differ (C04 boundary cases) are skipped and counted", "tolerances J/pos 1e-4, D/aref 2e-3 relative"]
BUDGET = {"quick": dict(examples=480, seconds=420, workers=16), "thorough": dict(examples=12000, seconds=1500, workers=16)}
_CONTACT_TYPES = (5, 6, 7)


def strategy(tier):
  return st.fixed_dictionaries(
    dict(
      cfg=gen.rich_cfg(
        geom_menu=st.sampled_from([["sphere", "capsule"], ["sphere"], ["sphere", "capsule", "box"]]),
        equalities=st.integers(0, 4),
        eq_menu=st.sampled_from([["connect", "weld"], ["connect", "weld", "joint", "tendon"], ["joint", "tendon"]]),
        tendons=st.integers(0, 2),
        spatial_tendons=st.integers(0, 1),
        limits=st.sampled_from([0.0, 0.7]),
        frictionloss=st.sampled_from([0.0, 0.5]),
        margin=st.booleans(),
        actuators=0,
        condim_menu=st.sampled_from([[3], [1, 3, 4, 6], [1], [6]]),
        geom_params=st.booleans(),
      ),
      opt=gen.option_strategy(integrators=("Euler",)),
      nworld=st.integers(1, 2),
      seed=st.integers(0, 10**6),
      sigma=st.sampled_from([0.05, 0.3, 1.0]),
    )
  )


def rows_keyed(e, con, mjm, idmap=None):
  """Returns list of (key, rowindex) with a canonical key per row.  idmap: global contact id -> index into con."""
  keys = []
  counter = {}
  for i in range(e["nefc"]):
    t, idx = int(e["type"][i]), int(e["id"][i])
    if t in _CONTACT_TYPES and idmap is not None:
      idx = idmap.get(idx, -1)
    if t in _CONTACT_TYPES:
      if idx < 0 or idx >= len(con["dist"]):
        obj = ("badcontact", idx)
      else:
        obj = (int(con["geom"][idx][0]), int(con["geom"][idx][1]), *np.round(np.asarray(con["pos"][idx], dtype=np.float64), 3).tolist())
    else:
      obj = (idx,)
    k = counter.get((t, obj), 0)
    counter[(t, obj)] = k + 1
    keys.append(((t,) + tuple(obj) + (k,), i))
  return sorted(keys)


def check(case, rec):
  cfg = dict(case["cfg"])
  cfg["option"] = dict(case["opt"])
  mjm = H.compile_spec(gen.make_spec(cfg))
  if mjm.nv == 0:
    raise Reject("nv=0")
  # box-box pairs use different narrow-phase algorithms (C04): keep the contact sets comparable
  gt = mjm.geom_type
  n = case["nworld"]
  m = H.put_model(mjm)
  d = H.make_data(mjm, nworld=n, nconmax=150, njmax=600)
  states = [H.rand_state(mjm, case["seed"] + 19 * w, sigma=case["sigma"], vel=1.0) for w in range(n)]
  H.set_data(d, states)
  mjw.forward(m, d)
  if (H.overflow_fwd(d) & int(OT.NEFC | OT.NJMAX_NNZ | OT.BROADPHASE | OT.NARROWPHASE)).any():
    rec.inconclusive += 1
    return
  kinds = set()
  for w in range(n):
    mjd = mujoco.MjData(mjm)
    H.set_mjd(mjd, states[w])
    try:
      mujoco.mj_forward(mjm, mjd)
    except mujoco.FatalError:
      # MuJoCo itself aborts on explicit pairs between two static bodies: not a comparable input
      rec.rejected += 1
      continue
    rec.ev()
    cw, cm = H.contacts(d, w), H.mj_contacts(mjd)
    if any(int(c.exclude) == 3 for c in mjd.contact):
      # explicit pair between two bodies without degrees of freedom: MuJoCo keeps the contact but emits no rows (exclude=3)
      if ew_nefc(d, w) != mjd.nefc:
        rec.violation("contact between two immobile bodies (explicit pair) gets constraint rows with zero Jacobian; MuJoCo excludes it (contact.exclude=3)", sig="rows:no-dof-contact", world=w)
      rec.cls("skipped:no-dof-contact")
      continue
    # contact sets must match (C04's business); otherwise rows are not comparable
    pairs, ua, ub = H.match_contacts(cw, cm)
    bad = bool(ua or ub) or any(np.linalg.norm(cw["pos"][a] - cm["pos"][b]) > 1e-3 or abs(cw["dist"][a] - cm["dist"][b]) > 1e-4 or np.max(np.abs(np.asarray(cw["frame"][a][0], dtype=np.float64) - cm["frame"][b][0])) > 1e-4 for a, b in pairs)
    if bad:
      rec.boundary_skipped += 1
      rec.cls("skipped:contact-sets-differ")
      continue
    # give matched contacts the same position key (MuJoCo's) so that row keys agree
    cw = dict(cw)
    cw["pos"] = np.array(cw["pos"], dtype=np.float64)
    tangent_differs = set()  # MuJoCo contact ids whose tangent basis differs (rows then live in a rotated basis)
    for a, b in pairs:
      cw["pos"][a] = cm["pos"][b]
      if np.max(np.abs(np.asarray(cw["frame"][a][1], dtype=np.float64) - cm["frame"][b][1])) > 1e-3 and np.max(np.abs(np.asarray(cw["frame"][a][0], dtype=np.float64) - cm["frame"][b][0])) < 1e-4:
        tangent_differs.add(b)
        tn = sorted(int(mjm.geom_type[g]) for g in cm["geom"][b])
        rec.violation(f"contact frame tangents differ from MuJoCo for geom types {tn}: {np.round(cw['frame'][a][1], 4).tolist()} vs {np.round(cm['frame'][b][1], 4).tolist()}", sig=f"frame:tangent:{tn[0]}-{tn[1]}", world=w)
    ew, em = H.efc_dense(m, d, w), H.mj_efc_dense(mjm, mjd)
    ctx = dict(world=w)
    if int(d.nl.numpy()[w]) != mjd.nl and _limit_boundary(mjm, mjd):
      rec.boundary_skipped += 1
      rec.cls("skipped:limit-at-margin")
      continue
    # a hinge/slide joint or tendon whose margin exceeds half its range has both limit sides active in MuJoCo (two rows)
    lim = [(int(t), int(i)) for t, i in zip(em["type"], em["id"]) if int(t) in (3, 4)]
    both = sorted({x for x in lim if lim.count(x) > 1})
    if both:
      limw = [(int(t), int(i)) for t, i in zip(ew["type"], ew["id"]) if int(t) in (3, 4)]
      if any(limw.count(x) < 2 for x in both):
        rec.violation(f"limit with both sides inside the margin gets one row instead of MuJoCo's two: {both}", sig="limit:both-sides", world=w)
        rec.cls("skipped:limit-both-sides")
        continue
    if int(d.ne.numpy()[w]) > mjd.ne:
      # equality between two bodies without degrees of freedom (e.g. mocap body welded to the world): MuJoCo emits no rows
      eqrows = np.nonzero(ew["type"] == 0)[0]
      # whole equalities (all rows of one id) with an all-zero Jacobian: also two bodies of one weld group (a jointless child welded to its parent).
      # Single zero rows of an equality that MuJoCo does emit (rotation rows of a weld on a body that can only slide) do not count
      byid = {}
      for i in eqrows:
        byid.setdefault(int(ew["id"][i]), []).append(float(np.max(np.abs(ew["J"][i]))) < 1e-5)
      zero = sum(len(v) for v in byid.values() if all(v))
      if zero and zero == int(d.ne.numpy()[w]) - mjd.ne:
        rec.violation("equality between immobile bodies gets rows with an all-zero Jacobian; MuJoCo emits none", sig="rows:no-dof-equality", world=w)
        rec.cls("skipped:no-dof-equality")
        continue
    if int(d.nl.numpy()[w]) > mjd.nl:
      # tendon limit on a tendon that no degree of freedom moves (sites on immobile bodies / on one rigid group): MuJoCo drops the all-zero row
      keym = {(int(t), int(i)) for t, i in zip(em["type"], em["id"]) if int(t) in (3, 4)}
      extra = [i for i in range(ew["nefc"]) if int(ew["type"][i]) in (3, 4) and (int(ew["type"][i]), int(ew["id"][i])) not in keym]
      if extra and len(extra) == int(d.nl.numpy()[w]) - mjd.nl and all(float(np.max(np.abs(ew["J"][i]))) < 1e-5 for i in extra):
        rec.violation("limit row with an all-zero Jacobian (nothing moves the tendon/joint); MuJoCo emits none", sig="rows:no-dof-limit", world=w)
        rec.cls("skipped:no-dof-limit")
        continue
    check_equal(rec, "ne", int(d.ne.numpy()[w]), mjd.ne, sig="count:ne", **ctx)
    check_equal(rec, "nf", int(d.nf.numpy()[w]), mjd.nf, sig="count:nf", **ctx)
    check_equal(rec, "nl", int(d.nl.numpy()[w]), mjd.nl, sig="count:nl", **ctx)
    check_equal(rec, "nefc", ew["nefc"], em["nefc"], sig="count:nefc", **ctx)
    wid = d.contact.worldid.numpy()[: min(int(d.nacon.numpy()[0]), d.naconmax)]
    idmap = {int(gid): k for k, gid in enumerate(np.nonzero(wid == w)[0])}
    if int(d.nl.numpy()[w]) != mjd.nl and _limit_boundary(mjm, mjd):
      rec.boundary_skipped += 1
      rec.cls("skipped:limit-at-margin")
      continue
    # key contact rows by the index of the matched MuJoCo contact (two contacts of one geom pair can lie within the rounding of a
    # position key and would then share it)
    cwk, cmk = dict(cw), dict(cm)
    cmk["pos"] = np.array([[j, 0.0, 0.0] for j in range(len(cm["dist"]))], dtype=np.float64).reshape(-1, 3)
    cwk["pos"] = np.zeros((len(cw["dist"]), 3))
    for a, b in pairs:
      cwk["pos"][a] = [b, 0.0, 0.0]
    rw, rm = rows_keyed(ew, cwk, mjm, idmap), rows_keyed(em, cmk, mjm)
    if [k for k, _ in rw] != [k for k, _ in rm]:
      onlyw = [k for k in dict(rw) if k not in dict(rm)][:3]
      onlym = [k for k in dict(rm) if k not in dict(rw)][:3]
      rec.violation(f"row key multisets differ: only mjwarp {onlyw} only mujoco {onlym}", sig="rows:keys", **ctx)
      continue
    # rows of contacts whose tangent basis differs are not comparable element-wise (except the elliptic normal row)
    keep = [j for j, (k, i) in enumerate(rm) if not (int(em["type"][i]) in _CONTACT_TYPES and int(em["id"][i]) in tangent_differs and not (int(em["type"][i]) == 7 and k[-1] == 0))]
    rw = [rw[j] for j in keep]
    rm = [rm[j] for j in keep]
    iw = [i for _, i in rw]
    im = [i for _, i in rm]
    # elliptic friction rows: MuJoCo reports pos = margin = 0, MJWarp pos = margin = includemargin (pos - margin agrees): compare the difference
    ell = np.array([int(em["type"][i]) == 7 and k[-1] > 0 for k, i in rm], dtype=bool)
    if ell.any():
      ew = dict(ew)
      pw_, mw_ = np.array(ew["pos"], dtype=np.float64), np.array(ew["margin"], dtype=np.float64)
      idx = np.array(iw)[ell]
      if np.max(np.abs(pw_[idx])) > 1e-6:
        rec.violation("elliptic friction rows carry pos = margin = includemargin instead of MuJoCo's zeros", sig="rows:elliptic-friction-pos", world=w)
      pw_[idx] -= mw_[idx]
      mw_[idx] = 0.0
      ew["pos"], ew["margin"] = pw_, mw_
    scale_a = max(1.0, float(np.max(np.abs(em["aref"]))) if em["nefc"] else 1.0)
    for f, tol, sc in (("J", 5e-4, 1.0), ("pos", 1e-4, 1.0), ("margin", 1e-5, 1.0), ("vel", 2e-4, None), ("frictionloss", 1e-5, None)):
      check_close(rec, f"efc.{f}", ew[f][iw], em[f][im], tol, scale=sc, sig=f"rows:{f}", **ctx)
    # D and aref span orders of magnitude: compare row-wise relative
    Dw, Dm = ew["D"][iw].astype(np.float64), em["D"][im]
    if len(Dm):
      rel = np.max(np.abs(Dw - Dm) / np.maximum(np.abs(Dm), 1e-6))
      rec.err("efc.D(rel)", rel)
      if rel > 2e-3:
        j = int(np.argmax(np.abs(Dw - Dm) / np.maximum(np.abs(Dm), 1e-6)))
        rec.violation(f"efc.D differs: row key {rw[j][0]} got {Dw[j]} want {Dm[j]}", sig="rows:D", **ctx)
      aw, am = ew["aref"][iw].astype(np.float64), em["aref"][im]
      # aref = -B*vel - K*I*(pos - margin): float32 noise in pos (1e-6) and vel (1e-5 relative) is amplified by the row's stiffness/damping
      kbip = np.asarray(mjd.efc_KBIP).reshape(-1, 4)[im]
      floor = kbip[:, 0] * 3e-6 + kbip[:, 1] * 2e-5 * max(1.0, float(np.max(np.abs(em["vel"]))) if em["nefc"] else 1.0)
      den = np.maximum(np.abs(am), 1e-2 * scale_a)
      relv = np.maximum(np.abs(aw - am) - floor, 0.0) / den
      rel = np.max(relv)
      rec.err("efc.aref(rel)", rel)
      if rel > 2e-3:
        j = int(np.argmax(relv))
        rec.violation(f"efc.aref differs: row key {rw[j][0]} got {aw[j]} want {am[j]}", sig="rows:aref", **ctx)
    # contact.efc_address consistency
    adr = cw["efc_address"]
    for c in range(len(cw["dist"])):
      rows = [int(a) for a in np.atleast_1d(adr[c]) if a >= 0]
      included = cw["dist"][c] < cw["includemargin"][c]
      dim = int(cw["dim"][c])
      want = 0
      if included:
        want = 1 if dim == 1 else (dim if case["opt"]["cone"] == "elliptic" else 2 * (dim - 1))
      if len(rows) != want:
        rec.violation(f"contact {c} (dim {dim}, included {bool(included)}) has {len(rows)} row addresses, expected {want}", sig="efc_address:count", **ctx)
      for a in rows:
        if a >= ew["nefc"] or int(ew["type"][a]) not in _CONTACT_TYPES or int(ew["id"][a]) != _global_contact_id(d, w, c):
          rec.violation(f"contact {c} address {a} does not point at a row of that contact", sig="efc_address:target", **ctx)
    kinds |= {int(t) for t in em["type"]}
    rec.cls(*[f"type:{int(t)}" for t in set(em["type"].tolist())])
  rec.cls(f"cone:{case['opt']['cone']}", f"sparse:{bool(m.is_sparse)}", f"solver:{case['opt']['solver']}")
  if len(kinds) >= 2:
    rec.nt()


def ew_nefc(d, w):
  return int(d.nefc.numpy()[w])


def _limit_boundary(mjm, mjd, band=2e-5):
  """True if some joint/tendon limit distance is within `band` of its margin (row presence is then a float32 coin flip)."""
  for j in range(mjm.njnt):
    if not mjm.jnt_limited[j]:
      continue
    t = mjm.jnt_type[j]
    a = mjm.jnt_qposadr[j]
    lo, hi = mjm.jnt_range[j]
    if t in (2, 3):
      q = mjd.qpos[a]
      for dist in (q - lo, hi - q):
        if abs(dist - mjm.jnt_margin[j]) < band:
          return True
    elif t == 1:
      quat = mjd.qpos[a : a + 4] / np.linalg.norm(mjd.qpos[a : a + 4])
      ang = 2 * np.arctan2(np.linalg.norm(quat[1:]), abs(quat[0]))
      if abs(max(lo, hi) - ang - mjm.jnt_margin[j]) < band:
        return True
  for t in range(mjm.ntendon):
    if mjm.tendon_limited[t]:
      lo, hi = mjm.tendon_range[t]
      for dist in (mjd.ten_length[t] - lo, hi - mjd.ten_length[t]):
        if abs(dist - mjm.tendon_margin[t]) < band:
          return True
  return False


def _global_contact_id(d, w, c_local):
  """efc.id of contact rows is the index into the global contact buffer."""
  wid = d.contact.worldid.numpy()[: min(int(d.nacon.numpy()[0]), d.naconmax)]
  idx = np.nonzero(wid == w)[0]
  return int(idx[c_local])
