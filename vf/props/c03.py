"""C03 Actuation agrees with MuJoCo C (differential)."""

from __future__ import annotations

import numpy as np
from hypothesis import strategies as st

import mujoco
import mujoco_warp as mjw

from vf import gen, mjw as H
from vf.core import Reject, check_close

RULE = (
  "case = small articulated model with 1-8 actuators drawn from motor/position/velocity/intvelocity/damper/cylinder/muscle/adhesion/general (dyntype none/integrator/filter/"
  "filterexact/user, gain fixed/affine, bias none/affine), transmissions joint/jointinparent/tendon/site(+refsite)/slider-crank/body, ctrl inside/on/far outside ctrlrange, "
  "act random, clampctrl on/off, actearly, force limits, joint+tendon actuatorfrcrange, gravcomp through actuators; oracle = mj_forward: actuator_length, actuator_moment "
  "(dense), actuator_velocity, actuator_force, act_dot, qfrc_actuator, and act after one Euler/implicitfast step; evaluation = one world; "
  "non-trivial = some actuator saturates a limit or has activation dynamics"
)
ASSUMPTIONS = ["MuJoCo C 3.13 is the reference", "tolerance 5e-4 relative to the field scale", "position servos on ball joints with |ctrl-length|>pi are the recorded finding ball-position-wrap"]
BUDGET = {"quick": dict(examples=480, seconds=420, workers=16), "thorough": dict(examples=12000, seconds=1500, workers=16)}


def strategy(tier):
  return st.fixed_dictionaries(
    dict(
      cfg=gen.cfg_strategy(
        nroot=st.integers(1, 3),
        maxdepth=st.integers(0, 2),
        joint_menu=st.sampled_from([["hinge", "slide"], ["free", "ball", "hinge", "slide"], ["hinge", "slide", "ball"]]),
        tendons=st.integers(0, 2),
        spatial_tendons=st.integers(0, 1),
        sites=1.0,
        dynamics=True,
        gravcomp=st.booleans(),
        actfrcrange=st.booleans(),
        actuators=st.integers(1, 8),
        act_menu=st.sampled_from([
          ["motor", "position", "velocity", "intvelocity", "damper", "cylinder", "muscle", "general"],
          ["general"],
          ["position", "intvelocity", "velocity"],
          ["motor", "adhesion", "general", "muscle"],
        ]),
        dyn_menu=st.sampled_from([["none", "integrator", "filter", "filterexact"], ["filter", "filterexact", "user"], ["integrator", "none"]]),
        trn_menu=st.sampled_from([["joint"], ["joint", "jointinparent", "tendon", "site", "slidercrank"], ["tendon", "site"], ["joint", "body"]]),
        limits=st.sampled_from([0.0, 0.5]),
        plane=st.booleans(),
        contacts=st.sampled_from(["none", "pile"]),
      ),
      integrator=st.sampled_from(["Euler", "implicitfast"]),
      clampctrl=st.booleans(),
      nworld=st.integers(1, 2),
      seed=st.integers(0, 10**6),
      ctrl_scale=st.sampled_from([0.3, 1.0, 5.0]),
    )
  )


def check(case, rec):
  cfg = dict(case["cfg"])
  opt = dict(integrator=case["integrator"])
  if not case["clampctrl"]:
    opt["flags"] = dict(clampctrl="disable")
  cfg["option"] = opt
  mjm = H.compile_spec(gen.make_spec(cfg))
  if mjm.nu == 0 or mjm.nv == 0:
    raise Reject("no actuators")
  n = case["nworld"]
  m = H.put_model(mjm)
  d = H.make_data(mjm, nworld=n, nconmax=100, njmax=300)
  g = np.random.default_rng(case["seed"])
  states = []
  for w in range(n):
    s = H.rand_state(mjm, case["seed"] + 29 * w, sigma=0.3, vel=1.0)
    s["ctrl"] = H.f32(case["ctrl_scale"] * g.normal(size=mjm.nu))
    s["act"] = H.f32(g.normal(size=mjm.na))
    states.append(s)
  H.set_data(d, states)
  mjw.forward(m, d)
  fields = ["actuator_length", "actuator_velocity", "actuator_force", "act_dot", "qfrc_actuator"]
  got = {k: getattr(d, k).numpy().copy() for k in fields}
  mom = d.actuator_moment.numpy().copy()
  mrn, mra, mci = d.moment_rownnz.numpy(), d.moment_rowadr.numpy(), d.moment_colind.numpy()
  cws = [H.contacts(d, w) for w in range(n)] if np.any(mjm.actuator_trntype == int(mujoco.mjtTrn.mjTRN_BODY)) else None
  mjw.step(m, d)
  act_next = d.act.numpy()
  saturated = False
  for w in range(n):
    mjd = mujoco.MjData(mjm)
    H.set_mjd(mjd, states[w])
    mujoco.mj_forward(mjm, mjd)
    rec.ev()
    if not np.all(np.isfinite(mjd.actuator_force)):
      rec.inconclusive += 1
      continue
    # known finding: MuJoCo 3.13 wraps the servo error of affine-bias (kp) actuators on ball joints modulo 2*pi*|gear|
    ball = np.array([mjm.actuator_trntype[u] in (0, 1) and mjm.jnt_type[mjm.actuator_trnid[u, 0]] == 1 and mjm.actuator_biastype[u] == 1 and mjm.actuator_biasprm[u, 1] != 0 for u in range(mjm.nu)], dtype=bool)
    fscale = max(1.0, float(np.max(np.abs(mjd.actuator_force))))
    if ball.any():
      fw = got["actuator_force"][w]
      if np.max(np.abs(fw[ball] - mjd.actuator_force[ball])) > 5e-4 * fscale:
        rec.violation(f"ball-joint servo force differs (MuJoCo wraps the error) for actuators {np.nonzero(ball)[0].tolist()}", sig="ball-position-wrap", world=w)
      rec.cls("ball-servo-present")
    keep = ~ball
    # a body transmission's moment is the mean normal Jacobian over the contacts of that body: it is only comparable when both engines
    # report the same contacts for the body (contact-set differences are C04's business: box-box counts, CCD boundary cases)
    bodytrn_skipped = False
    if cws is not None:
      cw, cm = cws[w], H.mj_contacts(mjd)
      pairs, ua, ub = H.match_contacts(cw, cm)
      for u in np.nonzero(mjm.actuator_trntype == int(mujoco.mjtTrn.mjTRN_BODY))[0]:
        b = int(mjm.actuator_trnid[u, 0])
        on_b = lambda c, i: b in (int(mjm.geom_bodyid[c["geom"][i][0]]), int(mjm.geom_bodyid[c["geom"][i][1]]))
        same = not any(on_b(cw, i) for i in ua) and not any(on_b(cm, j) for j in ub) and all(
          np.linalg.norm(cw["pos"][i] - cm["pos"][j]) < 1e-4 and np.max(np.abs(np.asarray(cw["frame"][i], dtype=np.float64).reshape(-1) - np.asarray(cm["frame"][j]).reshape(-1))) < 1e-4
          and (cw["dist"][i] < cw["includemargin"][i]) == (cm["dist"][j] < cm["includemargin"][j])
          for i, j in pairs if on_b(cw, i)
        )
        if not same:
          keep[u] = False
          bodytrn_skipped = True
      rec.cls(f"bodytrn-contacts-differ:{bodytrn_skipped}")
    # slider-crank: length = av - sqrt(det), det = av^2 + rod^2 - |vec|^2, and the moment divides by sqrt(det).  Near det = 0 (rod barely
    # reaches the slider axis) float32 round-off in det is amplified without bound and the det<=0 branch may flip, so no tolerance is
    # meaningful there: such actuators are skipped (counted).  Well away from det = 0 (either sign) they are compared as usual.
    crank_skipped = False
    for u in np.nonzero(mjm.actuator_trntype == int(mujoco.mjtTrn.mjTRN_SLIDERCRANK))[0]:
      c, sl = mjm.actuator_trnid[u]
      rod = float(mjm.actuator_cranklength[u])
      axis = mjd.site_xmat[sl].reshape(3, 3)[:, 2]
      vec = mjd.site_xpos[c] - mjd.site_xpos[sl]
      av = float(vec @ axis)
      det = av * av + rod * rod - float(vec @ vec)
      if abs(det) < 1e-2 * (av * av + rod * rod + float(vec @ vec)):
        keep[u] = False
        crank_skipped = True
    if np.any(mjm.actuator_trntype == int(mujoco.mjtTrn.mjTRN_SLIDERCRANK)):
      rec.cls(f"slidercrank-near-singular:{crank_skipped}")
    bodytrn_skipped |= crank_skipped
    for k in fields:
      ref = np.asarray(getattr(mjd, k))
      sc = fscale if k in ("actuator_force", "qfrc_actuator") else None
      if k == "qfrc_actuator":
        if ball.any() or bodytrn_skipped:
          continue
        check_close(rec, k, got[k][w], ref, 5e-4, scale=sc, sig=f"fwd:{k}", world=w)
      elif k == "act_dot":
        check_close(rec, k, got[k][w], ref, 5e-4, scale=sc, sig=f"fwd:{k}", world=w)
      else:
        check_close(rec, k, got[k][w][keep], ref[keep], 5e-4, scale=sc, sig=f"fwd:{k}", world=w)
    # dense moment
    Mw = np.zeros((mjm.nu, mjm.nv))
    for u in range(mjm.nu):
      a, nn = int(mra[w][u]), int(mrn[w][u])
      Mw[u, mci[w][a : a + nn]] += mom[w][a : a + nn]
    Mm = np.zeros((mjm.nu, mjm.nv))
    mujoco.mju_sparse2dense(Mm, mjd.actuator_moment, mjd.moment_rownnz, mjd.moment_rowadr, mjd.moment_colind)
    check_close(rec, "actuator_moment", Mw[keep | ball], Mm[keep | ball], 5e-4, sig="fwd:moment", world=w)
    if mjm.na:
      mujoco.mj_step(mjm, mjd)
      if np.all(np.isfinite(mjd.act)):
        # same known finding, seen through mj_nextActivation: MuJoCo 3.13 also wraps the integrated activation of those servos
        # (intvelocity / general integrator with kp on a ball joint) into (-pi*|gear|, pi*|gear|]
        ball_act = np.zeros(mjm.na, dtype=bool)
        for u in np.nonzero(ball)[0]:
          if mjm.actuator_actnum[u] > 0:
            ball_act[mjm.actuator_actadr[u] : mjm.actuator_actadr[u] + mjm.actuator_actnum[u]] = True
        if ball_act.any() and np.max(np.abs(act_next[w][ball_act] - mjd.act[ball_act])) > 5e-4:
          rec.violation(f"ball-joint servo activation differs (MuJoCo wraps it) for act slots {np.nonzero(ball_act)[0].tolist()}", sig="ball-position-wrap", world=w)
        check_close(rec, "act(next)", act_next[w][~ball_act], mjd.act[~ball_act], 5e-4, sig="step:act", world=w)
    lim = (mjm.actuator_forcelimited.any() or mjm.actuator_ctrllimited.any() or mjm.jnt_actfrclimited.any() or (mjm.ntendon and mjm.tendon_actfrclimited.any()))
    saturated |= bool(lim) or mjm.na > 0
  rec.cls(f"clampctrl:{case['clampctrl']}", f"na>0:{mjm.na > 0}", *[f"trn:{int(t)}" for t in set(mjm.actuator_trntype.tolist())], *[f"dyn:{int(t)}" for t in set(mjm.actuator_dyntype.tolist())])
  if saturated:
    rec.nt()
