"""C22 Jacobians are consistent with positions and velocities."""

from __future__ import annotations

import numpy as np
import warp as wp
from hypothesis import strategies as st

import mujoco
import mujoco_warp as mjw
from mujoco_warp._src.types import OverflowType as OT

from vf import gen, mjw as H
from vf.core import Reject, check_close, check_equal

RULE = (
  "case = rich random model (contacts of condim 1/3/4/6 on a plane pile, connect/weld/joint/tendon equalities, dof and tendon frictionloss, joint and tendon limits, fixed and spatial "
  "tendons with wrapping, actuators with joint/jointinparent/tendon/site(+refsite)/slider-crank transmissions, mocap and welded bodies) compiled twice (jacobian=dense and =sparse) x "
  "solver x cone x random state in 1-2 worlds. Oracle: (i) every constraint row of both builds: J qvel == efc.vel; (ii) mjw.jac(point, body) for random global points on random bodies "
  "(a different body per world, jacp-only / jacr-only / both) equals mujoco.mj_jac and equals the central finite difference (MuJoCo C kinematics, mj_integratePos, h=1e-6) of the "
  "body-fixed point's position and of the body's orientation along every dof; (iii) d.ten_J and d.actuator_moment (CSR -> dense) equal MuJoCo's and equal the finite differences of "
  "ten_length / actuator_length wherever MuJoCo's own analytic Jacobian is that derivative (ball/free-joint and refsite transmissions are not derivatives of a length by design: counted, "
  "not demanded); (iv) dense build vs sparse build: same row multiset (type,id), J, vel, aref, and with a tight solver tolerance the same qacc, efc.force, qfrc_constraint and next "
  "integration state after one step. evaluation = one relation on one world; non-trivial = a jac point on a moving body with >= 2 ancestor dofs including a ball or free joint"
)
ASSUMPTIONS = [
  "MuJoCo C 3.13 is the reference for mj_jac, ten_J, actuator_moment and for the float64 kinematics used by the finite differences",
  "tolerances (>= 10x the largest error seen over 5 seeds): J qvel 5e-6 of sum|J||v| (+2.5e-7); jac 1e-5 of max(1,|J|); ten_J 2e-5, moment 5e-5 (vs FD 3e-5 / 1e-4); dense-vs-sparse J 1e-5, vel/aref/pos/D 1e-4 relative, qacc/efc.force/next state 3e-3 and qfrc_constraint 2e-2 of the field scale (thorough tier saw 7e-3), only when both solvers converged, cond(M + J'DJ) <= 1e4 in the float64 reference and at least one build is within 1e-3 of MuJoCo's float64 qacc (put_model clamps opt.tolerance to >= 1e-6, so the two solvers agree to ~2e-4 at best)",
  "slider-crank actuators near their singular configuration are skipped (as in C03); body (adhesion) transmissions are not generated (their moment depends on the contact set: C03/C04)",
]
BUDGET = {"quick": dict(examples=400, seconds=420, workers=16), "thorough": dict(examples=10000, seconds=1500, workers=16)}
_CONTACT_TYPES = (5, 6, 7)
_TRN = {0: "joint", 1: "jointinparent", 2: "slidercrank", 3: "tendon", 4: "site", 5: "body"}


def strategy(tier):
  return st.fixed_dictionaries(
    dict(
      cfg=gen.rich_cfg(
        geom_menu=st.sampled_from([["sphere", "capsule"], ["sphere"], ["sphere", "capsule", "box"]]),
        equalities=st.integers(0, 3),
        eq_menu=st.sampled_from([["connect", "weld"], ["connect", "weld", "joint", "tendon"], ["joint", "tendon"]]),
        tendons=st.integers(0, 2),
        spatial_tendons=st.integers(0, 2),
        wrap=st.booleans(),
        pulley=st.booleans(),
        limits=st.sampled_from([0.0, 0.7]),
        frictionloss=st.sampled_from([0.0, 0.5]),
        margin=st.booleans(),
        actuators=st.integers(0, 5),
        act_menu=st.sampled_from([["motor", "position", "velocity"], ["motor", "general", "cylinder"], ["motor"]]),
        trn_menu=st.sampled_from([["joint"], ["joint", "jointinparent", "tendon", "site", "slidercrank"], ["tendon", "site"]]),
        condim_menu=st.sampled_from([[3], [1, 3, 4, 6], [1], [6]]),
        p_multi_joint=st.sampled_from([0.0, 0.4]),
        maxdepth=st.integers(0, 3),
        p_weld=st.sampled_from([0.1, 0.1, 0.5]),  # 0.5: chains of jointless bodies below a jointed one (points on bodies several weld levels deep)
        mocap=st.integers(0, 1),
      ),
      opt=gen.option_strategy(integrators=("Euler", "implicitfast"), jacobians=("both",)),
      nworld=st.integers(1, 2),
      seed=st.integers(0, 10**6),
      sigma=st.sampled_from([0.05, 0.3, 1.0]),
      npoint=st.integers(1, 3),
    )
  )


def _fix_pulleys(spec):
  """A pulley branch needs >= 2 path elements and must start and end with a site (MuJoCo compile rule): extend a one-site branch by
  another site, drop the pulley otherwise."""
  sites = [s_["name"] for b in spec["bodies"] for s_ in b["sites"]]
  for t in spec["tendons"]:
    if t.get("kind") != "spatial":
      continue
    branches, cur = [], []
    for it in t["path"]:
      if it[0] == "pulley":
        branches.append(cur)
        cur = [it]
      else:
        cur.append(it)
    branches.append(cur)
    path = list(branches[0])
    for br in branches[1:]:
      body = br[1:]
      if len(body) == 1 and body[0][0] == "site":
        other = [x for x in sites if x != body[0][1]]
        if other:
          body = body + [["site", other[(len(path) * 7) % len(other)]]]
      if len(body) >= 2 and body[0][0] == "site" and body[-1][0] == "site":
        path += [br[0]] + body
      else:
        path += body
    t["path"] = path


def _rows_by_key(e):
  out = {}
  for i in range(e["nefc"]):
    out.setdefault((int(e["type"][i]), int(e["id"][i])), []).append(i)
  return out


def _rotvec(R):
  """Rotation vector of a rotation matrix close to identity."""
  w = np.array([R[2, 1] - R[1, 2], R[0, 2] - R[2, 0], R[1, 0] - R[0, 1]]) * 0.5
  s = np.linalg.norm(w)
  if s < 1e-12:
    return w
  return w * (np.arcsin(min(s, 1.0)) / s)


def _ten_dense(m, vals):
  nt, nv = m.ntendon, m.nv
  J = np.zeros((nt, nv))
  ra, rn, ci = m.ten_J_rowadr.numpy(), m.ten_J_rownnz.numpy(), m.ten_J_colind.numpy()
  for t in range(nt):
    a, n = int(ra[t]), int(rn[t])
    np.add.at(J[t], ci[a : a + n], vals[a : a + n])
  return J


def _crank_singular(mjm, mjd):
  bad = np.zeros(mjm.nu, dtype=bool)
  for u in np.nonzero(mjm.actuator_trntype == int(mujoco.mjtTrn.mjTRN_SLIDERCRANK))[0]:
    c, sl = mjm.actuator_trnid[u]
    rod = float(mjm.actuator_cranklength[u])
    axis = mjd.site_xmat[sl].reshape(3, 3)[:, 2]
    vec = mjd.site_xpos[c] - mjd.site_xpos[sl]
    av = float(vec @ axis)
    det = av * av + rod * rod - float(vec @ vec)
    if abs(det) < 1e-2 * (av * av + rod * rod + float(vec @ vec)):
      bad[u] = True
  return bad


def check(case, rec):
  cfg = dict(case["cfg"])
  opt = dict(case["opt"])
  opt.pop("jacobian", None)
  specs = {}
  mjms = {}
  if cfg.get("margin") and "box" in cfg["geom_menu"]:
    cfg["geom_menu"] = [g for g in cfg["geom_menu"] if g != "box"]  # put_model rejects margins on box pairs (MULTICCD)
  base = gen.make_spec(dict(cfg, option=dict(opt)))
  _fix_pulleys(base)
  # adhesion actuators have body transmissions (contact dependent moment): not part of this check
  for jac in ("dense", "sparse"):
    sp = dict(base)
    sp["option"] = dict(base["option"], jacobian=jac, tolerance=1e-10, iterations=200, ls_iterations=60)
    specs[jac] = sp
    mjms[jac] = H.compile_spec(sp)
  mjm = mjms["dense"]
  nv = mjm.nv
  if nv == 0:
    raise Reject("nv=0")
  if nv > 60:
    raise Reject("dense jacobian limited to nv<=60")
  n = case["nworld"]
  states = [H.rand_state(mjm, case["seed"] + 19 * w, sigma=case["sigma"], vel=1.0) for w in range(n)]
  ms, ds = {}, {}
  for jac in ("dense", "sparse"):
    ms[jac] = H.put_model(mjms[jac])
    ds[jac] = H.make_data(mjms[jac], nworld=n, nconmax=150, njmax=600)
    H.set_data(ds[jac], states)
    mjw.forward(ms[jac], ds[jac])
  if any((H.overflow_fwd(ds[j]) & ~int(OT.ITERATIONS)).any() for j in ds):
    rec.inconclusive += 1
    return
  if not (ms["sparse"].is_sparse and not ms["dense"].is_sparse):
    rec.violation("jacobian option not honoured by put_model", sig="option:jacobian")
  rec.cls(f"cone:{opt['cone']}", f"solver:{opt['solver']}", f"nworld:{n}")

  # ---------------- (i) J qvel == efc.vel, both builds
  efc = {j: [H.efc_dense(ms[j], ds[j], w) for w in range(n)] for j in ds}
  kinds = set()
  for j in ("dense", "sparse"):
    for w in range(n):
      e = efc[j][w]
      if e["nefc"] == 0:
        continue
      rec.ev()
      v = np.asarray(states[w]["qvel"], dtype=np.float64)
      Jv = e["J"] @ v
      sc = np.abs(e["J"]) @ np.abs(v)
      err = np.abs(Jv - e["vel"].astype(np.float64)) / (sc + 0.05)
      k = int(np.argmax(err))
      rec.err("Jqvel", err[k])
      if err[k] > 5e-6:
        rec.violation(f"row {k} (type {int(e['type'][k])}, id {int(e['id'][k])}, {j}): J qvel = {Jv[k]:.7g} but efc.vel = {float(e['vel'][k]):.7g}", sig=f"Jqvel:type{int(e['type'][k])}", world=w, build=j)
      kinds |= {int(t) for t in e["type"]}
  rec.cls(*[f"rowtype:{t}" for t in sorted(kinds)])

  # ---------------- reference data per world (MuJoCo C, float64)
  refs = []
  for w in range(n):
    mjd = mujoco.MjData(mjm)
    H.set_mjd(mjd, states[w])
    try:
      mujoco.mj_forward(mjm, mjd)
    except mujoco.FatalError:
      refs.append(None)
      continue
    refs.append(mjd)

  g = np.random.default_rng(case["seed"] + 77)
  nt_point = False
  # ---------------- (ii) jac
  m, d = ms["dense"], ds["dense"]
  for rep in range(case["npoint"]):
    bodies = g.integers(0, mjm.nbody, size=n)
    moving = np.nonzero([_has_dof_ancestor(mjm, b) for b in range(mjm.nbody)])[0]
    for w in range(n):
      if len(moving) and g.uniform() < 0.85:
        bodies[w] = int(moving[g.integers(0, len(moving))])
    pts = np.zeros((n, 3), dtype=np.float32)
    for w in range(n):
      base_pos = refs[w].xipos[bodies[w]] if refs[w] is not None else np.zeros(3)
      pts[w] = (base_pos + g.normal(size=3) * g.choice([0.0, 0.1, 1.0])).astype(np.float32)
    mode = ["both", "p", "r"][int(g.integers(0, 3))] if rep else "both"
    build = "sparse" if rep % 2 else "dense"
    m, d = ms[build], ds[build]
    jp = wp.zeros((n, 3, nv), dtype=float) if mode in ("both", "p") else None
    jr = wp.zeros((n, 3, nv), dtype=float) if mode in ("both", "r") else None
    mjw.jac(m, d, jp, jr, wp.array(pts, dtype=wp.vec3), wp.array(bodies.astype(np.int32), dtype=int))
    jpn = jp.numpy() if jp is not None else None
    jrn = jr.numpy() if jr is not None else None
    for w in range(n):
      mjd = refs[w]
      if mjd is None:
        continue
      b = int(bodies[w])
      p = pts[w].astype(np.float64)
      Jp, Jr = np.zeros((3, nv)), np.zeros((3, nv))
      mujoco.mj_jac(mjm, mjd, Jp, Jr, p, b)
      rec.ev()
      anc = np.nonzero(np.abs(Jp).sum(axis=0) + np.abs(Jr).sum(axis=0) > 0)[0]
      jt = {int(mjm.jnt_type[mjm.dof_jntid[k]]) for k in anc}
      deep = len(anc) >= 2 and bool(jt & {0, 1})
      nt_point |= deep
      rec.cls(f"jac:mode:{mode}", f"jac:deep:{deep}", f"jac:static:{len(anc) == 0}")
      sc = max(1.0, float(np.max(np.abs(Jp))))
      if jpn is not None:
        check_close(rec, "jacp_vs_mj_jac", jpn[w], Jp, 1e-5, scale=sc, sig="jac:mj_jac:p", world=w, body=b)
      if jrn is not None:
        check_close(rec, "jacr_vs_mj_jac", jrn[w], Jr, 1e-5, scale=1.0, sig="jac:mj_jac:r", world=w, body=b)
      # finite differences of the body-fixed point / body orientation
      Fp, Fr = _fd_point(mjm, mjd, b, p)
      rec.ev()
      if np.max(np.abs(Fp - Jp)) > 1e-6 * sc or np.max(np.abs(Fr - Jr)) > 1e-6:
        rec.inconclusive += 1  # the two references disagree: nothing to demand
        continue
      if jpn is not None:
        check_close(rec, "jacp_vs_fd", jpn[w], Fp, 1e-5, scale=sc, sig="jac:fd:p", world=w, body=b)
      if jrn is not None:
        check_close(rec, "jacr_vs_fd", jrn[w], Fr, 1e-5, scale=1.0, sig="jac:fd:r", world=w, body=b)

  # ---------------- (iii) tendon and actuator Jacobians
  for build in ("dense", "sparse"):
    m, d = ms[build], ds[build]
    tj = d.ten_J.numpy().astype(np.float64) if mjm.ntendon else None
    if mjm.nu:
      mom = d.actuator_moment.numpy().astype(np.float64)
      mrn, mra, mci = d.moment_rownnz.numpy(), d.moment_rowadr.numpy(), d.moment_colind.numpy()
    for w in range(n):
      mjd = refs[w]
      if mjd is None or (mjm.ntendon == 0 and mjm.nu == 0):
        continue
      FDt, FDa = _fd_lengths(mjm, mjd) if build == "dense" else (None, None)
      if mjm.ntendon:
        rec.ev()
        Jw = _ten_dense(m, tj[w])
        Jref = np.zeros((mjm.ntendon, nv))
        mujoco.mju_sparse2dense(Jref, mjd.ten_J, mjm.ten_J_rownnz, mjm.ten_J_rowadr, mjm.ten_J_colind)
        sc = max(1.0, float(np.max(np.abs(Jref))))
        check_close(rec, "ten_J_vs_mujoco", Jw, Jref, 2e-5, scale=sc, sig="ten_J:mujoco", world=w, build=build)
        if FDt is not None:
          ok = np.abs(FDt - Jref) <= 1e-5 * sc  # MuJoCo's own Jacobian is the derivative here (not at a wrap switch)
          rec.cls(f"ten_J:fd_applicable:{bool(ok.all())}", f"ten_J:pulley:{bool((mjm.wrap_type == int(mujoco.mjtWrap.mjWRAP_PULLEY)).any())}", f"ten_J:wrapgeom:{bool(np.isin(mjm.wrap_type, [int(mujoco.mjtWrap.mjWRAP_SPHERE), int(mujoco.mjtWrap.mjWRAP_CYLINDER)]).any())}")
          rec.boundary_skipped += int((~ok).sum())
          e = float(np.max(np.abs(Jw - FDt)[ok])) / sc if ok.any() else 0.0
          rec.err("ten_J_vs_fd", e)
          if e > 3e-5:
            t, k = np.unravel_index(int(np.argmax(np.where(ok, np.abs(Jw - FDt), 0))), Jw.shape)
            rec.violation(f"ten_J[{t},{k}] = {Jw[t, k]:.7g} but d ten_length / d q = {FDt[t, k]:.7g}", sig="ten_J:fd", world=w)
      if mjm.nu:
        rec.ev()
        Mw = np.zeros((mjm.nu, nv))
        for u in range(mjm.nu):
          a, nn = int(mra[w][u]), int(mrn[w][u])
          np.add.at(Mw[u], mci[w][a : a + nn], mom[w][a : a + nn])
        Mm = np.zeros((mjm.nu, nv))
        mujoco.mju_sparse2dense(Mm, mjd.actuator_moment, mjd.moment_rownnz, mjd.moment_rowadr, mjd.moment_colind)
        keep = ~_crank_singular(mjm, mjd)
        rec.boundary_skipped += int((~keep).sum())
        sc = max(1.0, float(np.max(np.abs(Mm))))
        check_close(rec, "moment_vs_mujoco", Mw[keep], Mm[keep], 5e-5, scale=sc, sig="moment:mujoco", world=w, build=build)
        if FDa is not None:
          ok = (np.abs(FDa - Mm) <= 1e-5 * sc) & keep[:, None]
          rowok = ok.all(axis=1)
          for u in range(mjm.nu):
            rec.cls(f"moment:{_TRN[int(mjm.actuator_trntype[u])]}:fd_applicable:{bool(rowok[u])}")
          e = float(np.max(np.abs(Mw - FDa)[ok])) / sc if ok.any() else 0.0
          rec.err("moment_vs_fd", e)
          if e > 1e-4:
            u, k = np.unravel_index(int(np.argmax(np.where(ok, np.abs(Mw - FDa), 0))), Mw.shape)
            rec.violation(f"actuator_moment[{u},{k}] = {Mw[u, k]:.7g} but d actuator_length / d q = {FDa[u, k]:.7g}", sig="moment:fd", world=w)

  # ---------------- (iv) dense build == sparse build
  dd, dsp = ds["dense"], ds["sparse"]
  for w in range(n):
    rec.ev()
    a, b = efc["dense"][w], efc["sparse"][w]
    ka, kb = _rows_by_key(a), _rows_by_key(b)
    if {k: len(v) for k, v in ka.items()} != {k: len(v) for k, v in kb.items()}:
      rec.violation(f"dense and sparse builds emit different constraint rows: {sorted(set(ka) ^ set(kb))[:4]}", sig="densesparse:rows", world=w)
      continue
    if a["nefc"]:
      ia = [i for k in sorted(ka) for i in ka[k]]
      ib = [i for k in sorted(kb) for i in kb[k]]
      check_close(rec, "ds:J", b["J"][ib], a["J"][ia], 1e-5, scale=max(1.0, float(np.max(np.abs(a["J"])))), sig="densesparse:J", world=w)
      for f in ("vel", "aref", "pos", "D"):
        x, y = b[f][ib].astype(np.float64), a[f][ia].astype(np.float64)
        rel = float(np.max(np.abs(x - y) / (np.abs(y) + 1e-2 * max(1.0, float(np.max(np.abs(y)))))))
        rec.err(f"ds:{f}", rel)
        if rel > 1e-4:
          rec.violation(f"dense vs sparse build: efc.{f} differs (relative {rel:.3g})", sig=f"densesparse:{f}", world=w)
  # solver outputs: only when both builds converged
  it = int(mjm.opt.iterations)
  na, nb = dd.solver_niter.numpy(), dsp.solver_niter.numpy()
  qa, qb = dd.qacc.numpy().astype(np.float64), dsp.qacc.numpy().astype(np.float64)
  fa, fb = dd.qfrc_constraint.numpy().astype(np.float64), dsp.qfrc_constraint.numpy().astype(np.float64)
  mjw.step(ms["dense"], dd)
  mjw.step(ms["sparse"], dsp)
  sa, sb = H.get_state(ms["dense"], dd, mjm).astype(np.float64), H.get_state(ms["sparse"], dsp, mjms["sparse"]).astype(np.float64)
  na2, nb2 = dd.solver_niter.numpy(), dsp.solver_niter.numpy()
  for w in range(n):
    if max(na[w], nb[w], na2[w], nb2[w]) >= it or not (np.all(np.isfinite(qa[w])) and np.all(np.isfinite(qb[w])) and np.all(np.isfinite(sa[w])) and np.all(np.isfinite(sb[w]))):
      rec.boundary_skipped += 1
      rec.cls("ds:solver-unconverged")
      continue
    rec.ev()
    a, b = efc["dense"][w], efc["sparse"][w]
    ka, kb = _rows_by_key(a), _rows_by_key(b)
    if {k: len(v) for k, v in ka.items()} != {k: len(v) for k, v in kb.items()}:
      continue
    qs = max(1.0, float(np.max(np.abs(qa[w]))))
    # float32 cannot resolve an ill-conditioned constrained problem (seen: redundant equalities on a chain with cond(M) 2.5e5, |qacc| ~ 1e4,
    # the two builds 1-2 % apart and as far from the float64 optimum): judge only when the reference Hessian M + J' D J (active rows) has
    # cond <= 1e4 and at least one build reproduces MuJoCo's converged float64 solution; the other build must then agree with it
    mjd = refs[w]
    if mjd is None or not np.all(np.isfinite(mjd.qacc)):
      rec.boundary_skipped += 1
      continue
    er = H.mj_efc_dense(mjm, mjd)
    act = er["force"] != 0
    Hs = H.mj_dense_M(mjm, mjd) + (er["J"][act].T * er["D"][act]) @ er["J"][act] if er["nefc"] else H.mj_dense_M(mjm, mjd)
    evh = np.linalg.eigvalsh(Hs)
    condH = evh[-1] / max(evh[0], 1e-300)
    rec.err("ds:log10condH", float(np.log10(max(condH, 1.0))))
    if condH > 1e4 or min(float(np.max(np.abs(qa[w] - mjd.qacc))), float(np.max(np.abs(qb[w] - mjd.qacc)))) > 1e-3 * qs:
      rec.boundary_skipped += 1
      rec.cls("ds:ill-conditioned-or-contacts-differ")
      continue
    check_close(rec, "ds:qacc", qb[w], qa[w], 3e-3, scale=qs, sig="densesparse:qacc", world=w)
    fs = max(1.0, float(np.max(np.abs(fa[w]))))
    check_close(rec, "ds:qfrc_constraint", fb[w], fa[w], 2e-2, scale=fs, sig="densesparse:qfrc_constraint", world=w)
    if a["nefc"]:
      ia = [i for k in sorted(ka) for i in ka[k]]
      ib = [i for k in sorted(kb) for i in kb[k]]
      es = max(1.0, float(np.max(np.abs(a["force"]))))
      # force = -D (J qacc - aref): the (accepted, <= 3e-3) difference between the two solves' qacc reappears multiplied by the row stiffness D
      dq = np.abs(qb[w].astype(np.float64) - qa[w]) + 2.4e-7 * np.abs(qa[w])
      Ja = np.abs(a["J"][ia].astype(np.float64))
      allow = 3e-3 * es + 4.0 * np.abs(a["D"][ia].astype(np.float64)) * (Ja @ dq)
      diff = np.abs(b["force"][ib].astype(np.float64) - a["force"][ia])
      rec.err("ds:efc.force (beyond the stiffness-propagated qacc difference)", float(np.max(np.maximum(diff - allow + 3e-3 * es, 0.0)) / es))
      if np.any(diff > allow):
        j = int(np.argmax(diff - allow))
        rec.violation(f"ds:efc.force row {j}: {float(b['force'][ib][j])!r} vs {float(a['force'][ia][j])!r}, more than 3e-3 * {es:.3g} + the stiffness-propagated qacc difference {allow[j] - 3e-3 * es:.3g}", sig="densesparse:force", world=w)
    check_close(rec, "ds:next_state", sb[w], sa[w], 3e-3, scale=max(1.0, float(np.max(np.abs(sa[w])))), sig="densesparse:state", world=w)
    rec.cls(f"ds:nefc>0:{a['nefc'] > 0}")
  if nt_point:
    rec.nt()


def _has_dof_ancestor(mjm, b):
  while b > 0:
    if mjm.body_dofnum[b] > 0:
      return True
    b = int(mjm.body_parentid[b])
  return False


def _positions(mjm, mjd):
  mujoco.mj_kinematics(mjm, mjd)
  mujoco.mj_comPos(mjm, mjd)


def _fd_point(mjm, mjd, b, p, h=1e-6):
  """Central finite differences (per dof) of the position of the point fixed to body b that is at p now, and of the body's orientation."""
  nv = mjm.nv
  R0 = mjd.xmat[b].reshape(3, 3).copy()
  loc = R0.T @ (p - mjd.xpos[b])
  q0 = mjd.qpos.copy()
  tmp = mujoco.MjData(mjm)
  tmp.mocap_pos[:] = mjd.mocap_pos
  tmp.mocap_quat[:] = mjd.mocap_quat
  Fp, Fr = np.zeros((3, nv)), np.zeros((3, nv))
  for k in range(nv):
    out = []
    for s in (+1.0, -1.0):
      q = q0.copy()
      dv = np.zeros(nv)
      dv[k] = s
      mujoco.mj_integratePos(mjm, q, dv, h)
      tmp.qpos[:] = q
      mujoco.mj_kinematics(mjm, tmp)
      R = tmp.xmat[b].reshape(3, 3).copy()
      out.append((tmp.xpos[b] + R @ loc, R))
    Fp[:, k] = (out[0][0] - out[1][0]) / (2 * h)
    Fr[:, k] = _rotvec(out[0][1] @ out[1][1].T) / (2 * h)
  return Fp, Fr


def _fd_lengths(mjm, mjd, h=1e-6):
  nv = mjm.nv
  q0 = mjd.qpos.copy()
  tmp = mujoco.MjData(mjm)
  tmp.mocap_pos[:] = mjd.mocap_pos
  tmp.mocap_quat[:] = mjd.mocap_quat
  tmp.act[:] = mjd.act
  tmp.ctrl[:] = mjd.ctrl
  FDt = np.zeros((mjm.ntendon, nv))
  FDa = np.zeros((mjm.nu, nv))
  for k in range(nv):
    L = []
    for s in (+1.0, -1.0):
      q = q0.copy()
      dv = np.zeros(nv)
      dv[k] = s
      mujoco.mj_integratePos(mjm, q, dv, h)
      tmp.qpos[:] = q
      mujoco.mj_kinematics(mjm, tmp)
      mujoco.mj_comPos(mjm, tmp)
      mujoco.mj_tendon(mjm, tmp)
      mujoco.mj_transmission(mjm, tmp)
      L.append((tmp.ten_length.copy(), tmp.actuator_length.copy()))
    FDt[:, k] = (L[0][0] - L[1][0]) / (2 * h)
    FDa[:, k] = (L[0][1] - L[1][1]) / (2 * h)
  return FDt, FDa
