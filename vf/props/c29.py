"""C29 Sleeping follows MuJoCo's sleep semantics (lock-step with MuJoCo C + invariants judged on MJWarp alone)."""

from __future__ import annotations

import copy

import numpy as np
from hypothesis import strategies as st

import mujoco
import mujoco_warp as mjw
from mujoco_warp._src import sleep as mjw_sleep
from mujoco_warp._src.types import OverflowType as OT

from vf import mjw as H, sched
from vf.core import Reject

SCHED = True  # vf.worker installs the permuted task loop and uses the warp-sched kernel cache

RULE = (
  "case = sleep-enabled scene (2-8 free trees resting on a plane in 2-4 piles 0.6 m apart: spheres/boxes/lying capsules, stacked or alone, 2-body free chains with a hinge or limited slide "
  "child; 0-2 damped pendulum arms hinged to the world, optionally motor-driven (tree policy AUTO_NEVER); optional connect/weld (body semantics), connect (site semantics), joint "
  "equalities and limited spatial/fixed tendons linking different trees; a mocap box; sleep_tolerance 1e-4..0.3; Newton, both cones, dense/sparse, Euler/implicitfast/implicit) "
  "x 1-2 worlds x a drawn history of ops (step xn with n<=120 (200 thorough), xfrc/qfrc/qvel poke, shove a body, clear forces, move the mocap box into a pile, toggle eq_active, drop a "
  "body onto a pile, ctrl; per world or all worlds) x thread order (ascending, descending, hashed permutation, or a different permutation per kernel, kept for the whole history). "
  "oracle per step and world: (D) MuJoCo C stepped in lock-step from the same float32 state and the same tree_asleep (after each step awake trees are resynchronised from MJWarp and "
  "tree_asleep from MuJoCo): per island/cycle group the sign pattern of tree_asleep, the countdown values of awake trees and the sleep-cycle partition must be equal, then tree_awake "
  "and body_awake; contact pairs that involve a body not asleep in both engines must be the same set unless MJWarp without sleeping disagrees with MuJoCo too; a group that differs "
  "is attributed to the known ordering finding only if the quiet predicate of one of its trees differs between pre- and post-step velocity and MJWarp's result equals mj_sleep's "
  "counter rule evaluated on the post-step speeds (from the common counters, MJWarp's islands); (I1) a tree asleep before and after the step in the same cycle, not poked and without "
  "wake cause, has bit-identical qpos/qvel; (I2, worlds whose MuJoCo reference died) tree_asleep follows mj_sleep's counter rule (count up while below tolerance and force-free, "
  "reset otherwise, an island sleeps when all its trees reached -1, cycle = island trees) on pre- or post-step speeds; (I3) a tree that was asleep is awake after the step when it "
  "carries applied force / non-zero velocity, or (while the partner stays awake) touches an awake tree, or is linked to one by an active connect/weld/joint equality or a limited "
  "tendon whose limit is active; a tree with applied force never falls asleep; (I4) tree_asleep>=0 entries form closed cycles over sleeping trees, tree_awake/body_awake agree with "
  "tree_asleep. evaluation = one (step, world) judged; non-trivial = history with a sleep->wake transition caused by contact/equality/tendon (no poke on that tree) or a step after "
  "which some tree newly fell asleep while another tree of the same world stayed awake"
)
ASSUMPTIONS = [
  "only the automatic sleep policies exist in MJWarp (explicit body sleep=never/allowed/init is rejected by put_model, documented): AUTO_NEVER is produced with actuated arms",
  "tendon equalities are not generated: MuJoCo C 3.13 aborts with 'mj_wakeEquality: tendon equality does not yet support sleeping', so there is no reference",
  "a group (island/cycle) that differs from MuJoCo is not judged at that step (counted boundary_skipped) when the reference sits on a discontinuity: a scaled dof speed within 1e-5 "
  "(relative) of the tolerance, a contact reported by one engine only with |dist| < 1e-5, a contact on which MJWarp with and without sleeping agree against MuJoCo (ordinary collision "
  "difference or the one-step position offset of a sleeping tree), a tendon limit distance within 1e-5 of its margin; the engines are resynchronised and the history continues",
  "MuJoCo FatalError (seen: 'mj_sleep: found sleeping tree in island' with equalities between sleeping trees) or a MuJoCo auto-reset ends the lock-step of that world (counted); "
  "the world is then judged by I1-I4 only",
  "serial task orders only (DESIGN 2.4): tasks of one launch are permuted, never interleaved",
  "RK4 is not generated (its contact list / islands are those of the last sub-stage); ample capacities (nconmax=64 per world, njmax=256); histories that set an overflow bit or "
  "produce non-finite state are discarded and counted",
  "positions/velocities themselves are not compared with MuJoCo (that is C08); MuJoCo follows MJWarp's state so that round-off cannot decide who sleeps first",
]
BUDGET = {"quick": dict(examples=224, seconds=420, workers=16), "thorough": dict(examples=4000, seconds=1500, workers=16)}

NCON, NJ = 64, 256
MINAWAKE = int(mujoco.mjMINAWAKE)
KAWAKE = -(1 + MINAWAKE)
DEBUG = False
BAND = 1e-5  # scaled speeds within this relative distance of the tolerance are ties (float32 vs float64 evaluation of |dof_length*qvel| < tolerance)
_CAP = int(OT.NEFC | OT.NJMAX_NNZ | OT.BROADPHASE | OT.NARROWPHASE | OT.CCD | OT.NVMAX | OT.EPA_HORIZON)
_MJ_BAD = [int(mujoco.mjtWarning.mjWARN_BADQPOS), int(mujoco.mjtWarning.mjWARN_BADQVEL), int(mujoco.mjtWarning.mjWARN_BADQACC)]  # MuJoCo reset its MjData
MAXSTEPS = {"quick": 160, "thorough": 450}

SPH = [0.08, 0.1, 0.14]
BOX = [(0.1, 0.1, 0.1), (0.15, 0.1, 0.06), (0.08, 0.12, 0.1)]
CAP = [(0.06, 0.12), (0.08, 0.1), (0.05, 0.15)]  # radius, half length (lying along x)
PILE_DX = 0.6
OVERLAP = 0.0005


# --------------------------------------------------------------------------------------
# generator


def _item():
  return st.fixed_dictionaries(
    dict(g=st.sampled_from(["sphere", "box", "box", "capsule", "chain", "chain_slide"]), s=st.integers(0, 2), dx=st.sampled_from([0.0, 0.0, 0.01, -0.02]))
  )


def _link():
  return st.fixed_dictionaries(
    dict(
      kind=st.sampled_from(["connect", "weld", "connect_site", "joint", "spatial", "spatial", "fixed"]),
      a=st.integers(0, 9),
      b=st.integers(0, 9),
      active=st.sampled_from([True, True, False]),
      slack=st.sampled_from([0.97, 0.995, 1.005, 1.02, 1.3]),  # tendon upper range = slack * initial length (fixed tendons: range half width = slack - 1)
      margin=st.sampled_from([0.0, 0.0, 0.03]),
    )
  )


def _op(tier):
  nmax = 200 if tier == "thorough" else 120
  w = st.integers(-1, 1)
  step = st.fixed_dictionaries(dict(op=st.just("step"), n=st.one_of(st.integers(1, 30), st.integers(1, nmax))))
  xfrc = st.fixed_dictionaries(dict(op=st.just("xfrc"), i=st.integers(0, 15), k=st.integers(0, 5), v=st.sampled_from([2.0**-20, 0.5, -4.0, 30.0]), w=w))
  qfrc = st.fixed_dictionaries(dict(op=st.just("qfrc"), i=st.integers(0, 63), v=st.sampled_from([2.0**-20, -0.5, 3.0]), w=w))
  qvel = st.fixed_dictionaries(dict(op=st.just("qvel"), i=st.integers(0, 63), v=st.sampled_from([2.0**-24, 2.0**-10, 0.05, -0.5, 2.0]), w=w))
  clear = st.fixed_dictionaries(dict(op=st.just("clear"), w=w))
  mocap = st.fixed_dictionaries(dict(op=st.just("mocap"), p=st.integers(0, 3), dx=st.sampled_from([0.0, -0.15, 0.12]), z=st.sampled_from([0.05, 0.12, 0.3]), w=w))
  eq = st.fixed_dictionaries(dict(op=st.just("eq"), i=st.integers(0, 7), on=st.booleans(), w=w))
  drop = st.fixed_dictionaries(
    dict(op=st.just("drop"), i=st.integers(0, 9), p=st.integers(0, 3), h=st.sampled_from([0.005, 0.05, 0.4]), dx=st.sampled_from([0.0, 0.05, -0.12]), v=st.sampled_from([-0.01, -0.5]), w=w)
  )
  ctrl = st.fixed_dictionaries(dict(op=st.just("ctrl"), i=st.integers(0, 3), v=st.sampled_from([0.0, 0.3, -1.0]), w=w))
  shove = st.fixed_dictionaries(dict(op=st.just("shove"), i=st.integers(0, 9), v=st.sampled_from([1.0, -1.0, 3.0, -3.0]), w=w))
  return st.one_of(step, step, step, step, xfrc, qfrc, qvel, clear, clear, mocap, eq, eq, drop, drop, shove, shove, ctrl)


def strategy(tier):
  scene = st.fixed_dictionaries(
    dict(
      tol=st.sampled_from([1e-4, 1e-3, 0.01, 0.05, 0.3]),
      dt=st.sampled_from([0.002, 0.005]),
      cone=st.sampled_from(["pyramidal", "elliptic"]),
      jacobian=st.sampled_from(["dense", "sparse"]),
      integrator=st.sampled_from(["Euler", "Euler", "implicitfast", "implicit"]),
      piles=st.lists(st.lists(_item(), min_size=1, max_size=3), min_size=2, max_size=4),
      arms=st.lists(st.fixed_dictionaries(dict(damping=st.sampled_from([0.5, 2.0]), motor=st.sampled_from([False, False, True]), q0=st.sampled_from([0.0, 0.0, 0.4]))), min_size=0, max_size=2),
      links=st.lists(_link(), min_size=0, max_size=3),
      mocap=st.booleans(),
      policy=st.sampled_from(["auto"] * 47 + ["never", "allowed", "init"]),  # explicit policies: documented rejection by put_model (counted)
    )
  )
  return st.fixed_dictionaries(
    dict(
      scene=scene,
      nworld=st.sampled_from([1, 1, 2]),
      first=st.integers(12, 70),
      ops=st.lists(_op(tier), min_size=1, max_size=9),
      sched=st.one_of(st.just(0), st.just(0), st.sampled_from([1, 2, 3, 5, 7]), st.integers(1000, 1000000)),  # >=1000: per-kernel modes, value = seed
      tier=st.just(tier),
    )
  )


def enumerate_cases(tier, seed):
  """Deterministic scenario templates run before the Hypothesis phase: one per wake cause / sleeping pattern the statement names, varied by the seed."""
  g = np.random.default_rng(int(seed) + 2900)
  tols = [0.02, 0.05, 0.3]
  geoms = ["sphere", "box", "capsule"]
  scheds = [0, 1, 3, 7, 4242 + int(seed)]
  out = []

  def scene(piles, links=(), arms=(), mocap=False, k=0):
    return dict(
      tol=tols[(k + int(seed)) % 3], dt=[0.002, 0.005][(k + int(seed)) % 2], cone=["pyramidal", "elliptic"][k % 2], jacobian=["dense", "sparse"][(k // 2) % 2],
      integrator=["Euler", "implicitfast", "implicit"][k % 3],
      piles=[[dict(g=x, s=int(g.integers(0, 3)), dx=0.0) for x in pile] for pile in piles], arms=list(arms), links=list(links), mocap=mocap,
    )

  def link(kind, a, b, active=True, slack=1.02, margin=0.0):
    return dict(kind=kind, a=a, b=b, active=active, slack=slack, margin=margin)

  def case(sc, ops, first=70, nworld=1, k=0):
    return dict(scene=sc, nworld=nworld, first=first, ops=ops, sched=scheds[(k + int(seed)) % len(scheds)], tier=tier)

  reps = 1 if tier == "quick" else 3
  for r in range(reps):
    k = 7 * r
    ga, gb = geoms[(k + int(seed)) % 3], geoms[(k + 1 + int(seed)) % 3]
    # tendon: two trees asleep in separate cycles, one is shoved away until the tendon limit becomes active
    out.append(case(scene([[ga], [gb]], links=[link("spatial", 0, 1, slack=[1.005, 1.02][r % 2], margin=[0.0, 0.03][(r + int(seed)) % 2])], k=k),
                    [dict(op="shove", i=1, v=3.0, w=0), dict(op="step", n=60)], nworld=1 + r % 2, k=k))
    # equality: inactive connect/weld between two sleeping trees is switched on in one of two worlds, then one tree is poked in both
    out.append(case(scene([[ga], [gb, "sphere"]], links=[link(["connect", "weld", "connect_site"][(r + int(seed)) % 3], 0, 1, active=False)], k=k + 1),
                    [dict(op="eq", i=0, on=True, w=(r + int(seed)) % 2), dict(op="qvel", i=2, v=0.05, w=-1), dict(op="step", n=40)], nworld=2, k=k + 1))
    # contact: a body is dropped onto a sleeping pile
    out.append(case(scene([[ga, "box"], [gb]], k=k + 2), [dict(op="drop", i=2, p=0, h=0.05, dx=0.0, v=-0.5, w=-1), dict(op="step", n=70)], k=k + 2))
    # contact through shoving a sleeping neighbour pile
    out.append(case(scene([["sphere"], [gb], ["box", ga]], k=k + 3), [dict(op="shove", i=0, v=3.0, w=-1), dict(op="step", n=80)], nworld=2, k=k + 3))
    # mocap box moved into a sleeping pile
    out.append(case(scene([[ga], ["box"]], mocap=True, k=k + 4), [dict(op="mocap", p=0, dx=0.12, z=0.05, w=0), dict(op="step", n=40)], nworld=2, k=k + 4))
    # island kept together by an equality while everything sleeps, then a poke
    out.append(case(scene([["box", gb], [ga]], links=[link("connect", 0, 2)], k=k + 5), [dict(op="step", n=20), dict(op="qfrc", i=1, v=3.0, w=0), dict(op="step", n=25), dict(op="clear", w=-1), dict(op="step", n=30)], k=k + 5))
    # one tree held awake by an applied force while its neighbours fall asleep; actuated arm (AUTO_NEVER) linked to a chain by a joint equality / fixed tendon
    out.append(case(scene([[ga], ["chain"], [gb]], arms=[dict(damping=2.0, motor=True, q0=0.0)], links=[link(["joint", "fixed"][r % 2], 0, 1, slack=1.3)], k=k + 6),
                    [dict(op="xfrc", i=0, k=5, v=0.5, w=0), dict(op="step", n=40), dict(op="ctrl", i=0, v=0.3, w=-1), dict(op="clear", w=-1), dict(op="step", n=40)], nworld=2, k=k + 6))
    # tendon, slow: the awake tree creeps below the tolerance (its countdown keeps running) until the tendon limit wakes the sleeping one with that countdown
    sc = scene([["sphere"], ["sphere"]], links=[link("spatial", 0, 1, slack=1.005, margin=0.0)], k=k)
    sc["tol"], sc["dt"] = 0.3, 0.005
    out.append(case(sc, [dict(op="shove", i=1, v=0.25, w=-1), dict(op="step", n=40)], nworld=1 + (r + int(seed)) % 2, k=k))
    # two awake trees with different countdown values reach the same sleeping tree in the same step (the woken tree takes the smaller value whatever the contact order);
    # run under the ascending and the descending task order
    for sch in (0, 1):
      sc = scene([["box"], ["sphere"], ["sphere"]], k=k)
      sc["piles"][0][0]["s"], sc["piles"][1][0]["s"], sc["piles"][2][0]["s"] = 1, 0, 0
      sc["tol"], sc["dt"] = 0.3, 0.005  # both falling bodies stay below the tolerance, so their countdowns keep their offset
      c = case(sc, [dict(op="qvel", i=12, v=2.0**-10, w=-1), dict(op="step", n=3 + (int(seed) + r) % 3), dict(op="drop", i=1, p=0, h=0.001, dx=0.05, v=-0.01, w=-1),
                    dict(op="drop", i=2, p=0, h=0.001, dx=-0.12, v=-0.01, w=-1), dict(op="step", n=40)], k=k)
      c["sched"] = sch
      out.append(c)
  return out


def build_xml(sc):
  """Returns (xml, info): info carries pile geometry and name lists used to interpret ops."""
  bodies = []
  free = []  # names of free root bodies
  scal = []  # scalar joints (name)
  pile_x, pile_top = [], []
  nb = 0
  for p, pile in enumerate(sc["piles"]):
    x0 = PILE_DX * p
    base = 0.0
    for it in pile:
      if nb >= 8:
        break
      g, s, dx = it["g"], it["s"] % 3, it["dx"]
      name = f"b{nb}"
      child = ""
      if g == "sphere":
        h = SPH[s]
        geom = f'<geom type="sphere" size="{h}"/>'
      elif g == "box":
        a, b_, c = BOX[s]
        h = c
        geom = f'<geom type="box" size="{a} {b_} {c}"/>'
      elif g == "capsule":
        r, l = CAP[s]
        h = r
        geom = f'<geom type="capsule" size="{r} {l}" euler="0 90 0"/>'
      else:  # two-body chain: free box with a child box on a hinge / slide
        h = 0.08
        geom = '<geom type="box" size="0.1 0.1 0.08"/>'
        jn = f"cj{nb}"
        scal.append(jn)
        jt = 'type="hinge" axis="0 1 0"' if g == "chain" else 'type="slide" axis="1 0 0" range="-0.05 0.05" limited="true"'
        child = f'<body name="c{nb}" pos="0.19 0 0"><joint name="{jn}" {jt} damping="0.05"/><geom type="box" size="0.08 0.08 0.08" pos="0.0 0 0"/></body>'
      z = base + h - OVERLAP  # every interface starts 0.5 mm inside the margin so that the initial contacts are unambiguous
      base += 2 * h - OVERLAP
      pol = f' sleep="{sc["policy"]}"' if nb == 0 and sc.get("policy", "auto") != "auto" else ""
      bodies.append(f'<body name="{name}" pos="{x0 + dx} 0 {z}"{pol}><freejoint name="f{nb}"/>{geom}<site name="s{nb}" size="0.01"/>{child}</body>')
      free.append(dict(name=name, x=x0 + dx, z=z, h=h, pile=p))
      nb += 1
    pile_x.append(x0)
    pile_top.append(base)
  arms = []
  for k, a in enumerate(sc["arms"]):
    jn = f"aj{k}"
    scal.append(jn)
    arms.append(jn)
    bodies.append(
      f'<body name="arm{k}" pos="{0.6 * k} 1.5 0.8"><joint name="{jn}" type="hinge" axis="0 1 0" damping="{a["damping"]}" ref="0"/>'
      f'<geom type="capsule" fromto="0 0 0 0 0 -0.3" size="0.03" contype="0" conaffinity="0"/><site name="sa{k}" pos="0 0 -0.3" size="0.01"/></body>'
    )
  if sc["mocap"]:
    bodies.append('<body name="mc" mocap="true" pos="-3 0 0.1"><geom type="box" size="0.08 0.08 0.08"/></body>')
  nfree = len(free)
  eqs, tens, acts = [], [], []
  ntend = 0
  fixed_names = []
  for L in sc["links"]:
    kind = L["kind"]
    a, b = L["a"] % nfree, L["b"] % nfree
    if a == b:
      b = (a + 1) % nfree
    act = "true" if L["active"] else "false"
    A, B = free[a], free[b]
    if kind == "connect":
      eqs.append(f'<connect body1="{A["name"]}" body2="{B["name"]}" anchor="0 0 0" active="{act}"/>')
    elif kind == "weld":
      eqs.append(f'<weld body1="{A["name"]}" body2="{B["name"]}" active="{act}"/>')
    elif kind == "connect_site":
      # two extra sites that coincide in the initial configuration
      xm, zm = 0.5 * (A["x"] + B["x"]), 0.5 * (A["z"] + B["z"])
      k = len(eqs)
      bodies_idx_a = next(i for i, s_ in enumerate(bodies) if s_.startswith(f'<body name="{A["name"]}"'))
      bodies_idx_b = next(i for i, s_ in enumerate(bodies) if s_.startswith(f'<body name="{B["name"]}"'))
      sa, sb = f"e{k}a", f"e{k}b"
      bodies[bodies_idx_a] = bodies[bodies_idx_a].replace("<site ", f'<site name="{sa}" pos="{xm - A["x"]} 0 {zm - A["z"]}" size="0.01"/><site ', 1)
      bodies[bodies_idx_b] = bodies[bodies_idx_b].replace("<site ", f'<site name="{sb}" pos="{xm - B["x"]} 0 {zm - B["z"]}" size="0.01"/><site ', 1)
      eqs.append(f'<connect site1="{sa}" site2="{sb}" active="{act}"/>')
    elif kind == "joint":
      if len(scal) >= 2:
        j1, j2 = scal[L["a"] % len(scal)], scal[L["b"] % len(scal)]
        if j1 == j2:
          j2 = scal[(L["a"] + 1) % len(scal)]
        eqs.append(f'<joint joint1="{j1}" joint2="{j2}" polycoef="0 1 0 0 0" active="{act}"/>')
    elif kind == "spatial":
      dist = float(np.hypot(A["x"] - B["x"], A["z"] - B["z"]))
      tens.append(
        f'<spatial name="t{ntend}" limited="true" range="0 {dist * L["slack"]}" margin="{L["margin"]}"><site site="s{a}"/><site site="s{b}"/></spatial>'
      )
      ntend += 1
    elif kind in ("fixed", "tendon_eq"):
      if len(scal) >= 2:
        j1, j2 = scal[L["a"] % len(scal)], scal[L["b"] % len(scal)]
        if j1 == j2:
          j2 = scal[(L["a"] + 1) % len(scal)]
        r = max(L["slack"] - 1.0, 0.0) + 0.0
        lim = f'limited="true" range="{-r - 1e-9} {r}" margin="{L["margin"]}"' if kind == "fixed" else ""
        tens.append(f'<fixed name="t{ntend}" {lim}><joint joint="{j1}" coef="1"/><joint joint="{j2}" coef="-1"/></fixed>')
        fixed_names.append(f"t{ntend}")
        ntend += 1
        if kind == "tendon_eq":
          if len(fixed_names) >= 2:
            eqs.append(f'<tendon tendon1="{fixed_names[-1]}" tendon2="{fixed_names[-2]}" polycoef="0 1 0 0 0" active="{act}"/>')
          else:
            eqs.append(f'<tendon tendon1="{fixed_names[-1]}" polycoef="0 1 0 0 0" active="{act}"/>')
  for k, a in enumerate(sc["arms"]):
    if a["motor"]:
      acts.append(f'<motor joint="aj{k}" gear="1"/>')
  xml = (
    "<mujoco>"
    f'<option timestep="{sc["dt"]}" sleep_tolerance="{sc["tol"]}" cone="{sc["cone"]}" jacobian="{sc["jacobian"]}" integrator="{sc["integrator"]}" '
    'solver="Newton" iterations="6" ls_iterations="10"><flag sleep="enable"/></option>'
    '<worldbody><geom name="floor" type="plane" size="10 10 .1"/>'
    + "".join(bodies)
    + "</worldbody>"
    + ("<tendon>" + "".join(tens) + "</tendon>" if tens else "")
    + ("<equality>" + "".join(eqs) + "</equality>" if eqs else "")
    + ("<actuator>" + "".join(acts) + "</actuator>" if acts else "")
    + "</mujoco>"
  )
  return xml, dict(free=free, pile_x=pile_x, pile_top=pile_top, arms=arms)


# --------------------------------------------------------------------------------------
# model tables


class Tables:
  def __init__(self, mjm):
    self.ntree = mjm.ntree
    self.body_tree = np.array(mjm.body_treeid)
    self.dof_tree = np.array(mjm.dof_treeid)
    self.geom_tree = self.body_tree[np.array(mjm.geom_bodyid)]
    self.dof_len = np.array(mjm.dof_length, dtype=np.float64)
    self.geom_mocap = np.array(mjm.body_mocapid)[np.array(mjm.body_rootid)[np.array(mjm.geom_bodyid)]] >= 0
    jb = np.array(mjm.jnt_bodyid)
    self.qpos_tree = np.full(mjm.nq, -1)
    for j in range(mjm.njnt):
      a = mjm.jnt_qposadr[j]
      n = {0: 7, 1: 4, 2: 1, 3: 1}[int(mjm.jnt_type[j])]
      self.qpos_tree[a : a + n] = self.body_tree[jb[j]]
    # trees of every tendon
    self.ten_trees = []
    for t in range(mjm.ntendon):
      ts = set()
      for k in range(mjm.tendon_adr[t], mjm.tendon_adr[t] + mjm.tendon_num[t]):
        wt, oid = int(mjm.wrap_type[k]), int(mjm.wrap_objid[k])
        if wt == mujoco.mjtWrap.mjWRAP_JOINT:
          ts.add(int(self.body_tree[jb[oid]]))
        elif wt == mujoco.mjtWrap.mjWRAP_SITE:
          ts.add(int(self.body_tree[mjm.site_bodyid[oid]]))
        elif wt in (mujoco.mjtWrap.mjWRAP_SPHERE, mujoco.mjtWrap.mjWRAP_CYLINDER):
          ts.add(int(self.body_tree[mjm.geom_bodyid[oid]]))
      ts.discard(-1)
      self.ten_trees.append(sorted(ts))
    # tree pairs of connect/weld/joint equalities; tendon equalities: union of their tendons' trees
    self.eq_trees = []
    for e in range(mjm.neq):
      et, o1, o2 = int(mjm.eq_type[e]), int(mjm.eq_obj1id[e]), int(mjm.eq_obj2id[e])
      if et in (mujoco.mjtEq.mjEQ_CONNECT, mujoco.mjtEq.mjEQ_WELD):
        if int(mjm.eq_objtype[e]) == mujoco.mjtObj.mjOBJ_BODY:
          ts = [int(self.body_tree[o1]), int(self.body_tree[o2])]
        else:
          ts = [int(self.body_tree[mjm.site_bodyid[o1]]), int(self.body_tree[mjm.site_bodyid[o2]])]
        kind = "pair"
      elif et == mujoco.mjtEq.mjEQ_JOINT:
        ts = [int(self.body_tree[jb[o1]]), int(self.body_tree[jb[o2]]) if o2 >= 0 else -1]
        kind = "pair"
      elif et == mujoco.mjtEq.mjEQ_TENDON:
        ts = list(self.ten_trees[o1]) + (list(self.ten_trees[o2]) if o2 >= 0 else [])
        kind = "tendon"
      else:
        ts, kind = [], "other"
      self.eq_trees.append((kind, ts))


def _cycles(a):
  """Partition of the sleeping trees into cycles (None when the entries do not form closed cycles)."""
  n = len(a)
  seen, out = set(), []
  for t in range(n):
    if a[t] < 0 or t in seen:
      continue
    cyc, cur = [], t
    for _ in range(n + 1):
      if cur in cyc:
        break
      cyc.append(cur)
      nxt = int(a[cur])
      if nxt < 0 or nxt >= n:
        return None
      cur = nxt
    if cur != t:
      return None  # ran into a cycle that does not contain t (two predecessors)
    if seen & set(cyc):
      return None
    seen |= set(cyc)
    out.append(tuple(sorted(cyc)))
  return sorted(out)


def _cycle_of(parts, t):
  for c in parts:
    if t in c:
      return c
  return None


# --------------------------------------------------------------------------------------
# the lock-step machine


class Sim:
  def __init__(self, case, rec):
    sc = case["scene"]
    self.rec = rec
    xml, self.info = build_xml(sc)
    self.mjm = mjm = H.compile_xml(xml)
    if mjm.ntree < 2:
      raise Reject("fewer than 2 trees")
    self.m = H.put_model(mjm)
    self.n = n = case["nworld"]
    self.d = H.make_data(mjm, nworld=n, nconmax=NCON, njmax=NJ)
    self.mjds = [mujoco.MjData(mjm) for _ in range(n)]
    self.T = Tables(mjm)
    self.tol = float(mjm.opt.sleep_tolerance)
    self.policy = np.array(mjm.tree_sleep_policy)
    # arms start at their drawn angle (same in every world)
    qpos = self.d.qpos.numpy()
    for k, a in enumerate(sc["arms"]):
      adr = mjm.jnt_qposadr[mujoco.mj_name2id(mjm, mujoco.mjtObj.mjOBJ_JOINT, f"aj{k}")]
      qpos[:, adr] = np.float32(a["q0"])
    self.d.qpos.assign(qpos)
    for w in range(n):
      self.mjds[w].qpos[:] = qpos[w].astype(np.float64)
    self.live = [True] * n  # worlds still compared with MuJoCo
    self._aux = None
    self.sched = case["sched"]
    self.nsteps = 0
    self.nt = False

  def aux_pairs(self, qpos, w):
    """Contact pairs of MJWarp with sleeping disabled on the same positions (fresh Data): separates sleep filtering from ordinary collision differences."""
    if self._aux is None:
      mjm2 = copy.copy(self.mjm)
      mjm2.opt.enableflags &= ~int(mujoco.mjtEnableBit.mjENBL_SLEEP)
      self._aux = (H.put_model(mjm2), H.make_data(mjm2, nworld=1, nconmax=2 * NCON, njmax=NJ))
    m2, d2 = self._aux
    d2.qpos.assign(np.asarray(qpos, dtype=np.float32).reshape(1, -1))
    if self.mjm.nmocap:
      d2.mocap_pos.assign(self.d.mocap_pos.numpy()[w : w + 1])
      d2.mocap_quat.assign(self.d.mocap_quat.numpy()[w : w + 1])
    _apply_sched(0)
    try:
      mjw.kinematics(m2, d2)
      mjw.collision(m2, d2)
    finally:
      _apply_sched(self.sched)
    k = min(int(d2.nacon.numpy()[0]), d2.naconmax)
    self.rec.notes["aux_collision_runs"] += 1
    return {(int(g[0]), int(g[1])) for g in d2.contact.geom.numpy()[:k]}

  # ---- ops -------------------------------------------------------------------------
  def worlds(self, op):
    return range(self.n) if op["w"] < 0 else [op["w"] % self.n]

  def apply(self, op):
    mjm, d = self.mjm, self.d
    k = op["op"]
    ws = list(self.worlds(op))
    if k == "xfrc":
      b = 1 + op["i"] % (mjm.nbody - 1)
      cur = d.xfrc_applied.numpy()
      for w in ws:
        cur[w, b, op["k"]] = np.float32(op["v"])
        self.mjds[w].xfrc_applied[b, op["k"]] = float(np.float32(op["v"]))
      d.xfrc_applied.assign(cur)
    elif k == "qfrc":
      i = op["i"] % mjm.nv
      cur = d.qfrc_applied.numpy()
      for w in ws:
        cur[w, i] = np.float32(op["v"])
        self.mjds[w].qfrc_applied[i] = float(np.float32(op["v"]))
      d.qfrc_applied.assign(cur)
    elif k == "qvel":
      i = op["i"] % mjm.nv
      cur = d.qvel.numpy()
      for w in ws:
        cur[w, i] = np.float32(op["v"])
        self.mjds[w].qvel[i] = float(np.float32(op["v"]))
      d.qvel.assign(cur)
    elif k == "clear":
      cx, cq = d.xfrc_applied.numpy(), d.qfrc_applied.numpy()
      for w in ws:
        cx[w] = 0
        cq[w] = 0
        self.mjds[w].xfrc_applied[:] = 0
        self.mjds[w].qfrc_applied[:] = 0
      d.xfrc_applied.assign(cx)
      d.qfrc_applied.assign(cq)
    elif k == "mocap":
      if mjm.nmocap:
        p = op["p"] % len(self.info["pile_x"])
        pos = np.array([self.info["pile_x"][p] + op["dx"], 0.0, op["z"]], dtype=np.float32)
        cur = d.mocap_pos.numpy()
        for w in ws:
          cur[w, 0] = pos
          self.mjds[w].mocap_pos[0] = pos.astype(np.float64)
        d.mocap_pos.assign(cur)
    elif k == "eq":
      if mjm.neq:
        i = op["i"] % mjm.neq
        cur = d.eq_active.numpy()
        for w in ws:
          cur[w, i] = bool(op["on"])
          self.mjds[w].eq_active[i] = int(bool(op["on"]))
        d.eq_active.assign(cur)
    elif k == "drop":
      fr = self.info["free"]
      f = fr[op["i"] % len(fr)]
      p = op["p"] % len(self.info["pile_x"])
      j = mujoco.mj_name2id(mjm, mujoco.mjtObj.mjOBJ_JOINT, "f" + f["name"][1:])
      qa, da = int(mjm.jnt_qposadr[j]), int(mjm.jnt_dofadr[j])
      pos = np.array([self.info["pile_x"][p] + op["dx"], 0.0, self.info["pile_top"][p] + f["h"] + op["h"], 1, 0, 0, 0], dtype=np.float32)
      vel = np.array([0, 0, op["v"], 0, 0, 0], dtype=np.float32)
      cq, cv = d.qpos.numpy(), d.qvel.numpy()
      for w in ws:
        cq[w, qa : qa + 7] = pos
        cv[w, da : da + 6] = vel
        self.mjds[w].qpos[qa : qa + 7] = pos.astype(np.float64)
        self.mjds[w].qvel[da : da + 6] = vel.astype(np.float64)
      d.qpos.assign(cq)
      d.qvel.assign(cv)
    elif k == "shove":
      fr = self.info["free"]
      f = fr[op["i"] % len(fr)]
      j = mujoco.mj_name2id(mjm, mujoco.mjtObj.mjOBJ_JOINT, "f" + f["name"][1:])
      da = int(mjm.jnt_dofadr[j])
      cv = d.qvel.numpy()
      for w in ws:
        cv[w, da] = np.float32(op["v"])
        self.mjds[w].qvel[da] = float(np.float32(op["v"]))
      d.qvel.assign(cv)
    elif k == "ctrl":
      if mjm.nu:
        i = op["i"] % mjm.nu
        cur = d.ctrl.numpy()
        for w in ws:
          cur[w, i] = np.float32(op["v"])
          self.mjds[w].ctrl[i] = float(np.float32(op["v"]))
        d.ctrl.assign(cur)
    self.rec.cls(f"op:{k}")

  # ---- one step ----------------------------------------------------------------------
  def speeds(self, qvel):
    """Per tree max_d |dof_length * qvel| (float64)."""
    s = np.zeros(self.T.ntree)
    np.maximum.at(s, self.T.dof_tree, np.abs(self.T.dof_len * qvel))
    return s

  def forced(self, xfrc, qfrc):
    f = np.zeros(self.T.ntree, dtype=bool)
    bx = np.any(xfrc != 0, axis=1)
    for b in np.nonzero(bx)[0]:
      if self.T.body_tree[b] >= 0:
        f[self.T.body_tree[b]] = True
    for i in np.nonzero(qfrc != 0)[0]:
      f[self.T.dof_tree[i]] = True
    return f

  def quiet(self, speed, force):
    """(quiet, tie) per tree for MuJoCo's rule: policy allows sleeping, no applied force, every scaled dof speed below the tolerance."""
    ok = (self.policy != int(mujoco.mjtSleepPolicy.mjSLEEP_AUTO_NEVER)) & ~force
    return ok & (speed < self.tol), ok & (np.abs(speed - self.tol) <= BAND * self.tol)

  def predict(self, a0, wp1, state, quiet, isl):
    """MuJoCo's mj_sleep rule applied to the counters after waking.

    wp1[t]: counter of an awake tree after one quiet evaluation; state[t]: 'A' awake after the wake phase, 'S' still asleep, 'U' unknown.
    Returns (values, unknown mask): sleeping trees carry cycle successors (islands in ascending tree order, as both engines build them).
    """
    nt_ = len(a0)
    val = np.zeros(nt_, dtype=int)
    unk = np.zeros(nt_, dtype=bool)
    for t in range(nt_):
      if state[t] == "S":
        val[t] = a0[t]
      elif state[t] == "U":
        unk[t] = True
      else:
        val[t] = wp1[t] if quiet[t] else KAWAKE
    for i in sorted(set(int(x) for x in isl if x >= 0)):
      mem = [int(u) for u in np.nonzero(isl == i)[0]]
      if any(unk[u] for u in mem):
        for u in mem:
          unk[u] = True
      elif all(state[u] == "A" and val[u] == -1 for u in mem):
        for k, u in enumerate(mem):
          val[u] = mem[(k + 1) % len(mem)]
    for t in range(nt_):
      if isl[t] < 0 and state[t] == "A" and not unk[t] and val[t] == -1:
        val[t] = t
    return val, unk

  @staticmethod
  def same(x, xparts, y, yparts, G):
    for t in G:
      if (x[t] >= 0) != (y[t] >= 0):
        return False
      if x[t] < 0 and x[t] != y[t]:
        return False
      if x[t] >= 0 and _cycle_of(xparts, t) != _cycle_of(yparts, t):
        return False
    return True

  def step(self):
    rec, d, mjm, T = self.rec, self.d, self.mjm, self.T
    n, nt_ = self.n, T.ntree
    A0 = d.tree_asleep.numpy().copy()
    q0, v0 = d.qpos.numpy().copy(), d.qvel.numpy().copy()
    xf, qf = d.xfrc_applied.numpy(), d.qfrc_applied.numpy()
    eqa = d.eq_active.numpy().copy() if mjm.neq else None
    mjA0 = [np.array(md.tree_asleep) for md in self.mjds]
    for w in range(n):
      if self.live[w] and not np.array_equal(mjA0[w], A0[w]):
        raise RuntimeError(f"harness: engines not synchronised at the start of a step: {A0[w].tolist()} vs {mjA0[w].tolist()}")

    mjw.step(self.m, d)
    bad_mj = [False] * n
    for w in range(n):
      if self.live[w]:
        try:
          mujoco.mj_step(mjm, self.mjds[w])
        except mujoco.FatalError as e:
          bad_mj[w] = True
          if DEBUG:
            print("FATAL", e)
    self.nsteps += 1

    ov = d.overflow.numpy()
    if (ov & _CAP).any():
      rec.inconclusive += 1
      rec.cls("discarded:overflow")
      return False
    A1 = d.tree_asleep.numpy().copy()
    q1, v1 = d.qpos.numpy().copy(), d.qvel.numpy().copy()
    if not (np.all(np.isfinite(q1)) and np.all(np.isfinite(v1))):
      rec.inconclusive += 1
      rec.cls("discarded:nonfinite")
      return False
    tawake, bawake = d.tree_awake.numpy(), d.body_awake.numpy()
    tisl = d.tree_island.numpy()
    nacon = min(int(d.nacon.numpy()[0]), d.naconmax)
    cgeom = d.contact.geom.numpy()[:nacon]
    cwid = d.contact.worldid.numpy()[:nacon]
    cdist = d.contact.dist.numpy()[:nacon]
    tlen = d.ten_length.numpy() if mjm.ntendon else None
    dtime = d.time.numpy()
    act1 = d.act.numpy() if mjm.na else None
    new_asleep, new_q, new_v = A1.copy(), q1.copy(), v1.copy()
    dirty = False

    for w in range(n):
      rec.ev()
      ctx = dict(step=self.nsteps, world=w)
      a0, a1 = A0[w], A1[w]
      asleep0, asleep1 = a0 >= 0, a1 >= 0
      s_pre, s_post = self.speeds(v0[w].astype(np.float64)), self.speeds(v1[w].astype(np.float64))
      force = self.forced(xf[w], qf[w])
      moving0 = s_pre > 0  # non-zero velocity at the start of the step
      awake_start = (~asleep0) | force | moving0

      # ---- I4: structure
      parts1 = _cycles(a1)
      if parts1 is None:
        rec.violation(f"tree_asleep is not a set of closed cycles: {a1.tolist()} (before the step {a0.tolist()})", sig="inv:cycle-structure", **ctx)
        return False
      if not np.array_equal(tawake[w], (a1 < 0).astype(tawake.dtype)):
        rec.violation(f"tree_awake {tawake[w].tolist()} disagrees with tree_asleep {a1.tolist()}", sig="inv:tree_awake", **ctx)
      for b in range(mjm.nbody):
        t = T.body_tree[b]
        if t >= 0 and int(bawake[w, b]) != (int(mujoco.mjtSleepState.mjS_AWAKE) if a1[t] < 0 else int(mujoco.mjtSleepState.mjS_ASLEEP)):
          rec.violation(f"body_awake[{b}]={int(bawake[w, b])} disagrees with tree_asleep[{t}]={int(a1[t])}", sig="inv:body_awake", **ctx)
      parts0 = _cycles(a0) or []

      # ---- wake causes computed from MJWarp's own data
      cause = np.zeros(nt_, dtype=bool)  # tree has a wake cause this step (partner awake at the start of the step)
      must = []  # (tree that must not stay asleep, partner that is awake, kind)
      mocap_touch = set()  # trees in contact with a mocap body
      tendon_caused = set()  # sleeping trees linked to an awake tree by a tendon whose limit is active
      eq_asleep_pair = set()  # trees asleep in different cycles that an active equality links (both engines wake them)
      for c in np.nonzero(cwid == w)[0]:
        g1, g2 = int(cgeom[c][0]), int(cgeom[c][1])
        if g1 < 0 or g2 < 0:
          continue
        t1, t2 = int(T.geom_tree[g1]), int(T.geom_tree[g2])
        if t1 >= 0 and t2 < 0 and T.geom_mocap[g2]:
          mocap_touch.add(t1)
        if t2 >= 0 and t1 < 0 and T.geom_mocap[g1]:
          mocap_touch.add(t2)
        if t1 < 0 or t2 < 0 or t1 == t2:
          continue
        for x, y in ((t1, t2), (t2, t1)):
          if awake_start[x] and asleep0[y]:
            cause[y] = True
            if abs(float(cdist[c])) > 1e-6:
              must.append((y, x, "contact"))
      for e in range(mjm.neq):
        if not eqa[w, e]:
          continue
        kind, ts = T.eq_trees[e]
        if kind == "pair":
          x, y = ts
          if x >= 0 and y >= 0 and x != y:
            for p_, q_ in ((x, y), (y, x)):
              if awake_start[p_] and asleep0[q_]:
                cause[q_] = True
                must.append((q_, p_, "equality"))
            if asleep0[x] and asleep0[y] and _cycle_of(parts0, x) != _cycle_of(parts0, y):
              eq_asleep_pair |= {x, y}
        elif kind == "tendon":
          if any(awake_start[t] for t in ts):
            for t in ts:
              if asleep0[t]:
                cause[t] = True
      for t_ in range(mjm.ntendon):
        if not mjm.tendon_limited[t_]:
          continue
        L = float(tlen[w, t_])
        r0, r1 = float(mjm.tendon_range[t_, 0]), float(mjm.tendon_range[t_, 1])
        mg = float(mjm.tendon_margin[t_])
        dmin = min(L - r0, r1 - L)
        ts = T.ten_trees[t_]
        aw = [t for t in ts if awake_start[t]]
        if aw and dmin < mg + 1e-5:
          for t in ts:
            if asleep0[t]:
              cause[t] = True
              tendon_caused.add(t)
              if dmin < mg - 1e-5:
                must.append((t, aw[0], "tendon"))

      # ---- I3: wake causes
      for t in range(nt_):
        if asleep0[t] and (force[t] or moving0[t]) and asleep1[t]:
          rec.violation(
            f"tree {t} asleep with {'applied force' if force[t] else 'non-zero velocity'} is still asleep after step() (tree_asleep {a0.tolist()} -> {a1.tolist()})",
            sig="inv:wake:" + ("force" if force[t] else "qvel"), tree=t, **ctx)
        if (not asleep0[t]) and force[t] and asleep1[t]:
          rec.violation(f"tree {t} fell asleep while carrying applied force (tree_asleep {a0.tolist()} -> {a1.tolist()})", sig="inv:sleep:forced", tree=t, **ctx)
      for y, x, kind in must:
        if asleep1[y] and not asleep1[x] and not (force[y] or moving0[y]):
          rec.violation(
            f"tree {y} stayed asleep although awake tree {x} is linked to it by {kind} (tree_asleep {a0.tolist()} -> {a1.tolist()})", sig=f"inv:wake:{kind}", tree=y, partner=x, **ctx)

      # ---- I1: sleeping trees are frozen
      for t in range(nt_):
        if asleep0[t] and asleep1[t] and not cause[t] and not force[t] and not moving0[t] and _cycle_of(parts0, t) == _cycle_of(parts1, t):
          mq, mv = T.qpos_tree == t, T.dof_tree == t
          if not (np.array_equal(q0[w][mq], q1[w][mq]) and np.array_equal(v0[w][mv], v1[w][mv])):
            dq = float(np.max(np.abs(q0[w][mq].astype(np.float64) - q1[w][mq])))
            dv_ = float(np.max(np.abs(v0[w][mv].astype(np.float64) - v1[w][mv])))
            rec.violation(f"sleeping tree {t} changed across step(): max|dqpos|={dq:.3g} max|dqvel|={dv_:.3g}", sig="inv:frozen", tree=t, **ctx)
          rec.notes["frozen_tree_steps"] += 1

      # ---- classification (NT)
      newly = [t for t in range(nt_) if not asleep0[t] and asleep1[t]]
      if newly and (~asleep1).any():
        self.nt = True
        rec.cls("nt:partial-sleep")
      for t in range(nt_):
        if asleep0[t] and not asleep1[t]:
          if force[t] or moving0[t]:
            rec.cls("wake:poke")
          else:
            mates = set(_cycle_of(parts0, t) or ()) - {t}
            via_cycle = any(force[u] or moving0[u] or cause[u] or u in mocap_touch or u in eq_asleep_pair for u in mates)
            kinds = sorted({k for y, x, k in must if y == t}) or (
              ["cause-near-boundary"] if cause[t] else ["mocap-contact"] if t in mocap_touch else ["equality-between-sleeping-cycles"] if t in eq_asleep_pair else ["cycle-mate"] if via_cycle else ["other"]
            )
            rec.cls(*[f"wake:{k}" for k in kinds])
            if any(k in ("contact", "equality", "tendon", "mocap-contact") for k in kinds):
              self.nt = True

      # ---- reference model of mj_sleep on the counters (I2) and lock-step with MuJoCo C (D)
      md = self.mjds[w]
      live = self.live[w]
      if live and (bad_mj[w] or not (np.all(np.isfinite(md.qpos)) and np.all(np.isfinite(md.qvel))) or any(md.warning[i].number for i in _MJ_BAD)):
        if DEBUG:
          print("MUJOCO-ERROR", ctx, bad_mj[w], [int(md.warning[i].number) for i in range(len(md.warning))], float(np.abs(v1[w]).max()))
        self.live[w] = live = False
        rec.inconclusive += 1
        rec.cls("discarded:mujoco-error")
      qpre, tie_pre = self.quiet(s_pre, force)
      qpost, tie_post = self.quiet(s_post, force)
      tie_t = tie_pre | tie_post
      b1 = np.array(md.tree_asleep) if live else None
      mparts = _cycles(b1) if live else None
      misl = np.array(md.tree_island) if live else None
      if live:
        misl = np.where((misl >= 0) & (misl < int(md.nisland)), misl, -1)  # entries are not written when there is no island
      if live and mparts is None:
        raise RuntimeError(f"harness: MuJoCo tree_asleep is not a set of cycles: {b1.tolist()}")
      # counters after the wake phase
      wp1 = np.minimum(a0 + 1, -1)
      state = ["A"] * nt_
      for t in range(nt_):
        if not asleep0[t]:
          continue
        if live:
          if b1[t] >= 0:
            if _cycle_of(mparts, t) == _cycle_of(parts0, t):
              state[t] = "S"
            else:
              wp1[t] = -1  # woken with a neighbour's last countdown value and put to sleep again with it
          else:
            wp1[t] = -MINAWAKE if b1[t] == KAWAKE else b1[t]
        else:
          state[t] = "S" if (asleep1[t] and _cycle_of(parts1, t) == _cycle_of(parts0, t)) else "U"
      p_post, u_post = self.predict(a0, wp1, state, qpost, tisl[w])
      p_pre, u_pre = self.predict(a0, wp1, state, qpre, tisl[w])
      pparts_post, pparts_pre = _cycles(np.where(u_post, -1, p_post)), _cycles(np.where(u_pre, -1, p_pre))
      # groups of trees that share an island or a cycle in any of the views
      parent = list(range(nt_))

      def find(x):
        while parent[x] != x:
          parent[x] = parent[parent[x]]
          x = parent[x]
        return x

      def union(group):
        group = list(group)
        for u in group[1:]:
          parent[find(u)] = find(group[0])

      for lab in (tisl[w],) + ((misl,) if live else ()):
        for i in set(int(x) for x in lab if x >= 0):
          union(int(u) for u in np.nonzero(lab == i)[0])
      for parts in (parts0, parts1, mparts or [], pparts_post or [], pparts_pre or []):
        for cyc in parts:
          union(cyc)
      groups = {}
      for t in range(nt_):
        groups.setdefault(find(t), []).append(t)

      btrees = set()
      if live:
        dvv = np.abs(self.speeds(np.array(md.qvel)) - s_post)
        rec.err("post-step scaled speed MJWarp vs MuJoCo", float(dvv.max()))
        mc = md.contact
        mpairs, wpairs = {}, {}
        for i in range(md.ncon):
          mpairs.setdefault((int(mc.geom[i][0]), int(mc.geom[i][1])), []).append(float(mc.dist[i]))
        for c in np.nonzero(cwid == w)[0]:
          wpairs.setdefault((int(cgeom[c][0]), int(cgeom[c][1])), []).append(float(cdist[c]))
        # tendon limits within 1e-5 of their margin: discontinuity of the waking rule
        for t_ in range(mjm.ntendon):
          if mjm.tendon_limited[t_]:
            for L in (float(tlen[w, t_]), float(md.ten_length[t_])):
              dmin = min(L - float(mjm.tendon_range[t_, 0]), float(mjm.tendon_range[t_, 1]) - L)
              if abs(dmin - float(mjm.tendon_margin[t_])) < 1e-5:
                btrees |= set(T.ten_trees[t_])
        # contact pairs (involving a body that is not asleep throughout the step in both engines) must be the same set
        kept_asleep = asleep0 & (a1 >= 0) & (b1 >= 0)
        wake_differs = {t for t in range(nt_) if asleep0[t] and (a1[t] >= 0) != (b1[t] >= 0)}

        def inert(g):  # geom of a body that takes no part in collisions of sleeping bodies
          t = int(T.geom_tree[g])
          return (t < 0 and not T.geom_mocap[g]) or (t >= 0 and kept_asleep[t])

        def filtered(k, x1):  # pair that an engine with end-of-step state x1 skips: every body static or asleep throughout
          for g in k:
            t = int(T.geom_tree[g])
            if (t < 0 and T.geom_mocap[g]) or (t >= 0 and not (asleep0[t] and x1[t] >= 0)):
              return False
          return True

        far = []
        for k in sorted(set(mpairs) ^ set(wpairs)):
          if inert(k[0]) and inert(k[1]):
            continue
          if filtered(k, a1 if k in mpairs else b1):
            continue  # absent because the engine that lacks it kept these trees asleep: a waking difference, judged below
          trees_k = {int(T.geom_tree[k[0]]), int(T.geom_tree[k[1]])} - {-1}
          if min(abs(x) for x in (mpairs.get(k) or wpairs.get(k))) < 1e-5:
            btrees |= trees_k
          else:
            far.append((k, trees_k))
        if far:
          aux = self.aux_pairs(q0[w], w)
          for k, trees_k in far:
            in_mj, in_aux = k in mpairs, k in aux
            if in_mj != in_aux:
              # MJWarp without sleeping (same state) agrees with the sleep-enabled run: an ordinary collision difference with MuJoCo (C04's business), or the
              # one-integration-step position offset of a sleeping tree; the affected islands are not judged at this step
              btrees |= trees_k
              rec.cls("collision-differs-from-mujoco")
              if DEBUG:
                print("COLLDIFF", ctx, k, "types", [int(mjm.geom_type[g]) for g in k], "in_mj", in_mj, "dist", min(mpairs.get(k) or wpairs.get(k)), "asleep0", [bool(asleep0[t]) for t in trees_k], "a1", a1.tolist(), "b1", b1.tolist())
            elif trees_k & wake_differs:
              pass  # consequence of a waking difference that is judged below
            elif in_mj:
              rec.violation(
                f"contact {k} (dist {min(mpairs[k]):.4g}) is reported by MuJoCo and by MJWarp without sleeping, but not by the sleep-enabled MJWarp step; tree_asleep {a0.tolist()} -> {a1.tolist()}",
                sig="lockstep:contacts:missing", pair=list(k), **ctx)
            else:
              rec.violation(
                f"contact {k} (dist {min(wpairs[k]):.4g}) is reported only by the sleep-enabled MJWarp step (not by MuJoCo, not by MJWarp without sleeping); tree_asleep {a0.tolist()} -> {a1.tolist()}",
                sig="lockstep:contacts:extra", pair=list(k), **ctx)

      differs = False
      for G in groups.values():
        tieG = bool(any(tie_t[u] for u in G))
        if not live:
          if tieG or any(u_post[u] or u_pre[u] for u in G):
            rec.notes["model_groups_unjudged"] += 1
            continue
          if not (self.same(a1, parts1, p_post, pparts_post, G) or self.same(a1, parts1, p_pre, pparts_pre, G)):
            rec.violation(
              f"trees {G}: tree_asleep {a0[G].tolist()} -> {a1[G].tolist()} but the countdown rule gives {p_post[G].tolist()} (post-step speeds) or {p_pre[G].tolist()} (pre-step speeds); "
              f"quiet pre {qpre[G].tolist()} post {qpost[G].tolist()} island {tisl[w][G].tolist()}", sig="inv:sleep-model", trees=G, **ctx)
          continue
        if self.same(a1, parts1, b1, mparts, G):
          rec.notes["lockstep_groups_agreed"] += 1
          continue
        differs = True
        if tieG or btrees & set(G):
          rec.boundary_skipped += 1
          rec.cls("boundary:" + ("tie" if tieG else "contact-or-tendon"))
          if DEBUG:
            print("BOUNDARY", ctx, "G", G, "a0", a0.tolist(), "a1", a1.tolist(), "b1", b1.tolist(), "btrees", btrees, "speeds pre", s_pre[G].tolist(), "post", s_post[G].tolist(), "tol", self.tol)
          continue
        flip = bool(any(qpre[u] != qpost[u] for u in G))
        info = (
          f"trees {G}: tree_asleep before {a0[G].tolist()} after MJWarp {a1[G].tolist()} MuJoCo {b1[G].tolist()}; mj_sleep rule on post-step speeds gives {p_post[G].tolist()}; "
          f"quiet pre {qpre[G].tolist()} post {qpost[G].tolist()}; islands MJWarp {tisl[w][G].tolist()} MuJoCo {misl[G].tolist()}; whole world {a0.tolist()} -> {a1.tolist()} vs {b1.tolist()}; "
          f"contacts only in MuJoCo {[(k, round(min(mpairs[k]), 6)) for k in sorted(set(mpairs) - set(wpairs))]} only in MJWarp {[(k, round(min(wpairs[k]), 6)) for k in sorted(set(wpairs) - set(mpairs))]}"
        )
        if flip and not any(u_post[u] for u in G) and self.same(a1, parts1, p_post, pparts_post, G):
          # exactly what evaluating mj_sleep after the integrator (on the post-step velocity) explains
          rec.cls("known:sleep-after-integrator")
          rec.violation("sleep evaluated on the post-step velocity: " + info, sig="lockstep:sleep-after-integrator", trees=G, **ctx)
          continue
        wake_t = [t for t in G if asleep0[t] and (a1[t] >= 0) != (b1[t] >= 0)]
        sleep_t = [t for t in G if not asleep0[t] and (a1[t] >= 0) != (b1[t] >= 0)]
        mocap_t = [t for t in wake_t if a1[t] >= 0 and b1[t] < 0 and t in mocap_touch]
        if mocap_t:
          t = mocap_t[0]
          rec.violation(f"tree {t} was asleep, is touched by a mocap body and stays asleep in MJWarp but wakes in MuJoCo; " + info, sig="lockstep:wake:mocap-contact", tree=t, **ctx)
        elif wake_t:
          t = wake_t[0]
          rec.violation(f"tree {t} was asleep and is {'awake' if a1[t] < 0 else 'asleep'} in MJWarp but {'awake' if b1[t] < 0 else 'asleep'} in MuJoCo; " + info, sig="lockstep:pattern:wake", tree=t, **ctx)
        elif sleep_t:
          t = sleep_t[0]
          rec.violation(f"tree {t} was awake and is {'awake' if a1[t] < 0 else 'asleep'} in MJWarp but {'awake' if b1[t] < 0 else 'asleep'} in MuJoCo; " + info, sig="lockstep:pattern:sleep", tree=t, **ctx)
        elif any(a1[t] < 0 and a1[t] != b1[t] for t in G):
          tw = [t for t in G if asleep0[t] and a1[t] < 0 and a1[t] != b1[t] and t in tendon_caused]
          if tw:
            rec.violation(f"tree {tw[0]} was woken through an active tendon limit with countdown {int(a1[tw[0]])} in MJWarp, {int(b1[tw[0]])} in MuJoCo; " + info, sig="lockstep:countdown:tendon-wake", tree=tw[0], **ctx)
          else:
            rec.violation("countdown values differ; " + info, sig="lockstep:countdown", **ctx)
        else:
          rec.violation("sleep cycles differ; " + info, sig="lockstep:cycles", **ctx)
      if not live:
        continue
      if not differs:
        if not np.array_equal(tawake[w], np.array(md.tree_awake)):
          rec.violation(f"tree_awake MJWarp {tawake[w].tolist()} MuJoCo {np.array(md.tree_awake).tolist()}", sig="lockstep:tree_awake", **ctx)
        if not np.array_equal(bawake[w], np.array(md.body_awake)):
          rec.violation(f"body_awake MJWarp {bawake[w].tolist()} MuJoCo {np.array(md.body_awake).tolist()}", sig="lockstep:body_awake", **ctx)
        rec.notes["lockstep_steps_agreed"] += 1
      else:
        rec.notes["lockstep_steps_resynchronised"] += 1

      # ---- resynchronise: tree_asleep from MuJoCo (the lead cannot accumulate); state of trees whose pattern differed from MuJoCo, of the others from MJWarp
      mq64, mv64 = np.array(md.qpos), np.array(md.qvel)
      for t in range(nt_):
        mq, mv = T.qpos_tree == t, T.dof_tree == t
        if (a1[t] >= 0) != (b1[t] >= 0):
          new_q[w][mq] = mq64[mq].astype(np.float32)
          new_v[w][mv] = mv64[mv].astype(np.float32)
          dirty = True
          if b1[t] < 0:
            md.qpos[mq] = new_q[w][mq].astype(np.float64)
            md.qvel[mv] = new_v[w][mv].astype(np.float64)
        elif b1[t] < 0:
          md.qpos[mq] = q1[w][mq].astype(np.float64)
          md.qvel[mv] = v1[w][mv].astype(np.float64)
        elif not asleep0[t] and not np.array_equal(new_q[w][mq], mq64[mq].astype(np.float32)):
          # fell asleep in both engines at this step: MJWarp integrated the tree once more before putting it to sleep (the listed ordering finding), MuJoCo did not;
          # take MuJoCo's position so that the offset cannot turn into contact / tendon-limit differences later
          new_q[w][mq] = mq64[mq].astype(np.float32)
          rec.notes["fell_asleep_position_offset_resynchronised"] += 1
          dirty = True
      if differs or not np.array_equal(a1, b1):
        new_asleep[w] = b1
        dirty = True
      if mjm.na:
        md.act[:] = act1[w].astype(np.float64)
      md.time = float(dtime[w])

    if dirty:
      d.tree_asleep.assign(new_asleep)
      d.qpos.assign(new_q)
      d.qvel.assign(new_v)
      mjw_sleep.update_sleep(self.m, d)
    return True

  def resync_warmstart(self):
    ws = self.d.qacc_warmstart.numpy()
    A1 = self.d.tree_asleep.numpy()
    for w in range(self.n):
      if self.live[w]:
        mv = (A1[w] < 0)[self.T.dof_tree]
        self.mjds[w].qacc_warmstart[mv] = ws[w][mv].astype(np.float64)


def _apply_sched(s):
  if s >= 1000:
    sched.per_launch(s)
  elif s > 0:
    sched.per_launch(None)
    sched.set_mode(s)
  else:
    sched.per_launch(None)
    sched.set_mode(0)


def check(case, rec):
  _apply_sched(0)
  sim = Sim(case, rec)
  cap = MAXSTEPS.get(case.get("tier", "quick"), 200)
  ops = [dict(op="step", n=case["first"])] + list(case["ops"])
  if ops[-1]["op"] != "step":
    ops.append(dict(op="step", n=12))
  try:
    _apply_sched(case["sched"])
    ok = True
    for op in ops:
      if op["op"] != "step":
        sim.apply(op)
        continue
      for _ in range(op["n"]):
        if sim.nsteps >= cap:
          break
        ok = sim.step()
        if not ok:
          break
        sim.resync_warmstart()
      if not ok or sim.nsteps >= cap:
        break
  finally:
    _apply_sched(0)
  mjm = sim.mjm
  A = sim.d.tree_asleep.numpy()
  rec.cls(
    f"sched:{'mixed' if case['sched'] >= 1000 else case['sched']}",
    f"nworld:{sim.n}",
    f"ntree:{mjm.ntree}",
    f"neq:{min(mjm.neq, 2)}",
    f"ntendon:{min(mjm.ntendon, 2)}",
    f"never:{bool((sim.policy == int(mujoco.mjtSleepPolicy.mjSLEEP_AUTO_NEVER)).any())}",
    f"end:asleep-frac:{round(float((A >= 0).mean()), 1)}",
    f"lockstep-alive-at-end:{all(sim.live)}",
  )
  if sim.nt:
    rec.nt()
