"""C23 Rotations stay valid (invariant over step histories, MuJoCo C only used to discard diverging physics)."""

from __future__ import annotations

import numpy as np
from hypothesis import strategies as st

import mujoco
import mujoco_warp as mjw
from mujoco_warp._src.types import OverflowType as OT

from vf import gen, mjw as H
from vf.core import Reject

RULE = (
  "case = articulated model whose joints are mostly free/ball (roots and inside chains, mixed with hinge/slide), sites, cameras (all tracking modes), optional mocap body, "
  "damping, optional motors, contacts disabled or a plane+pile scene; integrator in {Euler, implicitfast, implicit, RK4}, dt in [1e-4, 5e-2], initial angular speed scale in "
  "{0 (at rest, unforced), 3, 30, 300, 1000} rad/s, initial free/ball/mocap quaternions scaled by 0.1..10 (unnormalised), random qfrc_applied/xfrc_applied/ctrl redrawn every 25 steps, "
  "40-200 steps (thorough 200-800), 1-2 worlds; oracle after EVERY step and after a final forward: each free/ball quaternion of d.qpos has | |q|-1 | <= 1e-5, xquat unit, "
  "xmat/ximat/geom_xmat/site_xmat/cam_xmat satisfy |R^T R - I|_F <= 1e-4 and det > 0; when a contact-free world goes non-finite its last <= 64 steps are re-done in lock-step "
  "with MuJoCo C (mj_step from MJWarp's own state): reported only if a single step in a moderate, well-conditioned regime (|qvel| <= 1e3, |qvel|*dt <= 1, |qpos| <= 20, no MuJoCo warning, perturbation-insensitive) deviates by > 2e-2, "
  "otherwise discarded (counted) as diverging physics; contact worlds that go non-finite are not judged; evaluation = one checked (step, world); non-trivial = some free/ball joint had |omega|*dt > 0.1 at a checked finite step"
)
ASSUMPTIONS = [
  "before the first step unnormalised quaternions are legal input; the norm is demanded after step()",
  "a non-finite MJWarp state counts only when a one-step deviation > 2e-2 from mj_step on the same (moderate) state is demonstrated within the last 64 steps; otherwise it is attributed to diverging physics",
  "tolerances 1e-5 (quaternion norm) and 1e-4 (orthogonality), float32",
]
BUDGET = {"quick": dict(examples=256, seconds=420, workers=16), "thorough": dict(examples=1600, seconds=1500, workers=16)}
_CAP = int(OT.NEFC | OT.NJMAX_NNZ | OT.BROADPHASE | OT.NARROWPHASE | OT.CCD | OT.NVMAX | OT.HFIELD | OT.EPA_HORIZON | OT.CONTACT_MATCH)
_INTEG = ["Euler", "implicitfast", "implicit", "RK4"]


def strategy(tier):
  steps = st.integers(40, 200) if tier == "quick" else st.integers(200, 800)
  return st.fixed_dictionaries(
    dict(
      cfg=gen.cfg_strategy(
        nroot=st.integers(1, 3),
        maxdepth=st.integers(0, 3),
        maxchild=st.integers(1, 2),
        joint_menu=st.sampled_from([["free", "ball"], ["free", "ball", "ball", "hinge", "slide"], ["ball"], ["free"], ["ball", "hinge"]]),
        p_multi_joint=st.sampled_from([0.0, 0.4]),
        sites=1.0,
        cameras=st.integers(0, 3),
        mocap=st.integers(0, 1),
        dynamics=True,
        unnorm=st.booleans(),
        inertial=st.booleans(),
        geom_menu=st.sampled_from([["sphere", "capsule", "box"], ["sphere", "capsule", "box", "ellipsoid", "cylinder"]]),
        actuators=st.integers(0, 2),
        act_menu=["motor", "velocity"],
        contacts=st.sampled_from(["none", "none", "none", "pile"]),
      ),
      integrator=st.sampled_from(_INTEG),
      eulerdamp=st.booleans(),
      dt=st.sampled_from([1e-4, 1e-3, 5e-3, 2e-2, 5e-2]),
      wscale=st.sampled_from([0.0, 3.0, 30.0, 300.0, 1000.0]),  # 0: everything at rest and unforced - free bodies then keep an exactly zero angular velocity
      vscale=st.sampled_from([0.0, 1.0, 10.0]),
      fscale=st.sampled_from([0.0, 1.0, 30.0]),
      qscale=st.sampled_from(["unit", "wide", "wide"]),
      steps=steps,
      nworld=st.integers(1, 2),
      seed=st.integers(0, 10**6),
    )
  )


def _quat_slots(mjm):
  """(qpos address of w, dof address of the angular velocity) for each free/ball joint."""
  out = []
  for j in range(mjm.njnt):
    t = int(mjm.jnt_type[j])
    if t == int(mujoco.mjtJoint.mjJNT_FREE):
      out.append((int(mjm.jnt_qposadr[j]) + 3, int(mjm.jnt_dofadr[j]) + 3))
    elif t == int(mujoco.mjtJoint.mjJNT_BALL):
      out.append((int(mjm.jnt_qposadr[j]), int(mjm.jnt_dofadr[j])))
  return out


def _initial(mjm, case, w, slots):
  g = np.random.default_rng([case["seed"], w, 1])
  s = H.rand_state(mjm, case["seed"] + 17 * w, sigma=0.3, vel=1.0, unnorm=False, applied=False, mocap=True)
  qpos, qvel = np.array(s["qpos"]), (case["vscale"] if case["wscale"] > 0 else 0.0) * np.array(s["qvel"])
  for qa, da in slots:
    wv = g.normal(size=3)
    wv *= case["wscale"] * g.uniform(0.2, 1.0) / max(np.linalg.norm(wv), 1e-9)
    qvel[da : da + 3] = wv
    if case["qscale"] == "wide":
      qpos[qa : qa + 4] *= np.exp(g.uniform(np.log(0.1), np.log(10.0)))
  if case["qscale"] == "wide" and mjm.nmocap:
    s["mocap_quat"] = H.f32(s["mocap_quat"] * np.exp(g.uniform(np.log(0.1), np.log(10.0), size=(mjm.nmocap, 1))))
  s["qpos"], s["qvel"] = H.f32(qpos), H.f32(qvel)
  return s


def _forces(mjm, case, w, k):
  """Inputs applied from step k on (redrawn every 25 steps)."""
  g = np.random.default_rng([case["seed"], w, 2, k // 25])
  f = case["fscale"] if case["wscale"] > 0 else 0.0
  x = f * g.normal(size=(mjm.nbody, 6))
  x[0] = 0
  return dict(qfrc_applied=H.f32(f * g.normal(size=mjm.nv)), xfrc_applied=H.f32(x), ctrl=H.f32(f * g.normal(size=mjm.nu)))


def _rot_err(R):
  """R: (..., 3, 3) -> (max Frobenius |R^T R - I|, min det)."""
  R = np.asarray(R, dtype=np.float64).reshape(-1, 3, 3)
  if R.shape[0] == 0:
    return 0.0, 1.0
  E = np.einsum("nji,njk->nik", R, R) - np.eye(3)
  e = np.sqrt(np.sum(E * E, axis=(1, 2)))
  return e, np.linalg.det(R)


_ROT_FIELDS = ["xmat", "ximat", "geom_xmat", "site_xmat", "cam_xmat"]


def _check_world(rec, mjm, d, snap, w, slots, step, after_step):
  qpos = snap["qpos"][w]
  if after_step:
    for k, (qa, _) in enumerate(slots):
      n = float(np.linalg.norm(qpos[qa : qa + 4].astype(np.float64)))
      rec.err("quat_norm", abs(n - 1.0))
      if not abs(n - 1.0) <= 1e-5:
        rec.violation(f"qpos quaternion at {qa} has norm {n!r} after step {step} (world {w})", sig="qpos-quat-norm", step=step, world=w, qadr=qa, norm=n)
  xq = snap["xquat"][w].astype(np.float64)
  n = np.linalg.norm(xq, axis=1)
  rec.err("xquat_norm", float(np.max(np.abs(n - 1.0))))
  if not np.all(np.abs(n - 1.0) <= 1e-5):
    b = int(np.argmax(np.abs(n - 1.0) if np.all(np.isfinite(n)) else ~np.isfinite(n)))
    rec.violation(f"xquat[{b}] has norm {float(n[b])!r} at step {step} (world {w})", sig="xquat-norm", step=step, world=w, body=b, norm=float(n[b]))
  for f in _ROT_FIELDS:
    R = snap[f][w]
    if R.size == 0:
      continue
    e, det = _rot_err(R)
    rec.err(f, float(np.max(e)))
    bad = ~((e <= 1e-4) & (det > 0))
    if bad.any():
      i = int(np.argmax(bad))
      sig = f"rot:{f}"
      if f == "cam_xmat" and int(mjm.cam_mode[i]) in (3, 4):
        # look-at cameras: is the look direction (as MJWarp's own float32 positions give it) zero or exactly along the world z axis?
        t = int(mjm.cam_targetbodyid[i])
        tgt = snap["xpos"][w][t] if int(mjm.cam_mode[i]) == 3 else snap["subtree_com"][w][t]
        dirv = (snap["cam_xpos"][w][i] - tgt).astype(np.float64)
        tot = float(np.linalg.norm(dirv))
        if tot == 0.0 or float(np.hypot(dirv[0], dirv[1])) <= 1e-6 * tot:
          sig = "rot:cam_xmat:lookat-degenerate"
      rec.violation(
        f"{f}[{i}] is not a proper rotation at step {step} (world {w}): |RtR-I|={e[i]:.3g} det={det[i]:.6g} R={np.asarray(R).reshape(-1, 9)[i].tolist()}",
        sig=sig,
        step=step,
        world=w,
        index=i,
        orth_err=float(e[i]),
        det=float(det[i]),
      )


def _moderate(qpos, qvel, dt):
  v = float(np.max(np.abs(qvel), initial=0.0))
  return bool(np.all(np.isfinite(qvel)) and np.all(np.isfinite(qpos)) and v <= 1e3 and v * dt <= 1.0 and float(np.max(np.abs(qpos), initial=0.0)) <= 20.0)


def _lockstep_deviation(mjm, case, w, hist):
  """hist: MJWarp's own consecutive states [(step, qpos, qvel, act, time), ...] before it went non-finite.  Re-does every buffered step with MuJoCo C
  from MJWarp's state (lock-step) and returns (worst relative one-step qvel deviation over the steps in a moderate regime, step index), where
  moderate = MuJoCo raises no warning, |qvel| <= 1e3, |qvel|*dt <= 1 and |qpos| <= 20 before and after the step, and the step is well conditioned
  (a 1e-6 relative perturbation of the start state changes MuJoCo's result by < 1e-3).  Outside that regime float32 round-off of a stiff solve or
  chaotic amplification is not distinguishable from a defect, so those steps are not judged."""
  mjd = mujoco.MjData(mjm)
  mocap = {k: v for k, v in _initial(mjm, case, w, _quat_slots(mjm)).items() if k.startswith("mocap")} if mjm.nmocap else {}
  g = np.random.default_rng([case["seed"], w, 3])
  dt = case["dt"]

  def mj_next(j, qpos, qvel, act, time):
    mujoco.mj_resetData(mjm, mjd)
    H.set_mjd(mjd, dict(_forces(mjm, case, w, j), qpos=qpos, qvel=qvel, act=act, time=time, **mocap))
    try:
      mujoco.mj_step(mjm, mjd)
    except mujoco.FatalError:
      return None
    if int(np.sum(mjd.warning.number)) > 0 or not _moderate(mjd.qpos, mjd.qvel, dt):
      return None
    return np.array(mjd.qvel)

  worst, at = 0.0, -1
  for (j, qpos, qvel, act, time), (_, qpos1, qvel1, _, _) in zip(hist[:-1], hist[1:]):
    if not (_moderate(qpos, qvel, dt) and _moderate(qpos1, qvel1, dt)):
      continue
    ref = mj_next(j, qpos, qvel, act, time)
    if ref is None:
      continue
    pert = mj_next(j, np.asarray(qpos) * (1 + 1e-6 * g.normal(size=mjm.nq)), np.asarray(qvel) * (1 + 1e-6 * g.normal(size=mjm.nv)), act, time)
    scale = max(1.0, float(np.max(np.abs(qvel))), float(np.max(np.abs(ref))))
    if pert is None or float(np.max(np.abs(pert - ref))) > 1e-3 * scale:
      continue
    e = float(np.max(np.abs(np.asarray(qvel1, dtype=np.float64) - ref), initial=0.0)) / scale
    if e > worst:
      worst, at = e, j
  return worst, at


_PROBE_XML = """<mujoco><option integrator="{integrator}" timestep="{dt}"><flag contact="disable"/></option><worldbody>
<camera name="c" pos="0 0 2" mode="{mode}" target="b"/>
<body name="b" pos="0 0 0.5"><joint type="ball" damping="0.01"/><inertial pos="0 0 0" mass="1" diaginertia="0.01 0.02 0.03"/><geom size="0.1" pos="0 0 0"/>
<site name="s" pos="0.1 0 0"/><body name="b2" pos="0.2 0 0"><joint type="ball"/><geom size="0.05 0.1" type="capsule"/></body></body></worldbody></mujoco>"""


def enumerate_cases(tier, seed):
  """Deterministic probes: a fixed camera straight above its target body (look-at direction exactly along the world z axis)."""
  out = []
  for i, (mode, integ) in enumerate([("targetbody", "Euler"), ("targetbodycom", "implicitfast")]):
    out.append(dict(xml=_PROBE_XML.format(integrator=integ, dt=0.002, mode=mode), integrator=integ, eulerdamp=True, dt=0.002, wscale=30.0, vscale=0.0, fscale=0.0,
                    qscale="wide", steps=20, nworld=1, seed=int(seed) * 10 + i))
  return out


def _build(case):
  if "xml" in case:
    return H.compile_xml(case["xml"]), False
  cfg = dict(case["cfg"])
  contacts = cfg["contacts"] == "pile"
  cfg["plane"] = contacts
  opt = dict(integrator=case["integrator"], timestep=case["dt"])
  flags = {}
  if not contacts:
    flags["contact"] = "disable"
  if not case["eulerdamp"]:
    flags["eulerdamp"] = "disable"
  if flags:
    opt["flags"] = flags
  cfg["option"] = opt
  return H.compile_spec(gen.make_spec(cfg)), contacts


def check(case, rec):
  mjm, contacts = _build(case)
  if contacts:
    # contact scenes: keep the energy moderate (deep fast impacts make the trajectory a matter of contact detection and solver convergence)
    case = dict(case, wscale=min(case["wscale"], 30.0), dt=min(case["dt"], 5e-3), fscale=min(case["fscale"], 1.0))
    mjm = mjm.__copy__()
    mjm.opt.timestep = case["dt"]
  slots = _quat_slots(mjm)
  if mjm.nv == 0 or not slots:
    raise Reject("no free/ball joint")
  if case["wscale"] == 0 and case["seed"] % 2 == 0:
    # at rest and weightless: nothing ever produces an angular velocity, so every step integrates the quaternions with omega == 0 exactly
    mjm = mjm.__copy__()
    mjm.opt.gravity[:] = 0.0
    rec.cls("at-rest:weightless")
  n = case["nworld"]
  m = H.put_model(mjm)
  d = H.make_data(mjm, nworld=n, nconmax=120, njmax=400)
  init = [_initial(mjm, case, w, slots) for w in range(n)]
  H.set_data(d, init)
  dt = case["dt"]
  names = ["qpos", "qvel", "act", "time", "xquat", "cam_xpos", "xpos", "subtree_com"] + _ROT_FIELDS
  alive = [True] * n
  hist = [[(0, init[w]["qpos"], init[w]["qvel"], init[w]["act"], 0.0)] for w in range(n)]  # MJWarp's own last <= 64 states per world
  nontriv = False
  maxwdt = 0.0
  nsteps = case["steps"]

  def judge(step, after_step):
    nonlocal nontriv, maxwdt
    snap = {k: getattr(d, k).numpy() for k in names}
    for w in range(n):
      if not alive[w]:
        continue
      finite = bool(np.all(np.isfinite(snap["qpos"][w])) and np.all(np.isfinite(snap["qvel"][w])))
      if not finite:
        alive[w] = False
        if contacts:
          # with contacts the two engines' trajectories decouple within a few steps (contact sets, solver iterates), so MuJoCo's run says nothing
          # about whether MJWarp's own trajectory had to stay finite: not judged
          rec.cls("diverged:contacts-unjudged")
          rec.inconclusive += 1
        else:
          dev, at = _lockstep_deviation(mjm, case, w, hist[w] + [(step, snap["qpos"][w], snap["qvel"][w], snap["act"][w], 0.0)])
          rec.err("lockstep_dev_before_nonfinite", dev)
          if dev > 2e-2:
            rec.violation(
              f"state became non-finite after step {step} (world {w}); on the way MJWarp's step from its own moderate state at step {at} deviates from mj_step on the same state by {dev:.3g} (relative, qvel)",
              sig=f"nonfinite:step-deviates:{case['integrator']}", step=step, world=w, deviating_step=at, deviation=dev,
            )
          else:
            rec.cls("diverged:lockstep-consistent")
            rec.notes["diverged_discarded_worlds"] += 1
        continue
      if not contacts and after_step:
        hist[w].append((step, H.f32(snap["qpos"][w]), H.f32(snap["qvel"][w]), H.f32(snap["act"][w]), float(snap["time"][w])))
        del hist[w][:-64]
      rec.ev()
      _check_world(rec, mjm, d, snap, w, slots, step, after_step)
      for qa, da in slots:
        wdt = float(np.linalg.norm(snap["qvel"][w][da : da + 3].astype(np.float64))) * dt
        maxwdt = max(maxwdt, wdt)
        if wdt > 0.1:
          nontriv = True

  for k in range(nsteps):
    if k % 25 == 0:
      H.set_data(d, [_forces(mjm, case, w, k) for w in range(n)])
    mjw.step(m, d)
    if (H.overflow(d) & _CAP).any():
      rec.inconclusive += 1
      return
    judge(k + 1, True)
    if not any(alive):
      break
  if all(alive):
    mjw.forward(m, d)  # orientations of the final state (all worlds finite, so the forward cannot be polluted)
    judge(nsteps, False)
  rec.cls(
    f"integrator:{case['integrator']}",
    f"contacts:{contacts}",
    f"qscale:{case['qscale']}",
    f"wdt:{'<0.1' if maxwdt <= 0.1 else '0.1-1' if maxwdt <= 1 else '1-10' if maxwdt <= 10 else '>10'}",
    f"survived:{all(alive)}",
    f"free:{bool((mjm.jnt_type == 0).any())}",
    f"ball:{bool((mjm.jnt_type == 1).any())}",
    f"ball-in-chain:{bool(any(mjm.jnt_type[j] == 1 and mjm.body_parentid[mjm.jnt_bodyid[j]] != 0 for j in range(mjm.njnt)))}",
    f"ncam>0:{mjm.ncam > 0}",
    f"mocap:{mjm.nmocap > 0}",
  )
  if nontriv:
    rec.nt()
