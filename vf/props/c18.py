"""C18 Broadphase choice does not change contacts (metamorphic: every broadphase type x filter mask vs NXN/default filter)."""

from __future__ import annotations


import numpy as np
from hypothesis import strategies as st

import mujoco_warp as mjw
from mujoco_warp._src import types as mjw_types

from vf import gen, mjw as H
from vf.core import Reject

RULE = (
  "case = scene with ngeom from the fixed menu {3,6,10,16,25}: 0-2 static planes (flat/tilted; first or last in geom-id order), 0-2 static world geoms, free bodies with 1-2 geoms "
  "(sphere/capsule/ellipsoid/cylinder/box/mesh) and optional hinge child bodies, geom margins/gaps, optional contype/conaffinity masks, <exclude>s and "
  "explicit <pair>s (pair margin+gap kept inside the geoms' own margin+gap: wider pairs are the recorded finding C04 pair-margin:broadphase), "
  "nworld in {1,3} with independently drawn poses per world from the layout classes cluster / coincident centre / equal projection on the SAP axis "
  "(0.5935,0.7790,0.1235) / bounding spheres touching along the SAP axis or a random axis / far away (10 m, 1 km). Oracle: for each of the 3 broadphase "
  "types x 16 filter masks set on Model.opt (all 48 in both tiers) the per-world canonical contact multiset (rows geom1,geom2,dist,pos,frame,"
  "includemargin,friction,solref,solreffriction,solimp,dim sorted lexicographically) after mjw.kinematics+mjw.collision is bitwise equal to the one of "
  "NXN with the default filter (PLANE|SPHERE|OBB). Contacts whose distance is within 1e-6 (relative to the geoms' size) of the detection threshold "
  "margin+gap are boundary-skipped when they are the only difference. evaluation = one (scene, configuration) comparison; non-trivial = the scene has "
  ">=1 contact and the configurations passed different numbers of pairs to the narrowphase (some pair was culled by some filter/sweep); distinct by sha1(case)"
)
ASSUMPTIONS = [
  "ample capacity: naconmax >= number of unfiltered geom pairs in all worlds; a case with any overflow bit, ncollision or nacon above naconmax is inconclusive",
  "explicit pairs never have a wider margin band than their geoms (known finding C04 pair-margin:broadphase excluded by construction, counted)",
  "CPU device: the narrowphase result of a pair does not depend on the order in which the broadphase emitted the pairs (measured: bitwise)",
]
BUDGET = {
  "quick": dict(examples=240, seconds=420, workers=16),
  "thorough": dict(examples=4000, seconds=1500, workers=16),
}

NGEOM_MENU = [3, 6, 6, 10, 10, 16, 16, 25]
_TYPE_MENUS = [
  ["sphere", "capsule", "box"],
  ["sphere", "capsule", "cylinder", "box", "ellipsoid"],
  ["sphere"],
  ["box", "capsule"],
  ["sphere", "capsule", "ellipsoid", "cylinder", "box", "mesh"],
  ["capsule", "cylinder"],
]
_LAYOUTS = ["cluster", "cluster", "cluster", "coincide", "sapeq", "touch_sap", "touch_rand", "far10", "far1000"]
SAP_AXIS = np.array([0.5935, 0.7790, 0.1235])
SAP_AXIS = SAP_AXIS / np.linalg.norm(SAP_AXIS)
BTYPES = [("NXN", 0), ("SAP_TILE", 1), ("SAP_SEGMENTED", 2)]
DEFAULT_FILTER = 1 | 2 | 8


def strategy(tier):
  return st.fixed_dictionaries(
    dict(
      ngeom=st.sampled_from(NGEOM_MENU),
      types=st.sampled_from(_TYPE_MENUS),
      nplane=st.sampled_from([0, 1, 1, 2]),
      plane_last=st.booleans(),
      nstatic=st.integers(0, 2),
      tree=st.booleans(),
      margin=st.sampled_from([False, True, True]),
      masks=st.booleans(),
      pairs=st.integers(0, 2),
      excludes=st.integers(0, 1),
      density=st.sampled_from([0.6, 1.0, 1.8]),
      aligned=st.sampled_from([0.0, 0.5]),
      nworld=st.sampled_from([1, 3]),
      seed=st.integers(0, 2**31 - 1),
    )
  )


# --------------------------------------------------------------------------------------
# scene


def _mk_geom(r, case, name, static=False):
  t = r.ch(case["types"])
  g = dict(name=name, type=t)
  if t == "sphere":
    g["size"] = [r.u(0.03, 0.15)]
  elif t in ("capsule", "cylinder"):
    g["size"] = [r.u(0.03, 0.1), r.u(0.03, 0.2)]
  elif t in ("box", "ellipsoid"):
    g["size"] = r.vec(3, 0.03, 0.15)
  elif t == "mesh":
    g["mesh"] = r.ch(["tetra", "cube", "octa"])
  if case["margin"] and t not in ("box", "mesh") and r.p(0.6):
    g["margin"] = r.u(0.0, 0.06)
    if r.p(0.5):
      g["gap"] = r.u(0.0, 0.04)
  if case["masks"] and r.p(0.35):
    g["contype"] = r.ch([0, 1, 2, 3])
    g["conaffinity"] = r.ch([0, 1, 2, 3])
  if r.p(0.3):
    g["condim"] = r.ch([1, 4, 6])
  if r.p(0.3):
    g["friction"] = [r.u(0.2, 1.5), r.lu(1e-3, 0.1), r.lu(1e-4, 0.01)]
  return g


def build_spec(case):
  r = gen.R(case["seed"])
  n = case["ngeom"]
  world_geoms, bodies = [], []
  k = 0
  nplane = min(case["nplane"], n - 2)
  for i in range(nplane):
    pg = dict(name=f"g{k}", type="plane", size=[0, 0, 0.1], pos=[r.u(-0.1, 0.1), r.u(-0.1, 0.1), r.u(-0.15, 0.15)])
    pg["quat"] = [1, 0, 0, 0] if (i == 0 and r.p(0.6)) else r.quat()
    if case["margin"] and r.p(0.4):
      pg["margin"] = r.u(0, 0.04)
    world_geoms.append(pg)
    k += 1
  for i in range(min(case["nstatic"], n - k - 1)):
    g = _mk_geom(r, case, f"g{k}")
    g["pos"] = r.vec(3, -0.3, 0.3)
    g["quat"] = r.quat()
    world_geoms.append(g)
    k += 1
  while k < n:
    bi = len(bodies)
    b = dict(name=f"b{bi}", parent=-1, pos=[0, 0, 0], joints=[dict(name=f"j{bi}", type="free")], geoms=[], sites=[], cameras=[], lights=[])
    ng = 2 if (n - k >= 2 and r.p(0.3)) else 1
    for gi in range(ng):
      g = _mk_geom(r, case, f"g{k}")
      if gi > 0:
        g["pos"] = r.vec(3, -0.12, 0.12)
        g["quat"] = r.quat()
      b["geoms"].append(g)
      k += 1
    bodies.append(b)
    if case["tree"] and k < n and r.p(0.35):
      ci = len(bodies)
      c = dict(name=f"b{ci}", parent=bi, pos=r.vec(3, -0.15, 0.15), quat=r.quat(), joints=[dict(name=f"j{ci}", type="hinge", axis=r.unit(), pos=[0, 0, 0])], geoms=[], sites=[], cameras=[], lights=[])
      c["geoms"].append(_mk_geom(r, case, f"g{k}"))
      k += 1
      bodies.append(c)
  if case.get("plane_last") and nplane:
    # planes on a static body declared last: their geom ids are then larger than the other geoms' (the plane is geom2 of its broadphase pairs)
    planes = [g for g in world_geoms if g["type"] == "plane"]
    world_geoms = [g for g in world_geoms if g["type"] != "plane"]
    bodies.append(dict(name=f"b{len(bodies)}", parent=-1, pos=[0, 0, 0], joints=[], geoms=planes, sites=[], cameras=[], lights=[]))
  spec = dict(bodies=bodies, world_geoms=world_geoms, tendons=[], equalities=[], actuators=[], sensors=[], pairs=[], excludes=[])
  allg = world_geoms + [g for b in bodies for g in b["geoms"]]
  excluded = 0
  for _ in range(case["pairs"]):
    i1, i2 = r.g.choice(len(allg), size=2, replace=False)
    g1, g2 = allg[int(i1)], allg[int(i2)]
    if g1["type"] == "plane" and g2["type"] == "plane":
      continue
    if any({q["geom1"], q["geom2"]} == {g1["name"], g2["name"]} for q in spec["pairs"]):
      continue
    p = dict(geom1=g1["name"], geom2=g2["name"])
    if r.p(0.6):
      p["condim"] = r.ch([1, 3, 4, 6])
    if r.p(0.5):
      p["friction"] = [r.u(0.2, 1.5), r.u(0.2, 1.5), r.lu(1e-3, 0.1), r.lu(1e-4, 0.01), r.lu(1e-4, 0.01)]
    if r.p(0.5):
      p["solref"] = [r.u(0.005, 0.05), r.u(0.3, 1.5)]
    # the pair's margin band must stay inside the geoms' own band (the broadphase inflates by geom margin+gap only: recorded finding)
    msum = g1.get("margin", 0.0) + g2.get("margin", 0.0)
    gsum = g1.get("gap", 0.0) + g2.get("gap", 0.0)
    both_bm = g1["type"] in ("box", "mesh") and g2["type"] in ("box", "mesh")
    if not both_bm:
      p["margin"] = gen.r6(r.u(0.0, 1.0) * msum)
      p["gap"] = gen.r6(r.u(0.0, 1.0) * gsum)
    excluded += 1
    spec["pairs"].append(p)
  movable = [b["name"] for b in bodies if b["joints"]]
  for _ in range(case["excludes"]):
    if len(movable) >= 2:
      i1, i2 = r.g.choice(len(movable), size=2, replace=False)
      spec["excludes"].append(dict(body1=movable[int(i1)], body2=movable[int(i2)]))
  spec["meshes"] = sorted({g["mesh"] for g in allg if g.get("mesh")})
  spec["option"] = {}
  spec["nkey"] = 0
  spec["nuserdata"] = 0
  return spec, excluded


def _quat(r, aligned):
  return r.ch(gen._AXQUATS) if r.p(aligned) else r.quat()


def poses(case, spec, mjm, world, layouts=None):
  """qpos for one world (float32-representable)."""
  r = gen.R([int(case["seed"]), 0xC18, int(world)])
  q = np.array(mjm.qpos0, dtype=np.float64)
  roots = [b for b in spec["bodies"] if b["parent"] == -1]
  L = case["density"] * 0.3 * max(1.0, len(roots)) ** (1.0 / 3.0)
  placed = []  # (pos, rbound+margin)
  for b in spec["bodies"]:
    if not b["joints"]:
      continue
    jid = mjm.joint(b["joints"][0]["name"]).id
    adr = int(mjm.jnt_qposadr[jid])
    if b["parent"] != -1:
      q[adr] = r.u(-3.0, 3.0)
      continue
    g0 = b["geoms"][0]
    rb = gen._rbound(g0) + g0.get("margin", 0.0) + g0.get("gap", 0.0)
    lay = r.ch(_LAYOUTS) if placed else "cluster"
    if lay == "cluster":
      pos = np.array(r.vec(3, -L / 2, L / 2))
    elif lay == "coincide":
      pos = np.array(placed[r.i(0, len(placed) - 1)][0])
    elif lay == "sapeq":
      base = np.array(placed[r.i(0, len(placed) - 1)][0])
      v = np.cross(SAP_AXIS, np.array(r.unit()))
      v /= np.linalg.norm(v)
      pos = base + v * r.u(-0.4, 0.4)
    elif lay in ("touch_sap", "touch_rand"):
      base, brb = placed[r.i(0, len(placed) - 1)]
      ax = SAP_AXIS if lay == "touch_sap" else np.array(r.unit())
      pos = np.array(base) + ax * (rb + brb) * r.ch([1.0, 1.0, 0.98, 1.02, -1.0])
    elif lay == "far10":
      pos = np.array(r.vec(3, -10, 10))
    else:
      pos = np.array(r.vec(3, -1000, 1000))
    pos = H.f32(pos)
    if layouts is not None:
      layouts.append(lay)
    placed.append((pos, rb))
    q[adr : adr + 3] = pos
    q[adr + 3 : adr + 7] = _quat(r, case["aligned"])
  return H.f32(q)


# --------------------------------------------------------------------------------------
# canonical multiset

_FIELDS = ["dist", "pos", "frame", "includemargin", "friction", "solref", "solreffriction", "solimp"]


def canon(cw):
  n = len(cw["dist"])
  if n == 0:
    return np.zeros((0, 31))
  cols = [cw["geom"].reshape(n, 2).astype(np.float64), cw["dim"].reshape(n, 1).astype(np.float64)]
  for f in _FIELDS:
    cols.append(np.asarray(cw[f], dtype=np.float64).reshape(n, -1))
  a = np.concatenate(cols, axis=1)
  return a[np.lexsort(a.T[::-1])]


def _threshold(mjm, g1, g2, pairid):
  key = (min(g1, g2), max(g1, g2))
  if key in pairid:
    k = pairid[key]
    return float(mjm.pair_margin[k] + mjm.pair_gap[k])
  return float(mjm.geom_margin[g1] + mjm.geom_margin[g2] + mjm.geom_gap[g1] + mjm.geom_gap[g2])


def _drop_boundary(a, mjm, pairid):
  """Removes contacts whose distance sits on the detection threshold (a float-rounding coin flip between the broadphase bound and the narrowphase)."""
  keep = []
  for row in a:
    g1, g2 = int(row[0]), int(row[1])
    scale = max(1.0, float(mjm.geom_rbound[g1]), float(mjm.geom_rbound[g2]))
    keep.append(abs(row[3] - _threshold(mjm, g1, g2, pairid)) > 1e-6 * scale)
  return a[np.array(keep, dtype=bool)] if len(a) else a


def _tolerant_compare(a, b):
  """a, b: canonical row arrays.  Returns ('swapped', [pairs]) when they are the same contacts up to geom order of some pairs (normal reversed,
  position/distance equal to 1e-5, parameters bitwise, tangents not compared), else ('different', reason)."""
  if len(a) != len(b):
    return "different", "count"
  ga, gb = {}, {}
  for i, x in enumerate(a):
    ga.setdefault((min(int(x[0]), int(x[1])), max(int(x[0]), int(x[1]))), []).append(i)
  for i, x in enumerate(b):
    gb.setdefault((min(int(x[0]), int(x[1])), max(int(x[0]), int(x[1]))), []).append(i)
  if set(ga) != set(gb) or any(len(ga[k]) != len(gb[k]) for k in ga):
    return "different", "pairs"
  swapped = []
  for k in sorted(ga):
    used = set()
    for i in ga[k]:
      cand = sorted((float(np.linalg.norm(a[i, 4:7] - b[j, 4:7])), j) for j in gb[k] if j not in used)
      j = cand[0][1]
      used.add(j)
      x, y = a[i], b[j]
      if np.array_equal(x, y):
        continue
      if int(x[0]) == int(y[1]) and int(x[1]) == int(y[0]) and int(x[0]) != int(x[1]):
        same = x[2] == y[2] and abs(x[3] - y[3]) <= 1e-5 and np.array_equal(x[16:], y[16:])
        regular = np.max(np.abs(x[4:7] - y[4:7])) <= 1e-5 * max(1.0, float(np.max(np.abs(y[4:7])))) and np.max(np.abs(x[7:10] + y[7:10])) <= 1e-5
        # coincident centres/axes: the narrowphase falls back to a fixed normal, which is then the same (not reversed) for both orders
        degenerate = np.array_equal(x[7:16], y[7:16])
        same = same and (regular or degenerate)
        if same:
          swapped.append([int(y[0]), int(y[1])])
          continue
      return "different", f"pair {k}"
  return ("swapped", swapped) if swapped else ("different", "rows")


def check(case, rec):
  spec, npairs = build_spec(case)
  mjm = H.compile_spec(spec)
  if mjm.ngeom != case["ngeom"]:
    raise Reject("ngeom")
  rec.excluded["pair-margin:broadphase"] += npairs
  nworld = case["nworld"]
  m = H.put_model(mjm)
  npairs_all = mjm.ngeom * (mjm.ngeom - 1) // 2
  d = H.make_data(mjm, nworld=nworld, nconmax=npairs_all + 64, njmax=16)
  layouts = []
  states = [dict(qpos=poses(case, spec, mjm, w, layouts), qvel=np.zeros(mjm.nv)) for w in range(nworld)]
  rec.cls(*[f"layout:{x}" for x in layouts])
  H.set_data(d, states)
  mjw.kinematics(m, d)
  pairid = {}
  for k in range(mjm.npair):
    a, b = int(mjm.pair_geom1[k]), int(mjm.pair_geom2[k])
    pairid[(min(a, b), max(a, b))] = k

  def run(btype, fmask):
    m.opt.broadphase = mjw_types.BroadphaseType(btype)
    m.opt.broadphase_filter = mjw_types.BroadphaseFilter(fmask)
    d.overflow.zero_()
    mjw.collision(m, d)
    ncol = int(d.ncollision.numpy()[0])
    nacon = int(d.nacon.numpy()[0])
    if ncol > d.naconmax or nacon > d.naconmax or int(np.bitwise_or.reduce(d.overflow.numpy())) != 0:
      return None, ncol
    return [canon(H.contacts(d, w)) for w in range(nworld)], ncol

  base, ncol0 = run(0, DEFAULT_FILTER)
  if base is None:
    rec.inconclusive += 1
    return
  ncontact = sum(len(a) for a in base)
  for a in base:
    for x in a:
      rec.cls(f"pairtype:{int(mjm.geom_type[int(x[0])])}-{int(mjm.geom_type[int(x[1])])}", "contact:in-margin-band" if x[3] > 0 else "contact:penetrating")
      if (min(int(x[0]), int(x[1])), max(int(x[0]), int(x[1]))) in pairid:
        rec.cls("contact:explicit-pair")
  ncols = {ncol0}
  for tname, btype in BTYPES:
    for fmask in range(16):
      if btype == 0 and fmask == DEFAULT_FILTER:
        continue
      got, ncol = run(btype, fmask)
      if got is None:
        rec.inconclusive += 1
        continue
      ncols.add(ncol)
      rec.ev()
      for w in range(nworld):
        a, b = got[w], base[w]
        if a.shape == b.shape and np.array_equal(a, b):
          continue
        a2, b2 = _drop_boundary(a, mjm, pairid), _drop_boundary(b, mjm, pairid)
        if a2.shape == b2.shape and np.array_equal(a2, b2):
          rec.boundary_skipped += 1
          rec.notes[f"boundary-contact-differs:{tname}:f{fmask}"] += 1
          continue
        verdict, detail = _tolerant_compare(a2, b2)
        if verdict == "swapped":
          # same contacts, but a pair is reported as (larger id, smaller id) with the normal reversed (defect repaired in /repo d66f0ef; must not come back)
          rec.violation(
            f"{tname} filter={fmask}: same-type geom pairs are reported in reversed geom order (normal flipped) w.r.t. NXN: {detail}",
            sig="geom-order:sap" if btype != 0 else "geom-order:nxn",
            broadphase=tname,
            filter=fmask,
            world=w,
            pairs=detail,
          )
          continue
        sa = {tuple(x) for x in a2}
        sb = {tuple(x) for x in b2}
        missing = sorted(sb - sa)
        extra = sorted(sa - sb)
        upair = lambda x: (min(int(x[0]), int(x[1])), max(int(x[0]), int(x[1])))
        pm = sorted({upair(x) for x in missing})
        pe = sorted({upair(x) for x in extra})
        kind = "missing" if set(pm) - set(pe) else ("extra" if set(pe) - set(pm) else "changed")
        types = sorted({f"{int(mjm.geom_type[x])}-{int(mjm.geom_type[y])}" for x, y in (pm + pe)})
        rec.violation(
          f"{tname} filter={fmask}: contacts differ from NXN/default filter in world {w}: {kind} ({detail}); pairs only in NXN/default {sorted(set(pm) - set(pe))} only here "
          f"{sorted(set(pe) - set(pm))} changed {sorted(set(pe) & set(pm))} (geom types {types}); n={len(a)} vs {len(b)}; dists there {[float(x[3]) for x in missing][:6]} here {[float(x[3]) for x in extra][:6]}",
          sig=f"{kind}:{tname}:f{fmask}",
          broadphase=tname,
          filter=fmask,
          world=w,
          pairs_missing=[list(p) for p in pm],
          pairs_extra=[list(p) for p in pe],
          ncollision=ncol,
          ncollision_base=ncol0,
        )
  culled = len(ncols) > 1
  rec.cls(f"ngeom:{case['ngeom']}", f"nworld:{nworld}", f"contacts:{ncontact > 0}", f"culled:{culled}", f"nplane:{min(case['nplane'], case['ngeom'] - 2)}", f"plane_last:{bool(case.get('plane_last')) and min(case['nplane'], case['ngeom'] - 2) > 0}")
  if ncontact > 0 and culled:
    rec.nt()
