"""C14 reset_data_keyframe semantics (model-based vs mj_resetDataKeyframe)."""

from __future__ import annotations

import numpy as np
import warp as wp
from hypothesis import strategies as st

import mujoco
import mujoco_warp as mjw

from vf import gen, mjw as H
from vf.core import Reject, check_close, check_equal
from vf.props import c13

RULE = (
  "case = rich model (actuators with activations, mocap, delays, userdata) with 1-4 random keyframes (time,qpos,qvel,act,ctrl,mpos,mquat) x 1-4 worlds x "
  "prior history of 0-4 steps x key given as scalar int (valid, -1, nkey, large) or per-world int array mixing valid and invalid indices (int32/int64, wrong shape, float dtype); "
  "oracle: valid worlds == mj_resetDataKeyframe (all integration-state fields; history also == fresh make_data bitwise); invalid-index worlds bit-unchanged "
  "(state + contacts) vs a twin; invalid scalar keys / malformed arrays raise ValueError and leave Data untouched; evaluation = one world judged; "
  "non-trivial = array key with >=1 valid and >=1 invalid world after a non-empty history"
)
ASSUMPTIONS = ["MuJoCo mj_resetDataKeyframe is the reference", "float32 rounding of keyframe values (1e-6)"]
BUDGET = {"quick": dict(examples=240, seconds=420, workers=16), "thorough": dict(examples=5000, seconds=1500, workers=16)}
_STATE = c13._STATE


def strategy(tier):
  return st.fixed_dictionaries(
    dict(
      cfg=gen.rich_cfg(
        actuators=st.integers(1, 3),
        act_menu=st.sampled_from([["general"], ["motor", "general", "position"]]),
        dyn_menu=st.sampled_from([["user", "integrator"], ["filter", "integrator", "none"]]),
        delays=st.booleans(),
        nuserdata=st.integers(0, 2),
        mocap=st.integers(0, 2),
      ),
      opt=gen.option_strategy(integrators=("Euler", "implicitfast")),
      sensor_delay=st.booleans(),
      nkey=st.integers(1, 4),
      nworld=st.integers(1, 4),
      hist=st.integers(0, 4),
      key_kind=st.sampled_from(["scalar_valid", "scalar_valid", "scalar_invalid", "array_mixed", "array_mixed", "array_valid", "array_bad"]),
      seed=st.integers(0, 10**6),
    )
  )


def build(case):
  base = c13.build(case)
  g = np.random.default_rng(case["seed"] + 77)
  keys = []
  for k in range(case["nkey"]):
    s = H.rand_state(base, case["seed"] + 1000 + k, sigma=0.3, vel=1.0, unnorm=bool(k % 2))
    attrs = [f'time="{gen.r6(g.uniform(0, 3))}"', f'qpos="{gen._a(gen.r6(s["qpos"]))}"', f'qvel="{gen._a(gen.r6(s["qvel"]))}"']
    if base.na:
      attrs.append(f'act="{gen._a(gen.r6(s["act"]))}"')
    if base.nu:
      attrs.append(f'ctrl="{gen._a(gen.r6(s["ctrl"]))}"')
    if base.nmocap:
      attrs.append(f'mpos="{gen._a(gen.r6(s["mocap_pos"].ravel()))}"')
      attrs.append(f'mquat="{gen._a(gen.r6(s["mocap_quat"].ravel()))}"')
    keys.append(f"<key {' '.join(attrs)}/>")
  cfg = dict(case["cfg"])
  cfg["option"] = dict(case["opt"], timestep=0.002)
  cfg["timestep"] = 0.002
  spec = gen.make_spec(cfg)
  if case["sensor_delay"]:
    scal = [j["name"] for b in spec["bodies"] for j in b["joints"] if j["type"] in ("hinge", "slide")]
    for k, jn in enumerate(scal[:2]):
      spec["sensors"].append(dict(kind="jointpos" if k == 0 else "jointvel", joint=jn, delay=0.004 * (k + 1), nsample=3 + k, interp=["zoh", "linear"][k]))
    sites = [s_["name"] for b in spec["bodies"] for s_ in b["sites"]]
    kinds = [("framepos", dict(delay=0.006, nsample=3, interp="linear")), ("framequat", dict(delay=0.004, nsample=2)), ("framelinvel", dict(interval=[0.006, -0.002], delay=0.002, nsample=2))]
    for k, sn in enumerate(sites[:3]):
      kind, extra = kinds[(k + case["seed"]) % 3]
      spec["sensors"].append(dict(kind=kind, objtype="site", objname=sn, **extra))
  spec["keyframe_xml"] = "<keyframe>" + "".join(keys) + "</keyframe>"
  return H.compile_spec(spec)


def check(case, rec):
  mjm = build(case)
  if mjm.nv == 0:
    raise Reject("nv=0")
  m = H.put_model(mjm)
  n = case["nworld"]
  nkey = mjm.nkey
  caps = dict(nconmax=120, njmax=400)
  D = H.make_data(mjm, nworld=n, **caps)
  T = H.make_data(mjm, nworld=n, **caps)
  F = H.make_data(mjm, nworld=n, **caps)
  hc = dict(case)
  if case["hist"]:
    c13.run_history(mjm, m, D, hc)
    c13.run_history(mjm, m, T, hc)
  g = np.random.default_rng(case["seed"] + 3)
  kind = case["key_kind"]
  before = {w: c13.world_contacts(D, w) for w in range(n)}
  s_before = {k: getattr(D, k).numpy().copy() for k in _STATE}
  keys = None
  expect_raise = False
  if kind == "scalar_valid":
    k0 = int(g.integers(0, nkey))
    arg = k0 if g.uniform() < 0.5 else np.int64(k0)
    keys = np.full(n, k0)
  elif kind == "scalar_invalid":
    arg = int(g.choice([-1, nkey, nkey + 7, -(2**31), 2**31 - 1]))
    expect_raise = True
  elif kind == "array_bad":
    which = int(g.integers(0, 3))
    if which == 0:
      arg = wp.array(np.zeros(n + 1, dtype=np.int32), dtype=int)
    elif which == 1:
      arg = wp.array(np.zeros(n, dtype=np.float32), dtype=float)
    else:
      arg = [0] * n
    expect_raise = True
  else:
    pool = list(range(nkey)) if kind == "array_valid" else list(range(nkey)) + [-1, nkey, nkey + 3, -5]
    keys = np.array([int(g.choice(pool)) for _ in range(n)])
    if kind == "array_mixed" and n > 1:
      keys[0] = int(g.choice([-1, nkey]))
      keys[1] = int(g.integers(0, nkey))
    arg = wp.array(keys.astype(np.int32), dtype=wp.int32) if g.uniform() < 0.7 else wp.array(keys.astype(np.int64), dtype=wp.int64)
  rec.ev()
  if expect_raise:
    try:
      mjw.reset_data_keyframe(m, D, arg)
    except ValueError:
      pass
    else:
      rec.violation(f"invalid key {arg!r} was accepted", sig=f"accepted:{kind}")
    for k in _STATE:
      check_equal(rec, k, getattr(D, k).numpy(), s_before[k], sig="rejected-but-modified")
    rec.cls(f"kind:{kind}")
    rec.nt(extra=kind) if case["hist"] else None
    return
  mjw.reset_data_keyframe(m, D, arg)
  got = {k: getattr(D, k).numpy() for k in _STATE}
  fresh = {k: getattr(F, k).numpy() for k in _STATE}
  twin = {k: getattr(T, k).numpy() for k in _STATE}
  valid = (keys >= 0) & (keys < nkey)
  for w in range(n):
    rec.ev()
    if valid[w]:
      mjd = mujoco.MjData(mjm)
      mujoco.mj_resetDataKeyframe(mjm, mjd, int(keys[w]))
      ref = dict(
        time=mjd.time, qpos=mjd.qpos, qvel=mjd.qvel, act=mjd.act, ctrl=mjd.ctrl, mocap_pos=mjd.mocap_pos, mocap_quat=mjd.mocap_quat,
        qacc_warmstart=mjd.qacc_warmstart, qfrc_applied=mjd.qfrc_applied, xfrc_applied=mjd.xfrc_applied, eq_active=mjd.eq_active, userdata=mjd.userdata,
        history=mjd.history, act_dot=mjd.act_dot, qacc=mjd.qacc,
      )
      for k, v in ref.items():
        gk = np.asarray(got[k][w]).reshape(np.asarray(v).shape)
        check_close(rec, k, gk, np.asarray(v, dtype=np.float64), 1e-6, sig=f"valid:{k}", world=w, key=int(keys[w]))
      check_equal(rec, "history_vs_fresh", got["history"][w], fresh["history"][w], sig="valid:history", world=w)
      check_equal(rec, "overflow", got["overflow"][w], 0, sig="valid:overflow", world=w)
    else:
      for k in _STATE:
        check_equal(rec, k, got[k][w], twin[k][w], sig=f"invalid:{k}", world=w, key=int(keys[w]))
      cw = c13.world_contacts(D, w)
      for f in ("geom", "dist", "pos", "dim"):
        check_equal(rec, f"contact.{f}", cw[f], before[w][f], sig="unselected:contacts", world=w, keys=keys.tolist(), ncon_before=len(before[w]["dist"]), ncon_after=len(cw["dist"]))
  rec.cls(f"kind:{kind}", f"hist>0:{case['hist'] > 0}", f"mixed:{bool(valid.any() and (~valid).any())}")
  if valid.any() and (~valid).any() and case["hist"] > 0:
    rec.nt()
  elif kind in ("scalar_valid", "array_valid") and case["hist"] > 0 and (mjm.na or mjm.nmocap):
    rec.nt()
