"""C27 Velocity derivatives are correct."""

from __future__ import annotations

import numpy as np
import warp as wp
from hypothesis import strategies as st

import mujoco
import mujoco_warp as mjw
from mujoco_warp._src import derivative as mjw_derivative

from vf import gen, mjw as H
from vf.core import Reject

RULE = (
  "case = random articulated model (free/ball/hinge/slide, several joints per body, forced small chains) with joint damping (+ polynomial), fixed and spatial tendons with damping "
  "(+ polynomial), fluid forces (wind/density/viscosity; inertia-box and ellipsoid geoms with fluidcoef), position/velocity/damper/intvelocity/general(affine gain and bias with velocity "
  "terms, filter/integrator activations, actearly, force/ctrl ranges) actuators on joint/tendon/site transmissions, integrator implicitfast or implicit, timestep 0.002..0.05, dense/sparse, "
  "x random (qpos, qvel, act, ctrl) in 1-2 worlds. Observed: (A) mjw.deriv_smooth_vel -> (M - out)/dt on the lower-triangular M pattern; (B, implicit only) the matrix mjw.implicit "
  "factorises, recovered from d.qLU as (I+U)L -> (M - A)/dt on the D pattern, and derivative.deriv_rne_vel on a zero matrix. Oracles: (1) MuJoCo C mjd.qDeriv under the same integrator "
  "(filled by mj_step), (2) central finite differences (h=1e-6, float64, mj_forward) of qfrc_passive + qfrc_actuator (implicitfast: symmetrised, as that integrator documents) and, for "
  "implicit, additionally of -qfrc_bias. Where the two oracles disagree with each other (MuJoCo itself documents no symmetrisation for a childless free body, undifferentiated clamps) an "
  "element passes if it matches either. evaluation = one observed matrix of one world against the oracles; non-trivial = >= 2 velocity-dependent mechanisms are active in the model"
)
ASSUMPTIONS = [
  "MuJoCo C 3.13 is the reference; finite differences are taken on MuJoCo's float64 forces, not on MJWarp's",
  "only entries on the sparsity pattern MJWarp (and MuJoCo) store are compared: M pattern for deriv_smooth_vel, D pattern for the implicit matrix",
  "tolerance per entry (i,j): 1e-4 sqrt(r_i r_j) (r_i = largest reference magnitude in row/column i) + 1e-6 of the matrix scale, plus the float32 floor 8u(|M_ij| + dt|qDeriv_ij|)/dt of forming M - dt*qDeriv in single precision",
  "tendon armature (its velocity-dependent bias is differentiated by neither engine), muscles, dcmotor and joint/tendon actuatorfrcrange are not generated; worlds with an actuator force within 1e-3 of its forcerange bound are skipped",
]
BUDGET = {"quick": dict(examples=400, seconds=420, workers=16), "thorough": dict(examples=10000, seconds=1500, workers=16)}
_CHAINS = [[], [], [], [["mixed", 5]], [["hinge", 4], ["slide", 3]], [["star", 6]], [["mixed", 9]]]
TOL = 1e-4
U32 = 6e-8


def strategy(tier):
  return st.fixed_dictionaries(
    dict(
      cfg=gen.cfg_strategy(
        nroot=st.integers(0, 3),
        maxdepth=st.integers(0, 2),
        maxchild=st.integers(1, 2),
        p_multi_joint=st.sampled_from([0.0, 0.4]),
        dynamics=True,
        poly=st.booleans(),
        fluid=st.booleans(),
        tendons=st.integers(0, 2),
        spatial_tendons=st.integers(0, 1),
        wrap=st.booleans(),
        sites=1.0,
        chains=st.sampled_from(_CHAINS),
        actuators=st.integers(0, 5),
        act_menu=st.sampled_from([["position", "velocity", "damper", "general", "intvelocity", "motor"], ["general"], ["velocity", "damper", "position"]]),
        dyn_menu=st.sampled_from([["none", "integrator", "filter", "filterexact"], ["none"]]),
        trn_menu=st.sampled_from([["joint"], ["joint", "tendon", "site"], ["joint", "jointinparent", "tendon"]]),
        geom_menu=st.sampled_from([["sphere", "capsule", "box"], ["ellipsoid", "cylinder", "box", "sphere", "capsule"]]),
        inertial=st.booleans(),
      ),
      integrator=st.sampled_from(["implicitfast", "implicit"]),
      jacobian=st.sampled_from(["dense", "sparse"]),
      timestep=st.sampled_from([0.002, 0.01, 0.05]),
      nworld=st.sampled_from([1, 2]),
      seed=st.integers(0, 10**6),
      sigma=st.sampled_from([0.0, 0.3, 1.0]),
      vel=st.sampled_from([0.3, 1.0, 3.0]),
      ctrl=st.sampled_from([0.3, 1.0, 4.0]),
      # CLAMPCTRL disabled: the velocity coefficient of an affine gain is then multiplied by the raw control (MuJoCo's qDeriv with the same flag is the reference)
      noclamp=st.sampled_from([False, False, False, True]),
    )
  )


def build(case):
  cfg = dict(case["cfg"])
  if cfg["nroot"] == 0 and not cfg["chains"]:
    cfg["nroot"] = 1
  cfg["option"] = dict(integrator=case["integrator"], jacobian=case["jacobian"], timestep=case["timestep"])
  if case.get("noclamp"):
    cfg["option"]["flags"] = dict(clampctrl="disable")
  spec = gen.make_spec(cfg)
  for t in spec["tendons"]:
    t.pop("armature", None)
  # purely polynomial damping (linear coefficient exactly 0, higher-order terms present) on a third of the damped joints/tendons:
  # a "nothing to do if damping == 0" shortcut must look at all coefficients (deterministic from the generator seed)
  k = int(cfg["seed"])
  for el in [j for b in spec["bodies"] for j in b["joints"]] + spec["tendons"]:
    if el.get("dampingpoly") and any(el["dampingpoly"]):
      k += 1
      if k % 3 == 0:
        el["damping"] = 0.0
  return spec


# --------------------------------------------------------------------------------------
# oracles (MuJoCo C, float64)


def _copy_state(dst, src):
  for k in ("qpos", "qvel", "act", "ctrl", "mocap_pos", "mocap_quat", "qfrc_applied", "xfrc_applied"):
    getattr(dst, k)[:] = getattr(src, k)


def fd_forces(mjm, mjd0, h=1e-6):
  """Central differences wrt qvel of (qfrc_passive + qfrc_actuator) and of (-qfrc_bias); column k = perturbed dof."""
  nv = mjm.nv
  tmp = mujoco.MjData(mjm)
  v0 = mjd0.qvel.copy()

  def ev(v):
    _copy_state(tmp, mjd0)
    tmp.qvel[:] = v
    mujoco.mj_forward(mjm, tmp)
    return tmp.qfrc_passive + tmp.qfrc_actuator, -tmp.qfrc_bias.copy()

  PA, R = np.zeros((nv, nv)), np.zeros((nv, nv))
  for k in range(nv):
    vp, vm = v0.copy(), v0.copy()
    vp[k] += h
    vm[k] -= h
    a, b = ev(vp), ev(vm)
    PA[:, k] = (a[0] - b[0]) / (2 * h)
    R[:, k] = (a[1] - b[1]) / (2 * h)
  return PA, R


def mj_qderiv(mjm, mjd0):
  tmp = mujoco.MjData(mjm)
  _copy_state(tmp, mjd0)
  mujoco.mj_step(mjm, tmp)
  qD = np.zeros((mjm.nv, mjm.nv))
  mujoco.mju_sparse2dense(qD, tmp.qDeriv, mjm.D_rownnz, mjm.D_rowadr, mjm.D_colind)
  return qD


def d_pattern(mjm):
  P = np.zeros((mjm.nv, mjm.nv), dtype=bool)
  for i in range(mjm.nv):
    a, n = int(mjm.D_rowadr[i]), int(mjm.D_rownnz[i])
    P[i, mjm.D_colind[a : a + n]] = True
  return P


def m_pattern_lower(mjm):
  P = np.zeros((mjm.nv, mjm.nv), dtype=bool)
  for i in range(mjm.nv):
    a, n = int(mjm.M_rowadr[i]), int(mjm.M_rownnz[i])
    P[i, mjm.M_colind[a : a + n]] = True
  return P


def _d_to_dense(mjm, vals):
  A = np.zeros((mjm.nv, mjm.nv))
  vals = np.asarray(vals, dtype=np.float64)
  for i in range(mjm.nv):
    a, n = int(mjm.D_rowadr[i]), int(mjm.D_rownnz[i])
    A[i, mjm.D_colind[a : a + n]] = vals[a : a + n]
  return A


def _m_lower_dense(mjm, vals):
  A = np.zeros((mjm.nv, mjm.nv))
  vals = np.asarray(vals, dtype=np.float64)
  for i in range(mjm.nv):
    a, n = int(mjm.M_rowadr[i]), int(mjm.M_rownnz[i])
    A[i, mjm.M_colind[a : a + n]] = vals[a : a + n]
  return A


def mechanisms(mjm):
  mech = set()
  if np.any(mjm.dof_damping > 0):
    mech.add("jointdamping")
  if np.any(np.asarray(mjm.dof_dampingpoly) != 0):
    mech.add("jointdampingpoly")
  if mjm.ntendon and np.any(mjm.tendon_damping > 0):
    mech.add("tendondamping")
  if mjm.ntendon and np.any(np.asarray(mjm.tendon_dampingpoly) != 0):
    mech.add("tendondampingpoly")
  if mjm.opt.density > 0 or mjm.opt.viscosity > 0:
    ell = np.zeros(mjm.nbody, dtype=bool)
    for g in range(mjm.ngeom):
      if mjm.geom_fluid[g, 0] > 0:
        ell[mjm.geom_bodyid[g]] = True
    moving = mjm.body_mass > 1e-10
    moving[0] = False
    if np.any(ell & moving):
      mech.add("fluid-ellipsoid")
    if np.any(~ell & moving):
      mech.add("fluid-box")
  for u in range(mjm.nu):
    if mjm.actuator_gaintype[u] == 1 and mjm.actuator_gainprm[u, 2] != 0:
      mech.add("act-gainvel" + ("-act" if mjm.actuator_dyntype[u] != 0 else ""))
    if mjm.actuator_biastype[u] == 1 and mjm.actuator_biasprm[u, 2] != 0:
      mech.add("act-biasvel")
  if mjm.opt.integrator == int(mujoco.mjtIntegrator.mjINT_IMPLICIT) and mjm.nv >= 2:
    mech.add("coriolis")
  return mech


def _verdict(rec, name, got, refs, mask, floor, scale):
  """Element-wise on mask, got must match at least one of refs (alternatives matter only where the oracles disagree with each other).
  The tolerance of entry (i,j) is relative to sqrt(r_i r_j), r_i = largest reference magnitude in row/column i (an entry J_i' B J_j is computed
  from terms of that size), plus 1e-6 of the matrix scale and the float32 floor.  Returns None if got matches, else (message, details)."""
  if not np.all(np.isfinite(got[mask])):
    return f"{name}: non-finite derivative", dict(nan=True)
  a = np.where(mask, np.maximum(np.abs(refs[0]), np.abs(refs[-1])), 0.0)
  r = np.maximum(a.max(axis=0), a.max(axis=1))
  tol = TOL * np.sqrt(np.outer(r, r)) + 1e-6 * scale + floor
  best = np.minimum.reduce([np.abs(got - r_) for r_ in refs])
  ratio = np.where(mask, best / tol, 0.0)
  k = np.unravel_index(int(np.argmax(ratio)), ratio.shape)
  if ratio[k] > 1.0:
    msg = f"{name}[{k[0]},{k[1]}] = {got[k]:.7g}, expected {refs[0][k]:.7g} (MuJoCo analytic) / {refs[-1][k]:.7g} (finite differences); tolerance {tol[k]:.3g}"
    return msg, dict(index=[int(k[0]), int(k[1])], got=float(got[k]), want=[float(r_[k]) for r_ in refs])
  # calibration statistic: the part of the error above the float32 floor, in the units TOL is expressed in
  rel = np.where(mask, np.maximum(best - floor, 0.0) / (np.sqrt(np.outer(r, r)) + 1e-2 * scale), 0.0)
  rec.err(name, float(rel.max()))
  rec.err(name + ":of_total_tol", float(ratio[k]))
  return None


def _ctrl_clamp_delta(mjm, mjd, raw_ctrl):
  """qDeriv error made by multiplying an affine gain's velocity coefficient with the raw instead of the clamped control."""
  nv = mjm.nv
  D = np.zeros((nv, nv))
  if mjm.nu == 0 or (mjm.opt.disableflags & int(mujoco.mjtDisableBit.mjDSBL_CLAMPCTRL)):
    return D
  Mm = np.zeros((mjm.nu, nv))
  mujoco.mju_sparse2dense(Mm, mjd.actuator_moment, mjd.moment_rownnz, mjd.moment_rowadr, mjd.moment_colind)
  for u in range(mjm.nu):
    if mjm.actuator_gaintype[u] == 1 and mjm.actuator_dyntype[u] == 0 and mjm.actuator_ctrllimited[u] and mjm.actuator_gainprm[u, 2] != 0:
      lo, hi = mjm.actuator_ctrlrange[u]
      c = float(np.clip(raw_ctrl[u], lo, hi))
      if c != raw_ctrl[u]:
        if mjm.actuator_forcelimited[u]:
          flo, fhi = mjm.actuator_forcerange[u]
          if mjd.actuator_force[u] <= flo or mjd.actuator_force[u] >= fhi:
            continue
        D += (raw_ctrl[u] - c) * mjm.actuator_gainprm[u, 2] * np.outer(Mm[u], Mm[u])
  return D


def check(case, rec):
  spec = build(case)
  mjm = H.compile_spec(spec)
  nv = mjm.nv
  if nv == 0:
    raise Reject("nv=0")
  if nv > 40:
    raise Reject("nv>40")
  mjm.opt.disableflags |= int(mujoco.mjtDisableBit.mjDSBL_CONTACT)
  implicit = case["integrator"] == "implicit"
  dt = float(mjm.opt.timestep)
  n = case["nworld"]
  m = H.put_model(mjm)
  g = np.random.default_rng(case["seed"] + 3)
  states = []
  for w in range(n):
    s = H.rand_state(mjm, case["seed"] + 41 * w, sigma=case["sigma"], vel=case["vel"])
    s["ctrl"] = H.f32(case["ctrl"] * g.normal(size=mjm.nu))
    s["act"] = H.f32(0.5 * g.normal(size=mjm.na))
    states.append(s)
  d = H.make_data(mjm, nworld=n)
  H.set_data(d, states)
  mjw.forward(m, d)
  if H.overflow_fwd(d).any():
    rec.inconclusive += 1
    return
  mech = mechanisms(mjm)
  rec.cls(f"integrator:{case['integrator']}", f"sparse:{bool(m.is_sparse)}", f"dt:{case['timestep']}", f"nmech:{min(len(mech), 4)}", *[f"mech:{k}" for k in sorted(mech)])

  # observation A
  out = wp.zeros((n, m.nC), dtype=float)
  mjw.deriv_smooth_vel(m, d, out)
  outn = out.numpy().astype(np.float64)
  Mn = d.M.numpy().astype(np.float64)
  frc = d.actuator_force.numpy() if mjm.nu else np.zeros((n, 0))
  Pm = m_pattern_lower(mjm)
  Pd = d_pattern(mjm)
  # observation B
  if implicit:
    rne = wp.zeros((n, m.nD), dtype=float)
    mjw_derivative.deriv_rne_vel(m, d, rne)
    rnen = rne.numpy().astype(np.float64)
    d2 = H.make_data(mjm, nworld=n)
    H.set_data(d2, states)
    mjw.forward(m, d2)
    mjw.implicit(m, d2)
    lun = d2.qLU.numpy().astype(np.float64)

  for w in range(n):
    mjd = mujoco.MjData(mjm)
    H.set_mjd(mjd, states[w])
    try:
      mujoco.mj_forward(mjm, mjd)
      qD = mj_qderiv(mjm, mjd)
      PA, R = fd_forces(mjm, mjd)
    except mujoco.FatalError:
      rec.rejected += 1
      continue
    if not (np.all(np.isfinite(qD)) and np.all(np.isfinite(PA)) and np.all(np.isfinite(R))):
      rec.inconclusive += 1
      continue
    # forcerange clamp boundary: the derivative jumps where the unclamped force crosses a bound
    near = False
    if np.any(mjm.actuator_forcelimited):
      saved = mjm.actuator_forcelimited.copy()
      tmp = mujoco.MjData(mjm)
      _copy_state(tmp, mjd)
      try:
        mjm.actuator_forcelimited[:] = 0
        mujoco.mj_forward(mjm, tmp)
      finally:
        mjm.actuator_forcelimited[:] = saved
      for u in range(mjm.nu):
        if saved[u]:
          lo, hi = mjm.actuator_forcerange[u]
          f = tmp.actuator_force[u]
          if min(abs(f - lo), abs(f - hi)) < 1e-3 * max(1.0, hi - lo, abs(f)):
            near = True
    if near:
      rec.boundary_skipped += 1
      rec.cls("skipped:force-at-clamp")
      continue
    # the derivative is zeroed for force-clamped actuators: if the two engines disagree about the clamp status (their actuator_force differs:
    # C03's subject, e.g. the recorded ball-joint servo wrap finding) the input of this check already differs
    fw = frc[w].astype(np.float64)
    differs = False
    for u in range(mjm.nu):
      if mjm.actuator_forcelimited[u]:
        lo, hi = mjm.actuator_forcerange[u]
        eps = 1e-5 * max(1.0, abs(lo), abs(hi))  # MJWarp clamps to the float32 bound
        if (fw[u] <= lo + eps or fw[u] >= hi - eps) != (mjd.actuator_force[u] <= lo or mjd.actuator_force[u] >= hi):
          differs = True
    if differs:
      rec.boundary_skipped += 1
      rec.cls("skipped:clamp-status-differs(C03)")
      continue
    ctx = dict(world=w)
    Ml = _m_lower_dense(mjm, Mn[w])
    # ---- A: passive + actuator part on the lower M pattern
    rec.ev()
    gotA = (Ml - _m_lower_dense(mjm, outn[w])) / dt
    if implicit:
      refs = [qD - R, PA]
    else:
      refs = [qD, 0.5 * (PA + PA.T)]
    if np.any((np.abs(refs[0] - refs[1]) > 1e-6 * max(1.0, float(np.max(np.abs(PA))))) & Pm):
      rec.cls("oracles-disagree:A")
    scale = max(1.0, float(np.max(np.abs(refs[-1][Pm]))))
    floor = 8 * U32 * (np.abs(Ml) + dt * np.abs(refs[-1])) / dt
    nameA = f"deriv_smooth_vel[{case['integrator']}]"
    comp = np.zeros((nv, nv))  # compensation for recognised, separately reported defects
    v = _verdict(rec, nameA, gotA, refs, Pm, floor, scale)
    if v is not None:
      delta = _ctrl_clamp_delta(mjm, mjd, np.asarray(states[w]["ctrl"], dtype=np.float64))
      if np.any(delta[Pm] != 0) and _verdict(rec, nameA, gotA - delta, refs, Pm, floor, scale) is None:
        rec.cls("ctrl-clamp-seen")
        rec.violation("deriv_smooth_vel multiplies the velocity coefficient of an affine gain by the raw control instead of the control clamped to ctrlrange: " + v[0], sig="smooth_vel:ctrl-clamp", **ctx, **v[1])
        comp = delta
      else:
        rec.violation(v[0], sig=f"smooth_vel:{case['integrator']}", **ctx, **v[1])
        continue
    if not implicit:
      continue
    # ---- B1: RNE derivative helper: +dt * d(qfrc_bias)/dv on the D pattern
    rec.ev()
    gotR = -_d_to_dense(mjm, rnen[w]) / dt
    scaleR = max(1.0, float(np.max(np.abs(R[Pd]))))
    v = _verdict(rec, "deriv_rne_vel", gotR, [qD - PA, R], Pd, np.zeros_like(R), scaleR)
    if v is not None:
      rec.violation(v[0], sig="rne_vel", **ctx, **v[1])
      continue
    # ---- B2: the matrix mjw.implicit factorised
    rec.ev()
    LU = _d_to_dense(mjm, lun[w])
    if not np.all(np.isfinite(LU)):
      rec.inconclusive += 1
      continue
    Uf = np.eye(nv) + np.triu(LU, 1)
    A = Uf @ np.tril(LU)
    Mfull = Ml + np.tril(Ml, -1).T
    gotB = (Mfull - A) / dt - comp  # comp is a full symmetric matrix
    total = PA + R
    scale = max(1.0, float(np.max(np.abs(total[Pd]))))
    # the LU product re-associates O(nv) float32 products of magnitude |A|
    floor = 8 * U32 * (np.abs(Mfull) + dt * np.abs(total)) / dt + 8 * U32 * (np.abs(Uf) @ np.abs(np.tril(LU))) / dt
    v = _verdict(rec, "implicit_matrix", gotB, [qD, total], Pd, floor, scale)
    if v is not None:
      # two recognised, separately reported defects can explain a mismatch (alone or together):
      #  S: the Coriolis derivative is subtracted instead of added;  U: the passive/actuator part is stored symmetrically (M structure), so the upper
      #  triangle receives the lower triangle's value although the ellipsoid fluid derivative is not symmetric under the implicit integrator
      S = 2 * gotR
      Uc = np.triu(PA.T - PA, 1)  # mirrored lower minus true upper, from either oracle (they can differ by ~1e-3 for ellipsoid fluid)
      PAa = qD - R
      Ua = np.triu(PAa.T - PAa, 1)
      found = None
      for tag, c in (("S", S), ("U", -Uc), ("U", -Ua), ("SU", S - Uc), ("SU", S - Ua)):
        if "U" in tag and "fluid-ellipsoid" not in mech:
          continue
        if _verdict(rec, "implicit_matrix", gotB + c, [qD, total], Pd, floor, scale) is None:
          found = tag
          break
      if found is None:
        rec.violation(v[0], sig="implicit:matrix", **ctx, **v[1])
      if "S" in found:
        rec.cls("implicit:rne-sign-seen")
        rec.violation("mjw.implicit factorises M - dt*dPA/dv - dt*d(qfrc_bias)/dv: the Coriolis/centrifugal derivative enters with the wrong sign (correct: M - dt*dPA/dv + dt*d(qfrc_bias)/dv). " + v[0], sig="implicit:rne-sign", **ctx, **v[1])
      if "U" in found:
        rec.cls("implicit:fluid-upper-seen")
        rec.violation("mjw.implicit fills the upper triangle of the passive/actuator derivative with the lower triangle's values (M-structure storage), but the ellipsoid fluid derivative is not symmetric under the implicit integrator. " + v[0], sig="implicit:fluid-upper-triangle", **ctx, **v[1])
  if len(mech) >= 2:
    rec.nt()
