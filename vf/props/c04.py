"""C04 Collision detection agrees with MuJoCo C (differential, contact multisets)."""

from __future__ import annotations

import numpy as np
from hypothesis import strategies as st

import mujoco
import mujoco_warp as mjw

from vf import gen, mjw as H
from vf.core import Reject, check_close, check_equal

RULE = (
  "case = scene of 2-6 geoms (sphere/capsule/ellipsoid/cylinder/box/mesh/plane) on free or static bodies, chain placement at drawn "
  "separations (deep/shallow/touching/near/far; axis-aligned or random orientation), priority/solmix/solref/solimp/friction/condim/margin/gap, "
  "explicit pairs, both cones, NATIVECCD on/off, nworld 1-2; oracle = mj_forward contacts as a multiset per geom pair. Primitive pairs: exact "
  "count + dist/pos/normal 1e-4; single-contact CCD pairs: count + geometry to 2e-3; multi-contact CCD pairs (box-box native, box-mesh, "
  "mesh-mesh): presence + deepest penetration + parameters. non-trivial = MuJoCo reports >=1 contact; distinct by sha1(case)"
)
ASSUMPTIONS = [
  "MuJoCo C 3.13 mj_collision is the reference",
  "pairs whose MuJoCo distance is within 2e-4 of the inclusion margin are boundary-skipped",
  "multi-contact CCD pairs: contact count is not compared (algorithms differ by design, put_model warns)",
]
BUDGET = {
  "quick": dict(examples=800, seconds=420, workers=16),
  "thorough": dict(examples=24000, seconds=1500, workers=16),
}

_MENUS = [
  ["sphere", "capsule", "box"],
  ["sphere", "capsule", "cylinder", "box"],
  ["sphere"],
  ["box"],
  ["capsule"],
  ["sphere", "ellipsoid", "capsule"],
  ["ellipsoid", "cylinder", "box"],
  ["mesh", "box", "sphere"],
  ["mesh", "capsule", "cylinder", "ellipsoid"],
]

_PRIM = {
  ("plane", "sphere"), ("plane", "capsule"), ("plane", "ellipsoid"), ("plane", "cylinder"), ("plane", "box"), ("plane", "mesh"),
  ("sphere", "sphere"), ("sphere", "capsule"), ("sphere", "cylinder"), ("sphere", "box"), ("capsule", "capsule"), ("capsule", "box"),
}
_MULTI = {("box", "box"), ("box", "mesh"), ("mesh", "mesh")}
_TNAME = {0: "plane", 1: "hfield", 2: "sphere", 3: "capsule", 4: "ellipsoid", 5: "cylinder", 6: "box", 7: "mesh"}


def strategy(tier):
  return st.fixed_dictionaries(
    dict(
      scene=gen.scene_strategy(types=st.sampled_from(_MENUS), nmax=6 if tier == "thorough" else 5, late_plane=st.sampled_from([False, False, True])),
      cone=st.sampled_from(["pyramidal", "elliptic"]),
      nativeccd=st.booleans(),
      multiccd=st.booleans(),
      nworld=st.sampled_from([1, 2]),
      jitter_seed=st.integers(0, 10**6),
    )
  )


def pair_class(mjm, g1, g2, multiccd=True):
  t1, t2 = _TNAME[int(mjm.geom_type[g1])], _TNAME[int(mjm.geom_type[g2])]
  key = (t1, t2) if (t1, t2) in _PRIM else (t2, t1)
  if key == ("plane", "mesh"):
    return "planemesh", key
  if key in _PRIM:
    return "prim", key
  key = tuple(sorted((t1, t2)))
  if key == ("box", "box"):
    # MuJoCo: CCD (native or libccd); MJWarp: CCD multi-contact or (NATIVECCD disabled) its box-box primitive -> different contact sets by design
    return "multi", key
  if multiccd and not ({"sphere", "ellipsoid"} & set(key)):
    return "multi", key
  return "ccd", key


def build(case):
  sc = dict(case["scene"])
  flags = {}
  if not case["nativeccd"]:
    flags["nativeccd"] = "disable"
  if not case.get("multiccd", True):
    flags["multiccd"] = "disable"
  sc["option"] = dict(cone=case["cone"], flags=flags) if flags else dict(cone=case["cone"])
  spec = gen.make_scene(sc)
  return H.compile_spec(spec)


def _ref(mjm, xpos, xmat, key):
  from vf import geomref

  A = geomref.geom_from_model(mjm, xpos, xmat, key[0])
  B = geomref.geom_from_model(mjm, xpos, xmat, key[1])
  for P, X, sgn in ((A, B, 1.0), (B, A, -1.0)):
    if P["type"] == "plane":
      # half-space vs convex geom: signed distance = lowest point of the geom above the plane (closed form, no direction search)
      nrm = np.asarray(P["mat"], dtype=np.float64)[:, 2]
      low = -float(geomref.support(X["type"], X["size"], X["pos"], X["mat"], -nrm[None, :], X.get("verts"))[0])
      return low - float(nrm @ P["pos"]), sgn * nrm, A, B
  dist, direction = geomref.signed_distance(A, B)
  return dist, direction, A, B


def _witness_ok(A, B, pos, n, dist, tol):
  """pos -/+ n*dist/2 must be extreme points of A along n and of B along -n."""
  from vf import geomref

  p1 = pos - 0.5 * dist * n
  p2 = pos + 0.5 * dist * n
  hA = float(geomref.support(A["type"], A["size"], A["pos"], A["mat"], n, A.get("verts"))[0])
  hB = float(geomref.support(B["type"], B["size"], B["pos"], B["mat"], -n, B.get("verts"))[0])
  return abs(float(n @ p1) - hA) < tol and abs(float(-n @ p2) - hB) < tol


def compare_world(rec, mjm, cw, cm, xpos, xmat, world, multiccd=True, nativeccd=True, ctx=None):
  """cw: mjwarp contacts (dict of arrays), cm: mujoco contacts; xpos/xmat: MuJoCo geom poses (for the geometric reference)."""
  ctx = ctx or {}
  pairs_w = {}
  for i in range(len(cw["dist"])):
    pairs_w.setdefault((int(cw["geom"][i][0]), int(cw["geom"][i][1])), []).append(i)
  pairs_m = {}
  for i in range(len(cm["dist"])):
    pairs_m.setdefault((int(cm["geom"][i][0]), int(cm["geom"][i][1])), []).append(i)
  for key in sorted(set(pairs_w) | set(pairs_m)):
    iw, im = pairs_w.get(key, []), pairs_m.get(key, [])
    if not im and (key[1], key[0]) in pairs_m:
      rec.violation(f"geom pair {key} reported in swapped order", sig="geom-order", pair=list(key), world=world, **ctx)
    cls, tkey = pair_class(mjm, key[0], key[1], multiccd)
    rec.cls(f"pair:{cls}:{tkey[0]}-{tkey[1]}")
    band = 2e-4 if cls == "prim" else 3e-3
    near_w = [abs(cw["dist"][i] - cw["includemargin"][i]) < band for i in iw]
    near_m = [abs(cm["dist"][i] - cm["includemargin"][i]) < band for i in im]
    info = dict(pair=list(key), cls=cls, types=list(tkey), n_mjw=len(iw), n_mj=len(im), world=world, dist_mjw=[float(cw["dist"][i]) for i in iw], dist_mj=[float(cm["dist"][i]) for i in im], **ctx)
    if not iw and im:
      # explicit <pair> whose margin band is wider than the geoms' own margin+gap: lost in the broadphase (known finding)
      explicit = any({int(mjm.pair_geom1[k]), int(mjm.pair_geom2[k])} == set(key) for k in range(mjm.npair))
      gsum = float(mjm.geom_margin[key[0]] + mjm.geom_margin[key[1]] + mjm.geom_gap[key[0]] + mjm.geom_gap[key[1]])
      if explicit and min(float(cm["dist"][i]) for i in im) > gsum - 0.02:
        rec.violation(f"explicit pair contact inside the pair margin band but outside the geoms' margins is not detected {info}", sig="pair-margin:broadphase", **info)
        continue
    if cls == "planemesh":
      # MJWarp keeps only the (<=4) hull vertices within 1e-3 of the deepest one, MuJoCo every vertex inside the margin
      if len(iw) != len(im) and iw and im and not (any(near_w) or any(near_m)):
        rec.violation(f"plane-mesh contact count differs {info}", sig="planemesh:count", **info)
      cls = "multi"
    if cls == "multi" or cls == "ccd":
      if bool(iw) != bool(im):
        if any(near_w) or any(near_m):
          rec.boundary_skipped += 1
          continue
        # arbitrate with the geometric reference: who is right about inclusion?
        dref, _, _, _ = _ref(mjm, xpos, xmat, key)
        marg = float((cw["includemargin"][iw[0]] if iw else cm["includemargin"][im[0]]))
        should = dref < marg - band
        shouldnt = dref > marg + band
        if (iw and should) or (not iw and shouldnt):
          rec.notes["mujoco_disagrees_with_reference"] += 1
          continue
        if not should and not shouldnt:
          rec.boundary_skipped += 1
          continue
        kind = "missed" if not iw else "spurious"
        rec.violation(f"{cls} pair presence differs (reference distance {dref:.5f}, margin {marg:.5f}) {info}", sig=f"ccd-{kind}", dref=dref, **info)
        continue
      if not iw:
        continue
      if cls == "ccd" and len(iw) != len(im):
        if any(near_w) or any(near_m):
          rec.boundary_skipped += 1
          continue
        rec.violation(f"contact count differs {info}", sig="count:ccd", **info)
        continue
      jw = min(iw, key=lambda i: cw["dist"][i])
      jm = min(im, key=lambda i: cm["dist"][i])
      dw, dm = float(cw["dist"][jw]), float(cm["dist"][jm])
      for f in ("dim", "friction", "solref", "solreffriction", "solimp", "includemargin"):
        check_close(rec, f"contact.{f}", cw[f][jw], cm[f][jm], 1e-5, sig=f"param:{f}", **info)
      nw = np.array(cw["frame"][jw][0], dtype=np.float64)
      pw = np.array(cw["pos"][jw], dtype=np.float64)
      agree_mj = abs(dw - dm) <= 3e-3
      rec.err(f"dist[{cls}] vs mujoco", abs(dw - dm)) if agree_mj else None
      ok_geom = agree_mj and cls == "ccd" and np.linalg.norm(nw - cm["frame"][jm][0]) < 2e-2 and np.linalg.norm(pw - cm["pos"][jm]) < 1e-2
      if ok_geom or (agree_mj and cls == "multi"):
        continue
      # disagreement with MuJoCo: the geometric reference decides
      dref, nref, A, B = _ref(mjm, xpos, xmat, key)
      rec.notes["arbitrated_by_reference"] += 1
      rmin = min(float(mjm.geom_rbound[key[0]]), float(mjm.geom_rbound[key[1]]))
      if dref < -0.25 * rmin and dw < 0 and dm < 0 and not (tkey == ("box", "box") and not nativeccd):
        # deep penetration: EPA depth/normal are not reliable in either implementation (MuJoCo, MJWarp and the
        # reference disagree with each other here); only presence, sign and parameters are judged
        rec.boundary_skipped += 1
        rec.notes["deep_ccd_geometry_skipped"] += 1
        continue
      if abs(dw - dref) > 4e-3:
        if abs(dm - dref) > 4e-3 and abs(dw - dm) <= 3e-3:
          continue  # both agree with each other; reference search may have missed (non-convex sampling error): accept
        if tkey == ("box", "box") and not nativeccd and dw < dref and any(abs(float(cw["dist"][i]) - dref) < 4e-3 for i in iw):
          # MJWarp's box-box primitive: the true-depth contact is present, plus extra contacts deeper than the overlap along the normal
          rec.violation(f"box-box primitive emits contacts deeper ({dw:.5f}) than the overlap along the contact normal ({dref:.5f}) {info}", sig="boxbox-prim:extra-deep", dref=dref, **info)
          continue
        if tkey == ("box", "box") and not nativeccd and dw < dref - 4e-3 and abs(dm - dref) <= 4e-3:
          # same primitive, second symptom: every contact of the pair is deeper than the overlap along the normal (no true-depth contact at all)
          rec.violation(f"box-box primitive reports depth {dw:.5f} for all contacts where the overlap along the normal is {dref:.5f} (MuJoCo {dm:.5f}) {info}", sig="boxbox-prim:all-too-deep", dref=dref, **info)
          continue
        rec.violation(f"{cls} distance {dw:.5f} differs from MuJoCo {dm:.5f} and from the geometric reference {dref:.5f} {info}", sig=f"geom:{cls}:dist:{tkey[0]}-{tkey[1]}", dref=dref, **info)
        continue
      if cls == "ccd":
        # normal must be an (almost) optimal separating direction, witness points must be extreme points
        from vf import geomref

        sA = -float(geomref.support(B["type"], B["size"], B["pos"], B["mat"], -nw, B.get("verts"))[0]) - float(geomref.support(A["type"], A["size"], A["pos"], A["mat"], nw, A.get("verts"))[0])
        if abs(sA - dref) > 4e-3 + 0.1 * abs(dref):
          rec.violation(f"ccd normal is not a separating direction of depth {dref:.5f} (gives {sA:.5f}) {info}", sig="geom:ccd:normal", dref=dref, **info)
        elif not _witness_ok(A, B, pw, nw, dw, 1e-2):
          rec.violation(f"ccd contact position is not midway between extreme points {info}", sig="geom:ccd:pos", dref=dref, **info)
      continue
    # primitive pairs: exact multiset
    if len(iw) != len(im):
      if any(near_w) or any(near_m):
        rec.boundary_skipped += 1
        continue
      if tkey == ("capsule", "capsule"):
        # exactly parallel capsules switch to a 2-contact branch (|det| < mjMINVAL): a float32/float64 discontinuity
        a1 = np.asarray(xmat[key[0]]).reshape(3, 3)[:, 2]
        a2 = np.asarray(xmat[key[1]]).reshape(3, 3)[:, 2]
        if np.linalg.norm(np.cross(a1, a2)) < 1e-3:
          rec.boundary_skipped += 1
          continue
      rec.violation(f"contact count differs {info}", sig="count:prim", **info)
      continue
    if not iw:
      continue
    sub_w = {k: v[iw] for k, v in cw.items()}
    sub_m = {k: v[im] for k, v in cm.items()}
    match, ua, ub = H.match_contacts(sub_w, sub_m)
    degenerate = False
    if set(tkey) <= {"sphere", "capsule"} or tkey == ("sphere", "cylinder"):
      r1, r2 = float(mjm.geom_size[key[0]][0]), float(mjm.geom_size[key[1]][0])
      # coincident centres/axes: the normal is arbitrary;  (near-)parallel capsules: positions are ill-conditioned
      degenerate = any(abs(float(x) + r1 + r2) < 1e-4 for x in sub_m["dist"])
      if tkey == ("capsule", "capsule"):
        a1 = np.asarray(xmat[key[0]]).reshape(3, 3)[:, 2]
        a2 = np.asarray(xmat[key[1]]).reshape(3, 3)[:, 2]
        degenerate |= np.linalg.norm(np.cross(a1, a2)) < 1e-3
    if tkey == ("plane", "cylinder"):
      # cylinder axis along the plane normal: the rim points are chosen along the (numerically arbitrary) direction of a
      # vanishing vector - MuJoCo normalises float64 noise, MJWarp falls back to the x axis below 1e-6
      ip, ic = (key[0], key[1]) if int(mjm.geom_type[key[0]]) == 0 else (key[1], key[0])
      npl = np.asarray(xmat[ip]).reshape(3, 3)[:, 2]
      acy = np.asarray(xmat[ic]).reshape(3, 3)[:, 2]
      degenerate |= np.linalg.norm(np.cross(npl, acy)) < 1e-3
    if degenerate:
      rec.boundary_skipped += 1
    dup_m = set()
    if set(tkey) == {"capsule", "box"} and len(sub_m["dist"]) == 2 and float(np.linalg.norm(np.asarray(sub_m["pos"][0]) - np.asarray(sub_m["pos"][1]))) < 1e-4:
      # MuJoCo's capsule-box routine sometimes returns the deepest point twice instead of a second contact (thorough tier: both of its contacts at the same
      # position, MJWarp's second contact is the capsule's other end sphere at its true depth): only the deepest contact is compared with such a duplicate
      jdeep = int(np.argmin(sub_w["dist"]))
      dup_m = {a for a, b in match if a != jdeep}
      rec.boundary_skipped += 1
      rec.notes["mujoco_capsule_box_duplicate_contact"] += 1
    for a, b in match:
      if a in dup_m:
        continue
      check_equal(rec, "contact.dim", sub_w["dim"][a], sub_m["dim"][b], sig="param:dim", **info)
      for f in ("friction", "solref", "solreffriction", "solimp", "includemargin"):
        check_close(rec, f"contact.{f}", sub_w[f][a], sub_m[f][b], 1e-5, sig=f"param:{f}", **info)
      check_close(rec, "contact.dist[prim]", sub_w["dist"][a], sub_m["dist"][b], 1e-4, scale=1.0, sig="geom:prim:dist", **info)
      if degenerate:
        continue
      nw_ = np.array(sub_w["frame"][a][0], dtype=np.float64)
      pw_ = np.array(sub_w["pos"][a], dtype=np.float64)
      if np.max(np.abs(pw_ - sub_m["pos"][b])) > 1e-4 or np.max(np.abs(nw_ - sub_m["frame"][b][0])) > 1e-4:
        # same distance, different point/normal: accept only if it is an equally valid answer (symmetric configuration):
        # the normal must realise the same separation and both witness points must be extreme points of their geoms
        if "plane" not in tkey:
          from vf import geomref

          _, _, A, B = _ref(mjm, xpos, xmat, key) if False else (None, None, geomref.geom_from_model(mjm, xpos, xmat, key[0]), geomref.geom_from_model(mjm, xpos, xmat, key[1]))
          sn = -float(geomref.support(B["type"], B["size"], B["pos"], B["mat"], -nw_, B.get("verts"))[0]) - float(geomref.support(A["type"], A["size"], A["pos"], A["mat"], nw_, A.get("verts"))[0])
          if abs(sn - float(sub_w["dist"][a])) < 2e-4 and _witness_ok(A, B, pw_, nw_, float(sub_w["dist"][a]), 2e-4):
            rec.notes["prim_equivalent_answer"] += 1
            continue
        else:
          from vf import geomref

          gi = key[1] if tkey[0] == "plane" and int(mjm.geom_type[key[0]]) == 0 else key[0]
          Bg = geomref.geom_from_model(mjm, xpos, xmat, gi)
          p2 = pw_ + 0.5 * float(sub_w["dist"][a]) * nw_ * (1.0 if gi == key[1] else -1.0)
          hB = float(geomref.support(Bg["type"], Bg["size"], Bg["pos"], Bg["mat"], -nw_ if gi == key[1] else nw_, Bg.get("verts"))[0])
          if np.max(np.abs(nw_ - sub_m["frame"][b][0])) < 1e-4 and abs(float((-nw_ if gi == key[1] else nw_) @ p2) - hB) < 2e-4:
            rec.notes["prim_equivalent_answer"] += 1
            continue
      check_close(rec, "contact.pos[prim]", sub_w["pos"][a], sub_m["pos"][b], 1e-4, scale=1.0, sig="geom:prim:pos", **info)
      check_close(rec, "contact.normal[prim]", sub_w["frame"][a][0], sub_m["frame"][b][0], 1e-4, scale=1.0, sig="geom:prim:normal", **info)


def check(case, rec):
  mjm = build(case)
  nworld = case["nworld"]
  m = H.put_model(mjm)
  d = H.make_data(mjm, nworld=nworld, nconmax=100, njmax=400)
  g = np.random.default_rng(case["jitter_seed"])
  states = []
  for w in range(nworld):
    q = np.array(mjm.qpos0)
    if w > 0:
      # other worlds: jitter positions so worlds differ
      for j in range(mjm.njnt):
        a = mjm.jnt_qposadr[j]
        q[a : a + 3] += g.normal(size=3) * 0.02
    states.append(dict(qpos=H.f32(q), qvel=np.zeros(mjm.nv)))
  H.set_data(d, states)
  mjw.kinematics(m, d)
  mjw.collision(m, d)
  if int(d.nacon.numpy()[0]) > d.naconmax:
    rec.inconclusive += 1
    return
  any_contact = False
  for w in range(nworld):
    mjd = mujoco.MjData(mjm)
    H.set_mjd(mjd, states[w])
    mujoco.mj_kinematics(mjm, mjd)
    mujoco.mj_collision(mjm, mjd)
    rec.ev()
    cm = H.mj_contacts(mjd)
    cw = H.contacts(d, w)
    any_contact |= len(cm["dist"]) > 0
    compare_world(rec, mjm, cw, cm, np.array(mjd.geom_xpos), np.array(mjd.geom_xmat), w, multiccd=case["multiccd"], nativeccd=case["nativeccd"])
  rec.cls(f"cone:{case['cone']}", f"contacts:{any_contact}")
  if any_contact:
    rec.nt()
