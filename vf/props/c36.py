"""C36 Results do not depend on what else ran in the process (in-sequence vs fresh process, bitwise)."""

from __future__ import annotations

import json
import os
import subprocess
import sys

import numpy as np
from hypothesis import strategies as st

from vf import gen, x36_item
from vf.core import VERIF, Reject

RULE = (
  "case = program of 2-10 items run one after another in one fresh process; an item = (model, options, flags, Model-only options, capacities, nworld, state, nstep<=3). "
  "The last item is the subject; the FIRST item is the subject with a random half of its 31 configuration dimensions changed (integrator / solver / cone / jacobian, 18 enable/disable flags incl. SLEEP, ISLAND, "
  "NATIVECCD, GRAVITY, broadphase type, broadphase filter, warn_overflow, fluid, nworld, nconmax, njmax, geom-type inventory, state): whatever process-global cache entry it creates first is what the subject "
  "finds if the key forgets one of the changed dimensions; then 0-8 one-dimension variants of the subject. "
  "Oracle: the last item's result (qpos, qvel, act, qacc, warmstart, sensordata, qfrc_constraint, time, overflow, nefc, solver_niter and the sorted contact list) in-sequence is bit-identical to the same item run "
  "alone in a fresh Python process; evaluation = one program; non-trivial = the subject produced contacts or constraint rows (every program starts with a half-changed variant of it)"
)
ASSUMPTIONS = [
  "CPU device: kernels are deterministic, so bitwise equality across processes is the oracle",
  "the fresh process uses the same on-disk kernel cache (compiled binaries are keyed by source hash)",
]
BUDGET = {"quick": dict(examples=96, seconds=420, workers=16), "thorough": dict(examples=3000, seconds=2400, workers=16)}

# flags toggled one at a time (name, the non-default value)
_FLAGS = [("nativeccd", "disable"), ("multiccd", "disable"), ("island", "disable"), ("energy", "enable"), ("warmstart", "disable"), ("sleep", "enable"), ("gravity", "disable"),
          ("contact", "disable"), ("constraint", "disable"), ("filterparent", "disable"), ("frictionloss", "disable"), ("limit", "disable"), ("equality", "disable"),
          ("eulerdamp", "disable"), ("refsafe", "disable"), ("actuation", "disable"), ("damper", "disable"), ("spring", "disable")]
_FLAGSETS = [{}, {"nativeccd": "disable"}, {"sleep": "enable"}, {"sleep": "enable"}, {"sleep": "enable"}, {"nativeccd": "disable"}, {"island": "disable"}, {"sleep": "enable", "island": "disable"}, {"warmstart": "disable"}, {"energy": "enable"}]
# options that exist only on mjw.Model (set after put_model) or feed kernel specialisation: values menu per dimension (None = default)
_MOPT = dict(
  broadphase=[0, 1, 2],  # NXN / SAP_TILE / SAP_SEGMENTED (None = default is added by the item strategy)
  broadphase_filter=[None, 1, 3, 7, 31],
  warn_overflow=[None, False],
  fluid=[None, [1.2, 0.0], [20.0, 0.3]],  # option density / viscosity
)
_OPT = dict(integrator=["Euler", "implicitfast", "implicit", "RK4"], solver=["Newton", "CG"], cone=["pyramidal", "elliptic"], jacobian=["dense", "sparse"])
_SCENE_TYPES = [["box"], ["sphere", "box"], ["box", "capsule"], ["sphere", "capsule", "box"], ["box", "mesh"], ["ellipsoid", "cylinder", "box"]]
_GEOM_MENUS = [["sphere", "capsule", "box"], ["box"], ["sphere"], ["capsule", "box"]]
_DIMS = [f"opt.{k}" for k in _OPT] + [f"flag.{k}" for k, _ in _FLAGS] + [f"mopt.{k}" for k in _MOPT] + ["nworld", "nconmax", "njmax", "inventory", "state"]


def _item(scene):
  base = dict(
    opt=gen.option_strategy(),
    flags=st.sampled_from(_FLAGSETS),
    nworld=st.sampled_from([1, 1, 2, 3]),
    nconmax=st.sampled_from([40, 120]),
    njmax=st.sampled_from([120, 400]),
    state_seed=st.integers(0, 10**6),
    nstep=st.integers(1, 3),
    scene=st.just(scene),
    asleep=st.sampled_from([0.5, 1.0, 1.0]),  # with the sleep flag on: fraction of islands / unconstrained trees that start asleep
    mopt=st.fixed_dictionaries({k: st.sampled_from([None] + v) for k, v in _MOPT.items()}),
  )
  if scene:
    base["cfg"] = gen.scene_strategy(types=st.sampled_from(_SCENE_TYPES), nmax=5)
  else:
    base["cfg"] = gen.rich_cfg(nroot=st.integers(1, 3), actuators=st.integers(0, 2), act_menu=st.sampled_from([["motor", "position"], ["adhesion", "motor"], ["general", "damper"]]), geom_menu=st.sampled_from(_GEOM_MENUS),
                               sleep_policy=st.sampled_from([None, ["auto", "never", "allowed", "init"], ["init", "allowed"]]))
  return st.fixed_dictionaries(base)


def _other(draw, menu, cur):
  alt = [v for v in menu if v != cur]
  return draw(st.sampled_from(alt)) if alt else cur


def _flip(draw, base, dim, scene):
  """The same item with exactly one configuration dimension changed: the two then agree on every other component of any cache key."""
  it = json.loads(json.dumps(base))
  kind, _, name = dim.partition(".")
  if kind == "opt":
    it["opt"][name] = _other(draw, _OPT[name], it["opt"][name])
  elif kind == "flag":
    val = dict(_FLAGS)[name]
    if name in it["flags"]:
      del it["flags"][name]
    else:
      it["flags"][name] = val
  elif kind == "mopt":
    it["mopt"][name] = _other(draw, _MOPT[name], it["mopt"][name])
  elif dim == "nworld":
    it["nworld"] = _other(draw, [1, 2, 3], it["nworld"])
  elif dim == "nconmax":
    it["nconmax"] = _other(draw, [40, 120], it["nconmax"])
  elif dim == "njmax":
    it["njmax"] = _other(draw, [120, 400], it["njmax"])
  elif dim == "inventory":  # same generator seed (same tree and sizes), other geom types / condims
    if scene:
      it["cfg"]["types"] = _other(draw, _SCENE_TYPES, it["cfg"]["types"])
    else:
      it["cfg"]["geom_menu"] = _other(draw, _GEOM_MENUS, it["cfg"]["geom_menu"])
  elif dim == "state":
    it["state_seed"] = it["state_seed"] + 1
    it["nstep"] = 1 + it["nstep"] % 3
  it["kind"] = "flip:" + dim
  return it


@st.composite
def _program(draw):
  """[H, subject]: H is the subject with a random half of its configuration dimensions changed, run first in the fresh process.

  A process-global cache that forgets dimension d in its key is poisoned by the FIRST item that builds the entry: the subject then inherits H's entry whenever H
  differs from it in d and agrees on the dimensions the key does contain.  (Running every one-dimension variant before the subject - the previous design - tests
  almost nothing: the second variant already shares the subject's value of d and builds the right entry first.)  With each dimension flipped independently
  with probability 1/2, any (missing d, included set K) is hit with probability 2^-(1+|K|) per program."""
  scene = draw(st.booleans())
  subject = draw(_item(scene))
  mask = draw(st.lists(st.booleans(), min_size=len(_DIMS), max_size=len(_DIMS)))
  if not any(mask):
    mask[draw(st.integers(0, len(_DIMS) - 1))] = True
  h = subject
  flipped = []
  for dname, on in zip(_DIMS, mask):
    if on:
      h = _flip(draw, h, dname, scene)
      flipped.append(dname)
  h["kind"] = "half:" + ",".join(flipped)
  items = [h]
  # 0-8 one-dimension variants in between: more uses of every process-global structure before the subject (state that wears out with use rather than with the first use)
  for dname in draw(st.lists(st.sampled_from(_DIMS), min_size=0, max_size=8, unique=True)):
    items.append(_flip(draw, subject, dname, scene))
  items.append(dict(subject, kind="subject"))
  return dict(items=items)


def strategy(tier):
  return _program()


def _fresh(item):
  env = dict(os.environ)
  env["PYTHONPATH"] = VERIF + os.pathsep + env.get("PYTHONPATH", "")
  p = subprocess.run([sys.executable, "-m", "vf.x36_item"], input=json.dumps(item), capture_output=True, text=True, cwd=VERIF, env=env, timeout=900)
  marker = "@@RESULT@@"
  if marker not in p.stdout:
    raise RuntimeError(f"fresh process failed rc={p.returncode}: {p.stderr[-1500:]}")
  res = json.loads(p.stdout.split(marker, 1)[1])
  if res["status"] == "reject":
    raise Reject(res["msg"])
  return x36_item.decode(res["out"])


def check(case, rec):
  items = case["items"]
  # both sides run in processes of their own: the program (variants, then the subject) in one, the subject alone in another.  The verdict then depends
  # on the program only - not on what this worker ran before - and the replay file reproduces it
  last = _fresh(items)  # Reject propagates: the program's subject is outside the domain
  if not all(np.all(np.isfinite(last[k])) for k in ("qpos", "qvel", "qacc")):
    rec.inconclusive += 1
    return
  ref = _fresh(items[-1])
  rec.ev()
  for k in sorted(ref):
    a, b = last[k], ref[k]
    if a.shape != b.shape or a.dtype != b.dtype or a.tobytes() != b.tobytes():
      same_shape = a.shape == b.shape
      diff = float(np.max(np.abs(a.astype(np.float64) - b.astype(np.float64)))) if same_shape and a.size else None
      rec.violation(
        f"{k} of the last item differs between the in-sequence run and a fresh process (max abs diff {diff}, shapes {a.shape} vs {b.shape}); program kinds {[i['kind'] for i in items]}",
        sig=f"history:{k.split('.')[0]}", field=k, maxdiff=diff,
      )
  kinds = [i["kind"] for i in items]
  rec.cls(f"scene:{items[-1]['scene']}", f"len:{len(items)}", f"nacon>0:{int(last['nacon'][0]) > 0}", f"nefc>0:{int(last['nefc'].max()) > 0}")
  rec.cls(f"nflipped:{min(8, kinds[0].count(',') + 1) // 2 * 2}+")
  if int(last["nacon"][0]) > 0 or int(last["nefc"].max()) > 0:
    rec.nt()
