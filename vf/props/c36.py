"""C36 Results do not depend on what else ran in the process (in-sequence vs fresh process, bitwise)."""

from __future__ import annotations

import json
import os
import subprocess
import sys

import numpy as np
from hypothesis import strategies as st

from vf import gen, x36_item
from vf.core import VERIF, Reject

RULE = (
  "case = program of 2-4 items run one after another in one process (which also carries the history of the worker's earlier cases); an item = (model, options, capacities, nworld, state, nstep<=3). "
  "Items are drawn so that consecutive ones collide on the keys of MJWarp's process-global caches while differing in meaning: the same model compiled with different cone / solver / jacobian / integrator / "
  "NATIVECCD / MULTICCD flags, the same sizes with different geom-type inventories, the same model with other capacities or world counts, and contact scenes with different collision-pair sets. "
  "Oracle: the last item's result (qpos, qvel, act, qacc, warmstart, sensordata, qfrc_constraint, time, overflow, nefc, solver_niter and the sorted contact list) in-sequence is bit-identical to the same item run "
  "alone in a fresh Python process; evaluation = one program; non-trivial = the last item shares its model or its sizes with an earlier item of the program while differing in options/inventory/capacities"
)
ASSUMPTIONS = [
  "CPU device: kernels are deterministic, so bitwise equality across processes is the oracle",
  "the fresh process uses the same on-disk kernel cache (compiled binaries are keyed by source hash)",
]
BUDGET = {"quick": dict(examples=64, seconds=150, workers=16), "thorough": dict(examples=3000, seconds=2400, workers=16)}

_FLAGSETS = [{}, {"nativeccd": "disable"}, {"multiccd": "disable"}, {"nativeccd": "disable", "multiccd": "disable"}, {"island": "disable"}, {"energy": "enable"}, {"warmstart": "disable"}]


def _item(scene):
  base = dict(
    opt=gen.option_strategy(),
    flags=st.sampled_from(_FLAGSETS),
    nworld=st.sampled_from([1, 1, 2, 3]),
    nconmax=st.sampled_from([40, 120]),
    njmax=st.sampled_from([120, 400]),
    state_seed=st.integers(0, 10**6),
    nstep=st.integers(1, 3),
    scene=st.just(scene),
  )
  if scene:
    base["cfg"] = gen.scene_strategy(types=st.sampled_from([["box"], ["sphere", "box"], ["box", "capsule"], ["sphere", "capsule", "box"], ["box", "mesh"], ["ellipsoid", "cylinder", "box"]]), nmax=5)
  else:
    base["cfg"] = gen.rich_cfg(nroot=st.integers(1, 3), actuators=st.integers(0, 2), geom_menu=st.sampled_from([["sphere", "capsule", "box"], ["box"], ["sphere"], ["capsule", "box"]]))
  return st.fixed_dictionaries(base)


@st.composite
def _program(draw):
  scene = draw(st.booleans())
  first = draw(_item(scene))
  items = [first]
  n = draw(st.integers(2, 4))
  for _ in range(n - 1):
    kind = draw(st.sampled_from(["same-model-other-options", "same-model-other-options", "same-sizes-other-inventory", "same-model-other-capacities", "fresh"]))
    prev = items[-1]
    new = draw(_item(scene))
    if kind == "same-model-other-options":
      new = dict(new, cfg=prev["cfg"], nconmax=prev["nconmax"], njmax=prev["njmax"], nworld=prev["nworld"])
    elif kind == "same-sizes-other-inventory":
      # same generator seed (same tree and sizes), other geom types / condims
      cfg = dict(prev["cfg"])
      if scene:
        cfg["types"] = new["cfg"]["types"]
        cfg["condim_menu"] = new["cfg"]["condim_menu"]
      else:
        cfg["geom_menu"] = new["cfg"]["geom_menu"]
        cfg["condim_menu"] = new["cfg"]["condim_menu"]
      new = dict(new, cfg=cfg, nconmax=prev["nconmax"], njmax=prev["njmax"], nworld=prev["nworld"])
    elif kind == "same-model-other-capacities":
      new = dict(new, cfg=prev["cfg"], opt=prev["opt"], flags=prev["flags"])
    new["kind"] = kind
    items.append(new)
  items[0]["kind"] = "first"
  return dict(items=items)


def strategy(tier):
  return _program()


def _fresh(item):
  env = dict(os.environ)
  env["PYTHONPATH"] = VERIF + os.pathsep + env.get("PYTHONPATH", "")
  p = subprocess.run([sys.executable, "-m", "vf.x36_item"], input=json.dumps(item), capture_output=True, text=True, cwd=VERIF, env=env, timeout=900)
  marker = "@@RESULT@@"
  if marker not in p.stdout:
    raise RuntimeError(f"fresh process failed rc={p.returncode}: {p.stderr[-1500:]}")
  res = json.loads(p.stdout.split(marker, 1)[1])
  if res["status"] == "reject":
    raise Reject(res["msg"])
  return x36_item.decode(res["out"])


def check(case, rec):
  items = case["items"]
  last = None
  for it in items[:-1]:
    try:
      x36_item.run_item(it)
    except Reject:
      rec.cls("earlier-item-rejected")
  last = x36_item.run_item(items[-1])  # Reject propagates: the program's subject is outside the domain
  if not all(np.all(np.isfinite(last[k])) for k in ("qpos", "qvel", "qacc")):
    rec.inconclusive += 1
    return
  ref = _fresh(items[-1])
  rec.ev()
  for k in sorted(ref):
    a, b = last[k], ref[k]
    if a.shape != b.shape or a.dtype != b.dtype or a.tobytes() != b.tobytes():
      same_shape = a.shape == b.shape
      diff = float(np.max(np.abs(a.astype(np.float64) - b.astype(np.float64)))) if same_shape and a.size else None
      rec.violation(
        f"{k} of the last item differs between the in-sequence run and a fresh process (max abs diff {diff}, shapes {a.shape} vs {b.shape}); program kinds {[i['kind'] for i in items]}",
        sig=f"history:{k.split('.')[0]}", field=k, maxdiff=diff,
      )
  kinds = [i["kind"] for i in items]
  rec.cls(f"last:{kinds[-1]}", f"scene:{items[-1]['scene']}", f"len:{len(items)}", f"nacon>0:{int(last['nacon'][0]) > 0}", f"nefc>0:{int(last['nefc'].max()) > 0}")
  if kinds[-1] != "fresh":
    rec.nt()
