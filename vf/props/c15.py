"""C15 State get/set is MuJoCo-compatible and lossless (exhaustive over signatures)."""

from __future__ import annotations

import numpy as np
import warp as wp

import mujoco
import mujoco_warp as mjw

from vf import gen, mjw as H
from vf.core import check_close, check_equal

NSTATE = int(mujoco.mjtState.mjNSTATE)
RULE = (
  f"enumeration of all 2^{NSTATE} state signatures (chunks of 128 per case, sharded over workers) on models that have every component (na>0 with na>nu, nhistory>0, "
  "nmocap>0, neq>0, nuserdata>0), 3 worlds with random states and a random active mask per chunk; oracle per signature: vector length == mj_stateSize, "
  "get_state == mj_getState on an MjData holding the same state, set_state(get_state(x)) reproduces every Data field bitwise, inactive worlds' output rows "
  "(get) / Data (set) are untouched; out-of-range signatures (negative, >= 2^NSTATE) must raise; evaluation = one signature; non-trivial = signature with >=2 components"
)
ASSUMPTIONS = ["mujoco.mj_getState/mj_stateSize are the reference", "float32 rounding of the state (1e-6)"]
EXHAUSTIVE = {"quick": True, "thorough": True}
ENUM_ONLY = True
CRASH_IS_VIOLATION = True
BUDGET = {"quick": dict(examples=1, seconds=420, workers=16), "thorough": dict(examples=1, seconds=1500, workers=16)}
_FIELDS = ["time", "qpos", "qvel", "act", "history", "qacc_warmstart", "ctrl", "qfrc_applied", "xfrc_applied", "eq_active", "mocap_pos", "mocap_quat", "userdata"]
CHUNK = 128


def enumerate_cases(tier, seed):
  cases = []
  nrep = 1 if tier == "quick" else 6
  for rep in range(nrep):
    for lo in range(0, 1 << NSTATE, CHUNK):
      cases.append(dict(lo=lo, hi=min(lo + CHUNK, 1 << NSTATE), seed=seed * 1000 + rep, model=rep % 2))
  cases.append(dict(lo=-1, hi=-1, seed=seed, model=0))  # out-of-range signatures
  return cases


_XML = [
  """<mujoco><option timestep="0.002"/><size nuserdata="3"/><worldbody>
  <body name="m0" mocap="true" pos="0 0 1"><geom size="0.05" contype="0" conaffinity="0"/></body>
  <body name="a" pos="0 0 0.5"><freejoint/><geom size="0.1"/><body pos="0.2 0 0"><joint name="h" axis="0 1 0"/><geom size="0.05"/>
  <body pos="0.2 0 0"><joint name="b" type="ball"/><geom size="0.05"/></body></body></body></worldbody>
  <equality><weld body1="m0" body2="a"/><joint joint1="h" active="false"/></equality>
  <actuator><general joint="h" dyntype="user" actdim="3" delay="0.004" nsample="3"/><position joint="h" kp="3" timeconst="0.1"/></actuator>
  <sensor><jointpos joint="h" delay="0.006" nsample="4" interp="linear"/></sensor></mujoco>""",
  """<mujoco><option timestep="0.005"/><size nuserdata="1"/><worldbody>
  <body name="m0" mocap="true" pos="0 0 1"><geom size="0.05" contype="0" conaffinity="0"/></body><body name="m1" mocap="true" pos="1 0 1"><geom size="0.05" contype="0" conaffinity="0"/></body>
  <body name="a" pos="0 0 0.5"><joint name="s" type="slide"/><geom size="0.1"/></body></worldbody>
  <equality><connect body1="a" body2="m1" anchor="0 0 0"/></equality>
  <actuator><intvelocity joint="s" kp="2" actrange="-1 1" delay="0.01" nsample="2" interp="cubic"/></actuator></mujoco>""",
]


def _state(mjm, g, n):
  out = {}
  for k in _FIELDS:
    pass
  return out


def check(case, rec):
  mjm = H.compile_xml(_XML[case["model"]])
  m = H.put_model(mjm)
  n = 3
  g = np.random.default_rng(case["seed"] * 7919 + max(case["lo"], 0))
  d = H.make_data(mjm, nworld=n)
  # random full state (including history and warmstart)
  vals = {}
  for k in _FIELDS:
    cur = getattr(d, k).numpy()
    if cur.dtype == np.bool_:
      v = g.uniform(size=cur.shape) < 0.5
    else:
      v = g.normal(size=cur.shape).astype(np.float32)
    vals[k] = v
    getattr(d, k).assign(v)
  if case["lo"] < 0:
    for sig in (-1, -2, -(1 << 15), 1 << NSTATE, (1 << NSTATE) + 5, 2**31 - 1):
      rec.ev()
      for fn in ("get_state", "set_state"):
        buf = wp.zeros((n, 8192), dtype=float)
        try:
          getattr(mjw, fn)(m, d, buf, sig)
        except (ValueError, OverflowError):
          continue
        except Exception as e:  # any other exception type still rejects; a crash would not reach here
          rec.notes[f"rejects_with_{type(e).__name__}"] += 1
          continue
        rec.violation(f"{fn} accepted the out-of-range signature {sig}", sig=f"accepts-out-of-range:{'neg' if sig < 0 else 'big'}", fn=fn, signature=sig)
      rec.nt(extra=sig)
    return
  active = g.uniform(size=n) < 0.6
  active[int(g.integers(0, n))] = True
  use_mask = bool(g.uniform() < 0.7)
  act_arr = wp.array(active, dtype=bool) if use_mask else None
  sel = active if use_mask else np.ones(n, dtype=bool)
  mjds = []
  for w in range(n):
    mjd = mujoco.MjData(mjm)
    for k in _FIELDS:
      if k == "time":
        mjd.time = float(vals[k][w])
      elif getattr(mjd, k).size:
        getattr(mjd, k)[:] = np.asarray(vals[k][w]).reshape(getattr(mjd, k).shape)
    mjds.append(mjd)
  for sig in range(case["lo"], case["hi"]):
    rec.ev()
    size = mujoco.mj_stateSize(mjm, sig)
    SENT = np.float32(-777.25)
    out = wp.array(np.full((n, size + 2), SENT, dtype=np.float32), dtype=float)
    mjw.get_state(m, d, out, sig, act_arr)
    o = out.numpy()
    for w in range(n):
      if sel[w]:
        ref = np.zeros(size)
        mujoco.mj_getState(mjm, mjds[w], ref, sig)
        check_close(rec, "get_state", o[w, :size], ref, 1e-6, sig="get-vs-mujoco", signature=sig, world=w)
        check_equal(rec, "get_state_tail", o[w, size:], np.full(2, SENT), sig="get-writes-past-size", signature=sig, world=w)
      else:
        check_equal(rec, "get_state_inactive_row", o[w], np.full(size + 2, SENT), sig="get-touches-inactive", signature=sig, world=w)
    # round trip into a second Data holding different values
    d2 = H.make_data(mjm, nworld=n)
    base = {}
    for k in _FIELDS:
      cur = getattr(d2, k).numpy()
      v = (g.uniform(size=cur.shape) < 0.5) if cur.dtype == np.bool_ else (g.normal(size=cur.shape).astype(np.float32) + 50)
      getattr(d2, k).assign(v)
      base[k] = getattr(d2, k).numpy().copy()
    src = wp.array(np.where(o == SENT, 0, o)[:, :size].copy() if size else np.zeros((n, 0), dtype=np.float32), dtype=float, shape=(n, size))
    mjw.set_state(m, d2, src, sig, act_arr)
    for bit, names in _BITS.items():
      for k in names:
        now = getattr(d2, k).numpy()
        for w in range(n):
          if (sig >> bit) & 1 and sel[w]:
            check_equal(rec, f"roundtrip.{k}", now[w], vals[k][w].astype(now.dtype), sig="roundtrip", signature=sig, world=w, field=k)
          else:
            check_equal(rec, f"untouched.{k}", now[w], base[k][w], sig="set-touches-unselected", signature=sig, world=w, field=k)
    if bin(sig).count("1") >= 2:
      rec.nt(extra=[sig, case["model"], case["seed"]])
  rec.cls(f"mask:{use_mask}", f"model:{case['model']}")


def _bits():
  S = mujoco.mjtState
  table = {
    "time": S.mjSTATE_TIME, "qpos": S.mjSTATE_QPOS, "qvel": S.mjSTATE_QVEL, "act": S.mjSTATE_ACT, "history": S.mjSTATE_HISTORY, "qacc_warmstart": S.mjSTATE_WARMSTART,
    "ctrl": S.mjSTATE_CTRL, "qfrc_applied": S.mjSTATE_QFRC_APPLIED, "xfrc_applied": S.mjSTATE_XFRC_APPLIED, "eq_active": S.mjSTATE_EQ_ACTIVE,
    "mocap_pos": S.mjSTATE_MOCAP_POS, "mocap_quat": S.mjSTATE_MOCAP_QUAT, "userdata": S.mjSTATE_USERDATA,
  }
  out = {}
  for k, v in table.items():
    out.setdefault(int(v).bit_length() - 1, []).append(k)
  return out


_BITS = _bits()
