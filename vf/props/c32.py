"""C32 Disable and enable flags act exactly as in MuJoCo (differential against MuJoCo C with the same flags + flag-locality metamorphic)."""

from __future__ import annotations

import hashlib
import itertools
import json

import numpy as np
from hypothesis import strategies as st

import mujoco
import mujoco_warp as mjw
from mujoco_warp._src.types import OverflowType as OT

from vf import gen, mjw as H
from vf.core import Reject, relerr
from vf.props import c05

DIS = ["constraint", "equality", "frictionloss", "limit", "contact", "spring", "damper", "gravity", "clampctrl", "warmstart", "filterparent", "actuation", "refsafe",
       "sensor", "eulerdamp", "island", "multiccd"]
ENA = ["energy", "invdiscrete"]
FLAGS = DIS + ENA

RULE = (
  "case = rich model (plane + pile of sphere/capsule/box/mesh bodies with parent-child overlapping geoms, connect/weld/joint equalities, frictionloss, joint limits, springs, dampers, "
  "gravcomp incl. actuator gravcomp, fixed tendon, 1-4 actuators motor/position/velocity/intvelocity/general with ctrlrange and ctrl outside it, activations outside actrange, solref "
  "time constants below 2*timestep, 4-12 sensors of every stage incl. e_potential/e_kinetic, Euler/implicitfast/implicit, Newton/CG, both cones, dense/sparse) x a subset S of the 19 supported flags "
  "(17 disable + energy, invdiscrete) set in the MJCF before put_model x one toggled flag F x a float32 state (settled 0/5/30 steps with MuJoCo).  Enumerated pre-pass: every singleton and "
  "every pair of flags on 3 (quick) / 5 (thorough) base models chosen (from the reference alone) so that every flag changes MuJoCo's own output and the default-flags contact lists of the two engines agree; Hypothesis phase: random subsets of every density on random models.  "
  "Oracle 1 (differential, MuJoCo C 3.13 with the same flags on the same state): after forward(): qfrc_bias/spring/damper/gravcomp/passive/smooth, qacc_smooth, actuator_force, act_dot, "
  "qfrc_actuator, ne/nf/nl (always), nefc + constraint rows as a keyed multiset (J, pos-margin, vel, frictionloss, D, aref) when both engines report the same contacts, qacc/qfrc_constraint "
  "when additionally both solvers converged, sensordata (left untouched when SENSOR is disabled, acceleration-stage sensors only when qacc agrees), energy when ENERGY is enabled, "
  "qfrc_inverse of inverse() on MJWarp's own qacc (INVDISCRETE on/off), after step(): time, act, qvel, qpos; plus, for flag sets containing CONSTRAINT/CONTACT/FILTERPARENT/MULTICCD, the "
  "flag's effect on the contact list where the default-flags lists of the two engines agree (presence of >2 mm penetrating plane/sphere/capsule pairs; number of contacts of a flat "
  "mesh-on-box pair: 4 with MULTICCD, 1 without).  Oracle 2 (locality, MJWarp only, bitwise): the run with S and the run with "
  "S xor {F} agree bit for bit on every observed field group that is not downstream of F according to a hand-written dependency map (see _MAY_CHANGE).  evaluation = one differential stage "
  "comparison or one locality field-group comparison; non-trivial = the flag set S changes >=1 observed field of MJWarp or of MuJoCo versus the default-flags run on the same model and state (measured)"
)
ASSUMPTIONS = [
  "MuJoCo C 3.13 is the reference; solver tolerance 1e-8 / 100 iterations on both sides; nworld=1 (flags are global options)",
  "stage tolerances as in C02/C03/C05/C08: forces 5e-4*scale, qacc_smooth scaled by cond(M) (skipped if >1e6), rows J and vel 1.5e-3 (contacts matched within 3e-4 in position/frame), D 2e-3 relative, "
  "aref within 8e-3 of the size of its terms B*|vel| + K*I*|pos| plus the effect of the row's own vel/pos difference, qacc 3e-2*accscale with active rows, qfrc_inverse 5e-4 without rows / 2e-3 of "
  "max(force scale, max D*(|J.qacc| + B|vel| + K*I|pos|)) with rows, "
  "next qvel/qpos = acceleration tolerance x dt (x dt^2) + float32 representation terms, sensors 1e-4 (pos/vel) / 2e-3 (acc stage) relative to the stage scale, energy 1e-4",
  "constraint rows, solver outputs, acceleration-stage sensors, qfrc_inverse and the next state are judged only when both engines report the same contacts (C04's business otherwise), "
  "the same row keys, no row with efc_D > 1e10, and (solver outputs) both solvers converged; otherwise counted in boundary_skipped",
  "with ENERGY off Data.energy is 'not computed' and is not compared; the sleep flag (C29), nativeccd ('ignored in MJWarp'), midphase/autoreset/fwdinv/override (rejected by put_model) are outside the flag set",
  "recorded deviations are avoided by construction: servo actuators on ball joints (C03 ball-position-wrap), explicit pairs / collisions between bodies without dofs (C05 rows:no-dof-*, C19), "
  "pair margins (C04 pair-margin:broadphase), sensor cutoffs and accelerometers on static bodies (C07); elliptic friction rows are compared on pos-margin (C05 rows:elliptic-friction-pos); "
  "contacts whose tangent frame differs (C05 frame:tangent) make the world 'not comparable'",
  "the next state (and the INVDISCRETE inverse) of implicit/implicitfast steps is judged on models with hinge/slide joints only: with free or ball joints MuJoCo 3.13 folds the gyroscopic "
  "velocity derivative of free bodies into implicitfast too and MJWarp does not, whatever the flags (C08's business; excluded by class, counted); forward() fields are judged for all",
  "INVDISCRETE + DAMPER disabled + Euler with non-zero dof damping is not judged for qfrc_inverse: MuJoCo's mj_discreteAcc ignores the damper flag that its own Euler step honours "
  "(the reference is not the inverse of its own step there; MJWarp follows the step, commit 17399c5)",
  "RK4 is excluded (sub-stage fields are C08's business); inverse() with INVDISCRETE and the implicit integrator raises NotImplementedError in MJWarp (clean rejection of that evaluation)",
  "locality is asserted bitwise because both runs execute the same kernels on the CPU device in the same task order on identical inputs; island toggles leave the pre-solver fields bit-identical "
  "and are allowed to change solver outputs",
]
BUDGET = {"quick": dict(examples=480, seconds=420, workers=16), "thorough": dict(examples=16000, seconds=1500, workers=16)}

_CAP = int(OT.NEFC | OT.NJMAX_NNZ | OT.BROADPHASE | OT.NARROWPHASE | OT.CCD | OT.NVMAX | OT.HFIELD | OT.EPA_HORIZON | OT.CONTACT_MATCH)
_ITER = 100
_PREFILL = 7.0  # value written into sensordata before forward() in 'prefill' cases (SENSOR disabled must leave it alone)

# --------------------------------------------------------------------------------------
# generator


def _subset_strategy():
  mask = st.integers(0, 2 ** len(FLAGS) - 1)
  dense = mask.map(lambda a: [f for i, f in enumerate(FLAGS) if a >> i & 1])
  quarter = st.tuples(mask, mask).map(lambda t: [f for i, f in enumerate(FLAGS) if (t[0] & t[1]) >> i & 1])
  eighth = st.tuples(mask, mask, mask).map(lambda t: [f for i, f in enumerate(FLAGS) if (t[0] & t[1] & t[2]) >> i & 1])
  # dense subsets almost always contain 'constraint' (which masks seven other flags): remove it from half of them
  noconstr = quarter.map(lambda s: [f for f in s if f != "constraint"])
  return st.one_of(dense, quarter, eighth, eighth, noconstr, noconstr)


def strategy(tier):
  return st.fixed_dictionaries(
    dict(
      cfg=gen.rich_cfg(
        nroot=st.integers(2, 4),
        maxdepth=st.integers(0, 2),
        joint_menu=st.sampled_from([["free", "ball", "hinge", "slide"], ["free", "ball", "hinge", "slide"], ["hinge", "slide"]]),
        geom_menu=st.sampled_from([["sphere", "capsule", "box"], ["sphere", "capsule"], ["box", "mesh", "sphere"], ["sphere", "capsule", "box", "mesh"]]),
        gravcomp=st.booleans(),
        equalities=st.integers(0, 2),
        eq_menu=st.sampled_from([["connect", "weld", "joint"], ["connect", "weld", "joint", "tendon"]]),
        limits=st.sampled_from([0.0, 0.6]),
        frictionloss=st.sampled_from([0.0, 0.5]),
        actuators=st.integers(1, 4),
        act_menu=st.sampled_from([["motor", "position", "velocity"], ["motor", "general", "intvelocity", "position"], ["general", "intvelocity"]]),
        dyn_menu=["none", "integrator", "filter", "filterexact"],
        trn_menu=st.sampled_from([["joint"], ["joint", "tendon"]]),
        spatial_tendons=0,
        pairs=st.integers(0, 1),
      ),
      opt=gen.option_strategy(integrators=("Euler", "Euler", "implicitfast", "implicit")),
      flags=_subset_strategy(),
      toggle=st.sampled_from(FLAGS),
      dt=st.sampled_from([0.002, 0.005]),
      seed=st.integers(0, 10**6),
      sigma=st.sampled_from([0.05, 0.3]),
      settle=st.sampled_from([0, 5, 30]),
      prefill=st.booleans(),
      inverse=st.sampled_from([False, False, True]),
    )
  )


def _base_cfg(seed):
  """Fixed-shape rich cfg for the enumerated pre-pass (JSON-able constants only)."""
  return dict(
    gen.DEFAULT_CFG, nroot=4, maxdepth=1, maxchild=1, geoms_per_body=[1, 2], plane=True, contacts="pile", dynamics=True, limits=0.7, frictionloss=0.6, tendons=1, spatial_tendons=0,
    equalities=2, eq_menu=["connect", "weld", "joint"], eq_sites=False, actuators=3, act_menu=["motor", "general", "intvelocity", "position"],
    dyn_menu=["none", "integrator", "filter", "filterexact"], trn_menu=["joint"], condim_menu=[3], geom_menu=["sphere", "box", "box", "mesh", "capsule"], mocap=0, sites=1.0, pairs=0,
    excludes=0, gravcomp=True, seed=int(seed),
  )


def _base_case(cfg, k, integrator="Euler", joint_menu=None):
  if joint_menu:
    cfg = dict(cfg, joint_menu=list(joint_menu))
  return dict(cfg=cfg, opt=dict(integrator=integrator, solver=["Newton", "CG"][k % 2], cone=["pyramidal", "elliptic"][k // 2 % 2], jacobian=["dense", "sparse"][k % 2]), flags=[], toggle="sensor",
              dt=0.002, seed=1000 + k, sigma=0.05, settle=5, prefill=True, inverse=True, pedestal=True)


# base-model slots: the implicit integrators get models with hinge/slide joints only (see ASSUMPTIONS: their next state is judged on such models)
_SLOTS = [("Euler", None), ("implicitfast", ["hinge", "slide"]), ("Euler", None), ("implicit", ["hinge", "slide"]), ("Euler", None)]


_BASES = {}
_BIT = {f: int(getattr(mujoco.mjtDisableBit, "mjDSBL_" + f.upper())) for f in DIS}
_BIT.update({f: int(getattr(mujoco.mjtEnableBit, "mjENBL_" + f.upper())) for f in ENA})


def _runtime_flags(mjm0, flags):
  """Copy of the model with the flags set at run time (used only by the base-model search; the checks compile the flags from MJCF)."""
  mm = mjm0.__copy__()
  for f in flags:
    if f in DIS:
      mm.opt.disableflags |= _BIT[f]
    else:
      mm.opt.enableflags |= _BIT[f]
  return mm


def _bases(tier, seed):
  """3 (quick) / 5 (thorough) base cases (slots of _SLOTS), each searched deterministically from the run seed (at most 80 candidates per slot), on which (a) every one of the 19
  flags (EULERDAMP only with the Euler integrator) changes MuJoCo's own forward/inverse/step output (the reference decides, so that a flag MJWarp ignores cannot steer the
  selection) and (b) both engines report the same contacts and both solvers converge under the default flags (candidates that only satisfy (a) are the fallback)."""
  key = (tier, int(seed))
  if key in _BASES:
    return _BASES[key]
  out = []
  for slot, (integ, jmenu) in enumerate(_SLOTS[: 3 if tier == "quick" else 5]):
    rng = np.random.default_rng([int(seed), 0xC32, slot])
    fallback = None
    for k in range(80):
      case = _base_case(_base_cfg(int(rng.integers(0, 2**31 - 1))), k, integ, jmenu)
      try:
        spec = _spec(case, None)
        mjm0 = H.compile_spec(_with_flags(spec, []))
        state = _state(case, mjm0)
        ref0 = _mj_run(mjm0, state, case)
        if ref0 is None or min(ref0["ne"], ref0["nf"], ref0["nl"]) == 0 or ref0["ncon"] < 3 or ref0["niter"] >= _ITER:
          continue
        ok = True
        for f in FLAGS:
          if f == "energy" or (f == "eulerdamp" and integ != "Euler"):  # with energy sensors MuJoCo computes Data.energy whatever the flag says
            continue
          r = _mj_run(_runtime_flags(mjm0, [f]), state, case)
          if r is None or not _mj_differs(ref0, r):
            ok = False
            break
        if not ok:
          continue
        _, W0 = _cached_run(_key(spec, case), set(), spec, state, case)
      except Reject:
        continue
      if W0 is not None and _same_contacts(W0, ref0) and W0["solver_niter"] < _ITER:
        out.append(case)
        break
      if fallback is None:
        fallback = case
    else:
      if fallback is not None:
        out.append(fallback)
  _BASES[key] = out
  return out


def enumerate_cases(tier, seed):
  out = []
  for base in _bases(tier, seed):
    for f in FLAGS:
      out.append(dict(base, flags=[f], toggle=f))
    for a, b in itertools.combinations(FLAGS, 2):
      # toggling a in {a, b} compares with the singleton {b}; alternate which member is toggled
      out.append(dict(base, flags=[a, b], toggle=a if (FLAGS.index(a) + FLAGS.index(b)) % 2 else b))
  return out


# --------------------------------------------------------------------------------------
# spec post-processing


def _drop_ball_servos(spec, rec):
  jt = {j["name"]: j["type"] for b in spec["bodies"] for j in b["joints"]}
  keep = []
  for a in spec["actuators"]:
    jn = a.get("joint", a.get("jointinparent"))
    servo = a["kind"] in ("position", "intvelocity") or (a["kind"] == "general" and a.get("biastype") == "affine" and a.get("biasprm", [0, 0, 0])[1] != 0)
    if jn is not None and jt.get(jn) == "ball" and servo:
      if rec is not None:
        rec.excluded["ball-position-wrap"] += 1
      continue
    keep.append(a)
  spec["actuators"] = keep


def _spec(case, rec):
  """cfg -> explicit spec, enriched so that every flagged mechanism has something to act on.  Flags are added by _with_flags."""
  cfg = dict(case["cfg"])
  opt = dict(case["opt"])
  dt = float(case["dt"])
  opt.update(timestep=dt, tolerance=1e-8, iterations=_ITER, ls_iterations=50)
  cfg["option"] = opt
  spec = gen.make_spec(cfg)
  r = gen.R([int(case["seed"]), 0x32])
  bodies = spec["bodies"]
  _drop_ball_servos(spec, rec)
  static = {"world"} | {b["name"] for b in bodies if b.get("mocap")}
  gbody = {g["name"]: b["name"] for b in bodies for g in b["geoms"]}
  gbody.update({g["name"]: "world" for g in spec["world_geoms"]})
  for b in bodies:
    if b.get("mocap"):
      for g in b["geoms"]:  # C19 pair:extra:nodof (mocap vs static geoms collide in MJWarp only)
        g["contype"], g["conaffinity"] = 0, 0
  # meshes collide with boxes and meshes only (contype/conaffinity bit 2): mesh-plane contact counts are a recorded C04 finding (planemesh:count) and capsule/sphere-mesh
  # pairs get a single contact in MJWarp whatever MULTICCD says (put_model warns); box-box, box-mesh and mesh-mesh are the pairs MULTICCD acts on
  for g in [g for b in bodies for g in b["geoms"]] + spec["world_geoms"]:
    if g["type"] == "mesh":
      g["contype"], g["conaffinity"] = 2, 2
    elif g["type"] == "box":
      g["contype"], g["conaffinity"] = 3, 3
  # connect/weld between two bodies that cannot move relative to each other (same weld root, e.g. a body and its jointless child): MuJoCo drops the all-zero-Jacobian rows,
  # MJWarp keeps them (family of the recorded C05 finding rows:no-dof-equality)
  bn = {b["name"]: b for b in bodies}

  def weld_root(name):
    while name != "world" and not bn[name]["joints"] and not bn[name].get("mocap"):
      par = bn[name]["parent"]
      name = "world" if par < 0 else bodies[par]["name"]
    return name

  site_body = {s_["name"]: b["name"] for b in bodies for s_ in b["sites"]}
  eqs = []
  for e in spec["equalities"]:
    if e["kind"] in ("connect", "weld"):
      b1 = e.get("body1") or site_body.get(e.get("site1"), "world")
      b2 = e.get("body2") or site_body.get(e.get("site2"), "world")
      r1, r2 = weld_root(b1), weld_root(b2)
      if r1 == r2 or ({r1, r2} <= static):
        if rec is not None:
          rec.excluded["rows:no-dof-equality"] += 1
        continue
    eqs.append(e)
  spec["equalities"] = eqs
  pairs = []
  for p in spec["pairs"]:
    if gbody[p["geom1"]] in static and gbody[p["geom2"]] in static:
      continue  # C05 rows:no-dof-contact
    p.pop("margin", None)  # C04 pair-margin:broadphase; put_model rejects margins on multiccd pairs
    p.pop("gap", None)
    pairs.append(p)
  spec["pairs"] = pairs
  # filterparent: a geom on the parent placed at the child's origin overlaps the child's geoms
  ng = sum(len(b["geoms"]) for b in bodies) + len(spec["world_geoms"])
  for b in bodies:
    if b["parent"] >= 0 and not bodies[b["parent"]].get("mocap") and b["geoms"] and r.p(0.7):
      bodies[b["parent"]]["geoms"].append(dict(name=f"gp{ng}", type="sphere", size=[r.u(0.06, 0.1)], pos=list(b["pos"]), quat=[1, 0, 0, 0]))
      ng += 1
      break
  # multiccd: a cube mesh (or box) on a vertical slide + yaw hinge resting flat on a static box away from the pile: MJWarp (like MuJoCo's native CCD) generates the
  # extra MULTICCD contacts only for faces aligned within 0.0016 rad, which a free body in a random state never is; mesh-box gets 4 contacts with MULTICCD and 1 without
  if case.get("pedestal", int(case["seed"]) % 3 != 0):
    spec["world_geoms"].append(dict(name="gped", type="box", size=[0.25, 0.25, 0.1], pos=[1.2, 0.0, 0.1], contype=3, conaffinity=3))
    if r.p(0.75):
      g = dict(name="gpb", type="mesh", mesh="cube", pos=[0, 0, 0], quat=[1, 0, 0, 0], contype=2, conaffinity=2)
      spec["meshes"] = sorted(set(spec.get("meshes", [])) | {"cube"})
    else:
      g = dict(name="gpb", type="box", size=[r.u(0.06, 0.12), r.u(0.06, 0.12), 0.1], pos=[0, 0, 0], quat=[1, 0, 0, 0], contype=3, conaffinity=3)
    bodies.append(dict(name="bped", parent=-1, pos=[gen.r6(1.2 + r.u(-0.05, 0.05)), r.u(-0.05, 0.05), 0.3], quat=[1, 0, 0, 0],
                       joints=[dict(name="jpedz", type="slide", axis=[0, 0, 1], pos=[0, 0, 0]), dict(name="jpedr", type="hinge", axis=[0, 0, 1], pos=[0, 0, 0])],
                       geoms=[g], sites=[], cameras=[], lights=[]))
  # refsafe: time constants below 2*timestep on the plane (priority 1 so that it is not mixed away), equalities and joint limits
  for g in spec["world_geoms"]:
    if g["type"] == "plane" and r.p(0.6):
      g["priority"] = 1
      g["solref"] = [gen.r6(dt * r.u(0.6, 1.6)), 1.0]
  for e in spec["equalities"]:
    if r.p(0.6):
      e["solref"] = [gen.r6(dt * r.u(0.6, 1.6)), r.u(0.5, 1.2)]
  for b in bodies:
    for j in b["joints"]:
      if "range" in j and r.p(0.5):
        j["solreflimit"] = [gen.r6(dt * r.u(0.6, 1.6)), 1.0]
  # clampctrl: every other actuator gets a ctrlrange (ctrl is placed outside in _state)
  for i, a in enumerate(spec["actuators"]):
    if "ctrlrange" not in a and a["kind"] != "muscle" and i % 2 == 0:
      a["ctrlrange"] = [-r.u(0.2, 1.0), r.u(0.2, 1.0)]
  _add_sensors(spec, r)
  return spec


def _add_sensors(spec, r):
  bodies = spec["bodies"]
  moving = [b for b in bodies if not b.get("mocap")]
  sites = [s for b in moving for s in b["sites"]]
  for s in sites:  # touch zones: big enough to contain the body's contacts
    s["type"], s["size"] = "sphere", [0.3]
  joints = [j for b in bodies for j in b["joints"]]
  scalar = [j["name"] for j in joints if j["type"] in ("hinge", "slide")]
  # C07 ':jnt-ten-id-alias': jointlimit* sensors on joint id < ntendon with a limited tendon of the same id are a reported defect
  limited = [j["name"] for i, j in enumerate(joints) if j["type"] != "free" and "range" in j and not (i < len(spec["tendons"]) and "range" in spec["tendons"][i])]
  acts = [a["name"] for a in spec["actuators"]]
  out = []

  def add(kind, **kw):
    out.append(dict(kind=kind, name=f"x{len(out)}", **kw))

  add("e_potential")
  add("e_kinetic")
  add("clock")
  if scalar:
    add("jointpos", joint=r.ch(scalar))
    add("jointvel", joint=r.ch(scalar))
    add("jointactuatorfrc", joint=r.ch(scalar))
  for a in acts[:2]:
    add("actuatorfrc", actuator=a)
  for jn in limited[:2]:
    add("jointlimitfrc", joint=jn)
  if sites:
    add("framepos", objtype="site", objname=r.ch(sites)["name"])
    add("framelinvel", objtype="site", objname=r.ch(sites)["name"])
    add("gyro", site=r.ch(sites)["name"])
    add("velocimeter", site=r.ch(sites)["name"])
    add("accelerometer", site=r.ch(sites)["name"])
    add("touch", site=r.ch(sites)["name"])
    add("touch", site=r.ch(sites)["name"])
    add("force", site=r.ch(sites)["name"])
  if moving:
    add("subtreecom", body=r.ch(moving)["name"])
  # keep the energy sensors in 2 of 3 models (with them Data.energy is computed by the sensor path)
  if r.p(0.33):
    out = [s for s in out if s["kind"] not in ("e_potential", "e_kinetic")]
  keep = [s for s in out if r.p(0.8) or s["kind"] in ("e_potential", "e_kinetic", "touch")]
  for i, s in enumerate(keep):
    s["name"] = f"x{i}"
  spec["sensors"] = keep


def _with_flags(spec, flags):
  s = dict(spec)
  opt = dict(spec["option"])
  fl = {}
  for f in FLAGS:  # fixed order
    if f in flags:
      fl[f] = "disable" if f in DIS else "enable"
  if fl:
    opt["flags"] = fl
  s["option"] = opt
  return s


def _state(case, mjm0):
  """float32 state shared by every flag set of the case: random, optionally settled with MuJoCo under the default flags."""
  seed = int(case["seed"])
  s = H.rand_state(mjm0, seed, sigma=case["sigma"], vel=0.5, applied=True)
  g = np.random.default_rng([seed, 5])
  s["act"] = H.f32(g.normal(size=mjm0.na) * 1.5)  # often outside actrange
  s["qacc_warmstart"] = np.zeros(mjm0.nv)
  s["time"] = float(np.float32(g.choice([0.0, 0.37])))
  jz = mujoco.mj_name2id(mjm0, mujoco.mjtObj.mjOBJ_JOINT, "jpedz")
  if jz >= 0:  # the pedestal body starts 0-8 mm inside / up to 2 mm above the static box, slowly moving
    qp, qv = np.array(s["qpos"]), np.array(s["qvel"])
    qp[mjm0.jnt_qposadr[jz]] = g.uniform(-0.008, 0.002)
    qv[mjm0.jnt_dofadr[jz]] = g.uniform(-0.05, 0.05)
    s["qpos"], s["qvel"] = H.f32(qp), H.f32(qv)
  if case["settle"]:
    tmp = mujoco.MjData(mjm0)
    H.set_mjd(tmp, s)
    try:
      for _ in range(int(case["settle"])):
        mujoco.mj_step(mjm0, tmp)
    except mujoco.FatalError:
      raise Reject("mujoco aborts on this model")
    if np.all(np.isfinite(tmp.qpos)) and np.all(np.isfinite(tmp.qvel)) and np.max(np.abs(tmp.qvel), initial=0) < 50 and not tmp.warning.number.any():
      s["qpos"], s["qvel"], s["qacc_warmstart"] = H.f32(tmp.qpos), H.f32(tmp.qvel), H.f32(tmp.qacc_warmstart)
  # ctrl: outside the ctrlrange for limited actuators (alternating sides), moderate otherwise
  c = np.array(s["ctrl"], dtype=np.float64)
  for u in range(mjm0.nu):
    if mjm0.actuator_ctrllimited[u]:
      lo, hi = mjm0.actuator_ctrlrange[u]
      c[u] = hi + 0.5 + abs(c[u]) if (u + seed) % 3 else lo - 0.5 - abs(c[u])
      if (u + seed) % 5 == 0:
        c[u] = 0.5 * (lo + hi)
  s["ctrl"] = H.f32(c)
  return s


# --------------------------------------------------------------------------------------
# running both engines

_FWD = ["qfrc_bias", "qfrc_spring", "qfrc_damper", "qfrc_gravcomp", "qfrc_passive", "qfrc_smooth", "qacc_smooth", "actuator_force", "act_dot", "qfrc_actuator", "qacc", "qfrc_constraint",
        "sensordata", "energy", "xpos", "M"]


def _mjw_run(mjm, state, case):
  """forward() [-> inverse()] -> step() on a fresh Data.  Returns a dict of numpy arrays, or None (capacity overflow / non-finite)."""
  m = H.put_model(mjm)
  d = H.make_data(mjm, nworld=1, nconmax=120, njmax=400)
  H.set_data(d, [state])
  if case["prefill"] and mjm.nsensordata:
    d.sensordata.fill_(_PREFILL)
  mjw.forward(m, d)
  if (H.overflow_fwd(d) & _CAP).any():
    return None
  out = {k: getattr(d, k).numpy()[0].copy() for k in _FWD}
  for k in ("ne", "nf", "nl", "nefc", "solver_niter"):
    out[k] = int(getattr(d, k).numpy()[0])
  out["con"] = {k: np.array(v) for k, v in H.contacts(d, 0).items()}
  out["efc"] = H.efc_dense(m, d, 0)
  out["efc"] = {k: (np.array(v) if isinstance(v, np.ndarray) else v) for k, v in out["efc"].items()}
  out["sparse"] = bool(m.is_sparse)
  out["inv"] = None
  out["inv_rejected"] = False
  if case["inverse"] and np.all(np.isfinite(out["qacc"])):
    try:
      mjw.inverse(m, d)
      out["inv"] = d.qfrc_inverse.numpy()[0].copy()
    except NotImplementedError:
      out["inv_rejected"] = True
  mjw.step(m, d)
  if (H.overflow_fwd(d) & _CAP).any():
    return None
  out["next"] = dict(qpos=d.qpos.numpy()[0].copy(), qvel=d.qvel.numpy()[0].copy(), act=d.act.numpy()[0].copy(), time=float(d.time.numpy()[0]))
  return out


_MJ_FWD = ["qfrc_bias", "qfrc_spring", "qfrc_damper", "qfrc_gravcomp", "qfrc_passive", "qfrc_smooth", "qacc_smooth", "actuator_force", "act_dot", "qfrc_actuator", "qacc", "qfrc_constraint",
           "sensordata", "energy"]


def _mj_run(mjm, state, case, qacc_inv=None):
  """Same sequence in MuJoCo C.  Returns None when MuJoCo aborts, warns or produces non-finite numbers (discarded, never a violation)."""
  mjd = mujoco.MjData(mjm)
  H.set_mjd(mjd, state)
  if case["prefill"] and mjm.nsensordata:
    mjd.sensordata[:] = _PREFILL
  try:
    mujoco.mj_forward(mjm, mjd)
    out = {k: np.array(getattr(mjd, k)) for k in _MJ_FWD}
    for k in ("ne", "nf", "nl", "nefc", "ncon"):
      out[k] = int(getattr(mjd, k))
    out["niter"] = int(np.max(mjd.solver_niter[: max(1, mjd.nisland)]))
    out["con"] = H.mj_contacts(mjd)
    out["exclude3"] = any(int(c.exclude) == 3 for c in mjd.contact)
    out["efc"] = H.mj_efc_dense(mjm, mjd)
    out["efc"]["KBIP"] = np.array(mjd.efc_KBIP).reshape(-1, 4)[: mjd.nefc]
    out["Mdense"] = H.mj_dense_M(mjm, mjd)
    out["cacc"] = np.array(mjd.cacc)
    out["cfrc"] = max(float(np.max(np.abs(mjd.cfrc_int), initial=0.0)), float(np.max(np.abs(mjd.cfrc_ext), initial=0.0)))
    out["efc_force_max"] = float(np.max(np.abs(mjd.efc_force), initial=0.0))
    out["limit_boundary"] = c05._limit_boundary(mjm, mjd)
    out["xipos"] = np.array(mjd.xipos)
    out["inv"] = None
    if case["inverse"]:
      if qacc_inv is not None:
        mjd.qacc[:] = qacc_inv
      mujoco.mj_inverse(mjm, mjd)
      out["inv"] = np.array(mjd.qfrc_inverse)
      out["inv_scale"] = max(1.0, float(np.max(np.abs(mjd.qfrc_inverse), initial=0.0)), float(np.max(np.abs(mjd.qfrc_constraint), initial=0.0)), float(np.max(np.abs(mjd.qfrc_bias), initial=0.0)))
      if out["efc"]["nefc"]:
        # the inverse constraint force of a row is -D*(J.qacc - aref): with stiff rows the two terms cancel, and float32 round-off acts on the uncancelled magnitude
        # (aref = -B*vel - K*I*pos itself cancels, and the two engines' K, B agree to ~1e-4 only: measured qfrc_inverse differences reach 1.2e-4 of that magnitude)
        e = out["efc"]
        kb = e["KBIP"]
        terms = np.abs(e["J"] @ np.array(mjd.qacc)) + kb[:, 1] * np.abs(e["vel"]) + kb[:, 0] * kb[:, 2] * np.abs(e["pos"] - e["margin"])
        stiff = float(np.max(e["D"] * terms))
        out["inv_scale"] = max(out["inv_scale"], stiff) if np.isfinite(stiff) else float("inf")
    mjd.warning.number[:] = 0
    mujoco.mj_step(mjm, mjd)
  except mujoco.FatalError:
    return None
  if mjd.warning.number.any():
    return None
  out["next"] = dict(qpos=np.array(mjd.qpos), qvel=np.array(mjd.qvel), act=np.array(mjd.act), time=float(mjd.time))
  out["qDeriv"] = np.array(mjd.qDeriv)
  for k in ("qacc", "qacc_smooth", "qfrc_smooth"):
    if not np.all(np.isfinite(out[k])):
      return None
  if not (np.all(np.isfinite(out["next"]["qpos"])) and np.all(np.isfinite(out["next"]["qvel"]))):
    return None
  # an unstable reference step (mj_step only warns about it at the beginning of the *next* step; the values may not even fit in float32)
  if max(float(np.max(np.abs(out["next"]["qvel"]), initial=0.0)), float(np.max(np.abs(out["next"]["qpos"]), initial=0.0)), float(np.max(np.abs(out["qacc"]), initial=0.0))) > 1e6:
    return None
  return out


def _mj_differs(a, b):
  for k in _MJ_FWD:
    if a[k].shape != b[k].shape or not np.array_equal(a[k], b[k]):
      return True
  for k in ("ne", "nf", "nl", "nefc", "ncon"):
    if a[k] != b[k]:
      return True
  if (a["inv"] is not None and b["inv"] is not None) and not np.array_equal(a["inv"], b["inv"]):
    return True
  return any(not np.array_equal(a["next"][k], b["next"][k]) for k in ("qpos", "qvel", "act"))


# --------------------------------------------------------------------------------------
# field groups (locality) -- every group is a list of byte strings

_EQ_T, _FR_T, _LIM_T, _CON_T = (0,), (1, 2), (3, 4), (5, 6, 7)
_S = mujoco.mjtSensor


def _rows(e, types, aref):
  rows = []
  for i in range(e["nefc"]):
    if int(e["type"][i]) in types:
      if aref:
        rows.append(np.array([e["type"][i], e["id"][i]], dtype=np.int64).tobytes() + np.float32(e["aref"][i]).tobytes())
      else:
        cols = [np.float64(e[k][i]) for k in ("pos", "margin", "D", "vel", "frictionloss")]
        rows.append(np.array([e["type"][i], e["id"][i]], dtype=np.int64).tobytes() + np.array(cols).tobytes() + np.ascontiguousarray(e["J"][i]).tobytes())
  return sorted(rows)


def _sensor_slices(mjm):
  """(indices of pos/vel-stage sensordata without e_potential, e_potential indices, acc-stage indices)."""
  pv, ep, acc = [], [], []
  for i in range(mjm.nsensor):
    a, n = int(mjm.sensor_adr[i]), int(mjm.sensor_dim[i])
    idx = list(range(a, a + n))
    if int(mjm.sensor_type[i]) == int(_S.mjSENS_E_POTENTIAL):
      ep += idx
    elif int(mjm.sensor_needstage[i]) == int(mujoco.mjtStage.mjSTAGE_ACC):
      acc += idx
    else:
      pv += idx
  return np.array(pv, dtype=int), np.array(ep, dtype=int), np.array(acc, dtype=int)


def _groups(mjm, R):
  pv, ep, acc = _sensor_slices(mjm)
  b = lambda *xs: [np.ascontiguousarray(x).tobytes() for x in xs]
  e, c = R["efc"], R["con"]
  g = dict(
    kin=b(R["xpos"], R["M"]),
    spring=b(R["qfrc_spring"]), damper=b(R["qfrc_damper"]), gravcomp=b(R["qfrc_gravcomp"]), bias=b(R["qfrc_bias"]), passive=b(R["qfrc_passive"]),
    actf=b(R["actuator_force"], R["act_dot"]), qact=b(R["qfrc_actuator"]), smooth=b(R["qfrc_smooth"], R["qacc_smooth"]),
    contacts=b(*[c[k] for k in ("geom", "dist", "pos", "frame", "dim", "includemargin", "friction", "solref", "solreffriction", "solimp")]),
    ne=[R["ne"]], nf=[R["nf"]], nl=[R["nl"]], nefc=[R["nefc"]],
    rows_eq=_rows(e, _EQ_T, False), rows_fr=_rows(e, _FR_T, False), rows_lim=_rows(e, _LIM_T, False), rows_con=_rows(e, _CON_T, False),
    aref_eq=_rows(e, _EQ_T, True), aref_fr=_rows(e, _FR_T, True), aref_lim=_rows(e, _LIM_T, True), aref_con=_rows(e, _CON_T, True),
    solve=b(R["qacc"], R["qfrc_constraint"], e["force"]),
    sens_pv=b(R["sensordata"][pv]), sens_epot=b(R["sensordata"][ep]), sens_acc=b(R["sensordata"][acc]),
    e_pot=b(R["energy"][0]), e_kin=b(R["energy"][1]),
    next_qv=b(R["next"]["qpos"], R["next"]["qvel"]), next_act=b(R["next"]["act"]), time=[R["next"]["time"]],
    inv=[None if R["inv"] is None else R["inv"].tobytes(), R["inv_rejected"]],
  )
  return g


_DOWN = {"solve", "sens_acc", "next_qv", "inv"}  # downstream of anything that changes a force or a constraint row
_ALL_ROWS = {"rows_eq", "rows_fr", "rows_lim", "rows_con", "aref_eq", "aref_fr", "aref_lim", "aref_con"}
# flag -> field groups that MAY change when the flag is toggled (hand-written from forward.py / passive.py / constraint.py / collision_driver.py / sensor.py / solver.py);
# every other group must be bit-identical
_MAY_CHANGE = dict(
  sensor={"sens_pv", "sens_epot", "sens_acc"},
  energy={"e_pot", "e_kin"},
  invdiscrete={"inv"},
  clampctrl={"actf", "qact", "smooth", "next_act"} | _DOWN,
  actuation={"actf", "qact", "smooth", "next_act"} | _DOWN,
  warmstart=set(_DOWN),
  island=set(_DOWN),
  gravity={"gravcomp", "bias", "passive", "qact", "smooth", "sens_epot", "e_pot"} | _DOWN,
  spring={"spring", "passive", "smooth", "sens_epot", "e_pot"} | _DOWN,  # + gravcomp, qact when DAMPER is disabled too (both off = all passive forces off)
  damper={"damper", "passive", "smooth"} | _DOWN,  # + gravcomp, qact when SPRING is disabled too
  eulerdamp={"next_qv", "inv"},
  refsafe={"aref_eq", "aref_fr", "aref_lim", "aref_con"} | _DOWN,
  contact={"contacts", "rows_con", "aref_con", "nefc"} | _DOWN,
  filterparent={"contacts", "rows_con", "aref_con", "nefc"} | _DOWN,
  multiccd={"contacts", "rows_con", "aref_con", "nefc"} | _DOWN,
  constraint={"contacts", "ne", "nf", "nl", "nefc"} | _ALL_ROWS | _DOWN,
  equality={"ne", "nefc", "rows_eq", "aref_eq"} | _DOWN,
  frictionloss={"nf", "nefc", "rows_fr", "aref_fr"} | _DOWN,
  limit={"nl", "nefc", "rows_lim", "aref_lim"} | _DOWN,
)


def _may_change(flag, S):
  mc = set(_MAY_CHANGE[flag])
  if (flag == "spring" and "damper" in S) or (flag == "damper" and "spring" in S):
    mc |= {"gravcomp", "qact"}
  return mc


# --------------------------------------------------------------------------------------
# differential comparison


def _cond(A):
  s = np.linalg.svd(A, compute_uv=False)
  return float(s[0] / max(s[-1], 1e-300))


def _dense_D(mjm, qDeriv):
  D = np.zeros((mjm.nv, mjm.nv))
  mujoco.mju_sparse2dense(D, qDeriv, mjm.D_rownnz, mjm.D_rowadr, mjm.D_colind)
  return D


def _quat_slots(mjm):
  out = []
  for j in range(mjm.njnt):
    t = int(mjm.jnt_type[j])
    if t == 0:
      out.append(int(mjm.jnt_qposadr[j]) + 3)
    elif t == 1:
      out.append(int(mjm.jnt_qposadr[j]))
  return out


def _qpos_err(slots, a, b):
  a = np.array(a, dtype=np.float64)
  b = np.array(b, dtype=np.float64)
  for qa in slots:
    x, y = a[qa : qa + 4], b[qa : qa + 4]
    nx, ny = np.linalg.norm(x), np.linalg.norm(y)
    if nx > 0 and ny > 0 and np.isfinite(nx) and np.isfinite(ny):
      x, y = x / nx, y / ny
      if float(x @ y) < 0:
        y = -y
      a[qa : qa + 4], b[qa : qa + 4] = x, y
  if not (np.all(np.isfinite(a)) and np.all(np.isfinite(b))):
    return float("inf")
  return float(np.max(np.abs(a - b), initial=0.0))


def _close(rec, name, got, ref, tol, scale, sig, **ctx):
  e = relerr(got, ref, scale=scale, floor=1.0)
  rec.err(name, e)
  if not e <= tol:
    got = np.asarray(got, dtype=np.float64)
    ref = np.asarray(ref, dtype=np.float64)
    info = dict(field=name, err=e, tol=tol)
    if got.shape == ref.shape and got.size:
      dd = np.abs(got - ref)
      dd = np.where(np.isfinite(dd), dd, np.inf)
      i = int(np.argmax(dd))
      info.update(index=i, got=float(got.reshape(-1)[i]), want=float(ref.reshape(-1)[i]))
    rec.violation(f"{name}: err {e:.3g} > tol {tol:.3g} {info} flags={ctx.get('flags')}", sig=sig, **info, **ctx)


def _same_contacts(W, Mj, want_pairs=False):
  """Both engines report the same contacts (multiset by geom pair, position, distance, frame, dimension, inclusion)."""
  cw, cm = W["con"], Mj["con"]
  pairs, ua, ub = H.match_contacts(cw, cm)
  same = not (ua or ub) and not Mj["exclude3"]
  for a, b in pairs:
    if not same:
      break
    if np.linalg.norm(cw["pos"][a] - cm["pos"][b]) > 3e-4 or abs(cw["dist"][a] - cm["dist"][b]) > 1e-4 or int(cw["dim"][a]) != int(cm["dim"][b]):
      same = False
    elif np.max(np.abs(np.asarray(cw["frame"][a], dtype=np.float64).reshape(-1) - np.asarray(cm["frame"][b]).reshape(-1))) > 3e-4:
      same = False
    elif (cw["dist"][a] < cw["includemargin"][a]) != (cm["dist"][b] < cm["includemargin"][b]):
      same = False
  return (same, pairs) if want_pairs else same


def _differential(rec, mjm, S, case, W, Mj, state):
  """MJWarp run W vs MuJoCo run Mj, same flags, same state."""
  ctx = dict(flags=sorted(S))
  nv = mjm.nv
  dt = float(mjm.opt.timestep)
  fscale = max(1.0, float(np.max(np.abs(Mj["qfrc_bias"]), initial=0)), float(np.max(np.abs(Mj["qfrc_passive"]), initial=0)), float(np.max(np.abs(Mj["qfrc_smooth"]), initial=0)))
  # ---- A: passive / bias forces
  rec.ev()
  for k in ("qfrc_bias", "qfrc_spring", "qfrc_damper", "qfrc_gravcomp", "qfrc_passive"):
    _close(rec, k, W[k], Mj[k], 5e-4, fscale, f"fwd:{k}", **ctx)
  # ---- B: actuation
  rec.ev()
  ascale = max(1.0, float(np.max(np.abs(Mj["actuator_force"]), initial=0)), float(np.max(np.abs(Mj["qfrc_actuator"]), initial=0)))
  for k in ("actuator_force", "qfrc_actuator"):
    _close(rec, k, W[k], Mj[k], 5e-4, ascale, f"fwd:{k}", **ctx)
  _close(rec, "act_dot", W["act_dot"], Mj["act_dot"], 5e-4, None, "fwd:act_dot", **ctx)
  # ---- smooth acceleration
  rec.ev()
  _close(rec, "qfrc_smooth", W["qfrc_smooth"], Mj["qfrc_smooth"], 5e-4, max(fscale, ascale), "fwd:qfrc_smooth", **ctx)
  condM = _cond(Mj["Mdense"])
  tol_acc = 2e-5 * min(max(condM, 10.0), 1e6) / 10.0 + 1e-4
  if condM <= 1e6:
    _close(rec, "qacc_smooth", W["qacc_smooth"], Mj["qacc_smooth"], tol_acc, None, "fwd:qacc_smooth", cond=condM, **ctx)
  else:
    rec.boundary_skipped += 1
  # ---- C: constraint counts and rows
  rec.ev()
  for k in ("ne", "nf"):
    if W[k] != Mj[k]:
      rec.violation(f"{k}: {W[k]} vs MuJoCo {Mj[k]} flags={sorted(S)}", sig=f"count:{k}", **ctx)
  if W["nl"] != Mj["nl"]:
    if Mj["limit_boundary"]:
      rec.boundary_skipped += 1
      rec.cls("skipped:limit-at-margin")
      return False
    rec.violation(f"nl: {W['nl']} vs MuJoCo {Mj['nl']} flags={sorted(S)}", sig="count:nl", **ctx)
  cw, cm = W["con"], Mj["con"]
  same, pairs = _same_contacts(W, Mj, True)
  ew, em = W["efc"], Mj["efc"]
  comparable = same
  row_slack, force_tight = 0.0, True
  if same:
    rec.ev()
    if ew["nefc"] != em["nefc"]:
      rec.violation(f"nefc: {ew['nefc']} vs MuJoCo {em['nefc']} with identical contact sets, flags={sorted(S)}", sig="count:nefc", **ctx)
    cw2 = dict(cw)
    cw2["pos"] = np.array(cw["pos"], dtype=np.float64)
    for a, b in pairs:
      cw2["pos"][a] = cm["pos"][b]
    rw, rm = c05.rows_keyed(ew, cw2, mjm, None), c05.rows_keyed(em, cm, mjm)
    if [k for k, _ in rw] != [k for k, _ in rm]:
      onlyw = [k for k in dict(rw) if k not in dict(rm)][:3]
      onlym = [k for k in dict(rm) if k not in dict(rw)][:3]
      rec.violation(f"constraint row keys differ: only mjwarp {onlyw} only mujoco {onlym} flags={sorted(S)}", sig="rows:keys", **ctx)
      comparable = False
    elif em["nefc"]:
      iw, im = [i for _, i in rw], [i for _, i in rm]
      ell = np.array([int(em["type"][i]) == 7 and k[-1] > 0 for k, i in rm], dtype=bool)
      pw = np.array(ew["pos"], dtype=np.float64) - np.array(ew["margin"], dtype=np.float64)
      pm = np.array(em["pos"]) - np.array(em["margin"])
      # contacts are matched within 3e-4 in position and frame: J (lever arm x frame) within 1.5e-3, vel = J.qvel accordingly
      _close(rec, "efc.J", ew["J"][iw], em["J"][im], 1.5e-3, 1.0, "rows:J", **ctx)
      _close(rec, "efc.pos-margin", pw[iw], pm[im], 3e-4, 1.0, "rows:pos", **ctx)
      if (~ell).any():
        _close(rec, "efc.margin", np.array(ew["margin"])[iw][~ell], np.array(em["margin"])[im][~ell], 1e-5, 1.0, "rows:margin", **ctx)
      q1 = float(np.sum(np.abs(state["qvel"])))
      _close(rec, "efc.vel", ew["vel"][iw], em["vel"][im], 1.5e-3, max(1.0, q1, float(np.max(np.abs(em["vel"])))), "rows:vel", **ctx)
      _close(rec, "efc.frictionloss", ew["frictionloss"][iw], em["frictionloss"][im], 1e-5, None, "rows:frictionloss", **ctx)
      Dw, Dm = ew["D"][iw].astype(np.float64), em["D"][im]
      # D = I / ((1 - I) diagApprox) with impedance I(pos): a position difference inside the contact-matching tolerance moves I by I' * dpos, i.e. D by
      # dpos * I' / (I (1 - I)) relative - large on a narrow impedance ramp (solimp width 1e-4: thorough tier saw 3.6 %).  MuJoCo's own I and I' (efc_KBIP)
      Iimp, dI = em["KBIP"][im, 2], np.abs(em["KBIP"][im, 3])
      dpos = np.abs(pw[iw] - pm[im]) + 2e-7
      allow = 2e-3 + 2.0 * dpos * dI / np.maximum(Iimp * (1.0 - Iimp), 1e-9)
      relv = np.abs(Dw - Dm) / np.maximum(np.abs(Dm), 1e-6)
      rel = float(np.max(relv / allow) * 2e-3)
      rec.err("efc.D(rel, scaled to the 2e-3 tolerance)", rel)
      if rel > 2e-3:
        j = int(np.argmax(relv / allow))
        rec.violation(f"efc.D differs: row key {rw[j][0]} got {Dw[j]} want {Dm[j]} flags={sorted(S)}", sig="rows:D", **ctx)
      # aref = -B*vel - K*I*(pos - margin): judged as the stiffness/damping/impedance computation (what REFSAFE acts on), i.e. relative to the size of its two terms and
      # allowing for the row's own (separately judged) vel and pos differences
      K, B, I = em["KBIP"][im, 0], em["KBIP"][im, 1], em["KBIP"][im, 2]
      aw, am = ew["aref"][iw].astype(np.float64), em["aref"][im]
      dvel = np.abs(ew["vel"][iw].astype(np.float64) - em["vel"][im])
      dpos = np.abs(pw[iw] - pm[im])
      terms = B * np.abs(em["vel"][im]) + K * I * np.abs(pm[im])
      allow = 8e-3 * terms + 8.0 * (B * dvel + K * I * dpos) + 1e-5 * max(1.0, float(np.max(np.abs(am))))
      ratio = np.abs(aw - am) / allow
      rec.err("efc.aref/tol", float(np.max(ratio)))
      if not np.max(ratio) <= 1.0:
        j = int(np.argmax(ratio))
        rec.violation(f"efc.aref differs: row key {rw[j][0]} got {aw[j]} want {am[j]} (allowed {allow[j]:.3g}) flags={sorted(S)}", sig="rows:aref", **ctx)
      if float(np.max(em["D"])) > 1e10:
        comparable = False
      # what the rows' own (separately judged) differences do to a force computed from them: |J|^T (D*|d aref| + |d D|*|J.qacc - aref|), used as slack by the inverse check
      jar = np.abs(em["J"][im] @ W["qacc"].astype(np.float64) - am)
      df = Dm * np.abs(aw - am) + np.abs(Dw - Dm) * jar + Dm * (np.abs(ew["J"][iw].astype(np.float64) - em["J"][im]) @ np.abs(W["qacc"].astype(np.float64)))
      row_slack = float(np.max(np.abs(em["J"][im]).T @ df)) if np.all(np.isfinite(df)) else float("inf")
      fw, fm = ew["force"][iw].astype(np.float64), em["force"][im]
      force_tight = bool(np.max(np.abs(fw - fm)) <= 2e-4 * max(1.0, float(np.max(np.abs(fm)))))
  else:
    rec.boundary_skipped += 1
    rec.cls("skipped:contact-sets-differ")
  # ---- D: solver outputs
  converged = Mj["niter"] < _ITER and W["solver_niter"] < _ITER
  accscale = max(1.0, float(np.max(np.abs(Mj["qacc"]))))
  rtol_acc = tol_acc if em["nefc"] == 0 else max(tol_acc, 3e-2)
  solved = comparable and converged and condM <= 1e6
  qacc_tight = False
  if solved:
    rec.ev()
    _close(rec, "qacc", W["qacc"], Mj["qacc"], rtol_acc, accscale, "fwd:qacc", nefc=em["nefc"], **ctx)
    # MJWarp recovers qfrc_constraint as a difference of forces of the size of qfrc_smooth (float32), hence the smooth force scale
    cscale = max(1.0, float(np.max(np.abs(Mj["qfrc_constraint"]), initial=0)), Mj["efc_force_max"] if nv else 0.0, fscale, ascale)
    _close(rec, "qfrc_constraint", W["qfrc_constraint"], Mj["qfrc_constraint"], max(rtol_acc, 5e-4), cscale, "fwd:qfrc_constraint", **ctx)
    qacc_tight = relerr(W["qacc"], Mj["qacc"], scale=accscale) <= 2e-4
  elif comparable:
    rec.boundary_skipped += 1
    rec.cls("skipped:solver-not-converged-or-illconditioned")
  # ---- E: sensors
  if mjm.nsensordata:
    rec.ev()
    if "sensor" in S:
      want = np.full(mjm.nsensordata, _PREFILL if case["prefill"] else 0.0)
      if not np.array_equal(Mj["sensordata"], want):
        rec.notes["mujoco-sensordata-touched-with-sensor-disabled"] += 1
      elif not np.array_equal(W["sensordata"].astype(np.float64), want):
        rec.violation(
          f"SENSOR disabled: MuJoCo leaves sensordata untouched ({want[0]}), MJWarp wrote {W['sensordata'][:4].tolist()}... flags={sorted(S)}",
          sig="sensor-disabled:sensordata-zeroed" if not W["sensordata"].any() else "sensor-disabled:sensordata-written", **ctx,
        )
    else:
      cacc = max(1.0, float(np.max(np.abs(Mj["cacc"]), initial=0.0)), Mj["cfrc"], Mj["efc_force_max"], ascale)
      vsc = max(1.0, float(np.max(np.abs(state["qvel"]), initial=0.0)))
      for i in range(mjm.nsensor):
        a, n = int(mjm.sensor_adr[i]), int(mjm.sensor_dim[i])
        stage = int(mjm.sensor_needstage[i])
        t = int(mjm.sensor_type[i])
        name = mujoco.mjtSensor(t).name[len("mjSENS_"):].lower()
        got, ref = W["sensordata"][a : a + n], Mj["sensordata"][a : a + n]
        if stage == int(mujoco.mjtStage.mjSTAGE_ACC):
          if t in (int(_S.mjSENS_ACTUATORFRC), int(_S.mjSENS_JOINTACTFRC)):
            _close(rec, f"sensor:{name}", got, ref, 5e-4, ascale, f"sensor:{name}", **ctx)
          elif solved and qacc_tight and force_tight:
            _close(rec, f"sensor:{name}", got, ref, 2e-3, cacc, f"sensor:{name}", **ctx)
          else:
            rec.boundary_skipped += 1
        elif t in (int(_S.mjSENS_E_POTENTIAL), int(_S.mjSENS_E_KINETIC)):
          _close(rec, f"sensor:{name}", got, ref, 1e-4, _escale(mjm, Mj, ref), f"sensor:{name}", **ctx)
        else:
          _close(rec, f"sensor:{name}", got, ref, 1e-4, max(1.0, vsc if stage == 2 else 1.0, float(np.max(np.abs(ref), initial=0.0))), f"sensor:{name}", **ctx)
  # ---- F: energy
  if "energy" in S:
    rec.ev()
    has_esens = bool(np.isin(mjm.sensor_type, [int(_S.mjSENS_E_POTENTIAL), int(_S.mjSENS_E_KINETIC)]).any())
    sig = "energy:sensor-disabled" if ("sensor" in S and has_esens) else None
    _close(rec, "energy:potential", W["energy"][0], Mj["energy"][0], 1e-4, _escale(mjm, Mj, Mj["energy"][0]), sig or "energy:potential", **ctx)
    _close(rec, "energy:kinetic", W["energy"][1], Mj["energy"][1], 1e-4, max(1.0, abs(float(Mj["energy"][1]))), sig or "energy:kinetic", **ctx)
  # ---- H: inverse dynamics (MuJoCo evaluated on MJWarp's float32 qacc)
  if case["inverse"]:
    if W["inv_rejected"]:
      rec.cls("inverse:rejected-by-mjwarp")
    elif "invdiscrete" in S and case["opt"]["integrator"] == "Euler" and "damper" in S and "eulerdamp" not in S and bool((mjm.dof_damping != 0).any()):
      # the reference contradicts itself here: with DAMPER disabled mj_Euler applies no implicit damping, but mj_discreteAcc (INVDISCRETE) still converts qacc with
      # M + dt*diag(damping) (hinge, damping 5, dt .01, qfrc_applied .7: mj_inverse of mj_step's own discrete acceleration returns 1.90).  MJWarp follows the step.  Not judged.
      rec.excluded["mujoco:discrete-inverse-ignores-damper-flag"] += 1
    elif "invdiscrete" in S and case["opt"]["integrator"] != "Euler" and _quat_slots(mjm):
      # the discrete-time conversion uses the integrator's matrix M - dt*qDeriv: see the implicit step below (C08's business for free/ball joints)
      rec.excluded["implicit-integrator:free-or-ball-joints:discrete-inverse"] += 1
    elif W["inv"] is not None and Mj["inv"] is not None and comparable and condM <= 1e6:
      rec.ev()
      tol_i = 2e-3 if em["nefc"] else 5e-4
      _close(rec, "qfrc_inverse", W["inv"], Mj["inv"], tol_i, Mj["inv_scale"] + 4.0 * row_slack / tol_i, "inverse:qfrc_inverse" + (":discrete" if "invdiscrete" in S else ""), **ctx)
      rec.cls(f"inverse:judged:discrete={'invdiscrete' in S}")
  # ---- G: next state
  nw, nm = W["next"], Mj["next"]
  rec.ev()
  if not abs(nw["time"] - nm["time"]) <= 1e-6 * max(1.0, abs(nm["time"])):
    rec.violation(f"time after step {nw['time']!r} vs {nm['time']!r}", sig="step:time", **ctx)
  if mjm.na:
    asc = max(1.0, float(np.max(np.abs(nm["act"]))), float(np.max(np.abs(nm["act"] - state["act"]))))
    frozen = "actuation" in S and np.array_equal(nm["act"], np.asarray(state["act"], dtype=np.float64))  # MuJoCo does not advance activations with ACTUATION disabled
    _close(rec, "act(next)", nw["act"], nm["act"], 2e-5, asc, "actuation-disabled:act-advanced" if frozen else "step:act", **ctx)
  if em["nefc"] and not solved:
    return comparable
  integ = case["opt"]["integrator"]
  t = _step_tol(mjm, S, case, Mj, state)
  if t is None:
    rec.boundary_skipped += 1
    return comparable
  acc2, r_acc, vscale = t
  if integ != "Euler" and _quat_slots(mjm):
    # implicit integrators on models with free/ball joints: MuJoCo 3.13 folds the velocity derivative of the gyroscopic terms of free bodies into implicitfast as well, MJWarp
    # does not.  That is a property of the integrator under the default flags (C08's business), it would show up here for every flag set: class excluded, counted.
    rec.excluded["implicit-integrator:free-or-ball-joints:next-state"] += 1
    return comparable
  rec.ev()
  v1 = nm["qvel"]
  vtol = r_acc * acc2 * dt + 4e-6 * vscale
  ev = float(np.max(np.abs(nw["qvel"].astype(np.float64) - v1), initial=0.0)) if np.all(np.isfinite(nw["qvel"])) else float("inf")
  rec.err("qvel(next)/tol", ev / vtol)
  if not ev <= vtol:
    i = int(np.argmax(np.abs(nw["qvel"].astype(np.float64) - v1)))
    rec.violation(f"qvel after {integ} step: err {ev:.3g} > tol {vtol:.3g} at dof {i}: {float(nw['qvel'][i])!r} vs {float(v1[i])!r} flags={sorted(S)}", sig=f"step:qvel:{integ}", err=ev, tol=vtol, **ctx)
    return comparable
  pscale = max(1.0, float(np.max(np.abs(nm["qpos"]), initial=0.0)))
  ptol = vtol * dt + 2e-5 * pscale * (1.0 + vscale * dt)
  ep = _qpos_err(_quat_slots(mjm), nw["qpos"], nm["qpos"])
  rec.err("qpos(next)/tol", ep / ptol)
  if not ep <= ptol:
    rec.violation(f"qpos after {integ} step: err {ep:.3g} > tol {ptol:.3g} flags={sorted(S)}", sig=f"step:qpos:{integ}", err=ep, tol=ptol, **ctx)
  return comparable


def _step_tol(mjm, S, case, Mj, state):
  """(acceleration scale, relative acceleration tolerance, velocity scale) of one step as in C08, or None when M or the integrator matrix is ill-conditioned."""
  dt = float(mjm.opt.timestep)
  integ = case["opt"]["integrator"]
  cond = _cond(Mj["Mdense"])
  try:
    if integ in ("implicit", "implicitfast"):
      D = _dense_D(mjm, Mj["qDeriv"])
      if integ == "implicitfast":
        L = np.tril(D)
        D = L + L.T - np.diag(np.diag(D))
      cond = max(cond, _cond(Mj["Mdense"] - dt * D))
    elif "eulerdamp" not in S and "damper" not in S:
      cond = max(cond, _cond(Mj["Mdense"] + dt * np.diag(mjm.dof_damping)))
  except np.linalg.LinAlgError:
    cond = float("inf")
  if not cond <= 1e6:
    return None
  v0, v1 = np.asarray(state["qvel"], dtype=np.float64), Mj["next"]["qvel"]
  acc2 = max(1.0, float(np.max(np.abs(Mj["qacc"]))), float(np.max(np.abs(v1 - v0), initial=0.0)) / dt)
  r_acc = 2e-5 * min(max(cond, 10.0), 1e6) / 10.0 + 1e-4
  if Mj["nefc"]:
    r_acc = max(r_acc, 3e-2)
  return acc2, r_acc, max(1.0, float(np.max(np.abs(v1), initial=0.0)))


_ANALYTIC = (int(mujoco.mjtGeom.mjGEOM_PLANE), int(mujoco.mjtGeom.mjGEOM_SPHERE), int(mujoco.mjtGeom.mjGEOM_CAPSULE))


def _pair_presence(mjm, a, b):
  """Geom pairs of analytic types (plane/sphere/capsule) that penetrate by more than 2 mm in contact list a and do not occur at all in contact list b."""
  present = {(int(g[0]), int(g[1])) for g in b["geom"]}
  out = set()
  for g, dist in zip(a["geom"], a["dist"]):
    k = (int(g[0]), int(g[1]))
    if dist < -2e-3 and k not in present and int(mjm.geom_type[k[0]]) in _ANALYTIC and int(mjm.geom_type[k[1]]) in _ANALYTIC:
      out.add(k)
  return out


def _ped_count(mjm, con):
  """Number of contacts of the flat pedestal pair (static box 'gped' under the box / cube mesh 'gpb'), or None without a pedestal."""
  g1, g2 = mujoco.mj_name2id(mjm, mujoco.mjtObj.mjOBJ_GEOM, "gped"), mujoco.mj_name2id(mjm, mujoco.mjtObj.mjOBJ_GEOM, "gpb")
  if g1 < 0 or g2 < 0:
    return None
  return sum(1 for g in con["geom"] if {int(g[0]), int(g[1])} == {g1, g2})


def _contact_effect(rec, mjm, S, W, Mj, W0, Mj0):
  """The flags that act on collision detection (CONSTRAINT, CONTACT, FILTERPARENT, MULTICCD) must act on the contact list as in MuJoCo.  Geometric differences between the two
  collision pipelines are C04's business and do not depend on the flags: judged only for what already agrees under the default flags on the same model and state, namely
  (i) presence of clearly penetrating (> 2 mm) pairs of analytic geom types, (ii) the number of contacts of the flat pedestal pair (4 with MULTICCD, 1 without for mesh-box)."""
  if not (_pair_presence(mjm, W0["con"], Mj0["con"]) or _pair_presence(mjm, Mj0["con"], W0["con"])):
    rec.ev()
    extra, missing = _pair_presence(mjm, W["con"], Mj["con"]), _pair_presence(mjm, Mj["con"], W["con"])
    if extra or missing:
      rec.violation(
        f"flags {sorted(S)}: geom pairs penetrating > 2 mm reported by MJWarp only {sorted(extra)} / by MuJoCo only {sorted(missing)} (the default-flags contact lists of the same state agree)",
        sig="contacts:pairs", flags=sorted(S),
      )
  n0w, n0m = _ped_count(mjm, W0["con"]), _ped_count(mjm, Mj0["con"])
  if n0w is not None and n0w == n0m:
    rec.ev()
    nw, nm = _ped_count(mjm, W["con"]), _ped_count(mjm, Mj["con"])
    rec.cls(f"pedestal-contacts:{nm}")
    if nw != nm:
      rec.violation(f"flags {sorted(S)}: the flat box/mesh-on-box pair has {nw} contacts, MuJoCo {nm} (default flags: {n0w} in both)", sig="contacts:count:flat-pair", flags=sorted(S))


def _escale(mjm, Mj, ref):
  return max(1.0, float(np.sum(np.abs(mjm.body_mass[:, None] * Mj["xipos"] * mjm.opt.gravity[None, :]))), float(np.max(np.abs(ref), initial=0.0)))


# --------------------------------------------------------------------------------------

_RUNS = {}  # (model+state key, flags) -> MJWarp run; lets the enumerated cases of one base model share the default-flags run


def _key(spec, case):
  return hashlib.sha1(json.dumps([gen.render(spec), case["seed"], case["sigma"], case["settle"], case["prefill"], case["inverse"]], sort_keys=True).encode()).hexdigest()


def _cached_run(key, S, spec, state, case):
  k = (key, tuple(sorted(S)))
  if k not in _RUNS:
    if len(_RUNS) > 48:
      _RUNS.clear()
    mjm = H.compile_spec(_with_flags(spec, S))
    _RUNS[k] = (mjm, _mjw_run(mjm, state, case))
  return _RUNS[k]


def check(case, rec):
  S = set(case["flags"])
  F = case["toggle"]
  spec = _spec(case, rec)
  mjm0 = H.compile_spec(_with_flags(spec, []))
  if mjm0.nv == 0:
    raise Reject("nv=0")
  state = _state(case, mjm0)
  key = _key(spec, case)

  mjmS, W = _cached_run(key, S, spec, state, case)
  rec.cls(f"nflags:{min(len(S), 8) if len(S) < 8 else '8+'}", *[f"flag:{f}" for f in sorted(S)], f"integrator:{case['opt']['integrator']}", f"solver:{case['opt']['solver']}", f"cone:{case['opt']['cone']}")
  if W is None:
    rec.inconclusive += 1
    return
  if not (np.all(np.isfinite(W["qacc"])) and np.all(np.isfinite(W["next"]["qvel"]))):
    # judged against MuJoCo below (a finite reference with a non-finite MJWarp result is a violation of the differential oracle)
    pass

  # ---- oracle 1: differential
  Mj = _mj_run(mjmS, state, case, qacc_inv=W["qacc"].astype(np.float64) if np.all(np.isfinite(W["qacc"])) else None)
  default = {}

  def default_runs():
    if not default:
      _, W0 = _cached_run(key, set(), spec, state, case)
      default["W"] = W0
      default["Mj"] = _mj_run(mjm0, state, case, qacc_inv=W0["qacc"].astype(np.float64) if (W0 is not None and np.all(np.isfinite(W0["qacc"]))) else None)
    return default["W"], default["Mj"]

  comparable = False
  if Mj is None:
    rec.rejected += 1  # MuJoCo aborts / warns / non-finite reference
  else:
    comparable = _differential(rec, mjmS, S, case, W, Mj, state)
    rec.cls(f"comparable:{bool(comparable)}", f"nefc>0:{Mj['nefc'] > 0}", f"ncon>0:{Mj['ncon'] > 0}")
    if S & {"constraint", "contact", "filterparent", "multiccd"}:
      W0, Mj0 = default_runs()
      if W0 is not None and Mj0 is not None:
        _contact_effect(rec, mjmS, S, W, Mj, W0, Mj0)

  # ---- oracle 2: locality of the toggled flag
  T = set(S) ^ {F}
  mjmT, WT = _cached_run(key, T, spec, state, case)
  if WT is not None:
    gS, gT = _groups(mjmS, W), _groups(mjmT, WT)
    mc = _may_change(F, S | T)
    has_esens = bool(np.isin(mjmS.sensor_type, [int(_S.mjSENS_E_POTENTIAL), int(_S.mjSENS_E_KINETIC)]).any())
    changed = []
    for name in gS:
      if gS[name] != gT[name]:
        changed.append(name)
      if name in mc:
        continue
      rec.ev()
      if gS[name] != gT[name]:
        sig = f"locality:{F}:{name}"
        if F == "sensor" and name in ("e_pot", "e_kin") and "energy" in S and has_esens:
          sig = "energy:sensor-disabled"
        rec.violation(f"toggling flag '{F}' (flags {sorted(S)} vs {sorted(T)}) changed field group '{name}', which is not downstream of that flag", sig=sig, flags=sorted(S), toggle=F)
    rec.cls(f"toggle:{F}:{'changes-something' if changed else 'inert'}")
  else:
    rec.inconclusive += 1

  # ---- non-triviality: does S change anything versus the default flags on this model and state?
  if S:
    W0, Mj0 = default_runs()
    differs = False
    if W0 is not None:
      g0 = _groups(mjm0, W0)
      gS = _groups(mjmS, W)
      differs = any(g0[k] != gS[k] for k in g0)
    if not differs and Mj is not None:
      differs = Mj0 is not None and _mj_differs(Mj0, Mj)
    if len(S) == 1:
      rec.cls(f"effect:{next(iter(S))}:{differs}")
    rec.cls(f"nontrivial:{differs}")
    if differs and Mj is not None:
      rec.nt()
