"""C10 Per-world model parameters take effect only in their world (metamorphic: batched field == per-world unbatched model)."""

from __future__ import annotations

import dataclasses

import mujoco
import numpy as np
import warp as wp
from hypothesis import strategies as st

import mujoco_warp as mjw
from mujoco_warp._src import types as T
from mujoco_warp._src import warp_util
from mujoco_warp._src.types import OverflowType as OT

from vf import gen, mjw as H
from vf import x10_fields as X
from vf.core import Reject, Violation, check_close, check_equal, relerr

RULE = (
  "case = (batchable field f enumerated at run time from the array('*', ...) annotations of types.Model/Option/Statistic) x rich model in which f "
  "has a live user (bodies piled on a plane incl. explicit pairs fitted to touching / gap-band geoms, joint and tendon limits fitted to be violated "
  "at the drawn state, frictionloss, connect/weld/joint/tendon equalities, a fully parameterised fixed tendon + spatial tendon with wrapping, "
  "position/intvelocity/general(+activation, affine gain and bias, act/ctrl/force ranges)/muscle/slider-crank/site actuators, fluid, gravcomp, "
  "adhesion, surface velocity, meshes, cameras and lights in all tracking modes, mocap, static bodies, a sensor battery incl. camprojection, "
  "magnetometer, limit/actuator force sensors; feature tags per field: CG solver, calm state with 50x friction loss, sleeping, elliptic cone, ...) x "
  "nworld in {2,3,4,6} x batch size b in {1, divisors, nworld} x b different valid rows of f (mode direct: only f varies; mode consistent: f's "
  "mj_setConst inputs vary and every field mj_setConst recomputes is batched too) x assignment style (put_model(batch_sizes) + assign / replace "
  "the array) x options (4 integrators, Newton/CG, both cones, dense/sparse, sleeping enabled in 1/4 of the Newton cases); oracle: world i of the "
  "batched run == world 0 of put_model(mjm_i) + make_data(mjm_i), mjm_i = MjModel edited to hold row i%b, after forward and 2 steps with per-step "
  "resync (bitwise, else 1e-4 of the field scale, 2e-4 for solver outputs and per sensor; Newton + sparse Jacobian: 3e-2 for solver outputs, no "
  "niter comparison): state, kinematics of bodies/geoms/sites/cameras/lights, tendon/actuator lengths and forces, passive/bias/constraint forces, "
  "each sensor, energy, ne/nf/nl/nefc, contact multiset with its parameters, solver_niter, tree_asleep; evaluation = one (world, stage); "
  "non-trivial = the unbatched runs of two different rows (b=1: row vs unedited model) differ in some observed output by > 3x the comparison "
  "tolerance, so that reading the wrong row would be reported (else the field is counted 'inert' for that case)"
)
ASSUMPTIONS = [
  "render-only fields are skipped explicitly (class field:<name>:skipped-render-only): " + ", ".join(sorted(X.RENDER_ONLY)),
  "decisions frozen by put_model are respected: has_fluid/flg_adhesion/flg_surfacevel/ngravcomp/body_fluid_box (wind, density, viscosity, adhesion, "
  "surfacevel, gravcomp, masses varied multiplicatively around a non-zero base; zero stays zero), tolerance >= 1e-6 (put_model clamp), box/mesh "
  "geoms keep margin 0; a case whose per-world MjModel changes any non-batchable Model field is rejected (class frozen-changed); MuJoCo's "
  "*_sameframe compiler shortcuts are cleared in the MjModel copies (they are stale once pose fields are edited)",
  "static-geom-pose (F1): per-world geom_pos/geom_quat of geoms welded to the world and body_pos/body_quat of the static non-mocap bodies carrying "
  "them are excluded from the ordinary cases (counted in excluded) and probed separately (mode static-probe varies only those elements) with sig "
  "static-geom-pose; sleep:opt-tolerance: cases (field in {tolerance, ls_tolerance}, sleeping enabled) are routed through that sig",
  "Newton + sparse Jacobian is reproducible across batch sizes only to solver accuracy (Hessian accumulated in nworld-dependent groups, as in C09): "
  "kept to ~1/10 of the cases, never with RK4 or sleeping, solver outputs judged to 3e-2 and not at all when a solve hit the iteration limit",
  "all worlds start from the same state (cross-world state independence is C09); ample capacities nconmax=120 njmax=400, overflow => discarded",
  "CPU device, canonical thread order",
]
BUDGET = {"quick": dict(examples=64, seconds=420, workers=16), "thorough": dict(examples=3000, seconds=1500, workers=16)}

_CAP = int(OT.NEFC | OT.NJMAX_NNZ | OT.BROADPHASE | OT.NARROWPHASE | OT.CCD | OT.NVMAX | OT.HFIELD | OT.EPA_HORIZON | OT.CONTACT_MATCH)
_FIELDS = [
  "qpos", "qvel", "act", "time", "qacc", "qacc_warmstart", "sensordata", "qfrc_constraint", "qfrc_actuator", "qfrc_passive", "qfrc_bias", "actuator_force",
  "xpos", "xquat", "xipos", "ximat", "xanchor", "xaxis", "subtree_com", "geom_xpos", "geom_xmat", "site_xpos", "site_xmat", "cam_xpos", "cam_xmat", "light_xpos",
  "light_xdir", "ten_length", "actuator_length", "energy", "qfrc_spring", "qfrc_damper", "qfrc_gravcomp", "qfrc_fluid", "cinert",
]
_SOLVER_OUT = {"qacc", "qacc_warmstart", "qfrc_constraint", "sensordata", "qvel", "qpos", "act", "energy"}
_CONTACT = ["cdist", "cpos", "cincludemargin", "cfriction", "csolref", "csolreffriction", "csolimp"]
_DIVS = {2: [1, 2], 3: [1, 3], 4: [1, 2, 4], 6: [1, 2, 3, 6]}
_BATCHABLE = X.batchable_fields()
_OWNER = {n: o for o, n in _BATCHABLE}
_NAMES = [n for _, n in _BATCHABLE]
_OPT = dict(integrators=("Euler", "implicitfast", "implicit", "RK4"), solvers=("Newton", "CG"), cones=("pyramidal", "elliptic"), jacobians=("dense", "sparse"))


def _modes(name):
  ms = ["direct"]
  if name in X.SETCONST_INPUTS or name in X.DERIVED:
    ms.append("consistent")
  return ms


def _mk_case(name, g, k):
  n = [3, 4, 6, 2][k % 4] if k < 4 else int(g.choice([2, 3, 4, 6]))
  divs = _DIVS[n]
  if k % 2 == 0:
    b = n
  elif k % 4 == 3:
    b = divs[int(g.integers(0, len(divs) - 1))]  # any proper divisor incl. 1
  else:
    b = divs[-2]  # largest proper divisor (1 for prime nworld)
  modes = _modes(name)
  return dict(
    field=name, nworld=n, b=int(b), mode=modes[k % len(modes)], style=["batch_sizes", "replace"][(k // 2 + len(name)) % 2],
    model_seed=int(g.integers(0, 2**31 - 1)), state_seed=int(g.integers(0, 10**6)), value_seed=int(g.integers(0, 10**6)),
    opt=dict(integrator=str(g.choice(_OPT["integrators"])), solver=str(g.choice(_OPT["solvers"])), cone=str(g.choice(_OPT["cones"])), jacobian=str(g.choice(_OPT["jacobians"]))),
  )


def enumerate_cases(tier, seed):
  per = 3 if tier == "quick" else 12
  cases = []
  for fi, name in enumerate(_NAMES):
    if name in X.RENDER_ONLY:
      cases.append(dict(field=name, skip="render-only"))
      continue
    for k in range(per):
      g = np.random.default_rng([int(seed), fi, k, 0xC10])
      cases.append(_mk_case(name, g, k))
  for fi, name in enumerate(X.POSE_FIELDS):
    for k in range(1 if tier == "quick" else 4):
      g = np.random.default_rng([int(seed), fi, k, 0xF1])
      c = _mk_case(name, g, 2 * k)
      c["mode"] = "static-probe"
      cases.append(c)
  return cases


def strategy(tier):
  names = [n for n in _NAMES if n not in X.RENDER_ONLY]
  return st.fixed_dictionaries(
    dict(
      field=st.sampled_from(names),
      nworld=st.sampled_from([2, 3, 4, 6]),
      bsel=st.integers(0, 3),
      modesel=st.integers(0, 19),
      style=st.sampled_from(["batch_sizes", "replace"]),
      model_seed=st.integers(0, 2**31 - 1),
      state_seed=st.integers(0, 10**6),
      value_seed=st.integers(0, 10**6),
      opt=gen.option_strategy(),
    )
  )


# --------------------------------------------------------------------------------------


def _frozen(m):
  """Everything in a Model that is not a batchable array: must be identical for the per-world models (else the case
  asks for a per-world variation of something put_model froze)."""
  out = {}

  def conv(v):
    if isinstance(v, wp.array):
      return v.numpy().tobytes() if v.size else b""
    if isinstance(v, (tuple, list)):
      return tuple(conv(x) for x in v)
    if dataclasses.is_dataclass(v):
      return tuple((f.name, conv(getattr(v, f.name))) for f in dataclasses.fields(v))
    if isinstance(v, np.ndarray):
      return v.tobytes()
    if isinstance(v, (int, float, bool, str, np.integer, np.floating, np.bool_)) or v is None:
      return repr(v)
    return None

  for owner, obj in (("model", m), ("opt", m.opt)):
    for f in dataclasses.fields(obj):
      if f.name in ("opt", "stat", "callback"):
        continue
      if (owner, f.name) in _BATCHSET:
        continue
      out[f"{owner}.{f.name}"] = conv(getattr(obj, f.name))
  return out


_BATCHSET = set(_BATCHABLE)


def snapshot(mjm, d, w):
  c = H.contacts(d, w)
  order = H.contact_sort_key(c)
  out = {}
  for k in _FIELDS:
    arr = getattr(d, k, None)
    if arr is None or arr.size == 0:
      continue
    out[k] = arr.numpy()[w].copy()
  sd = out.pop("sensordata", None)
  if sd is not None:  # one entry per sensor: each is compared on its own scale
    for i in range(mjm.nsensor):
      out[f"sensor{i}"] = sd[mjm.sensor_adr[i] : mjm.sensor_adr[i] + mjm.sensor_dim[i]]
  out.update(
    ne=int(d.ne.numpy()[w]), nf=int(d.nf.numpy()[w]), nl=int(d.nl.numpy()[w]), nefc=int(d.nefc.numpy()[w]), niter=int(d.solver_niter.numpy()[w]),
    cgeom=c["geom"][order], cdim=c["dim"][order], cdist=c["dist"][order], cpos=c["pos"][order], cincludemargin=c["includemargin"][order],
    cfriction=c["friction"][order], csolref=c["solref"][order], csolreffriction=c["solreffriction"][order], csolimp=c["solimp"][order],
  )
  if d.tree_asleep.size:
    out["tree_asleep"] = d.tree_asleep.numpy()[w].copy()
  return out


_DISCRETE = ("ne", "nf", "nl", "nefc", "niter", "cgeom", "cdim", "tree_asleep")


def _is_solver_out(k):
  return k in _SOLVER_OUT or k.startswith("sensor")


def _tol(k, reassoc):
  return 3e-2 if (reassoc and _is_solver_out(k)) else (2e-4 if _is_solver_out(k) else 1e-4)


def _cont_keys(a):
  return [k for k in a if k not in _DISCRETE]


def compare(rec, a, b, what, reassoc=False, maxiter=100, sig=None, **ctx):
  def s(x):
    return sig or f"{what}:{'sensordata' if x.startswith('sensor') else x}"

  for k in ("ne", "nf", "nl", "nefc"):
    check_equal(rec, k, a[k], b[k], sig=s(k), **ctx)
  check_equal(rec, "contact.geom", a["cgeom"], b["cgeom"], sig=s("contacts"), **ctx)
  check_equal(rec, "contact.dim", a["cdim"], b["cdim"], sig=s("contacts"), **ctx)
  if "tree_asleep" in a:
    check_equal(rec, "tree_asleep", a["tree_asleep"], b["tree_asleep"], sig=s("tree_asleep"), **ctx)
  # Newton + sparse Jacobian accumulates its Hessian with atomics in nworld-dependent groups: a solve that does not converge in
  # one of the two runs is not reproducible beyond round-off amplification, so solver outputs are not judged there (counted)
  unconverged = reassoc and max(a["niter"], b["niter"]) >= maxiter
  if unconverged:
    rec.boundary_skipped += 1
  elif reassoc:
    rec.notes["niter_diff_reassoc_max"] = max(rec.notes["niter_diff_reassoc_max"], abs(a["niter"] - b["niter"]))
  elif abs(a["niter"] - b["niter"]) > 1:
    rec.violation(f"niter differs: {a['niter']} vs {b['niter']}", sig=s("niter"), **ctx)
  elif a["niter"] != b["niter"]:
    rec.notes["niter_off_by_one"] += 1
  for k in _cont_keys(a):
    if unconverged and _is_solver_out(k):
      continue
    if a[k].shape == b[k].shape and np.array_equal(a[k], b[k], equal_nan=True):
      rec.notes["bitwise_equal_fields"] += 1
      continue
    rec.notes["non_bitwise_fields"] += 1
    name = ("sensordata" if k.startswith("sensor") else k)
    check_close(rec, ("finding:" if sig else "reassoc:" if reassoc else "") + name, a[k], b[k], _tol(k, reassoc), sig=s(k), **ctx)


def differs(a, b, reassoc, maxiter=100):
  """Measured non-triviality: two unbatched runs differ by clearly more than the comparison tolerance (so that reading the wrong
  row would be reported)."""
  for k in ("ne", "nf", "nl", "nefc"):
    if a[k] != b[k]:
      return k
  if a["cgeom"].shape != b["cgeom"].shape or not np.array_equal(a["cgeom"], b["cgeom"]) or not np.array_equal(a["cdim"], b["cdim"]):
    return "contacts"
  if "tree_asleep" in a and not np.array_equal(a["tree_asleep"], b["tree_asleep"]):
    return "tree_asleep"
  unconverged = reassoc and max(a["niter"], b["niter"]) >= maxiter
  if not reassoc and abs(a["niter"] - b["niter"]) > 2:
    return "niter"
  for k in _cont_keys(a):
    if unconverged and _is_solver_out(k):
      continue
    if not relerr(a[k], b[k]) <= 3 * _tol(k, reassoc):
      return "sensordata" if k.startswith("sensor") else k
  return None


def _finite(d):
  return bool(np.all(np.isfinite(d.qpos.numpy())) and np.all(np.isfinite(d.qacc.numpy())) and np.all(np.isfinite(d.qvel.numpy())))


def _resolve(case):
  """Hypothesis cases carry selectors; enumerated cases carry the resolved values."""
  c = dict(case)
  if "b" not in c:
    divs = _DIVS[c["nworld"]]
    c["b"] = 1 if c["bsel"] == 0 else divs[-2] if c["bsel"] == 1 else divs[-1]
  if "sleep" not in c:
    c["sleep"] = bool(c["opt"]["solver"] == "Newton" and c["value_seed"] % 4 == 0)
  c["opt"] = dict(c["opt"])
  if c["opt"]["solver"] == "Newton" and c["opt"]["jacobian"] == "sparse" and (c["model_seed"] % 2 or c["opt"]["integrator"] == "RK4" or c["sleep"]):
    # Newton + sparse Jacobian is only reproducible to solver accuracy across batch sizes: kept to ~1/10 of the cases, and never with
    # RK4 or sleeping (sub-stages / the post-integration fwd_velocity feed the solver round-off back into every output, discrete ones included)
    c["opt"]["jacobian"] = "dense"
  if "mode" not in c:
    ms = _modes(c["field"])
    c["mode"] = "static-probe" if (c["field"] in X.POSE_FIELDS and c["modesel"] == 19) else ms[c["modesel"] % len(ms)]
  return c


def check(case, rec):
  name = case["field"]
  if case.get("skip"):
    rec.cls(f"field:{name}:skipped-{case['skip']}")
    return
  case = _resolve(case)
  owner = _OWNER[name]
  n, b, mode = case["nworld"], case["b"], case["mode"]
  probe = mode == "static-probe"
  tags = tuple(X.FIELD_TAGS.get(name, ()))
  if case.get("sleep") and "sleep" not in tags:
    tags = tuple(t for t in tags if t != "cg") + ("sleepflag",)  # sleeping enabled: the compacted active-DOF solve path (Newton only)
  calm = "calm" in tags or "sleep" in tags or bool(case.get("calm"))
  spec = X.build_spec(case["model_seed"], case["opt"], tags)
  mjm0 = H.compile_xml(X.render_xml(spec))
  if mjm0.nv == 0:
    raise Reject("nv=0")
  skw = dict(sigma=0.02, vel=0.02, applied=False) if calm else dict(sigma=0.1, vel=0.5, applied=True)
  g = np.random.default_rng(case["value_seed"])
  try:
    touching, near = X.touching_pairs(mjm0, H.rand_state(mjm0, case["state_seed"], **skw))
    X.add_pairs(spec, case["model_seed"], touching, near)
    mjm = X.copy_model(H.compile_xml(X.render_xml(spec)))
    X.clear_shortcut_flags(mjm)
    state = H.rand_state(mjm, case["state_seed"], **skw)
    band = X.fit_gap_band(mjm, state) if "gapband" in tags else []
    for a in range(mjm.nu):  # muscle activations live in [0, 1]
      if int(mjm.actuator_dyntype[a]) == int(mujoco.mjtDyn.mjDYN_MUSCLE) and mjm.actuator_actadr[a] >= 0:
        state["act"][mjm.actuator_actadr[a]] = min(0.9, 0.1 + abs(state["act"][mjm.actuator_actadr[a]]))
    X.fit_limits_to_state(mjm, state, g, calm)
  except mujoco.FatalError as e:  # reference cannot evaluate the model: discard
    raise Reject(f"mujoco: {e}")

  # per-row MjModels
  targets = [name] if mode != "consistent" else list(X.DERIVED.get(name, (name,)))
  rows_mjm, nexcl, ctx = [], 0, dict(band=band)
  for r in range(b):
    mr = X.copy_model(mjm)
    for f in targets:
      nexcl += X.perturb(mr, mjm, _OWNER[f], f, g, only_static=probe, skip_static=not probe, row=r, ctx=ctx)
    if mode == "consistent":
      mujoco.mj_setConst(mr, mujoco.MjData(mr))
      X.restore_nonbatchable(mr, mjm, set(_NAMES))
    rows_mjm.append(mr)
  if nexcl:
    rec.excluded["static-geom-pose"] += 1

  m_ref = H.put_model(mjm)
  m_rows = [H.put_model(mr) for mr in rows_mjm]
  fz = _frozen(m_ref)
  for mr in m_rows:
    fr = _frozen(mr)
    bad = [k for k in fz if fz[k] != fr[k]]
    if bad:
      rec.cls("frozen-changed", f"frozen-changed:{name}:{bad[0]}")
      raise Reject(f"per-world edit changes non-batchable field(s) {bad[:3]}")

  # which batchable fields differ between the rows / the base model
  changed = {}
  for ow, f in _BATCHABLE:
    a0 = getattr(X.owner_obj(m_ref, ow), f)
    if a0 is None or a0.size == 0:
      continue
    base = a0.numpy()[0]
    rows = [getattr(X.owner_obj(mr, ow), f).numpy()[0] for mr in m_rows]
    if any(not np.array_equal(rw, base) for rw in rows):
      changed[(ow, f)] = np.stack(rows)
  if (owner, name) not in changed and mode == "direct":
    rec.cls(f"field:{name}:absent")
    return
  if not changed:
    rec.cls(f"field:{name}:absent")
    return

  # batched model
  style = case["style"]
  bs = {f: b for (ow, f) in changed if ow == "model"} if style == "batch_sizes" else {}
  mb = H.put_model(mjm, batch_sizes=bs)
  for (ow, f), stacked in changed.items():
    obj = X.owner_obj(mb, ow)
    cur = getattr(obj, f)
    if cur.shape[0] == b:
      cur.assign(stacked.astype(cur.numpy().dtype))
    else:
      setattr(obj, f, wp.array(stacked, dtype=cur.dtype))
    if getattr(obj, f).shape != (b,) + tuple(cur.shape[1:]):
      raise AssertionError(f"harness: bad batched shape for {f}: {getattr(obj, f).shape}")

  caps = dict(nconmax=120, njmax=400)
  D = H.make_data(mjm, nworld=n, **caps)
  S = [H.make_data(rows_mjm[w % b], nworld=1, **caps) for w in range(n)]
  H.set_data(D, state)
  for w in range(n):
    H.set_data(S[w], state)
  extra = None
  if b == 1:
    extra = H.make_data(mjm, nworld=1, **caps)  # the unedited model, for the non-triviality measurement
    H.set_data(extra, state)
  reassoc = bool(mb.is_sparse) and int(mjm.opt.solver) == int(mujoco.mjtSolver.mjSOL_NEWTON)
  sig = "static-geom-pose" if probe else None
  if name in ("tolerance", "ls_tolerance") and ("sleepflag" in tags or "sleep" in tags):
    sig = "sleep:opt-tolerance"  # solve_compact reads the make_data-time host tolerances (d.ctol / d.cls_tol)
  maxiter = int(mjm.opt.iterations)
  nt_reason = None
  nstage = 3
  for s in range(nstage):
    fn = mjw.forward if s == 0 else mjw.step
    fn(mb, D)
    for w in range(n):
      fn(m_rows[w % b], S[w])
    if extra is not None and s < 2:
      fn(m_ref, extra)
    if (H.overflow(D) & _CAP).any() or any((H.overflow(S[w]) & _CAP).any() for w in range(n)):
      rec.inconclusive += 1
      rec.cls("discarded:overflow")
      return
    if not _finite(D) or not all(_finite(S[w]) for w in range(n)):
      rec.inconclusive += 1
      rec.cls("discarded:nonfinite")
      return
    solos = [snapshot(mjm, S[w], 0) for w in range(n)]
    if s < 2 and nt_reason is None:
      others = [snapshot(mjm, extra, 0)] if extra is not None else solos[1:b]
      for o in others:
        nt_reason = nt_reason or differs(solos[0], o, reassoc, maxiter)
    for w in range(n):
      rec.ev()
      nknown = sum(rec.known.values())
      compare(rec, snapshot(mjm, D, w), solos[w], "batched-vs-unbatched", reassoc=reassoc, maxiter=maxiter, sig=sig, field=name, world=w, row=w % b, stage=s, mode=mode, changed=[f for _, f in changed])
      if sum(rec.known.values()) != nknown:  # a listed finding was confirmed on this case: nothing more to learn from it
        rec.cls(f"finding-confirmed:{sig}")
        return
    if s > 0 and s < nstage - 1:
      stt = H.get_state(mb, D, mjm)
      for w in range(n):
        H.set_state(m_rows[w % b], S[w], mjm, stt[w : w + 1])
  rec.cls(
    f"field:{name}:{'checked' if nt_reason else 'inert'}", f"mode:{mode}", f"b:{'1' if b == 1 else 'nworld' if b == n else 'divisor'}", f"nworld:{n}",
    f"style:{style}", f"nchanged:{min(len(changed), 5)}", f"calm:{calm}", f"sleep-enabled:{'sleep' in tags or 'sleepflag' in tags}", f"solver:{'Newton' if int(mjm.opt.solver) == int(mujoco.mjtSolver.mjSOL_NEWTON) else 'CG'}", f"integrator:{case['opt']['integrator']}", f"cone:{'elliptic' if int(mjm.opt.cone) else 'pyramidal'}", f"sparse:{bool(mb.is_sparse)}",
  )
  if nt_reason:
    rec.cls(f"nt-via:{nt_reason}")
    rec.nt()
