"""C38 Compacted active-DOF solve is equivalent.

Per case one multi-tree model is compiled twice (with and without the sleep flag) and run on the same states:
  R   plain model, forward()                               -> reference (full, non-compacted solve)
  A   sleep model, every tree awake, nvmax in {default, nv} -> must equal R            (all-active equivalence)
  P   plain model with a requested capacity nvmax < nv       -> must equal R            (capacity on a model that never compacts)
  B   sleep model, a union of islands / unconstrained trees put to sleep (tree_asleep cycles, zero velocity), ample nvmax
        -> dofs of trees that are asleep after forward(): qacc == 0 exactly;
           dofs of awake trees: equal the plain solve of the same state when no row couples an awake with a sleeping tree
  C   as B with nvmax swept around the per-world number of awake dofs
        -> need_w > nvmax  =>  NVMAX bit in world w;   need_w <= nvmax  =>  the B checks again
"""

from __future__ import annotations

import numpy as np
from hypothesis import strategies as st

import mujoco
import mujoco_warp as mjw
from mujoco_warp._src import sleep as mjw_sleep
from mujoco_warp._src.types import OverflowType as OT

from vf import gen, mjw as H, x28_trees as X
from vf.core import Reject, check_close

RULE = (
  "case = clustered multi-tree model (3-8 root trees: free/ball/hinge/slide, contacts with a plane and inside clusters, connect/weld/joint/tendon equalities, limits, "
  "friction loss; Newton, both cones, dense and sparse) x 1-2 worlds with (optionally settled) random states x a random union of islands/unconstrained trees put to sleep per world "
  "x nvmax sweep; oracle: (A) sleep-enabled model with all trees awake (nvmax default or nv) and (P) plain model with nvmax<nv give the qacc / efc.force / qfrc_constraint of the "
  "plain full solve (5e-4 of the field's scale); (B) trees asleep after forward() have qacc exactly 0 and awake dofs equal the plain solve of the same state (only judged when no "
  "constraint row couples an awake with a sleeping tree); (C) world whose awake dofs exceed nvmax has the NVMAX bit, worlds that fit are judged as (B); "
  "(H2) a Data with nvmax < nv solved for the complementary active set and then for the subset equals the fresh-Data solve of the subset; (H) one Data solved for the sequence all-awake -> subset -> all-awake (-> subset) gives at every step what a fresh Data gives for that active set; "
  "evaluation = one (run, world); non-trivial = world with >=1 tree asleep and >=1 awake tree that carries constraint rows"
)
ASSUMPTIONS = [
  "MJWarp's own non-compacted solve (same model without the sleep flag, same state) is the reference; both solves run with tolerance 1e-8 (clamped to 1e-6 by put_model) and 40 iterations; "
  "worlds where either solve reports ITERATIONS/LS_ITERATIONS are skipped and counted",
  "which trees end up awake is decided by MJWarp's waking rules (C29's business); the check reads tree_awake after forward()",
  "sleeping sets are written the way sleep_test.py does it: tree_asleep cycles per island + sleep.update_sleep",
]
BUDGET = {"quick": dict(examples=256, seconds=420, workers=16), "thorough": dict(examples=4000, seconds=1500, workers=16)}
NCON, NJ = 160, 480
_CAP = int(OT.NEFC | OT.NJMAX_NNZ | OT.BROADPHASE | OT.NARROWPHASE)
_ITER = int(OT.ITERATIONS | OT.LS_ITERATIONS)
_CONTACT = (5, 6, 7)
TOL = 5e-4  # all-active runs: the compacted solve follows the same iterations as the full one
REF_RESIDUAL = 2e-3  # force-balance residual of the reference above which its qacc / forces are not the optimum to float32 accuracy
TOL_SUB_F = 8e-2  # forces of the same comparison (thorough tier saw 3.2e-2 on a near-zero force with scale 1)
TOL_SUB = 3e-2  # sub-problem vs full problem: two different Newton runs in float32 (the bound C06 uses for qacc against MuJoCo)


def strategy(tier):
  cfg = gen.cfg_strategy(
    nroot=st.integers(3, 8),
    maxdepth=st.integers(0, 1),
    maxchild=st.integers(1, 2),
    joint_menu=st.sampled_from([["free", "hinge", "slide"], ["free", "ball", "hinge", "slide"], ["free"], ["hinge", "slide", "ball"]]),
    plane=st.sampled_from([True, True, False]),
    contacts="pile",
    world_geoms=st.integers(0, 1),
    sites=0.8,
    geom_menu=st.sampled_from([["sphere", "capsule"], ["sphere"], ["capsule"]]),  # primitive pairs only: convex (box) pairs cost seconds of kernel generation per process
    geoms_per_body=(1, 1),
    condim_menu=st.sampled_from([[3], [1, 3, 4, 6], [1], [4]]),
    tendons=st.integers(0, 2),
    equalities=st.integers(0, 4),
    eq_menu=st.sampled_from([["connect", "weld"], ["connect", "weld", "joint", "tendon"], ["joint"]]),
    eq_sites=st.booleans(),
    p_eq_inactive=0.1,
    limits=st.sampled_from([0.0, 0.5]),
    frictionloss=st.sampled_from([0.0, 0.3]),
    dynamics=st.booleans(),
    actuators=st.sampled_from([0, 0, 0, 1]),
    act_menu=["motor"],
  )
  return st.fixed_dictionaries(
    dict(
      cfg=cfg,
      nclusters=st.integers(1, 5),
      jacobian=st.sampled_from(["dense", "sparse"]),
      cone=st.sampled_from(["pyramidal", "elliptic"]),
      nworld=st.integers(1, 2),
      seed=st.integers(0, 10**6),
      sigma=st.sampled_from([0.03, 0.15]),
      settle=st.sampled_from([0, 10, 40]),
      p_sleep=st.sampled_from([0.3, 0.5, 0.8]),
      a_nvmax=st.sampled_from(["default", "nv"]),
      warm=st.sampled_from(["zero", "random"]),
      caps=st.lists(st.integers(0, 60), min_size=0, max_size=2),
    )
  )


def _build(case, sleep):
  cfg = dict(case["cfg"])
  opt = dict(jacobian=case["jacobian"], cone=case["cone"], solver="Newton", tolerance=1e-8, iterations=40, ls_iterations=50)
  if sleep:
    opt["flags"] = dict(sleep="enable")
  cfg["option"] = opt
  return H.compile_spec(X.cluster_spec(cfg, case["nclusters"]))


class Run:
  def __init__(self, m, d):
    self.qacc = d.qacc.numpy().copy()
    self.qfrc = d.qfrc_constraint.numpy().copy()
    self.nefc = np.minimum(d.nefc.numpy(), d.njmax)
    self.force = d.efc.force.numpy().copy()
    self.type = d.efc.type.numpy().copy()
    self.id = d.efc.id.numpy().copy()
    self.overflow = d.overflow.numpy().copy()
    self.tree_awake = d.tree_awake.numpy().copy()
    self.tree_island = d.tree_island.numpy().copy() if d.tree_island.shape[1] else None
    nacon = min(int(d.nacon.numpy()[0]), d.naconmax)
    self.cgeom = d.contact.geom.numpy()[:nacon].copy()
    self.m, self.d = m, d
    self.rowtrees = {}

  def keys(self, w):
    """Row keys: (type, object, occurrence); contacts keyed by geom pair."""
    out, cnt = [], {}
    for r in range(int(self.nefc[w])):
      t, i = int(self.type[w, r]), int(self.id[w, r])
      k = (t, int(self.cgeom[i][0]), int(self.cgeom[i][1])) if t in _CONTACT else (t, i, -1)
      c = cnt.get(k, 0)
      cnt[k] = c + 1
      out.append(k + (c,))
    return out


def _forward(mjm, m, states, nvmax=None, asleep=None, d=None):
  if d is None:
    kw = dict(nworld=len(states), nconmax=NCON, njmax=NJ)
    if H.is_sparse(mjm):
      kw["njmax_nnz"] = NJ * mjm.nv
    if nvmax is not None:
      kw["nvmax"] = int(nvmax)
    d = H.make_data(mjm, **kw)
  H.set_data(d, states)
  # the output fields hold whatever the previous step left there: poison them, forward() has to overwrite every entry
  for name, val in (("qacc", 7.25), ("qfrc_constraint", -3.5), ("qacc_smooth", 1.75)):
    getattr(d, name).fill_(val)
  d.efc.force.fill_(11.0)
  if asleep is not None:
    d.tree_asleep.assign(np.asarray(asleep, dtype=np.int32))
    mjw_sleep.update_sleep(m, d)
  mjw.forward(m, d)
  r = Run(m, d)
  r.mjm = mjm
  return r


def _scale(x):
  return max(1.0, float(np.max(np.abs(x)))) if np.size(x) else 1.0


def _row_tree_sets(mjm, run, w):
  """Per row of world w: set of trees with a non-zero Jacobian entry."""
  if w in run.rowtrees:
    return run.rowtrees[w]
  e = H.efc_dense(run.m, run.d, w)
  dt = np.asarray(mjm.dof_treeid)
  out = []
  for r in range(e["nefc"]):
    cols = np.nonzero(e["J"][r])[0]
    out.append({int(dt[c]) for c in cols if dt[c] >= 0})
  run.rowtrees[w] = out
  return out


def check(case, rec):
  mp, ms = _build(case, False), _build(case, True)
  if mp.nv == 0 or mp.ntree < 2:
    raise Reject("fewer than two trees")
  nv, ntree = mp.nv, mp.ntree
  n = case["nworld"]
  m_p, m_s = H.put_model(mp), H.put_model(ms)
  m_p.opt.warn_overflow = False
  m_s.opt.warn_overflow = False
  dof_tree = np.asarray(mp.dof_treeid)
  tree_nv = np.asarray(mp.tree_dofnum)

  states = []
  for w in range(n):
    s = H.rand_state(mp, case["seed"] + 101 * w, sigma=case["sigma"], vel=0.3, ctrl=True)
    if case["settle"]:
      tmp = mujoco.MjData(mp)
      H.set_mjd(tmp, s)
      try:
        for _ in range(case["settle"]):
          mujoco.mj_step(mp, tmp)
      except mujoco.FatalError:
        raise Reject("mujoco aborts on this model")
      if np.all(np.isfinite(tmp.qpos)) and np.all(np.isfinite(tmp.qvel)) and np.max(np.abs(tmp.qvel), initial=0) < 30:
        s["qpos"], s["qvel"], s["act"] = H.f32(tmp.qpos), H.f32(tmp.qvel), H.f32(tmp.act)
    if case["warm"] == "random":
      s["qacc_warmstart"] = H.f32(np.random.default_rng(case["seed"] + 3 + w).normal(size=nv) * 5.0)
    states.append(s)

  rec.cls(f"warm:{case['warm']}", f"jacobian:{case['jacobian']}", f"cone:{case['cone']}")

  # ---------------- (A) every tree awake
  R = _forward(mp, m_p, states)
  if (R.overflow & _CAP).any() or not np.all(np.isfinite(R.qacc)):
    rec.inconclusive += 1
    return
  A = _forward(ms, m_s, states, nvmax=nv if case["a_nvmax"] == "nv" else None)
  for w in range(n):
    if (R.overflow[w] | A.overflow[w]) & _ITER:
      rec.boundary_skipped += 1
      rec.cls("skipped:unconverged")
      continue
    if A.overflow[w] & int(OT.NVMAX):
      rec.violation(f"NVMAX set with nvmax = nv ({nv}) in world {w}", sig="nvmax:spurious", world=w)
    if not A.tree_awake[w].all():
      rec.cls("A:not-all-awake")  # cannot happen with make_data's initial state; not judged
      continue
    rec.ev()
    rec.cls(f"A:nvmax:{case['a_nvmax']}")
    _compare_full(rec, "A", A, R, w, np.ones(nv, dtype=bool), sig="all-awake", nvmax=case["a_nvmax"])
  # ---------------- (P) plain model with a requested capacity below nv
  if nv >= 2 and case["seed"] % 3 == 0:
    P = _forward(mp, m_p, states, nvmax=nv // 2)
    for w in range(n):
      if (R.overflow[w] | P.overflow[w]) & _ITER:
        continue
      rec.ev()
      rec.cls("P:plain+nvmax")
      _compare_full(rec, "P", P, R, w, np.ones(nv, dtype=bool), sig="plain-nvmax", nvmax=nv // 2)

  # ---------------- (B) some islands asleep
  g = np.random.default_rng(case["seed"] + 7)
  asleep = np.full((n, ntree), mjw_sleep.K_AWAKE_VAL, dtype=np.int32)
  asleep_inv = np.full((n, ntree), mjw_sleep.K_AWAKE_VAL, dtype=np.int32)  # the complementary choice (for the capacity history H2)
  states2, states3 = [], []
  for w in range(n):
    ti = A.tree_island[w] if A.tree_island is not None else np.full(ntree, -1)
    groups = {}
    for t in range(ntree):
      groups.setdefault(("i", int(ti[t])) if ti[t] >= 0 else ("t", t), []).append(t)
    s2, s3 = dict(states[w]), dict(states[w])
    qvel = np.array(s2["qvel"], dtype=np.float64)
    qvel3 = np.array(s2["qvel"], dtype=np.float64)
    for key in sorted(groups):
      grp = groups[key]
      chosen = g.uniform() < case["p_sleep"]
      for k, t in enumerate(grp):
        a = int(mp.tree_dofadr[t])
        if chosen:
          asleep[w, t] = grp[(k + 1) % len(grp)]
          qvel[a : a + int(tree_nv[t])] = 0.0
        else:
          asleep_inv[w, t] = grp[(k + 1) % len(grp)]
          qvel3[a : a + int(tree_nv[t])] = 0.0
    s2["qvel"] = qvel
    s3["qvel"] = qvel3
    states2.append(s2)
    states3.append(s3)
  if not (asleep >= 0).any():
    rec.cls("B:nothing-asleep")
    return
  R2 = _forward(mp, m_p, states2)
  if (R2.overflow & _CAP).any() or not np.all(np.isfinite(R2.qacc)):
    rec.inconclusive += 1
    return
  B = _forward(ms, m_s, states2, asleep=asleep)
  need = np.array([int(tree_nv[B.tree_awake[w] == 1].sum()) for w in range(n)])
  coupled = [_judge_sleep(rec, mp, "B", B, R2, w, dof_tree, case, nvmax=None) for w in range(n)]

  # ---------------- (H) the same Data solved for a sequence of active sets: all awake -> subset -> all awake [-> subset].  Every solve must give what a
  # fresh Data gives for that active set (nothing left in the compaction workspace by a larger / differently placed active set may leak into the next solve)
  if case["seed"] % 2 == 0:
    allawake = np.full((n, ntree), mjw_sleep.K_AWAKE_VAL, dtype=np.int32)
    Hd = _forward(ms, m_s, states, asleep=allawake)
    seq = [("sub", states2, asleep, B), ("all", states, allawake, A)]
    if case["seed"] % 4 == 0:
      seq.append(("sub", states2, asleep, B))
    for k, (nm, sts, asl, ref) in enumerate(seq):
      Hk = _forward(ms, m_s, sts, asleep=asl, d=Hd.d)
      for w in range(n):
        if (Hk.overflow[w] | ref.overflow[w]) & (_ITER | _CAP):
          continue
        if not np.array_equal(Hk.tree_awake[w], ref.tree_awake[w]):
          rec.cls("H:awake-set-differs")  # waking rules are C29's business
          continue
        rec.ev()
        rec.cls(f"H:{k}:{nm}")
        if nm == "sub" and (ref.tree_awake[w] == 0).any() and (ref.tree_awake[w] == 1).any() and int(ref.nefc[w]) > 0:
          rec.nt(extra=["H", k, w])
        _compare_full(rec, f"H{k}:{nm}", Hk, ref, w, np.ones(nv, dtype=bool), sig=f"reuse:{nm}", step=k)

  # ---------------- (C) capacity sweep around the number of awake dofs
  # exact fit and one below the largest need always; one more drawn from {between the worlds, below all, random}
  caps = {int(need.max()), int(need.max()) - 1}
  extra = sorted({int(need.min()), int(need.min()) - 1, nv} | {c % (nv + 1) for c in case["caps"]})
  caps.add(extra[case["seed"] % len(extra)])
  caps = sorted(c for c in caps if 0 <= c <= nv)
  for cap in caps:
    C = _forward(ms, m_s, states2, nvmax=cap, asleep=asleep)
    for w in range(n):
      if not np.array_equal(C.tree_awake[w], B.tree_awake[w]):
        rec.cls("C:awake-set-changed")  # the waking rules do not depend on nvmax; not judged here
        continue
      if need[w] > cap:
        rec.ev()
        rec.cls("C:over")
        if not C.overflow[w] & int(OT.NVMAX):
          rec.violation(f"world {w} has {int(need[w])} awake dofs, nvmax = {cap}, NVMAX bit not set (overflow = {int(C.overflow[w])})", sig="nvmax:silent", world=w, need=int(need[w]), nvmax=cap)
      else:
        rec.cls("C:fit-exact" if need[w] == cap else "C:fit")
        if C.overflow[w] & int(OT.NVMAX):
          rec.cls("C:bit-without-need")
          continue
        _judge_sleep(rec, mp, "C", C, R2, w, dof_tree, case, nvmax=cap)
  _reuse_with_capacity(rec, case, ms, m_s, states3, asleep_inv, states2, asleep, need, tree_nv, n, nv, ntree)


def _compare_full(rec, tag, X_, R, w, mask, sig, **ctx):
  """qacc / qfrc_constraint on the dofs in mask and efc.force (rows in the same order) against the reference run."""
  ctx = dict(ctx, world=w)
  qs = _scale(R.qacc[w])
  check_close(rec, f"{tag}:qacc", X_.qacc[w][mask], R.qacc[w][mask], TOL, scale=qs, sig=f"{sig}:qacc", **ctx)
  check_close(rec, f"{tag}:qfrc_constraint", X_.qfrc[w][mask], R.qfrc[w][mask], TOL, scale=_scale(R.qfrc[w]), sig=f"{sig}:qfrc_constraint", **ctx)
  nx, nr = int(X_.nefc[w]), int(R.nefc[w])
  if nx == nr and np.array_equal(X_.type[w, :nx], R.type[w, :nr]) and X_.keys(w) == R.keys(w):
    check_close(rec, f"{tag}:efc.force", X_.force[w, :nx], R.force[w, :nr], TOL, scale=_scale(R.force[w, :nr]), sig=f"{sig}:efc.force", **ctx)
  else:
    rec.cls(f"{tag}:rows-differ")


def _judge_sleep(rec, mjm, tag, S, R2, w, dof_tree, case, nvmax):
  """Frozen dofs exactly zero; awake dofs equal to the plain solve when decoupled."""
  if (S.overflow[w] & _CAP) or ((S.overflow[w] | R2.overflow[w]) & _ITER):
    rec.boundary_skipped += 1
    rec.cls("skipped:unconverged" if not (S.overflow[w] & _CAP) else "skipped:capacity")
    return None
  awake = S.tree_awake[w] == 1
  frozen = ~awake[dof_tree]
  rec.ev()
  ctx = dict(world=w, nvmax=nvmax, tree_awake=S.tree_awake[w].tolist())
  nas = int((~awake).sum())
  rec.cls(f"{tag}:asleep:{min(nas, 4)}", f"{tag}:nefc0:{int(S.nefc[w]) == 0}")
  if frozen.any():
    bad = np.nonzero(S.qacc[w][frozen] != 0.0)[0]
    if len(bad):
      dof = int(np.nonzero(frozen)[0][bad[0]])
      rec.violation(f"{tag}: dof {dof} belongs to sleeping tree {int(dof_tree[dof])} but qacc = {float(S.qacc[w][dof])!r} {ctx}", sig="frozen:qacc-nonzero", dof=dof, **ctx)
  if not awake.any():
    rec.cls(f"{tag}:all-asleep")
    return False
  # decoupling, judged on the plain run's rows (all contacts present) and on the sleep run's own rows
  coupled = False
  constrained_awake = False
  for run in (R2, S):
    for ts in _row_tree_sets(mjm, run, w):
      a = [t for t in ts if awake[t]]
      if a and len(a) != len(ts):
        coupled = True
      if a and run is S:
        constrained_awake = True
  if nas and constrained_awake:
    rec.nt(extra=[tag, w, nvmax])
  # inertial coupling (tendon armature spanning an awake and a sleeping tree): the sub-problem is then not a block of the full problem
  if not coupled and frozen.any():
    M = H.dense_M(mjm, R2.d.M.numpy()[w])
    if np.any(M[np.ix_(~frozen, frozen)] != 0.0):
      rec.cls(f"{tag}:inertia-coupled-asleep-awake")
      return True
  if coupled:
    rec.cls(f"{tag}:coupled-asleep-awake")
    return True
  mask = ~frozen
  # the reference must itself be at the optimum: M qacc = qfrc_smooth + J^T f and qfrc_constraint = J^T f on the compared dofs.  Stiff, conflicting
  # constraints leave float32 Newton with a residual of several percent (both solvers then stop on "no improvement"): not comparable
  e = H.efc_dense(R2.m, R2.d, w)
  jtf = e["J"].T.astype(np.float64) @ e["force"].astype(np.float64) if e["nefc"] else np.zeros(len(frozen))
  Ma, qs_ = R2.d.efc.Ma.numpy()[w].astype(np.float64), R2.d.qfrc_smooth.numpy()[w].astype(np.float64)
  fs = max(_scale(jtf[mask]), _scale(qs_[mask]))
  incons = max(float(np.max(np.abs(Ma - qs_ - jtf)[mask])), float(np.max(np.abs(R2.qfrc[w] - jtf)[mask]))) / fs
  rec.err("reference residual (judged worlds)", incons if incons <= REF_RESIDUAL else 0.0)
  if incons > REF_RESIDUAL:
    rec.boundary_skipped += 1
    rec.cls("skipped:reference-residual")
    return False
  qs = _scale(R2.qacc[w][mask])
  check_close(rec, f"{tag}:qacc(awake)", S.qacc[w][mask], R2.qacc[w][mask], TOL_SUB, scale=qs, sig="awake:qacc", **ctx)
  check_close(rec, f"{tag}:qfrc_constraint(awake)", S.qfrc[w][mask], R2.qfrc[w][mask], TOL_SUB_F, scale=_scale(R2.qfrc[w][mask]), sig="awake:qfrc_constraint", **ctx)
  # forces of the rows that touch awake trees, matched by key
  ks, kr = S.keys(w), R2.keys(w)
  rs = _row_tree_sets(mjm, S, w)
  idx_s = [r for r in range(len(ks)) if any(awake[t] for t in rs[r])]
  pos_r = {k: r for r, k in enumerate(kr)}
  if idx_s and all(ks[r] in pos_r for r in idx_s):
    fr = np.array([R2.force[w, pos_r[ks[r]]] for r in idx_s])
    check_close(rec, f"{tag}:efc.force(awake rows)", S.force[w, idx_s], fr, TOL_SUB_F, scale=_scale(fr), sig="awake:efc.force", **ctx)
  elif idx_s:
    rec.cls(f"{tag}:rows-differ")
  return False


def _reuse_with_capacity(rec, case, ms, m_s, states3, asleep_inv, states2, asleep, need, tree_nv, n, nv, ntree):
  """(H2) a Data whose DOF capacity is below nv, solved first for the complementary active set and then for the subset: the second solve must equal the
  fresh-Data solve with that capacity (compaction maps of the previous active set must not survive; with nvmax_pad < nv part of them lies beyond the padding)."""
  if not (asleep_inv >= 0).any():
    return
  Binv = _forward(ms, m_s, states3, asleep=asleep_inv)
  need_inv = np.array([int(tree_nv[Binv.tree_awake[w] == 1].sum()) for w in range(n)])
  cap = int(max(need.max(), need_inv.max()))
  if cap >= nv or cap < 1:
    rec.cls("H2:capacity-not-below-nv")
    return
  ref = _forward(ms, m_s, states2, nvmax=cap, asleep=asleep)
  Hd = _forward(ms, m_s, states3, nvmax=cap, asleep=asleep_inv)
  Hd.d.overflow.zero_()  # (overflow bits accumulate until the user clears them)
  Hk = _forward(ms, m_s, states2, asleep=asleep, d=Hd.d)
  for w in range(n):
    if (Hk.overflow[w] | ref.overflow[w]) & (_ITER | _CAP | int(OT.NVMAX)):
      rec.cls("H2:skipped-overflow")
      continue
    if not np.array_equal(Hk.tree_awake[w], ref.tree_awake[w]):
      rec.cls("H2:awake-set-differs")
      continue
    rec.ev()
    rec.cls(f"H2:pad<nv:{16 * (cap // 16 + 1) < nv}")
    if (ref.tree_awake[w] == 0).any() and int(ref.nefc[w]) > 0:
      rec.nt(extra=["H2", w])
    _compare_full(rec, "H2:sub", Hk, ref, w, np.ones(nv, dtype=bool), sig="reuse:capacity", nvmax=cap)
