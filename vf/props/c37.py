"""C37 Pipeline stages compose consistently."""

from __future__ import annotations

import numpy as np
from hypothesis import strategies as st

import mujoco_warp as mjw
from mujoco_warp._src.types import OverflowType as OT

from vf import gen, mjw as H
from vf.core import Reject, check_close, check_equal

RULE = (
  "case = rich model (contacts, constraints, actuators with dynamics, tendons) x integrator in {Euler, implicitfast, implicit} x random state, 1-2 worlds, "
  "after a 0-3 step warm-up; oracle: (i) step1;step2 == step on the whole integration state (1e-5) and on qacc/sensordata/forces (2e-4) and row counts (exact) - the two paths use different but equivalent factor/solve kernels; "
  "(ii) forward;forward gives bit-identical outputs; (iii) forward leaves get_state(INTEGRATION) bit-unchanged; evaluation = one relation on one case; "
  "non-trivial = model has contacts/constraint rows or actuator activations"
)
ASSUMPTIONS = ["same Data layout for the compared runs, hence bitwise equality", "RK4 excluded (the statement restricts step1/step2 to Euler and implicit integrators)"]
BUDGET = {"quick": dict(examples=320, seconds=420, workers=16), "thorough": dict(examples=8000, seconds=1500, workers=16)}
_OUT = ["qacc", "sensordata", "act_dot", "qfrc_constraint", "qfrc_passive", "qfrc_actuator", "qfrc_bias", "qacc_smooth", "xpos", "cvel", "energy", "solver_niter", "ne", "nf", "nl", "nefc"]


def strategy(tier):
  return st.fixed_dictionaries(
    dict(
      cfg=gen.rich_cfg(act_menu=st.sampled_from([["motor", "position"], ["general", "intvelocity", "motor", "cylinder"]]), dyn_menu=["none", "integrator", "filter", "filterexact"]),
      opt=gen.option_strategy(integrators=("Euler", "implicitfast", "implicit")),
      energy=st.booleans(),
      nworld=st.integers(1, 2),
      seed=st.integers(0, 10**6),
      warm=st.integers(0, 3),
    )
  )


def check(case, rec):
  cfg = dict(case["cfg"])
  cfg["option"] = dict(case["opt"])
  if case["energy"]:
    cfg["option"]["flags"] = dict(energy="enable")
  mjm = H.compile_spec(gen.make_spec(cfg))
  if mjm.nv == 0:
    raise Reject("nv=0")
  m = H.put_model(mjm)
  n = case["nworld"]
  caps = dict(nconmax=120, njmax=400)
  states = [H.rand_state(mjm, case["seed"] + 7 * w, sigma=0.15, vel=1.0, applied=True) for w in range(n)]

  def fresh():
    d = H.make_data(mjm, nworld=n, **caps)
    H.set_data(d, states)
    for _ in range(case["warm"]):
      mjw.step(m, d)
    return d

  A, B = fresh(), fresh()
  s0 = H.get_state(m, A, mjm)
  if not np.all(np.isfinite(s0)):
    rec.inconclusive += 1
    return
  # (iii) + (ii): forward twice
  mjw.forward(m, A)
  o1 = {k: getattr(A, k).numpy().copy() for k in _OUT}
  s1 = H.get_state(m, A, mjm)
  rec.ev()
  check_equal(rec, "integration_state_after_forward", s1, s0, sig="forward-changes-state")
  mjw.forward(m, A)
  o2 = {k: getattr(A, k).numpy().copy() for k in _OUT}
  rec.ev()
  for k in _OUT:
    check_equal(rec, k, o2[k], o1[k], sig=f"forward-twice:{k}")
  check_equal(rec, "integration_state_after_forward2", H.get_state(m, A, mjm), s0, sig="forward-changes-state")
  # (i) step vs step1;step2 (A has had two forwards, B none: also exercises idempotence through the integrator)
  mjw.step(m, A)
  mjw.step1(m, B)
  mjw.step2(m, B)
  rec.ev()
  sa, sb = H.get_state(m, A, mjm), H.get_state(m, B, mjm)
  # step() solves M x = b with the fused factor+solve kernel, step1/step2 with factor_m then solve_m: equal up to round-off
  check_close(rec, "state_after_step", sb, sa, 1e-5, sig="step1step2:state")
  for k in _OUT:
    a, b = getattr(A, k).numpy(), getattr(B, k).numpy()
    if k in ("ne", "nf", "nl", "nefc"):
      check_equal(rec, k, b, a, sig=f"step1step2:{k}")
    elif k == "solver_niter":
      if np.max(np.abs(a - b)) > 1:
        rec.violation(f"solver_niter differs {a} vs {b}", sig="step1step2:niter")
    else:
      check_close(rec, k, b, a, 2e-4, sig=f"step1step2:{k}")
  nefc = int(A.nefc.numpy().max())
  rec.cls(f"integrator:{case['opt']['integrator']}", f"solver:{case['opt']['solver']}", f"nefc>0:{nefc > 0}", f"na>0:{mjm.na > 0}")
  if nefc > 0 or mjm.na > 0:
    rec.nt()
