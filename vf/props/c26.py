"""C26 Forward and inverse dynamics are consistent (round trip, with MuJoCo used for the Cartesian force map and as a recorded second opinion)."""

from __future__ import annotations

import numpy as np
import warp as wp
from hypothesis import strategies as st

import mujoco
import mujoco_warp as mjw
from mujoco_warp._src.types import OverflowType as OT

from vf import gen, mjw as H
from vf.core import Reject
from vf.props import c08

RULE = (
  "case = C08's model grammar ('smooth': contacts+constraints disabled, free/ball/hinge/slide trees with damping(+poly)/stiffness/gravcomp/fluid/tendons/mocap and actuators with dynamics; "
  "'contact': plane + pile with limits, frictionloss, equalities, both cones/solvers/jacobians, state settled with MuJoCo) x random qpos/qvel/act/ctrl/qfrc_applied/xfrc_applied x 1-2 worlds x "
  "mode in {continuous (any integrator), discrete (INVDISCRETE enabled, Euler with eulerdamp on/off and damper flag on/off, or implicitfast)}.  continuous: forward(); inverse().  discrete: "
  "forward(); step(); restore qpos/qvel/act/time/warmstart; forward(); qacc := (qvel_next - qvel)/dt; inverse().  oracle: qfrc_inverse == qfrc_applied + J^T xfrc_applied (MuJoCo mj_applyFT at "
  "xipos on the same state) + MJWarp's own qfrc_actuator within 10 x r + 1e-3 x scale, r = max|M qacc - qfrc_smooth - qfrc_constraint| of the forward pass (float64 from MJWarp's fields), "
  "scale = max(1, |terms|); inverse() must leave qacc unchanged.  evaluation = one world; non-trivial = nefc > 0 or a velocity-dependent force with qvel != 0.  mj_inverse on the same "
  "(qpos, qvel, qacc) is evaluated as a second opinion and only counted (notes)"
)
ASSUMPTIONS = [
  "qfrc_actuator and the constraint rows themselves are taken from MJWarp (their agreement with MuJoCo is C03/C05's subject)",
  "worlds whose forward residual exceeds 1e-2 x scale (solver not converged) or whose reference has a degenerate row (efc_D > 1e10) are skipped and counted",
  "discrete mode only for Euler and implicitfast (the others raise NotImplementedError by design)",
]
BUDGET = {"quick": dict(examples=480, seconds=420, workers=16), "thorough": dict(examples=12000, seconds=1500, workers=16)}
_CAP = int(OT.NEFC | OT.NJMAX_NNZ | OT.BROADPHASE | OT.NARROWPHASE | OT.CCD | OT.NVMAX | OT.HFIELD | OT.EPA_HORIZON | OT.CONTACT_MATCH)


def strategy(tier):
  base = c08.strategy(tier)

  def extend(case, discrete, integ, damper, sparse):
    case = dict(case)
    case["discrete"] = discrete
    if discrete:
      case["opt"] = dict(case["opt"], integrator=integ)
    case["damper"] = damper
    case["k"] = 1
    return case

  return st.builds(extend, base, st.integers(0, 5).map(lambda x: x % 2 == 1), st.sampled_from(["Euler", "implicitfast"]), st.sampled_from([True, True, True, False]), st.booleans())


def _build(case, rec):
  cfg = dict(case["cfg"])
  opt = dict(case["opt"])
  opt.update(timestep=case["dt"], tolerance=1e-8, iterations=100, ls_iterations=50)
  flags = {}
  if case["mode"] == "smooth":
    flags.update(contact="disable", constraint="disable")
  if not case["eulerdamp"]:
    flags["eulerdamp"] = "disable"
  if not case["damper"]:
    flags["damper"] = "disable"
  if case["discrete"]:
    flags["invdiscrete"] = "enable"
  if flags:
    opt["flags"] = flags
  cfg["option"] = opt
  spec = gen.make_spec(cfg)
  return H.compile_spec(spec)


def check(case, rec):
  mjm = _build(case, rec)
  if mjm.nv == 0:
    raise Reject("nv=0")
  integ = case["opt"]["integrator"]
  contact = case["mode"] == "contact"
  discrete = case["discrete"]
  n = case["nworld"]
  dt = float(mjm.opt.timestep)
  m = H.put_model(mjm)
  d = H.make_data(mjm, nworld=n, nconmax=120, njmax=400)
  g = np.random.default_rng([case["seed"], 13])
  states = []
  for w in range(n):
    s = H.rand_state(mjm, case["seed"] + 41 * w, sigma=case["sigma"], vel=case["vel"], unnorm=False, applied=False)
    s["act"] = H.f32(g.normal(size=mjm.na) * 0.7)
    s["qacc_warmstart"] = np.zeros(mjm.nv)
    s["time"] = 0.0
    if contact and case["seed"] % 3:
      tmp = mujoco.MjData(mjm)
      H.set_mjd(tmp, s)
      try:
        for _ in range([0, 5, 30][case["seed"] % 3]):
          mujoco.mj_step(mjm, tmp)
      except mujoco.FatalError:
        raise Reject("mujoco aborts on this model")
      if np.all(np.isfinite(tmp.qpos)) and np.all(np.isfinite(tmp.qvel)) and np.max(np.abs(tmp.qvel), initial=0) < 50 and not tmp.warning.number.any():
        s["qpos"], s["qvel"], s["act"] = H.f32(tmp.qpos), H.f32(tmp.qvel), H.f32(tmp.act)
    s.update(c08._inputs(mjm, case, w, 0))
    states.append(s)
  H.set_data(d, states)

  mjw.forward(m, d)
  if (H.overflow_fwd(d) & _CAP).any():
    rec.inconclusive += 1
    return
  fwd = {k: getattr(d, k).numpy().copy() for k in ("qacc", "qfrc_actuator", "qfrc_smooth", "qfrc_constraint", "qfrc_bias", "qfrc_passive", "M", "qvel", "nefc")}
  qacc_in = fwd["qacc"]
  if discrete:
    mjw.step(m, d)
    vnext = d.qvel.numpy().copy()
    if (H.overflow_fwd(d) & _CAP).any():
      rec.inconclusive += 1
      return
    H.set_data(d, states)  # restores qpos, qvel, act, time, qacc_warmstart (and inputs)
    mjw.forward(m, d)
    qacc_in = ((vnext.astype(np.float64) - fwd["qvel"].astype(np.float64)) / dt).astype(np.float32)
    d.qacc.assign(qacc_in)
  d.qfrc_inverse.fill_(wp.inf)
  try:
    mjw.inverse(m, d)
  except NotImplementedError as e:
    raise Reject(f"inverse: {e}")
  got = d.qfrc_inverse.numpy()
  qacc_after = d.qacc.numpy()

  has_veldep = bool((mjm.dof_damping != 0).any() or (mjm.ntendon and (mjm.tendon_damping != 0).any()) or mjm.opt.density > 0 or mjm.opt.viscosity > 0 or (mjm.nu and ((mjm.actuator_biasprm[:, 2] != 0).any() or (mjm.actuator_gainprm[:, 2] != 0).any())))
  rec.cls(
    f"mode:{case['mode']}", f"discrete:{discrete}", f"integrator:{integ}" if discrete else "integrator:any", f"sparse:{bool(m.is_sparse)}", f"nu>0:{mjm.nu > 0}", f"na>0:{mjm.na > 0}",
    f"eulerdamp:{case['eulerdamp']}" if discrete and integ == "Euler" else "eulerdamp:n/a", f"damperflag:{case['damper']}", f"damping:{bool((mjm.dof_damping != 0).any())}",
  )
  nontriv = False
  for w in range(n):
    mjd = mujoco.MjData(mjm)
    H.set_mjd(mjd, states[w])
    try:
      mujoco.mj_forward(mjm, mjd)
    except mujoco.FatalError:
      rec.rejected += 1
      continue
    rec.ev()
    if mjd.warning.number.any() or not np.all(np.isfinite(mjd.qacc)):
      rec.inconclusive += 1
      continue
    if not (np.all(np.isfinite(fwd["qacc"][w])) and np.all(np.isfinite(qacc_in[w]))):
      rec.inconclusive += 1  # the forward pass itself failed: not this property's subject
      continue
    if contact and mjd.nefc > 0 and float(np.max(mjd.efc_D)) > 1e10:
      rec.boundary_skipped += 1
      continue
    # Cartesian forces mapped by MuJoCo on the same state
    qx = np.zeros(mjm.nv)
    xf = np.asarray(states[w]["xfrc_applied"], dtype=np.float64)
    for b in range(1, mjm.nbody):
      if np.any(xf[b] != 0):
        mujoco.mj_applyFT(mjm, mjd, xf[b, :3].copy(), xf[b, 3:].copy(), np.array(mjd.xipos[b]), b, qx)
    target = np.asarray(states[w]["qfrc_applied"], dtype=np.float64) + qx + fwd["qfrc_actuator"][w].astype(np.float64)
    M = H.dense_M(mjm, fwd["M"][w].astype(np.float64))
    Ma = M @ fwd["qacc"][w].astype(np.float64)
    res = float(np.max(np.abs(Ma - fwd["qfrc_smooth"][w] - fwd["qfrc_constraint"][w])))
    scale = max(1.0, float(np.max(np.abs(target))), float(np.max(np.abs(fwd["qfrc_bias"][w]))), float(np.max(np.abs(fwd["qfrc_passive"][w]))), float(np.max(np.abs(fwd["qfrc_constraint"][w]))), float(np.max(np.abs(Ma))))
    if discrete:
      scale = max(scale, float(np.max(np.abs(M @ qacc_in[w].astype(np.float64)))))
    rec.err("forward_residual/scale", res / scale)
    if res > 1e-2 * scale:
      rec.boundary_skipped += 1
      rec.cls("skipped:forward-residual")
      continue
    tol = 10.0 * res + 1e-3 * scale
    if discrete:
      # qacc := (v+ - v)/dt is formed from float32 velocities and stored in float32.  inverse() maps it back to the continuous acceleration
      # a_c = M^-1 H a_d (H = M + dt*damping for Euler, M - dt*sym(qDeriv) for implicitfast) and evaluates (M + J^T D J) a_c, so the round-off of a_d
      # is multiplied by (I + J^T D J M^-1) H (infinity norm; MuJoCo's rows and qDeriv on the same state; all rows as an upper bound)
      Hint = M.copy()
      if integ == "Euler" and case["eulerdamp"]:
        Hint = M + dt * np.diag(mjm.dof_damping)
      elif integ == "implicitfast":
        tmp = mujoco.MjData(mjm)
        H.set_mjd(tmp, states[w])
        mujoco.mj_step(mjm, tmp)
        Hint = M - dt * c08._lowsym(c08._dense_D(mjm, tmp))
      K = np.eye(mjm.nv)
      if mjd.nefc > 0:
        em = H.mj_efc_dense(mjm, mjd)
        K = K + (em["J"].T @ (em["D"][:, None] * em["J"])) @ np.linalg.pinv(M)
      amp = float(np.max(np.sum(np.abs(K @ Hint), axis=1)))  # infinity-norm of the exact error map
      da = 1.2e-7 * (max(1.0, float(np.max(np.abs(vnext[w]))), float(np.max(np.abs(fwd["qvel"][w])))) / dt + float(np.max(np.abs(qacc_in[w]))))
      extra = 4.0 * amp * da
      if not (integ == "Euler" and not case["eulerdamp"]):
        # the conversion solves with M in float32: a_c is off by ~eps32 cond(M) |a| (observed: 6% of that bound; 25% allowed), again seen through M + J^T D J
        Acon = (K - np.eye(mjm.nv)) @ M
        extra += 2e-8 * float(np.linalg.cond(M)) * float(np.max(np.abs(qacc_in[w]))) * float(np.max(np.sum(np.abs(M + Acon), axis=1)))
      tol += extra
      rec.err("discrete_roundoff_term/scale", extra / scale)
      if extra > 0.1 * scale:
        rec.boundary_skipped += 1  # the finite-differenced acceleration carries no usable precision here (ill-conditioned M under stiff rows)
        rec.cls("skipped:discrete-roundoff")
        continue
    ctx = dict(world=w, discrete=discrete, integrator=integ, nefc=int(fwd["nefc"][w]), res=res, scale=scale)
    gw = got[w].astype(np.float64)
    err = float(np.max(np.abs(gw - target))) if np.all(np.isfinite(gw)) else float("inf")
    damper_class = discrete and integ == "Euler" and case["eulerdamp"] and not case["damper"] and bool((mjm.dof_damping != 0).any())
    if err <= tol and not damper_class:
      rec.err(f"qfrc_inverse/tol:{'discrete:' + integ + (':eulerdamp' if case['eulerdamp'] else '') if discrete else 'continuous'}:{case['mode']}", err / tol)
      if err > 0.2 * tol:
        rec.notes[f"ratio>0.2:{'discrete:' + integ if discrete else 'continuous'}:{case['mode']}:cond={int(np.log10(max(np.linalg.cond(M), 1.0)))}"] += 1
    if not err <= tol:
      i = int(np.argmax(np.abs(gw - target))) if np.all(np.isfinite(gw)) else int(np.argmax(~np.isfinite(gw)))
      kind = f"discrete:{integ}" if discrete else "continuous"
      sig = f"{kind}:{case['mode']}"
      if damper_class:
        # discrete_acc adds dt*damping to M whenever EULERDAMP is enabled, euler() only when DAMPER is enabled too (mj_discreteAcc / mj_Euler in MuJoCo C behave the same)
        sig = "discrete:Euler:damper-flag-ignored"
      rec.violation(
        f"qfrc_inverse differs from qfrc_applied + J^T xfrc_applied + qfrc_actuator: err {err:.3g} > tol {tol:.3g} at dof {i}: {float(gw[i])!r} vs {float(target[i])!r} ({kind}, {case['mode']}, nefc {int(fwd['nefc'][w])})",
        sig=sig, err=err, tol=tol, index=i, **ctx,
      )
    # inverse() must hand back the acceleration it was given
    if not np.array_equal(qacc_after[w], qacc_in[w]):
      rec.violation(f"inverse() changed qacc: {qacc_after[w].tolist()} vs {qacc_in[w].tolist()}", sig="qacc-changed", **ctx)
    # second opinion (counted only): mj_inverse on the same qpos, qvel, qacc
    try:
      mjd.qacc[:] = qacc_in[w]
      mujoco.mj_inverse(mjm, mjd)
      same = mjd.nefc == int(fwd["nefc"][w])
      e2 = float(np.max(np.abs(gw - mjd.qfrc_inverse))) / scale
      if same:
        rec.err(f"vs_mj_inverse/scale:{'discrete' if discrete else 'continuous'}:{integ if discrete else 'any'}", e2)
        if e2 > 5e-3:
          rec.notes[f"mj_inverse-differs:{'discrete:' + integ if discrete else 'continuous'}:{case['mode']}"] += 1
    except mujoco.FatalError:
      pass
    if int(fwd["nefc"][w]) > 0 or (has_veldep and np.any(fwd["qvel"][w] != 0)):
      nontriv = True
  if nontriv:
    rec.nt()
