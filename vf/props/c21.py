"""C21 Inertia factorization solves the inertia system."""

from __future__ import annotations

import numpy as np
import warp as wp
from hypothesis import strategies as st

import mujoco
import mujoco_warp as mjw
from mujoco_warp._src import derivative as mjw_derivative
from mujoco_warp._src import forward as mjw_forward
from mujoco_warp._src import io as mjw_io
from mujoco_warp._src import smooth as mjw_smooth
from mujoco_warp._src import types as mjw_types

from vf import gen, mjw as H
from vf.core import Reject, check_close

RULE = (
  "case = a forest of kinematic trees with forced dof counts from {1,2,3,5,6,7,8,31,32,33,63,64,65,70} (chain / branched / lone free body; roots free, ball, hinge or slide; "
  "ball, hinge, slide and two-joint bodies below; armature; masses spanning <= 1e3) so that every layout of io.m_block_layout (compact diagonal, scalar Cholesky <= 6, tile Cholesky 3..64, "
  "sparse LDL > 64) and mixtures of them occur, joint damping (+ polynomial), damper/velocity actuators and damped fixed tendons, dense/sparse jacobian, Euler/implicitfast/implicit, "
  "random qpos/qvel in 1-3 worlds with a different right-hand side per world. Oracle (float64 numpy on the float32 matrices MJWarp itself holds): (a) d.M equals MuJoCo's M and is "
  "positive definite; (b) factor_m; solve_m(x, b): per tree block ||M x - b|| <= tol (||M|| ||x|| + ||b||); (c) mul_m(res, vec) equals the dense product; "
  "(d) factor_solve_i on M + dt diag(damping derivative) (the Euler matrix, built as euler() builds it) and on the M - dt qDeriv that deriv_smooth_vel returns (implicitfast), "
  "factor_solve_lu on the D-structure matrix that implicit() assembles: same residual bound, and the Euler matrix itself equals M + dt diag(d damping/dv) computed in float64 from the model; "
  "(e) one mjw.step on a fresh Data without constraints: H (v+ - v)/dt = efc.Ma (the right-hand side the integrators use) per block, with H the matrix assembled in (d) for the case's integrator "
  "(implicit: the matrix recovered from the stored LU factors of that step; whether the implicit matrices are the *right* derivatives is C27's subject, not asserted here). "
  "evaluation = one (world, routine) residual test; non-trivial = the model has >= 2 different layouts or a tree of boundary size (6,7,64,65); distinct by sha1(case)"
)
ASSUMPTIONS = [
  "MuJoCo C 3.13 is the reference for M",
  "end-to-end step: (v+ - v)/dt is a float32 difference, so a floor of 4 u |H| |v| / dt is subtracted from the residual before it is compared",
  "residuals are normwise backward errors per tree block: float32 Cholesky/LDL is backward stable, so the bound does not depend on cond(M); tolerance 3e-6 (observed <= 1e-7); mul_m 5e-6 of |M||v| (observed 3e-7)",
  "positive definiteness is asserted only when cond(M) of the float64 reference is <= 1e6; a non-SPD implicit matrix (positive velocity feedback) is skipped and counted",
  "smooth.factor_solve_i / factor_solve_lu and the private kernels forward._map_m2d, _compute_damping_deriv, _euler_damp_qfrc are called exactly as forward.euler/implicit call them",
]
BUDGET = {
  "quick": dict(examples=400, seconds=420, workers=16),
  "thorough": dict(examples=9000, seconds=1500, workers=16),
}

_SIZES_SMALL = [1, 2, 3, 5, 6, 7, 8]
_SIZES_BIG = [31, 32, 33, 63, 64, 65, 70]
_BOUNDARY = (6, 7, 64, 65)
TOL = 3e-6


def _tree_strategy(sizes):
  return st.fixed_dictionaries(
    dict(
      n=st.sampled_from(sizes),
      shape=st.sampled_from(["chain", "chain", "branched", "lone"]),
      root=st.sampled_from(["free", "ball", "hinge", "slide", "any"]),
      p_ball=st.sampled_from([0.0, 0.25]),
      p_multi=st.sampled_from([0.0, 0.3]),
    )
  )


def strategy(tier):
  small = st.lists(_tree_strategy(_SIZES_SMALL), min_size=0, max_size=4)
  big = st.lists(_tree_strategy(_SIZES_BIG), min_size=0, max_size=1 if tier == "quick" else 2)
  return st.fixed_dictionaries(
    dict(
      small=small,
      big=big,
      seed=st.integers(0, 2**31 - 1),
      jacobian=st.sampled_from(["dense", "sparse", "auto"]),
      integrator=st.sampled_from(["Euler", "implicitfast", "implicit"]),
      timestep=st.sampled_from([0.002, 0.01, 0.03]),
      nworld=st.sampled_from([1, 2, 3]),
      damping=st.sampled_from(["none", "linear", "linear", "poly"]),
      extras=st.sampled_from([0, 0, 1, 2]),  # velocity/damper actuators + damped fixed tendons (not in the end-to-end part)
      armature=st.booleans(),
      massspan=st.sampled_from([1.0, 30.0, 1000.0]),
      sigma=st.sampled_from([0.0, 0.3, 1.5]),
      vel=st.sampled_from([0.0, 0.3, 2.0]),
      bscale=st.sampled_from([1.0, 100.0]),
    )
  )


# --------------------------------------------------------------------------------------
# model


def _build_tree(r: gen.R, case, t, ctr, bodies):
  """Appends the bodies of one kinematic tree with exactly t['n'] dofs."""
  n, shape = t["n"], t["shape"]
  span = case["massspan"]

  def body(parent):
    bi = ctr["b"]
    ctr["b"] += 1
    b = dict(name=f"b{bi}", parent=parent, joints=[], geoms=[], sites=[], cameras=[], lights=[])
    b["pos"] = [r.u(-2, 2), r.u(-2, 2), r.u(0.5, 2)] if parent == -1 else r.vec(3, -0.15, 0.15)
    b["quat"] = r.quat()
    mass = r.lu(0.05, 0.05 * span) if span > 1 else 0.5
    a, b_, c = sorted(r.vec(3, 0.02, 0.1))
    c = min(c, 0.95 * (a + b_))
    # inertia proportional to mass: radius of gyration 0.02..0.1 m
    b["inertial"] = dict(pos=r.vec(3, -0.05, 0.05), quat=r.quat(), mass=mass, diaginertia=gen.r6([mass * a * a, mass * b_ * b_, mass * c * c]))
    di = b["inertial"]["diaginertia"]
    di.sort()
    di[2] = gen.r6(min(di[2], 0.95 * (di[0] + di[1])))
    bodies.append(b)
    return len(bodies) - 1

  def joint(jt):
    j = dict(name=f"j{ctr['j']}", type=jt)
    ctr["j"] += 1
    if jt == "free":
      return j
    if jt != "ball":
      j["axis"] = r.unit()
    j["pos"] = r.vec(3, -0.1, 0.1)
    if case["armature"] and r.p(0.5):
      j["armature"] = r.lu(0.001, 0.3)
    if case["damping"] != "none" and r.p(0.7):
      j["damping"] = r.u(0.05, 2.0)
      if case["damping"] == "poly" and r.p(0.5):
        j["dampingpoly"] = [r.u(0, 0.5), r.u(0, 0.2)]
    return j

  if shape == "lone" and n in (1, 6):
    # a lone body: one dof, or a free body without children (MuJoCo stores its M block diagonal-only: the compact layout)
    i = body(-1)
    if n == 6:
      bodies[i]["joints"].append(joint("free"))
      if r.p(0.6):
        # "simple" body for MuJoCo (inertial frame = body frame): diagonal-only M block
        bodies[i]["inertial"]["pos"] = [0, 0, 0]
        bodies[i]["inertial"]["quat"] = [1, 0, 0, 0]
    else:
      bodies[i]["joints"].append(joint(r.ch(["hinge", "slide"])))
    return
  left = n
  mine = []
  root = t["root"]
  while left > 0:
    if not mine:
      parent = -1
      jt = root if root != "any" else r.ch(["free", "ball", "hinge", "slide"])
      if jt == "free" and left < 6:
        jt = "ball"
      if jt == "ball" and left < 3:
        jt = r.ch(["hinge", "slide"])
    else:
      parent = mine[-1] if shape != "branched" else mine[r.i(0, len(mine) - 1)]
      jt = "ball" if (left >= 3 and r.p(t["p_ball"])) else r.ch(["hinge", "slide"])
    i = body(parent)
    mine.append(i)
    bodies[i]["joints"].append(joint(jt))
    left -= {"free": 6, "ball": 3}.get(jt, 1)
    if jt in ("hinge", "slide") and left > 0 and r.p(t["p_multi"]):
      bodies[i]["joints"].append(joint(r.ch(["hinge", "slide"])))
      left -= 1


def build_spec(case):
  r = gen.R(case["seed"])
  bodies = []
  ctr = dict(b=0, j=0)
  trees = list(case["small"]) + list(case["big"])
  if not trees:
    trees = [dict(n=2, shape="chain", root="hinge", p_ball=0.0, p_multi=0.0)]
  # interleave big and small trees in a drawn order
  order = list(r.g.permutation(len(trees)))
  for k in order:
    _build_tree(r, case, trees[int(k)], ctr, bodies)
  spec = dict(bodies=bodies, world_geoms=[], tendons=[], equalities=[], actuators=[], sensors=[], pairs=[], excludes=[], nkey=0, nuserdata=0, meshes=[])
  scalar = [j["name"] for b in bodies for j in b["joints"] if j["type"] in ("hinge", "slide")]
  for k in range(case["extras"]):
    if not scalar:
      break
    if r.p(0.5):
      kind = r.ch(["velocity", "damper"])
      a = dict(name=f"a{len(spec['actuators'])}", kind=kind, joint=r.ch(scalar), kv=r.u(0.5, 5.0))
      if kind == "damper":
        a["ctrlrange"] = [0, 1]
      spec["actuators"].append(a)
    else:
      nj = min(len(scalar), r.i(1, 3))
      js = [str(x) for x in r.g.choice(scalar, size=nj, replace=False)]
      t = dict(name=f"t{len(spec['tendons'])}", kind="fixed", joints=[[j, r.u(-2, 2)] for j in js], damping=r.u(0.1, 1.0))
      spec["tendons"].append(t)
  jac = case["jacobian"]
  if jac == "dense" and sum(t["n"] for t in trees) > 60:
    jac = "sparse"  # put_model rejects dense Jacobians for nv > 60
  spec["option"] = dict(jacobian=jac, integrator=case["integrator"], timestep=case["timestep"])
  return spec


def layout_classes(mjm):
  """Layout class of each tree block, from the same facts io.m_block_layout uses (computed independently)."""
  out = []
  for adr, num in zip(mjm.tree_dofadr, mjm.tree_dofnum):
    if num <= 0:
      continue
    last = adr + num - 1
    nnz = int(mjm.M_rowadr[last] + mjm.M_rownnz[last] - mjm.M_rowadr[adr])
    if num <= 6 and nnz == num:
      c = "compact"
    elif num <= 6 and nnz == num * (num + 1) // 2:
      c = "scalar"
    elif num <= 64:
      c = "tile"
    else:
      c = "sparse"
    out.append((int(adr), int(num), c))
  return out


def _csr_lower_to_dense(mjm, vals):
  return H.dense_M(mjm, np.asarray(vals, dtype=np.float64))


def _d_to_dense(mjm, vals):
  nv = mjm.nv
  A = np.zeros((nv, nv))
  vals = np.asarray(vals, dtype=np.float64)
  for i in range(nv):
    a, n = int(mjm.D_rowadr[i]), int(mjm.D_rownnz[i])
    A[i, mjm.D_colind[a : a + n]] = vals[a : a + n]
  return A


_ILLCOND = {}  # world -> set of block start dofs with reference cond > 1e6 (filled per case by check())


def _residual(rec, name, A, x, b, blocks, sig, **ctx):
  """Normwise backward error per tree block (A is block diagonal over trees)."""
  x = np.asarray(x, dtype=np.float64)
  b = np.asarray(b, dtype=np.float64)
  # blocks whose reference cond(M) exceeds 1e6 are not judged (a float32 factorisation may legitimately break down there)
  bad = _ILLCOND.get(ctx.get("world"), set())
  blocks = [bl for bl in blocks if bl[0] not in bad]
  if not all(np.all(np.isfinite(x[adr : adr + num])) for adr, num, _ in blocks):
    rec.violation(f"{name}: solution is not finite", sig=sig + ":nan", **ctx)
    return
  worst = 0.0
  for adr, num, cls in blocks:
    s = slice(adr, adr + num)
    Ab = A[s, s]
    r = Ab @ x[s] - b[s]
    den = np.linalg.norm(Ab, 2) * np.linalg.norm(x[s]) + np.linalg.norm(b[s])
    e = float(np.linalg.norm(r) / max(den, 1e-30))
    rec.err(f"{name}[{cls}]", e)
    if e > TOL:
      rec.violation(f"{name}: block at dof {adr} size {num} layout {cls}: ||A x - b|| / (||A|| ||x|| + ||b||) = {e:.3g} > {TOL}", sig=f"{sig}:{cls}", block=[adr, num], err=e, **ctx)
    worst = max(worst, e)
  return worst


def check(case, rec):
  spec = build_spec(case)
  mjm = H.compile_spec(spec)
  nv = mjm.nv
  if nv == 0:
    raise Reject("nv=0")
  mjm.opt.disableflags |= int(mujoco.mjtDisableBit.mjDSBL_CONTACT)
  nworld = case["nworld"]
  m = H.put_model(mjm)
  d = H.make_data(mjm, nworld=nworld)
  states = [H.rand_state(mjm, case["seed"] % 100003 + 31 * w, sigma=case["sigma"], vel=case["vel"], applied=True) for w in range(nworld)]
  for s_ in states:
    # damper/velocity actuators: keep the control inside the damper's ctrlrange so that the velocity feedback stays dissipative (SPD system matrix)
    s_["ctrl"] = np.clip(np.abs(s_["ctrl"]), 0.0, 1.0)
  H.set_data(d, states)
  mjw.forward(m, d)
  if H.overflow_fwd(d).any():
    rec.inconclusive += 1
    return

  blocks = layout_classes(mjm)
  classes = {c for _, _, c in blocks}
  sizes = {n for _, n, _ in blocks}
  rec.cls(*[f"layout:{c}" for c in classes], *[f"size:{n}" for n in sizes if n in _BOUNDARY], f"nlayouts:{len(classes)}", f"sparse_jac:{bool(m.is_sparse)}", f"nworld:{nworld}", f"integrator:{case['integrator']}")
  jn = {0: "free", 1: "ball", 2: "slide", 3: "hinge"}
  for adr, num, c in blocks:
    jts = sorted({jn[int(mjm.jnt_type[mjm.dof_jntid[k]])] for k in range(adr, adr + num)})
    rec.cls(f"block:{c}:{'+'.join(jts)}")
  # the classification above must be the one MJWarp uses, otherwise the class histogram would lie
  lay = mjw_io.m_block_layout(mjm)
  for adr, num, c in blocks:
    a = int(lay["dof_adr"][adr])
    got = "compact" if a == mjw_types.Q_LD_BLOCK_COMPACT else "sparse" if a == mjw_types.Q_LD_BLOCK_SPARSE else ("scalar" if num in lay["scalar_tiles"] and adr in lay["scalar_tiles"][num] else "tile")
    if got != c:
      rec.cls(f"layout-mismatch:{c}->{got}")

  g = np.random.default_rng(case["seed"] % 99991 + 5)
  bs = case["bscale"]
  B = (g.normal(size=(nworld, nv)) * bs * np.exp(g.uniform(-2, 2, size=(nworld, nv)))).astype(np.float32)
  V = g.normal(size=(nworld, nv)).astype(np.float32)

  # ---- (a) M
  Mw = d.M.numpy().astype(np.float64)
  Mdense = [_csr_lower_to_dense(mjm, Mw[w]) for w in range(nworld)]
  usable = []
  _ILLCOND.clear()
  for w in range(nworld):
    mjd = mujoco.MjData(mjm)
    H.set_mjd(mjd, states[w])
    mujoco.mj_forward(mjm, mjd)
    if not np.all(np.isfinite(mjd.qacc_smooth)):
      rec.inconclusive += 1
      continue
    rec.ev()
    Mref = H.mj_dense_M(mjm, mjd)
    check_close(rec, "M", Mdense[w], Mref, 5e-4, sig="M:value", world=w)
    ok = True
    for adr, num, c in blocks:
      s = slice(adr, adr + num)
      evr = np.linalg.eigvalsh(Mref[s, s])
      ev = np.linalg.eigvalsh(Mdense[w][s, s])
      cond = evr[-1] / max(evr[0], 1e-300)
      rec.err("log10cond", np.log10(max(cond, 1.0)))
      if cond > 1e6:
        rec.boundary_skipped += 1
        _ILLCOND.setdefault(w, set()).add(adr)
        if ev[0] <= 0:
          ok = False
        continue
      if not ev[0] > 0:
        rec.violation(f"M block at dof {adr} (size {num}) is not positive definite: min eig {ev[0]:.3g}, reference cond {cond:.3g}", sig=f"M:notpd:{c}", world=w)
        ok = False
    if ok:
      usable.append(w)
  if not usable:
    return

  # ---- (b) factor_m / solve_m and (c) mul_m
  mjw.factor_m(m, d)
  x = wp.zeros((nworld, nv), dtype=float)
  b = wp.array(B, dtype=float)
  mjw.solve_m(m, d, x, b)
  xs = x.numpy()
  res = wp.zeros((nworld, nv), dtype=float)
  vec = wp.array(V, dtype=float)
  mjw.mul_m(m, d, res, vec)
  rs = res.numpy()
  for w in usable:
    rec.ev(2)
    _residual(rec, "solve_m", Mdense[w], xs[w], B[w], blocks, "solve_m", world=w)
    want = Mdense[w] @ V[w].astype(np.float64)
    scale = np.abs(Mdense[w]) @ np.abs(V[w].astype(np.float64))
    e = float(np.max(np.abs(rs[w] - want) / np.maximum(scale, 1e-30)))
    rec.err("mul_m", e)
    if e > 5e-6:
      i = int(np.argmax(np.abs(rs[w] - want) / np.maximum(scale, 1e-30)))
      rec.violation(f"mul_m: dof {i}: got {rs[w][i]} want {want[i]} (err {e:.3g} of |M||v|)", sig="mul_m", world=w, dof=i)
  # solve_m with the output aliasing nothing else: in place must work the same (x := solve(x)) is not promised, so not tested

  dt = float(mjm.opt.timestep)
  # ---- (d1) Euler matrix through factor_solve_i, assembled the way forward.euler does
  damp_deriv = wp.empty((nworld, nv), dtype=float)
  wp.launch(mjw_forward._compute_damping_deriv, dim=(nworld, nv), inputs=[m.dof_damping, m.dof_dampingpoly, d.qvel], outputs=[damp_deriv])
  Me = wp.clone(d.M)
  wp.launch(mjw_forward._euler_damp_qfrc, dim=(nworld, nv), inputs=[m.opt.timestep, m.M_rownnz, m.M_rowadr, damp_deriv], outputs=[Me])
  _solve_i(rec, case, m, d, mjm, Me, B, blocks, usable, "euler_matrix")
  # the assembled matrix itself: M + dt * d(damping force)/dv on the diagonal (float64 from the model)
  Men = Me.numpy().astype(np.float64)
  Hstep = {}
  for w in usable:
    v = np.asarray(states[w]["qvel"], dtype=np.float64)
    dd = mjm.dof_damping.astype(np.float64).copy()
    p = np.asarray(mjm.dof_dampingpoly, dtype=np.float64).reshape(nv, -1)
    dd = dd + 2 * p[:, 0] * np.abs(v) + 3 * p[:, 1] * v * v
    want = Mdense[w] + dt * np.diag(dd)
    got = _csr_lower_to_dense(mjm, Men[w])
    check_close(rec, "euler_matrix_assembly", got, want, 1e-5, sig="euler_matrix:assembly", world=w)
    Hstep[w] = got if not (mjm.opt.disableflags & int(mujoco.mjtDisableBit.mjDSBL_EULERDAMP)) else Mdense[w]

  # ---- (d2) implicitfast matrix: whatever deriv_smooth_vel returns must be solved correctly
  if case["integrator"] != "Euler":
    qH = wp.zeros((nworld, m.nC), dtype=float)
    mjw.deriv_smooth_vel(m, d, qH)
    _solve_i(rec, case, m, d, mjm, qH, B, blocks, usable, "implicitfast_matrix")
    qHn = qH.numpy().astype(np.float64)
    for w in usable:
      Hstep[w] = _csr_lower_to_dense(mjm, qHn[w])
    if case["integrator"] == "implicit":
      # ---- (d3) D-structure matrix as forward.implicit assembles it, LU factor+solve
      qLU = wp.zeros((nworld, m.nD), dtype=float)
      wp.launch(mjw_forward._map_m2d, dim=(nworld, m.nD), inputs=[m.mapM2D, qH], outputs=[qLU])
      mjw_derivative.deriv_rne_vel(m, d, qLU, flg_subtract=False)  # any matrix of this structure will do for the solve; this is implicit()'s
      A = qLU.numpy().astype(np.float64)
      xl = wp.zeros((nworld, nv), dtype=float)
      mjw_smooth.factor_solve_lu(m, d, qLU, xl, b)
      xln = xl.numpy()
      for w in usable:
        rec.ev()
        Ad = _d_to_dense(mjm, A[w])
        Hstep[w] = Ad
        # LU without pivoting: backward stable while the matrix stays close to the SPD M (dt * derivative small); skip otherwise
        sym = 0.5 * (Ad + Ad.T)
        if np.linalg.eigvalsh(sym)[0] <= 1e-6 * np.linalg.norm(Ad, 2):
          rec.boundary_skipped += 1
          Hstep.pop(w)
          continue
        _residual(rec, "factor_solve_lu", Ad, xln[w], B[w], blocks, "solve_lu", world=w)

  # ---- (e) end to end: one step without constraints solves the system with the matrix assembled above
  _end_to_end(rec, case, mjm, m, states, blocks, [w for w in usable if w in Hstep], Hstep)

  if len(classes) >= 2 or (sizes & set(_BOUNDARY)):
    rec.nt()


def _solve_i(rec, case, m, d, mjm, Mmat, B, blocks, usable, name):
  nworld, nv = B.shape
  qLD = wp.empty_like(d.qLD)
  qLDiagInv = wp.empty((nworld, nv), dtype=float)
  x = wp.zeros((nworld, nv), dtype=float)
  b = wp.array(B, dtype=float)
  A = Mmat.numpy().astype(np.float64)
  mjw_smooth.factor_solve_i(m, d, Mmat, qLD, qLDiagInv, x, b)
  if not np.array_equal(Mmat.numpy().astype(np.float64), A):
    rec.violation(f"{name}: factor_solve_i modified its input matrix", sig=f"{name}:input-modified")
  xs = x.numpy()
  for w in usable:
    rec.ev()
    Ad = _csr_lower_to_dense(mjm, A[w])
    ev = np.linalg.eigvalsh(Ad)
    if ev[0] <= 1e-7 * ev[-1]:
      rec.boundary_skipped += 1  # not SPD (or not numerically so): outside what an SPD factorization promises
      continue
    _residual(rec, name, Ad, xs[w], B[w], blocks, name, world=w)


def _end_to_end(rec, case, mjm, m, states, blocks, usable, Hstep):
  """mjw.step on a fresh Data: Hstep[w] (v+ - v)/dt == efc.Ma (the right-hand side the integrators use), per tree block."""
  nworld = case["nworld"]
  dt = float(mjm.opt.timestep)
  d = H.make_data(mjm, nworld=nworld)
  H.set_data(d, states)
  mjw.step(m, d)
  if H.overflow_fwd(d).any():
    rec.inconclusive += 1
    return
  v1 = d.qvel.numpy().astype(np.float64)
  f = d.efc.Ma.numpy().astype(np.float64)
  u = 6e-8
  for w in usable:
    v0 = np.asarray(states[w]["qvel"], dtype=np.float64)
    Hm = Hstep[w]
    if case["integrator"] == "implicit":
      # the matrix the step actually factorised, recovered from the stored factors: A = (I + U) L on the D pattern
      LU = _d_to_dense(mjm, d.qLU.numpy()[w])
      if not np.all(np.isfinite(LU)):
        rec.boundary_skipped += 1
        continue
      Hm = (np.eye(mjm.nv) + np.triu(LU, 1)) @ np.tril(LU)
    rec.ev()
    a = (v1[w] - v0) / dt
    for adr, num, cls in blocks:
      s = slice(adr, adr + num)
      Hb = Hm[s, s]
      ev = np.linalg.eigvalsh(0.5 * (Hb + Hb.T))
      if ev[0] <= 1e-6 * ev[-1] or not np.all(np.isfinite(f[w][s])):
        rec.boundary_skipped += 1  # not positive definite (positive velocity feedback): outside what the factorization promises
        continue
      if not np.all(np.isfinite(v1[w][s])):
        rec.violation(f"one step ({case['integrator']}): non-finite qvel in a block whose system matrix is positive definite (dof {adr} size {num} layout {cls})", sig=f"step:nan:{cls}", world=w)
        continue
      r = Hb @ a[s] - f[w][s]
      nH = np.linalg.norm(Hb, 2)
      # (v+ - v)/dt is a difference of float32 numbers: round-off of v+ alone contributes up to u |v+| / dt per component
      floor = 4 * u * nH * max(np.linalg.norm(v0[s]), np.linalg.norm(v1[w][s])) / dt
      den = nH * np.linalg.norm(a[s]) + np.linalg.norm(f[w][s])
      e = float(max(np.linalg.norm(r) - floor, 0.0) / max(den, 1e-30))
      rec.err(f"step[{case['integrator']}]", e)
      rec.err(f"step_floor_ratio[{case['integrator']}]", float(np.linalg.norm(r) / max(floor, 1e-30)) if np.linalg.norm(r) > TOL * den else 0.0)
      if e > TOL:
        rec.violation(f"one step ({case['integrator']}): block at dof {adr} size {num} layout {cls}: H (v+ - v)/dt != efc.Ma, relative residual {e:.3g}", sig=f"step:{case['integrator']}:{cls}", world=w, err=e)
