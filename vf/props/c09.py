"""C09 Worlds in a batch do not influence each other (metamorphic: batch == solo == permuted batch)."""

from __future__ import annotations

import numpy as np
from hypothesis import strategies as st

import mujoco_warp as mjw
from mujoco_warp._src.types import OverflowType as OT

from vf import gen, mjw as H
from vf.core import Reject, check_close, check_equal

RULE = (
  "case = rich model (contacts on a plane, limits, equalities, tendons, actuators) x batch of 2-5 worlds with different qpos/qvel/ctrl/applied "
  "forces/mocap/eq_active (a third of the cases with sleeping enabled and a different set of islands asleep in every world) x permutation x history of 1-6 steps with per-step control changes; oracle: every world's trajectory in the batch is bit-identical "
  "(Newton+sparse: first step only, solver outputs to 2e-3 because its Hessian is accumulated in nworld-dependent atomic groups) to its solo (nworld=1) trajectory and to its trajectory in the permuted batch, incl. "
  "ne/nf/nl/nefc, contact multiset, solver_niter; evaluation = one (world, step); non-trivial = worlds differ in contact count and some world has nefc>0"
)
ASSUMPTIONS = ["ample capacities (cases with any capacity overflow bit are discarded and counted)", "CPU device, canonical thread order"]
BUDGET = {"quick": dict(examples=256, seconds=420, workers=16), "thorough": dict(examples=4000, seconds=1500, workers=16)}

_FIELDS = ["qpos", "qvel", "act", "qacc", "qacc_warmstart", "time", "sensordata", "qfrc_constraint", "qfrc_actuator", "xpos", "subtree_com"]
_CAP = int(OT.NEFC | OT.NJMAX_NNZ | OT.BROADPHASE | OT.NARROWPHASE | OT.CCD | OT.NVMAX | OT.HFIELD | OT.EPA_HORIZON | OT.CONTACT_MATCH)


def strategy(tier):
  return st.fixed_dictionaries(
    dict(
      # delayed actuators (zoh/linear/cubic reads of a per-world control history ring buffer): the history is per-world state that a batch must not mix
      cfg=gen.rich_cfg(delays=st.booleans()),
      opt=gen.option_strategy(),
      nworld=st.sampled_from([2, 3, 3, 4, 5]),
      perm_seed=st.integers(0, 1000),
      state_seed=st.integers(0, 10**6),
      nstep=st.integers(1, 6),
      # sleeping enabled (Newton): a drawn fraction of each world's islands / unconstrained trees starts asleep, differently per world, so that worlds wake
      # (by contact, in the second collision pass) at different steps
      sleep=st.sampled_from([None, None, 0.5, 0.8, 0.8]),
    )
  )


def snapshot(m, d, w):
  c = H.contacts(d, w)
  order = H.contact_sort_key(c)
  out = {k: getattr(d, k).numpy()[w].copy() for k in _FIELDS}
  if d.tree_awake.shape[1]:
    out["tree_awake"] = d.tree_awake.numpy()[w].copy()
    out["tree_asleep"] = d.tree_asleep.numpy()[w].copy()
  out["_efc"] = lambda: H.efc_dense(m, d, w)  # evaluated by compare() right after the snapshot, only when qfrc_constraint is not bit-identical
  out.update(
    ne=int(d.ne.numpy()[w]), nf=int(d.nf.numpy()[w]), nl=int(d.nl.numpy()[w]), nefc=int(d.nefc.numpy()[w]), niter=int(d.solver_niter.numpy()[w]),
    cgeom=c["geom"][order], cdist=c["dist"][order], cpos=c["pos"][order], overflow=int(d.overflow.numpy()[w]),
  )
  return out


_SOLVER_OUT = {"qacc", "qacc_warmstart", "qfrc_constraint", "sensordata", "qvel", "qpos", "act"}


def compare(rec, a, b, what, reassoc=False, **ctx):
  """reassoc: Newton + sparse Jacobian accumulates the Hessian with atomics in nworld-dependent groups, so the solver
  output is only reproducible up to round-off of a re-ordered sum (and the iteration count may differ by a step)."""
  for k in ("ne", "nf", "nl", "nefc"):
    check_equal(rec, k, a[k], b[k], sig=f"{what}:{k}", **ctx)
  if reassoc:
    # Newton + sparse: the Hessian is summed in groups whose number depends on nworld, so H differs in the last ulp.  A float32 solve at
    # tolerance 1e-8 stops on exact stagnation, which such a difference can postpone arbitrarily (seen: 2 vs 100 iterations with bit-identical
    # qacc), so the iteration count is recorded but not judged here; the solution itself is compared below.
    if abs(a["niter"] - b["niter"]) > 3:
      rec.notes["niter_differs_by_more_than_3(newton+sparse)"] += 1
  else:
    if abs(a["niter"] - b["niter"]) > 1:
      rec.violation(f"niter differs: {a['niter']} vs {b['niter']}", sig=f"{what}:niter", **ctx)
    elif a["niter"] != b["niter"]:
      rec.notes["niter_off_by_one"] += 1
  for k in ("tree_awake", "tree_asleep"):
    if k in a and k in b:
      check_equal(rec, k, a[k], b[k], sig=f"{what}:{k}", **ctx)
  check_equal(rec, "contact.geom", a["cgeom"], b["cgeom"], sig=f"{what}:contacts", **ctx)
  for k in _FIELDS + ["cdist", "cpos"]:
    if a[k].shape == b[k].shape and np.array_equal(a[k], b[k], equal_nan=True):
      rec.notes["bitwise_equal_fields"] += 1
      continue
    rec.notes["non_bitwise_fields"] += 1
    # position in the batch changes how the CPU loop is vectorised: ulp-level differences are legitimate round-off
    tol = 2e-3 if (reassoc and k in _SOLVER_OUT) else (2e-4 if k in _SOLVER_OUT else 1e-4)
    if k == "qfrc_constraint" and a[k].size:
      # force = -D (J qacc - aref): a round-off level difference in qacc reappears multiplied by the constraint stiffness D (seen 6e-3 of the force
      # scale with qacc equal to 8e-8, D ~ 1e5).  Allowed per dof: base tolerance + 4 |J|^T (D * |J| (|dqacc| + 2 ulp |qacc|)), i.e. what the observed
      # qacc difference explains; bit-identical qacc leaves only the ulp term
      e = b["_efc"]()
      if e["nefc"] == b["nefc"] and e["nefc"] > 0:
        dq = np.abs(a["qacc"].astype(np.float64) - b["qacc"]) + 2.4e-7 * np.abs(b["qacc"])
        J = np.abs(e["J"].astype(np.float64))
        allow = 4.0 * (J.T @ (np.abs(e["D"].astype(np.float64)) * (J @ dq)))
        scale = max(1.0, float(np.max(np.abs(b[k]))))
        diff = np.abs(a[k].astype(np.float64) - b[k])
        bad = np.nonzero(diff > tol * scale + allow)[0]
        rec.err(k, float(np.max(np.maximum(diff - allow, 0.0)) / scale))
        if len(bad):
          j = int(bad[0])
          rec.violation(f"qfrc_constraint[{j}]: {float(a[k][j])!r} vs {float(b[k][j])!r}, more than tol {tol} * scale {scale:.3g} + stiffness-amplified round-off {allow[j]:.3g} {ctx}", sig=f"{what}:{k}", **ctx)
        continue
    check_close(rec, k, a[k], b[k], tol, sig=f"{what}:{k}", **ctx)


def check(case, rec):
  cfg = dict(case["cfg"])
  cfg["option"] = dict(case["opt"])
  sleeping = case.get("sleep") is not None
  if sleeping:
    cfg["option"]["solver"] = "Newton"
    cfg["option"]["flags"] = dict(sleep="enable")
  mjm = H.compile_spec(gen.make_spec(cfg))
  if mjm.nv == 0:
    raise Reject("nv=0")
  m = H.put_model(mjm)
  n = case["nworld"]
  g = np.random.default_rng(case["state_seed"])
  states = [H.rand_state(mjm, case["state_seed"] + 101 * w, sigma=0.2 * (w % 3), vel=0.5 * w, applied=(w % 2 == 1) and not sleeping) for w in range(n)]
  for w in range(n):
    if mjm.neq:
      states[w]["eq_active"] = g.uniform(size=mjm.neq) < 0.6  # equality activation is per-world state
  # with a control history the worlds' buffers differ only once several per-world samples have been written: run 4 more steps
  nstep = case["nstep"] + (4 if mjm.nhistory else 0)
  ctrls = [H.f32(g.normal(size=(n, mjm.nu))) for _ in range(nstep)]
  perm = [int(x) for x in np.random.default_rng(case["perm_seed"]).permutation(n)]
  if perm == list(range(n)):
    perm = perm[1:] + perm[:1]
  caps = dict(nconmax=120, njmax=400)
  D = H.make_data(mjm, nworld=n, **caps)
  P = H.make_data(mjm, nworld=n, **caps)
  S = [H.make_data(mjm, nworld=1, **caps) for _ in range(n)]
  asleep = None
  if sleeping and mjm.ntree:
    from mujoco_warp._src import sleep as mjw_sleep

    # per world: islands found by a forward pass of the solo copy; a drawn subset is put to sleep the way sleep_test.py does it (tree_asleep cycles, zero velocity)
    asleep = np.full((n, mjm.ntree), mjw_sleep.K_AWAKE_VAL, dtype=np.int32)
    for w in range(n):
      H.set_data(S[w], [states[w]])
      mjw.forward(m, S[w])
      ti = S[w].tree_island.numpy()[0] if S[w].tree_island.shape[1] else np.full(mjm.ntree, -1)
      groups = {}
      for t in range(mjm.ntree):
        groups.setdefault(("i", int(ti[t])) if ti[t] >= 0 else ("t", t), []).append(t)
      qvel = np.array(states[w]["qvel"], dtype=np.float64)
      for key in sorted(groups):
        if g.uniform() < case["sleep"] * (0.5 + 0.5 * (w % 2)):
          grp = groups[key]
          for k, t in enumerate(grp):
            asleep[w, t] = grp[(k + 1) % len(grp)]
            a = int(mjm.tree_dofadr[t])
            qvel[a : a + int(mjm.tree_dofnum[t])] = 0.0
      states[w]["qvel"] = H.f32(qvel)
  H.set_data(D, states)
  H.set_data(P, [states[i] for i in perm])
  for w in range(n):
    H.set_data(S[w], [states[w]])
  if asleep is not None:
    D.tree_asleep.assign(asleep)
    P.tree_asleep.assign(asleep[perm])
    mjw_sleep.update_sleep(m, D)
    mjw_sleep.update_sleep(m, P)
    for w in range(n):
      S[w].tree_asleep.assign(asleep[w : w + 1])
      mjw_sleep.update_sleep(m, S[w])
  reassoc = bool(m.is_sparse) and cfg["option"]["solver"] == "Newton"
  ncon = set()
  any_efc = False
  for s in range(nstep):
    if mjm.nu:
      D.ctrl.assign(ctrls[s].astype(np.float32))
      P.ctrl.assign(ctrls[s][perm].astype(np.float32))
      for w in range(n):
        S[w].ctrl.assign(ctrls[s][w : w + 1].astype(np.float32))
    mjw.step(m, D)
    mjw.step(m, P)
    for w in range(n):
      mjw.step(m, S[w])
    of = H.overflow(D)
    if (of & _CAP).any():
      rec.inconclusive += 1
      rec.cls("discarded:overflow")
      return
    if not np.all(np.isfinite(D.qpos.numpy())) or not np.all(np.isfinite(D.qacc.numpy())):
      rec.inconclusive += 1
      rec.cls("discarded:nonfinite")
      return
    if float(np.max(np.abs(D.qvel.numpy()), initial=0.0)) > 1e4 or float(np.max(np.abs(D.qacc.numpy()), initial=0.0)) > 1e8:
      # numerically exploded simulation (thorough tier: qvel ~ 1e6 after one RK4 step): every round-off difference is amplified without bound, nothing to judge
      rec.inconclusive += 1
      rec.cls("discarded:exploded")
      return
    for w in range(n):
      rec.ev()
      solo = snapshot(m, S[w], 0)
      b = snapshot(m, D, w)
      compare(rec, b, solo, "batch-vs-solo", reassoc=reassoc, world=w, step=s)
      compare(rec, snapshot(m, P, perm.index(w)), solo, "perm-vs-solo", reassoc=reassoc, world=w, step=s, perm=perm)
      if s == nstep - 1:
        ncon.add(len(b["cdist"]))
        any_efc |= b["nefc"] > 0
    # resynchronise: every copy restarts the next step from the batch's state (round-off cannot be amplified by contact dynamics)
    st = H.get_state(m, D, mjm)
    H.set_state(m, P, mjm, st[perm])
    for w in range(n):
      H.set_state(m, S[w], mjm, st[w : w + 1])
  rec.cls(f"sleep:{sleeping}", f"ctrl_history:{bool(mjm.nhistory)}")
  rec.cls(f"integrator:{case['opt']['integrator']}", f"solver:{cfg['option']['solver']}", f"sparse:{bool(m.is_sparse)}", f"distinct_ncon:{len(ncon) > 1}")
  if len(ncon) > 1 and any_efc:
    rec.nt()
