"""C24 Constraint forces are physically admissible (invariant predicate on MJWarp's own outputs)."""

from __future__ import annotations

import numpy as np
import warp as wp

import mujoco_warp as mjw
from mujoco_warp._src.types import OverflowType as OT

from vf import solvercase
from vf.core import check_close

RULE = (
  "case = random constrained model incl. adhesion actuators (contacts of every condim, equalities, limits, frictionloss; Newton/CG, both cones, dense/sparse) x settled random "
  "state, 1-2 worlds; oracle on MJWarp's outputs after forward(), converged worlds only: limit and frictionless/pyramidal contact row forces >= -eps; elliptic contacts: normal "
  "force >= -eps and sqrt(sum (f_i/mu_i)^2) <= f_normal (1+eps); |friction-loss force| <= frictionloss (1+eps); state SATISFIED => force == 0; qfrc_constraint == J^T force; "
  "contact_force normal component >= -adhesion-eps; plus contact-only free-body scenes evaluated for 2-4 states on ONE Data (states with contacts alternating with states without any row, with and without the sleep flag): the same predicates, and qfrc_constraint zero (1e-4 of the smooth-force scale) when a world has no rows; evaluation = one world (and step); non-trivial = an active contact with non-zero tangential force or a saturated friction-loss row"
)
ASSUMPTIONS = ["eps = 1e-4 * max(1, max|force|) (float32)", "worlds with ITERATIONS/LS_ITERATIONS set are only checked for qfrc_constraint = J^T force"]
BUDGET = {"quick": dict(examples=400, seconds=420, workers=16), "thorough": dict(examples=10000, seconds=1500, workers=16)}


def _reuse_strategy():
  """Contact-only scenes (free bodies over a plane) evaluated for a sequence of states on ONE Data: states with contacts alternate with states in which the bodies
  are spread out in free space (nefc == 0), with and without the sleep flag (compacted solve)."""
  from hypothesis import strategies as st

  from vf import gen

  return st.fixed_dictionaries(
    dict(
      kind=st.just("reuse"),
      cfg=gen.cfg_strategy(nroot=st.integers(2, 5), maxdepth=0, joint_menu=["free"], plane=True, contacts="pile", dynamics=True, limits=0.0, frictionloss=0.0, tendons=0, equalities=0,
                           actuators=0, condim_menu=st.sampled_from([[3], [1, 3, 4, 6]]), geom_menu=st.sampled_from([["sphere", "capsule", "box"], ["sphere", "capsule"], ["sphere"]])),
      opt=gen.option_strategy(integrators=("Euler",)),
      sleep=st.booleans(),
      island=st.booleans(),
      nworld=st.integers(1, 2),
      seed=st.integers(0, 10**6),
      # per step and world: "touch" (random pile, settled a little) or "apart" (no constraint rows)
      seq=st.lists(st.lists(st.sampled_from(["touch", "touch", "apart"]), min_size=2, max_size=2), min_size=2, max_size=4),
    )
  )


def strategy(tier):
  from hypothesis import strategies as st

  return st.one_of(solvercase.strategy(tier), solvercase.strategy(tier, adhesion=True), _reuse_strategy())


def _check_reuse(case, rec):
  import mujoco

  from vf import gen, mjw as H
  from vf.core import Reject

  cfg = dict(case["cfg"])
  opt = dict(case["opt"])
  flags = {}
  if case["sleep"]:
    opt["solver"] = "Newton"
    flags["sleep"] = "enable"
    if not case["island"]:
      flags["island"] = "disable"
  if flags:
    opt["flags"] = flags
  cfg["option"] = opt
  mjm = H.compile_spec(gen.make_spec(cfg))
  if mjm.nv == 0 or mjm.nq != 7 * mjm.nbody - 7:
    raise Reject("not a free-body scene")
  n = case["nworld"]
  m = H.put_model(mjm)
  d = H.make_data(mjm, nworld=n, nconmax=150, njmax=600)
  cone = opt["cone"]
  prev_rows = [0] * n
  for k, kinds in enumerate(case["seq"]):
    states = []
    for w in range(n):
      s = H.rand_state(mjm, case["seed"] + 17 * k + 101 * w, sigma=0.1, vel=0.3, applied=False)
      q = np.array(s["qpos"], dtype=np.float64)
      if kinds[w] == "apart":
        for b in range(mjm.nbody - 1):
          q[7 * b : 7 * b + 3] = [3.0 * b, 3.0 * w, 5.0 + 2.0 * b]
      else:
        tmp = mujoco.MjData(mjm)
        H.set_mjd(tmp, s)
        try:
          for _ in range(5):
            mujoco.mj_step(mjm, tmp)
        except mujoco.FatalError:
          raise Reject("mujoco aborts on this model")
        if np.all(np.isfinite(tmp.qpos)) and np.all(np.isfinite(tmp.qvel)):
          q, s["qvel"] = np.array(tmp.qpos), H.f32(tmp.qvel)
      s["qpos"] = H.f32(q)
      states.append(s)
    H.set_data(d, states)
    mjw.forward(m, d)
    of = H.overflow_fwd(d)
    if (of & int(OT.NEFC | OT.NJMAX_NNZ | OT.BROADPHASE | OT.NARROWPHASE | OT.NVMAX)).any():
      rec.inconclusive += 1
      return
    qfrc = d.qfrc_constraint.numpy()
    for w in range(n):
      rec.ev()
      e, c = H.efc_dense(m, d, w), H.contacts(d, w)
      rec.cls(f"reuse:step{min(k, 3)}:{kinds[w]}", f"reuse:nefc0:{e['nefc'] == 0}", f"reuse:sleep:{case['sleep']}", f"reuse:sparse:{bool(m.is_sparse)}")
      ctx = dict(world=w, cone=cone, solver=opt["solver"], step=k, kinds=kinds, sleep=case["sleep"])
      if e["nefc"] == 0:
        # no rows: J^T f is the zero vector
        # (the pyramidal path forms qfrc_constraint as M qacc - qfrc_smooth: zero up to float32 round-off of the smooth force)
        tol0 = 1e-4 * max(1.0, float(np.max(np.abs(d.qfrc_smooth.numpy()[w]))))
        rec.err("qfrc_constraint with no rows / smooth-force scale", float(np.max(np.abs(qfrc[w]))) / (tol0 / 1e-4))
        if np.any(np.abs(qfrc[w]) > tol0):
          j = int(np.argmax(np.abs(qfrc[w])))
          rec.violation(f"no constraint rows in world {w} at step {k} but qfrc_constraint[{j}] = {float(qfrc[w][j])!r} (rows at the previous step: {prev_rows[w]})", sig="qfrc:nefc0-nonzero", **ctx)
        if prev_rows[w] > 0:
          rec.nt(extra=["reuse", k, w])
      else:
        _judge(rec, m, d, w, e, c, qfrc, cone, int(of[w]), ctx, None)
      prev_rows[w] = e["nefc"]


def check(case, rec):
  if case.get("kind") == "reuse":
    return _check_reuse(case, rec)
  mjm, m, d, worlds = solvercase.evaluate(case, rec)
  qfrc = d.qfrc_constraint.numpy()
  cone = case["opt"]["cone"]
  for W in worlds:
    rec.ev()
    w, e, c = W.w, W.ew, W.cw
    ctx = dict(world=w, cone=cone, solver=case["opt"]["solver"])
    if e["nefc"] == 0:
      tol0 = 1e-4 * max(1.0, float(np.max(np.abs(d.qfrc_smooth.numpy()[w]))))
      if np.any(np.abs(qfrc[w]) > tol0):
        rec.violation(f"no constraint rows in world {w} but qfrc_constraint = {qfrc[w][np.nonzero(np.abs(qfrc[w]) > tol0)[0][:4]].tolist()}", sig="qfrc:nefc0-nonzero", **ctx)
      continue
    interesting = _judge(rec, m, d, w, e, c, qfrc, cone, W.overflow, ctx, W)
    rec.cls(f"cone:{cone}", f"solver:{case['opt']['solver']}", f"interesting:{interesting}")
    if interesting:
      rec.nt(extra=w)


def _judge(rec, m, d, w, e, c, qfrc, cone, overflow, ctx, W):
  """Admissibility predicates of one world (rows e, contacts c); returns the non-triviality flag."""
  nefc = e["nefc"]
  if True:
    f = e["force"].astype(np.float64)
    if not np.all(np.isfinite(f)):
      rec.inconclusive += 1
      return False
    t, st_, fl = e["type"], e["state"], e["frictionloss"].astype(np.float64)
    eps = 1e-4 * max(1.0, float(np.max(np.abs(f))))
    J = e["J"].astype(np.float64)
    check_close(rec, "qfrc_constraint=J^T f", qfrc[w], J.T @ f, 5e-4, scale=max(1.0, float(np.max(np.abs(J).T @ np.abs(f))), float(np.max(np.abs(d.qfrc_smooth.numpy()[w])))), sig="qfrc", **ctx)
    if overflow & int(OT.ITERATIONS | OT.LS_ITERATIONS):
      return False
    interesting = False
    for i in range(nefc):
      ti = int(t[i])
      if ti in (3, 4, 5, 6) and f[i] < -eps:
        rec.violation(f"row {i} type {ti} has negative force {f[i]}", sig=f"negative:type{ti}", **ctx)
      if ti in (1, 2):
        if abs(f[i]) > fl[i] * (1 + 1e-4) + 1e-6:
          rec.violation(f"friction-loss row {i} force {f[i]} exceeds frictionloss {fl[i]}", sig="frictionloss-exceeded", **ctx)
        interesting |= abs(abs(f[i]) - fl[i]) < 1e-6 * max(1.0, fl[i])
      if ti != 0 and ti not in (1, 2) and int(st_[i]) == 0 and f[i] != 0.0:
        rec.violation(f"row {i} type {ti} is SATISFIED but carries force {f[i]}", sig="satisfied-nonzero", **ctx)
    # elliptic cones per contact
    adr = c["efc_address"]
    ncon = len(c["dist"])
    for k in range(ncon):
      dim = int(c["dim"][k])
      a0 = int(np.atleast_1d(adr[k])[0])
      if a0 < 0 or dim < 3:
        continue
      mu = c["friction"][k].astype(np.float64)
      if cone == "elliptic":
        fn = f[a0]
        if fn < -eps:
          rec.violation(f"elliptic contact {k} normal force {fn} < 0", sig="negative:elliptic-normal", **ctx)
        tang = np.sqrt(sum((f[a0 + j] / mu[j - 1]) ** 2 for j in range(1, dim)))
        if tang > fn * (1 + 1e-3) + eps:
          rec.violation(f"elliptic contact {k}: scaled tangential force {tang} outside the cone (normal {fn}, mu {mu.tolist()})", sig="outside-cone", **ctx)
        interesting |= tang > 1e-3 * max(1.0, fn)
      else:
        rows = [int(x) for x in np.atleast_1d(adr[k]) if x >= 0]
        interesting |= len(rows) >= 2 and abs(f[rows[0]] - f[rows[1]]) > 1e-3 * max(1.0, abs(f[rows[0]]))
    # contact_force normal >= -adhesion
    if ncon:
      ids = wp.array(W.gids.astype(np.int32) if (W is not None and hasattr(W, "gids")) else np.nonzero(d.contact.worldid.numpy()[: int(d.nacon.numpy()[0])] == w)[0].astype(np.int32), dtype=int)
      out = wp.zeros(ids.size, dtype=wp.spatial_vector)
      mjw.contact_force(m, d, ids, False, out)
      o = out.numpy()
      adh = d.contact.adhesion.numpy()[ids.numpy()]
      for k in range(len(o)):
        if o[k][0] < -adh[k] - eps:
          rec.violation(f"contact_force normal {o[k][0]} < -adhesion {-adh[k]}", sig="contact_force-negative", **ctx)
    return interesting
