"""C24 Constraint forces are physically admissible (invariant predicate on MJWarp's own outputs)."""

from __future__ import annotations

import numpy as np
import warp as wp

import mujoco_warp as mjw
from mujoco_warp._src.types import OverflowType as OT

from vf import solvercase
from vf.core import check_close

RULE = (
  "case = random constrained model incl. adhesion actuators (contacts of every condim, equalities, limits, frictionloss; Newton/CG, both cones, dense/sparse) x settled random "
  "state, 1-2 worlds; oracle on MJWarp's outputs after forward(), converged worlds only: limit and frictionless/pyramidal contact row forces >= -eps; elliptic contacts: normal "
  "force >= -eps and sqrt(sum (f_i/mu_i)^2) <= f_normal (1+eps); |friction-loss force| <= frictionloss (1+eps); state SATISFIED => force == 0; qfrc_constraint == J^T force; "
  "contact_force normal component >= -adhesion-eps; evaluation = one world; non-trivial = an active contact with non-zero tangential force or a saturated friction-loss row"
)
ASSUMPTIONS = ["eps = 1e-4 * max(1, max|force|) (float32)", "worlds with ITERATIONS/LS_ITERATIONS set are only checked for qfrc_constraint = J^T force"]
BUDGET = {"quick": dict(examples=400, seconds=150, workers=16), "thorough": dict(examples=10000, seconds=1500, workers=16)}


def strategy(tier):
  from hypothesis import strategies as st

  return st.one_of(solvercase.strategy(tier), solvercase.strategy(tier, adhesion=True))


def check(case, rec):
  mjm, m, d, worlds = solvercase.evaluate(case, rec)
  qfrc = d.qfrc_constraint.numpy()
  cone = case["opt"]["cone"]
  for W in worlds:
    rec.ev()
    w, e, c = W.w, W.ew, W.cw
    nefc = e["nefc"]
    if nefc == 0:
      continue
    f = e["force"].astype(np.float64)
    if not np.all(np.isfinite(f)):
      rec.inconclusive += 1
      continue
    t, st_, fl = e["type"], e["state"], e["frictionloss"].astype(np.float64)
    eps = 1e-4 * max(1.0, float(np.max(np.abs(f))))
    ctx = dict(world=w, cone=cone, solver=case["opt"]["solver"])
    J = e["J"].astype(np.float64)
    check_close(rec, "qfrc_constraint=J^T f", qfrc[w], J.T @ f, 1e-4, scale=max(1.0, float(np.max(np.abs(J).T @ np.abs(f))), float(np.max(np.abs(d.qfrc_smooth.numpy()[w])))), sig="qfrc", **ctx)
    if W.overflow & int(OT.ITERATIONS | OT.LS_ITERATIONS):
      continue
    interesting = False
    for i in range(nefc):
      ti = int(t[i])
      if ti in (3, 4, 5, 6) and f[i] < -eps:
        rec.violation(f"row {i} type {ti} has negative force {f[i]}", sig=f"negative:type{ti}", **ctx)
      if ti in (1, 2):
        if abs(f[i]) > fl[i] * (1 + 1e-4) + 1e-6:
          rec.violation(f"friction-loss row {i} force {f[i]} exceeds frictionloss {fl[i]}", sig="frictionloss-exceeded", **ctx)
        interesting |= abs(abs(f[i]) - fl[i]) < 1e-6 * max(1.0, fl[i])
      if ti != 0 and ti not in (1, 2) and int(st_[i]) == 0 and f[i] != 0.0:
        rec.violation(f"row {i} type {ti} is SATISFIED but carries force {f[i]}", sig="satisfied-nonzero", **ctx)
    # elliptic cones per contact
    adr = c["efc_address"]
    ncon = len(c["dist"])
    for k in range(ncon):
      dim = int(c["dim"][k])
      a0 = int(np.atleast_1d(adr[k])[0])
      if a0 < 0 or dim < 3:
        continue
      mu = c["friction"][k].astype(np.float64)
      if cone == "elliptic":
        fn = f[a0]
        if fn < -eps:
          rec.violation(f"elliptic contact {k} normal force {fn} < 0", sig="negative:elliptic-normal", **ctx)
        tang = np.sqrt(sum((f[a0 + j] / mu[j - 1]) ** 2 for j in range(1, dim)))
        if tang > fn * (1 + 1e-3) + eps:
          rec.violation(f"elliptic contact {k}: scaled tangential force {tang} outside the cone (normal {fn}, mu {mu.tolist()})", sig="outside-cone", **ctx)
        interesting |= tang > 1e-3 * max(1.0, fn)
      else:
        rows = [int(x) for x in np.atleast_1d(adr[k]) if x >= 0]
        interesting |= len(rows) >= 2 and abs(f[rows[0]] - f[rows[1]]) > 1e-3 * max(1.0, abs(f[rows[0]]))
    # contact_force normal >= -adhesion
    if ncon:
      ids = wp.array(W.gids.astype(np.int32) if hasattr(W, "gids") else np.nonzero(d.contact.worldid.numpy()[: int(d.nacon.numpy()[0])] == w)[0].astype(np.int32), dtype=int)
      out = wp.zeros(ids.size, dtype=wp.spatial_vector)
      mjw.contact_force(m, d, ids, False, out)
      o = out.numpy()
      adh = d.contact.adhesion.numpy()[ids.numpy()]
      for k in range(len(o)):
        if o[k][0] < -adh[k] - eps:
          rec.violation(f"contact_force normal {o[k][0]} < -adhesion {-adh[k]}", sig="contact_force-negative", **ctx)
    rec.cls(f"cone:{cone}", f"solver:{case['opt']['solver']}", f"interesting:{interesting}")
    if interesting:
      rec.nt(extra=w)
