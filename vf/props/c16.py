"""C16 Capacity overflow is never silent.

Oracle: a *measuring run* with ample capacities gives, per world, the needed number of contacts
(global buffer), broadphase pairs, constraint rows and Jacobian non-zeros.  For every swept
capacity: (A) capacity < need  =>  the resource's overflow bit is set in every world whose
need exceeds the capacity; (B) world without any overflow bit  =>  its step result equals
the ample run (one-step tolerance).  A set bit with a correct result is allowed.
"""

from __future__ import annotations

import numpy as np
from hypothesis import strategies as st

import mujoco
import mujoco_warp as mjw
from mujoco_warp._src.types import OverflowType as OT

from vf import gen, mjw as H
from vf.core import Reject, check_close, check_equal

RULE = (
  "case = random constrained model (contacts on a plane, connect/weld/joint equalities, limits, frictionloss; dense or sparse; "
  "optionally sleeping enabled (two-pass collision, compacted solve); optionally a solver iteration limit of 1-3 (ITERATIONS bit set alongside); nworld 1-2 with different states) + sweep of one capacity (naconmax / njmax / njmax_nnz / nvmax) over {0, need-2..need+1, random}; "
  "evaluation = one (resource, capacity) step compared with the ample-capacity run; non-trivial = capacity in {need-1, need} for a "
  "resource whose need > 0; distinct by sha1(case, resource, capacity)"
)
ASSUMPTIONS = [
  "ample-capacity run (no overflow bit) is the reference",
  "naconmax is a global buffer: the contact bits are required in every world that has contacts in the reference run",
  "CPU device, canonical thread order",
]
BUDGET = {
  "quick": dict(examples=128, seconds=420, workers=16),
  "thorough": dict(examples=1600, seconds=1500, workers=16),
}


def _strategy(tier, **cfg_over):
  return st.fixed_dictionaries(
    dict(
      cfg=gen.cfg_strategy(**{**dict(
        nroot=st.integers(1, 4),
        maxdepth=st.integers(0, 2),
        plane=st.booleans(),
        contacts=st.sampled_from(["pile", "none"]),
        equalities=st.integers(0, 3),
        eq_menu=st.sampled_from([["connect"], ["weld"], ["connect", "weld"], ["connect", "weld", "joint"]]),
        p_eq_inactive=0.1,
        eq_sites=st.booleans(),
        limits=st.sampled_from([0.0, 0.5]),
        frictionloss=st.sampled_from([0.0, 0.4]),
        condim_menu=st.sampled_from([[3], [1, 3], [3, 4, 6], [1, 3, 4, 6]]),
        geom_menu=st.sampled_from([["sphere"], ["sphere", "capsule", "box"], ["box"]]),
      ), **cfg_over}),
      jacobian=st.sampled_from(["dense", "sparse"]),
      cone=st.sampled_from(["pyramidal", "elliptic"]),
      solver=st.sampled_from(["Newton", "CG"]),
      nworld=st.integers(1, 2),
      state_seed=st.integers(0, 10**6),
      resource=st.sampled_from(["njmax", "njmax", "nacon", "nnz", "nvmax"]),
      sleep=st.sampled_from([False, False, True]),
      extra_caps=st.lists(st.integers(0, 40), min_size=0, max_size=2),
      # solver iteration limit: with 1-3 iterations the solve usually stops unconverged, so the ITERATIONS report and a capacity bit have to coexist in one overflow word
      iterations=st.sampled_from([None, None, 1, 2, 3]),
    )
  )



def strategy(tier):
  base = _strategy(tier)
  # 1 case in 5: the constraint list ends with an equality block (no friction, limit or contact rows after it), so that at the exact-fit capacity the
  # LAST row block is a connect (3 rows), weld (6 rows) or joint (1 row) block: every row builder's own capacity guard meets njmax == nefc
  eq_last = _strategy(tier, plane=False, contacts="none", limits=0.0, frictionloss=0.0, equalities=st.integers(1, 3),
                      eq_menu=st.sampled_from([["weld"], ["weld"], ["connect"], ["joint"], ["connect", "weld"]]), p_eq_inactive=0.0)
  return st.one_of(base, base, base, base, eq_last)


def _build(case):
  cfg = dict(case["cfg"])
  cfg["option"] = dict(jacobian=case["jacobian"], cone=case["cone"], solver=case["solver"])
  if case.get("iterations"):
    cfg["option"]["iterations"] = int(case["iterations"])
  if case.get("sleep") or case["resource"] == "nvmax":
    # sleeping (compacted active-dof solve, two-pass collision) requires the Newton solver
    cfg["option"].update(solver="Newton", flags=dict(sleep="enable"))
  spec = gen.make_spec(cfg)
  mjm = H.compile_spec(spec)
  return mjm


def _run(mjm, m, states, nworld, **caps):
  d = H.make_data(mjm, nworld=nworld, **caps)
  H.set_data(d, states)
  mjw.step(m, d)
  return d


def _snapshot(m, d, nworld):
  out = []
  for w in range(nworld):
    c = H.contacts(d, w)
    order = H.contact_sort_key(c)
    out.append(
      dict(
        qpos=d.qpos.numpy()[w].copy(),
        qvel=d.qvel.numpy()[w].copy(),
        qacc=d.qacc.numpy()[w].copy(),
        nefc=int(d.nefc.numpy()[w]),
        ne=int(d.ne.numpy()[w]),
        nf=int(d.nf.numpy()[w]),
        nl=int(d.nl.numpy()[w]),
        ncon=len(order),
        cgeom=c["geom"][order],
        cdist=c["dist"][order],
      )
    )
  return out


def check(case, rec):
  mjm = _build(case)
  if mjm.nv == 0:
    raise Reject("nv=0")
  nworld = case["nworld"]
  m = H.put_model(mjm)
  states = [H.rand_state(mjm, case["state_seed"] + 7919 * w, sigma=0.15, vel=0.5) for w in range(nworld)]
  sparse = bool(m.is_sparse)

  # measuring run
  AMPLE_CON, AMPLE_J = 200, 400
  d0 = _run(mjm, m, states, nworld, nconmax=AMPLE_CON, njmax=AMPLE_J)
  of0 = H.overflow(d0)
  if (of0 & int(OT.NEFC | OT.NJMAX_NNZ | OT.BROADPHASE | OT.NARROWPHASE | OT.NVMAX)).any():
    rec.inconclusive += 1
    rec.cls("ample_overflow")
    return
  ref = _snapshot(m, d0, nworld)
  if not all(np.all(np.isfinite(r["qvel"])) and np.all(np.isfinite(r["qacc"])) for r in ref):
    rec.inconclusive += 1
    rec.cls("ample_nonfinite")
    return
  need_nacon = int(d0.nacon.numpy()[0])
  need_ncoll = int(d0.ncollision.numpy()[0])
  need_nefc = [r["nefc"] for r in ref]
  need_nnz = [0] * nworld
  if sparse:
    rn = d0.efc.J_rownnz.numpy()
    for w in range(nworld):
      need_nnz[w] = int(rn[w, : need_nefc[w]].sum())
  ncon_w = [r["ncon"] for r in ref]

  resource = case["resource"]
  if resource == "nnz" and not sparse:
    resource = "njmax"
  sleeping = bool(case.get("sleep")) or resource == "nvmax"
  need_nv = [0] * nworld
  if sleeping:
    awake = d0.tree_awake.numpy()
    for w in range(nworld):
      need_nv[w] = int(sum(1 for i in range(mjm.nv) if awake[w, mjm.dof_treeid[i]]))
  if resource == "njmax":
    need = max(need_nefc)
  elif resource == "nacon":
    need = max(need_nacon, need_ncoll)
  elif resource == "nvmax":
    need = max(need_nv)
  else:
    need = max(need_nnz)
  rec.cls(f"iterlimit:{case.get('iterations')}", f"sleep:{sleeping}", f"resource:{resource}", "sparse" if sparse else "dense", f"need0:{need == 0}", f"nworld:{nworld}")
  if need == 0:
    caps = [0, 1]
  else:
    base = {0, need - 1, need, need + 1, max(need - 2, 0)}
    if resource == "nacon":
      base |= {need_nacon, max(need_nacon - 1, 0), need_ncoll, max(need_ncoll - 1, 0)}
    if resource == "njmax" and nworld > 1:
      base |= {min(need_nefc), max(min(need_nefc) - 1, 0)}
    if resource == "nnz" and nworld > 1:
      base |= {min(need_nnz), max(min(need_nnz) - 1, 0)}
    base |= {c % (need + 1) for c in case["extra_caps"]}
    if resource == "nvmax":
      base = {c for c in base if c <= mjm.nv}  # make_data rejects nvmax > nv
    caps = sorted(base)

  for cap in caps:
    kw = dict(nconmax=AMPLE_CON, njmax=AMPLE_J)
    if resource == "njmax":
      kw["njmax"] = cap
    elif resource == "nacon":
      kw.pop("nconmax")
      kw["naconmax"] = cap
    elif resource == "nvmax":
      kw["nvmax"] = cap
    else:
      kw["njmax_nnz"] = cap
    d = _run(mjm, m, states, nworld, **kw)
    rec.ev()
    of = H.overflow(d)
    snap = _snapshot(m, d, nworld)
    ctx = dict(resource=resource, cap=cap, need_nv=need_nv, need_nefc=need_nefc, need_nacon=need_nacon, need_ncoll=need_ncoll, need_nnz=need_nnz, overflow=of.tolist())
    boundary = False
    for w in range(nworld):
      # (A) required bits
      if resource == "njmax" and need_nefc[w] > cap:
        boundary |= need_nefc[w] - cap <= 6
        if not of[w] & int(OT.NEFC):
          rec.violation(f"njmax={cap} < nefc need {need_nefc[w]} in world {w} but NEFC bit not set {ctx}", sig="silent:njmax", world=w, **ctx)
      if resource == "nnz" and need_nnz[w] > cap:
        boundary |= need_nnz[w] - cap <= 12
        if not of[w] & int(OT.NJMAX_NNZ | OT.NEFC):
          rec.violation(f"njmax_nnz={cap} < nnz need {need_nnz[w]} in world {w} but NJMAX_NNZ bit not set {ctx}", sig="silent:njmax_nnz", world=w, **ctx)
      if resource == "nvmax" and need_nv[w] > cap:
        boundary |= need_nv[w] - cap <= 6
        if not of[w] & int(OT.NVMAX):
          rec.violation(f"nvmax={cap} < awake dofs {need_nv[w]} in world {w} but NVMAX bit not set {ctx}", sig="silent:nvmax", world=w, **ctx)
      if resource == "nacon" and ncon_w[w] > 0:
        z = "0" if cap == 0 else ""
        if need_ncoll > cap and not of[w] & int(OT.BROADPHASE):
          rec.violation(f"naconmax={cap} < broadphase pairs {need_ncoll} but BROADPHASE bit not set in world {w} {ctx}", sig=f"silent:naconmax{z}", world=w, **ctx)
          continue
        if need_nacon > cap and not of[w] & int(OT.BROADPHASE | OT.NARROWPHASE):
          rec.violation(f"naconmax={cap} < contacts {need_nacon} but no contact overflow bit in world {w} {ctx}", sig=f"silent:naconmax{z}", world=w, **ctx)
          continue
        boundary |= abs(need_nacon - cap) <= 1 or abs(need_ncoll - cap) <= 1
      # (B) no bit => same result
      if of[w] == 0:
        r, s = ref[w], snap[w]
        sg = f"silentdiff:{resource}"
        check_equal(rec, "nefc", s["nefc"], r["nefc"], sig=sg, world=w, **ctx)
        check_equal(rec, "ncon", s["ncon"], r["ncon"], sig=sg, world=w, **ctx)
        check_equal(rec, "contact.geom", s["cgeom"], r["cgeom"], sig=sg, world=w, **ctx)
        check_close(rec, "qacc", s["qacc"], r["qacc"], 1e-4, sig=sg, world=w, **ctx)
        check_close(rec, "qvel", s["qvel"], r["qvel"], 1e-5, sig=sg, world=w, **ctx)
        check_close(rec, "qpos", s["qpos"], r["qpos"], 1e-5, sig=sg, world=w, **ctx)
    if need > 0 and (cap in (need - 1, need) or boundary):
      rec.nt(extra=[resource, cap])
    if any(of):
      rec.cls("overflowed_run")
    else:
      rec.cls("clean_run")
