"""C20 Contacts are geometrically valid (per-contact geometric oracle: frame, direction, separation along the normal, witness points)."""

from __future__ import annotations

import itertools

import numpy as np
from hypothesis import strategies as st

import mujoco
import mujoco_warp as mjw

from vf import gen, geomref, mjw as H
from vf.core import Reject
from vf.props import c04

RULE = (
  "case = C04 contact scene (2-5 geoms sphere/capsule/ellipsoid/cylinder/box/mesh + optional plane, chain placement deep/shallow/touching/near/far, "
  "aligned or random orientation, margins/gaps, explicit pairs, MULTICCD on/off; NATIVECCD on). Every contact reported by mjw.kinematics+mjw.collision is "
  "one evaluation of a purely geometric oracle (float64, MuJoCo's geom poses of the same float32 qpos): (F) frame rows orthonormal, det +1, |normal|=1 "
  "(1e-5); (W) the witness points pos -/+ normal*dist/2 lie on the surface of geom1 / geom2 (exact signed-distance functions for plane, sphere, capsule, "
  "box, cylinder, convex-mesh hull; first-order for ellipsoid) which is 'dist = separation at the contact along the normal' and 'pos midway between the "
  "two surfaces'; (S) the support separation of the two geoms along the normal, min_B(n.x) - max_A(n.x), equals dist for single-contact pairs and the "
  "deepest dist for multi-contact pairs (this also fixes the direction geom1 -> geom2); (A) closed-form pairs (sphere-sphere, plane-sphere, "
  "sphere-capsule, plane-capsule, capsule-capsule non-parallel, plane-box, sphere-box centre outside, sphere-cylinder centre outside): dist, normal and "
  "pos equal the analytic signed distance / direction / midpoint of the two closest surface points (2e-5); (T) metamorphic direction test: translating "
  "geom2's body by +eps along the normal (or geom1's by -eps; eps 1e-3 primitive, 1e-2 convex) and colliding again changes the matched contact's dist by +eps (2e-5 / 4e-3). Tolerances: primitive "
  "pairs 2e-5 (W; capsule-box 2e-4) / 2e-4 (S), convex (GJK/EPA) pairs 4e-3 (S) / 1e-2 (W); deep convex penetrations (beyond 25% of the smaller bounding radius) are judged on (F) "
  "only, as in C04. A failure of (W),(S),(T) on a pair without closed form is reported only if MuJoCo's own contact for that pair does not "
  "show the same value (shared heuristics are counted in notes). non-trivial = the case has >= 1 contact; distinct by sha1(case)"
)
ASSUMPTIONS = [
  "geom poses are taken from MuJoCo (float64) for the same float32 qpos; MJWarp's kinematics error (1e-7) is far below the tolerances",
  "multi-contact pairs: 'distance along the normal' is read per contact (separation at the contact's witness points); only the deepest contact must reach the support separation",
  "plane-capsule: the witness point on the capsule side is required on the surface of one of the two end spheres (the contact model both engines use), not on the capsule hull",
  "box-box with NATIVECCD disabled is not generated (recorded finding C04 boxbox-prim:extra-deep)",
  "sphere/capsule pairs whose centres / centre lines are closer than 5 mm (normal = v/|v| ill-conditioned or an arbitrary fallback): only (F) is judged there (boundary-skipped)",
]
BUDGET = {
  "quick": dict(examples=1200, seconds=420, workers=16),
  "thorough": dict(examples=20000, seconds=1500, workers=16),
}

EPS_PRIM = 1e-3
EPS_CONVEX = 1e-2  # GJK/EPA distances carry errors up to ~2e-3 (seen: sphere-ellipsoid with margin), so the step must be well above that
_SCRATCH = {}
_TNAME = c04._TNAME


def strategy(tier):
  return st.fixed_dictionaries(
    dict(
      scene=gen.scene_strategy(types=st.sampled_from(c04._MENUS + [["capsule"], ["capsule"], ["capsule", "sphere"]]), aligned=st.sampled_from([0.0, 0.3, 1.0, 1.0]), nmax=6 if tier == "thorough" else 5),
      multiccd=st.booleans(),
      translate=st.booleans(),
      tilt=st.sampled_from([0.0, 0.0, 0.15, 0.6]),
      tilt_seed=st.integers(0, 10**6),
    )
  )


def build(case):
  """C04 scene; optionally the world plane is tilted about a random horizontal axis through the origin (C04's plane is always z-up)."""
  sc = dict(case["scene"])
  flags = {} if case["multiccd"] else {"multiccd": "disable"}
  sc["option"] = dict(cone="pyramidal", flags=flags) if flags else dict(cone="pyramidal")
  spec = gen.make_scene(sc)
  if case.get("tilt"):
    g = np.random.default_rng(case["tilt_seed"])
    phi = g.uniform(0, 2 * np.pi)
    ang = case["tilt"] * g.uniform(0.3, 1.0)
    for pg in spec["world_geoms"]:
      if pg["type"] == "plane":
        pg["quat"] = gen.r6([np.cos(ang / 2), np.sin(ang / 2) * np.cos(phi), np.sin(ang / 2) * np.sin(phi), 0.0])
  return H.compile_spec(spec)


# --------------------------------------------------------------------------------------
# exact point-to-surface signed distances (negative inside)


def _hull_planes(verts):
  v = np.asarray(verts, dtype=np.float64)
  c = v.mean(axis=0)
  planes = []
  for i, j, k in itertools.combinations(range(len(v)), 3):
    nrm = np.cross(v[j] - v[i], v[k] - v[i])
    ln = np.linalg.norm(nrm)
    if ln < 1e-12:
      continue
    nrm = nrm / ln
    if nrm @ (c - v[i]) > 0:
      nrm = -nrm
    off = float(nrm @ v[i])
    if np.all(v @ nrm - off <= 1e-9):
      planes.append((nrm, off))
  return planes


def surf_dist(G, p):
  """Signed distance of world point p to the surface of geom G (dict from geomref.geom_from_model)."""
  t, s = G["type"], G["size"]
  if t == "plane":
    return float(G["mat"][:, 2] @ (p - G["pos"]))
  q = G["mat"].T @ (p - G["pos"])
  if t == "sphere":
    return float(np.linalg.norm(q) - s[0])
  if t == "capsule":
    c = np.array([0.0, 0.0, np.clip(q[2], -s[1], s[1])])
    return float(np.linalg.norm(q - c) - s[0])
  if t == "box":
    dq = np.abs(q) - np.asarray(s[:3])
    return float(np.linalg.norm(np.maximum(dq, 0.0)) + min(float(np.max(dq)), 0.0))
  if t == "cylinder":
    dq = np.array([np.hypot(q[0], q[1]) - s[0], abs(q[2]) - s[1]])
    return float(np.linalg.norm(np.maximum(dq, 0.0)) + min(float(np.max(dq)), 0.0))
  if t == "ellipsoid":
    k0 = np.linalg.norm(q / s[:3])
    k1 = np.linalg.norm(q / (np.asarray(s[:3]) ** 2))
    return float(k0 * (k0 - 1.0) / k1) if k1 > 0 else -float(np.min(s[:3]))
  if t == "mesh":
    if "planes" not in G:
      G["planes"] = _hull_planes(G["verts"])
    return float(max(nrm @ q - off for nrm, off in G["planes"]))
  raise ValueError(t)


def support_sep(A, B, n):
  """min_B(n.x) - max_A(n.x)"""
  if A["type"] == "plane":
    hA = float(n @ A["pos"]) if np.linalg.norm(n - A["mat"][:, 2]) < 1e-3 else np.inf
  else:
    hA = float(geomref.support(A["type"], A["size"], A["pos"], A["mat"], n, A.get("verts"))[0])
  hB = float(geomref.support(B["type"], B["size"], B["pos"], B["mat"], -n, B.get("verts"))[0])
  return -hB - hA


# --------------------------------------------------------------------------------------
# closed forms: return list of (dist, normal, pos) candidates (one per possible contact) or None when not applicable / degenerate


def _seg(G):
  ax = G["mat"][:, 2]
  return G["pos"] - ax * G["size"][1], G["pos"] + ax * G["size"][1]


def _closest_pt_seg(p, a, b):
  ab = b - a
  t = np.clip((p - a) @ ab / (ab @ ab), 0.0, 1.0)
  return a + t * ab


def _seg_seg(p1, q1, p2, q2):
  """Closest points of two segments (Ericson 5.1.9).  Returns (c1, c2, parallel)."""
  d1, d2, r = q1 - p1, q2 - p2, p1 - p2
  a, e, f = d1 @ d1, d2 @ d2, d2 @ r
  c = d1 @ r
  b = d1 @ d2
  den = a * e - b * b
  parallel = den < 1e-6 * a * e
  s = np.clip((b * f - c * e) / den, 0.0, 1.0) if not parallel else 0.0
  t = (b * s + f) / e
  if t < 0:
    t, s = 0.0, np.clip(-c / a, 0.0, 1.0)
  elif t > 1:
    t, s = 1.0, np.clip((b - c) / a, 0.0, 1.0)
  return p1 + d1 * s, p2 + d2 * t, parallel


def closed_form(A, B):
  ta, tb = A["type"], B["type"]

  def two_points(ca, ra, cb, rb, slack=0.0):
    # slack: position uncertainty of ca/cb that MJWarp's regularised segment parameters (t = num / (den + 1e-6)) introduce by design
    v = cb - ca
    ln = np.linalg.norm(v)
    if ln < 1e-6:
      return None
    n = v / ln
    return [(ln - ra - rb, n, 0.5 * ((ca + n * ra) + (cb - n * rb)), ln, slack)]

  if ta == "plane":
    n = A["mat"][:, 2]

    def pl(c, rad):
      dist = float(n @ (c - A["pos"])) - rad
      return (dist, n, c - n * (rad + 0.5 * dist), np.inf, 0.0)

    if tb == "sphere":
      return [pl(B["pos"], B["size"][0])]
    if tb == "capsule":
      a, b = _seg(B)
      return [pl(a, B["size"][0]), pl(b, B["size"][0])]
    if tb == "box":
      out = []
      for sx, sy, sz in itertools.product((-1, 1), repeat=3):
        out.append(pl(B["pos"] + B["mat"] @ (np.array([sx, sy, sz]) * B["size"][:3]), 0.0))
      return out
    return None
  if ta == "sphere" and tb == "sphere":
    return two_points(A["pos"], A["size"][0], B["pos"], B["size"][0])
  if ta == "sphere" and tb == "capsule":
    a, b = _seg(B)
    return two_points(A["pos"], A["size"][0], _closest_pt_seg(A["pos"], a, b), B["size"][0], slack=1e-5 / (2 * B["size"][1]))
  if ta == "capsule" and tb == "capsule":
    c1, c2, parallel = _seg_seg(*_seg(A), *_seg(B))
    cr = float(np.linalg.norm(np.cross(A["mat"][:, 2], B["mat"][:, 2])))
    if parallel or cr < 0.2:
      return None  # near-parallel: the regularised solve (denominator + 1e-6) moves the closest points noticeably; judged by (W),(S) only
    return two_points(c1, A["size"][0], c2, B["size"][0], slack=1e-5 * 2 * max(A["size"][1], B["size"][1]) / cr**2 + 1e-5 / (2 * min(A["size"][1], B["size"][1])))
  if ta == "sphere" and tb in ("box", "cylinder"):
    q = B["mat"].T @ (A["pos"] - B["pos"])
    if tb == "box":
      cq = np.clip(q, -B["size"][:3], B["size"][:3])
    else:
      rr = np.hypot(q[0], q[1])
      sc = min(1.0, B["size"][0] / rr) if rr > 0 else 1.0
      cq = np.array([q[0] * sc, q[1] * sc, np.clip(q[2], -B["size"][1], B["size"][1])])
    if np.linalg.norm(q - cq) < 1e-4:
      return None  # centre inside (or on) the box/cylinder: nearest-face heuristic, no unique closed form
    cw = B["pos"] + B["mat"] @ cq
    return two_points(A["pos"], A["size"][0], cw, 0.0)
  return None


# --------------------------------------------------------------------------------------


def _frame_checks(rec, F, info):
  """Returns False only when the normal itself is unusable (not unit); tangent defects are reported and the geometric checks go on."""
  F = np.asarray(F, dtype=np.float64)
  tt = f"{info['types'][0]}-{info['types'][1]}"
  en = abs(float(np.linalg.norm(F[0])) - 1.0)
  rec.err("normal |n|-1", en)
  if not en <= 1e-5:
    rec.violation(f"contact normal is not a unit vector (|n| - 1 = {en:.3g}) {info}", sig=f"frame:unit-normal:{tt}", err=en, **info)
    return False
  e = float(np.max(np.abs(F @ F.T - np.eye(3))))
  if not e <= 1e-5:
    rec.violation(f"contact frame is not orthonormal (max |F F^T - I| = {e:.3g}) {info}", sig=f"frame:orthonormal:{tt}", err=e, **info)
    return True
  rec.err("frame orthonormality", e)
  det = float(np.linalg.det(F))
  rec.err("frame det-1", abs(det - 1.0))
  if not abs(det - 1.0) <= 1e-5:
    rec.violation(f"contact frame is not right-handed (det = {det:.6f}) {info}", sig=f"frame:det:{tt}", det=det, **info)
  return True


def _mj_same(cm_pair, pos, dist, n):
  """MuJoCo reports a contact of this pair with the same pos/dist/normal (shared algorithm/heuristic)."""
  for pm, dm, nm in cm_pair:
    if np.linalg.norm(pm - pos) < 1e-3 and abs(dm - dist) < 1e-3 and np.linalg.norm(nm - n) < 1e-3:
      return True
  return False


def check(case, rec):
  case = dict(case, cone="pyramidal", nativeccd=True, nworld=1)
  mjm = build(case)
  m = H.put_model(mjm)
  d = H.make_data(mjm, nworld=1, nconmax=100, njmax=400)
  q0 = H.f32(np.array(mjm.qpos0))
  H.set_data(d, [dict(qpos=q0, qvel=np.zeros(mjm.nv))])
  mjw.kinematics(m, d)
  mjw.collision(m, d)
  if int(d.nacon.numpy()[0]) > d.naconmax or int(np.bitwise_or.reduce(d.overflow.numpy())) != 0:
    rec.inconclusive += 1
    return
  cw = H.contacts(d, 0)
  mjd = mujoco.MjData(mjm)
  H.set_mjd(mjd, dict(qpos=q0, qvel=np.zeros(mjm.nv)))
  mujoco.mj_kinematics(mjm, mjd)
  mujoco.mj_collision(mjm, mjd)
  cm = H.mj_contacts(mjd)
  xpos, xmat = np.array(mjd.geom_xpos), np.array(mjd.geom_xmat)
  mj_by_pair = {}
  for i in range(len(cm["dist"])):
    k = (int(cm["geom"][i][0]), int(cm["geom"][i][1]))
    mj_by_pair.setdefault(k, []).append((np.array(cm["pos"][i]), float(cm["dist"][i]), np.array(cm["frame"][i][0])))
  ncon = len(cw["dist"])
  pairs = {}
  for i in range(ncon):
    pairs.setdefault((int(cw["geom"][i][0]), int(cw["geom"][i][1])), []).append(i)
  geoms = {}

  def G(g):
    if g not in geoms:
      geoms[g] = geomref.geom_from_model(mjm, xpos, xmat, g)
    return geoms[g]

  for key in sorted(pairs):
    idx = pairs[key]
    g1, g2 = key
    cls, tkey = c04.pair_class(mjm, g1, g2, case["multiccd"])
    t1, t2 = _TNAME[int(mjm.geom_type[g1])], _TNAME[int(mjm.geom_type[g2])]
    prim = cls in ("prim", "planemesh")
    A, B = G(g1), G(g2)
    cmp_ = mj_by_pair.get(key, [])
    tolW = (2e-4 if tkey == ("capsule", "box") else 2e-5) if prim else 1e-2  # capsule-box: MuJoCo's heuristic second contact (arbitrated against MuJoCo above this)
    tolS = 2e-4 if prim else 4e-3
    dists = [float(cw["dist"][i]) for i in idx]
    ideep = idx[int(np.argmin(dists))]
    # degenerate configurations: arbitrary normal
    degenerate = False
    if {t1, t2} <= {"sphere", "capsule"} or (t1, t2) == ("sphere", "cylinder"):
      r1, r2 = float(mjm.geom_size[g1][0]), float(mjm.geom_size[g2][0])
      # centre(-line) distance |v| = dist + r1 + r2: the normal is v/|v|; below 5 mm it is dominated by rounding and by the regularised
      # segment parameters (closest point shifted by up to ~1e-5 along the capsule axis), at 0 it is an arbitrary fallback axis
      vnorm = min(abs(x + r1 + r2) for x in dists)
      degenerate = vnorm < 5e-3
      lcaps = sum(2.0 * float(mjm.geom_size[g][1]) for g, t in ((g1, t1), (g2, t2)) if t == "capsule")
      tolS += 2e-5 * lcaps / max(vnorm, 5e-3)
      # (parallel capsules are not degenerate for the witness / separation / translation tests: any pair of closest points along the overlap is
      #  valid, the normal is perpendicular to the axes and dist is the separation; only the closed-form *position* is non-unique, and
      #  closed_form() returns None there)
    # deep convex penetrations: EPA depth/normal/witnesses are not reliable in any implementation (C04)
    deep = False
    if not prim:
      rmin = min(float(mjm.geom_rbound[g1]), float(mjm.geom_rbound[g2]))
      deep = min(dists) < -0.25 * rmin
    cf = None if degenerate else closed_form(A, B)
    for i in idx:
      rec.ev()
      n = np.array(cw["frame"][i][0], dtype=np.float64)
      pos = np.array(cw["pos"][i], dtype=np.float64)
      dist = float(cw["dist"][i])
      sign = "pen" if dist < -1e-6 else ("gap" if dist > 1e-6 else "touch")
      rec.cls(f"pair:{cls}:{tkey[0]}-{tkey[1]}", f"sign:{sign}", f"ncontact-in-pair:{min(len(idx), 5)}")
      info = dict(pair=[g1, g2], types=[t1, t2], cls=cls, dist=dist, normal=n.tolist(), pos=pos.tolist(), n_in_pair=len(idx), dists=dists)
      if not _frame_checks(rec, cw["frame"][i], info):
        continue
      shared = _mj_same(cmp_, pos, dist, n)
      if degenerate or deep:
        rec.boundary_skipped += 1
      # (W) witness points on the two surfaces
      if not deep and not degenerate:
        p1, p2 = pos - 0.5 * dist * n, pos + 0.5 * dist * n
        e1, e2 = abs(surf_dist(A, p1)), abs(surf_dist(B, p2))
        if (t1, t2) == ("plane", "capsule"):
          # MuJoCo's (and MJWarp's) plane-capsule model: the capsule is its two end spheres; the higher end's lowest point is inside the capsule proper
          e2 = min(abs(float(np.linalg.norm(p2 - e)) - B["size"][0]) for e in _seg(B))
        if max(e1, e2) <= tolW:
          rec.err(f"witness[{'prim' if prim else 'convex'}]", max(e1, e2))
          if prim:
            rec.err(f"witness[{tkey[0]}-{tkey[1]}]", max(e1, e2))
        else:
          if shared:
            # e.g. plane-capsule: both ends are collided as spheres, so the higher end's witness point lies inside the capsule (MuJoCo's algorithm, same values)
            rec.notes[f"witness_off_surface_shared_with_mujoco:{tkey[0]}-{tkey[1]}"] += 1
          else:
            rec.violation(
              f"witness points pos -/+ n*dist/2 are not on the geoms' surfaces (off by {e1:.5f} / {e2:.5f}, tol {tolW}) {info}",
              sig=f"witness:{cls}:{tkey[0]}-{tkey[1]}", e1=e1, e2=e2, **info,
            )
            continue
      # (S) support separation along the normal (also the direction test)
      if not degenerate:
        s = support_sep(A, B, n)
        sflip = support_sep(A, B, -n) if A["type"] != "plane" else -np.inf
        if deep:
          pass
        elif not prim and abs(dist) < 2e-4 and abs(s - dist) <= 0.05 * max(A.get("rbound", 0.2), B.get("rbound", 0.2), 0.1):
          # touching convex pair: GJK's normal is the direction of a closest-point difference shorter than 2e-4, which float32 resolves
          # to a few degrees only (MuJoCo's float64 normal differs by the same order); the separation along it is then off by r*angle
          rec.boundary_skipped += 1
          rec.notes["touching_convex_normal_illconditioned"] += 1
        elif i == ideep:
          e = abs(s - dist)
          if e <= tolS + (0.0 if prim else 0.05 * abs(dist)):
            rec.err(f"support separation[{'prim' if prim else 'convex'}]", e)
          elif cf is None and shared:
            rec.notes["separation_shared_with_mujoco"] += 1
          else:
            kind = "direction" if abs(sflip - dist) <= tolS + 0.05 * abs(dist) else "separation"
            rec.violation(
              f"dist {dist:.6f} is not the separation of the geoms along the normal ({s:.6f}; along the reversed normal {sflip:.6f}) {info}",
              sig=f"{kind}:{cls}:{tkey[0]}-{tkey[1]}", sep=s, sep_flipped=sflip, **info,
            )
            continue
        else:
          # non-deepest contact of a multi-contact pair: separation at the contact cannot be less than the support separation; same hemisphere as the deepest
          nd = np.array(cw["frame"][ideep][0], dtype=np.float64)
          if s > dist + tolS + (0.0 if prim else 0.05 * abs(dist)) and not (cf is None and shared):
            rec.violation(f"contact dist {dist:.6f} is below the support separation {s:.6f} along its normal {info}", sig=f"separation:{cls}:{tkey[0]}-{tkey[1]}", sep=s, **info)
            continue
          if float(n @ nd) <= 0 and not shared:
            rec.violation(f"contact normal opposes the normal of the deepest contact of the same pair {info}", sig=f"direction:{cls}:{tkey[0]}-{tkey[1]}", **info)
            continue
      # (A) closed forms
      if cf is not None:
        j = int(np.argmin([np.linalg.norm(c[2] - pos) for c in cf]))
        da, na, pa, cond, slack = cf[j]
        rec.cls(f"closedform:{t1}-{t2}")
        ed, en, ep = abs(da - dist), float(np.max(np.abs(na - n))), float(np.max(np.abs(pa - pos)))
        rec.err("closed-form dist", ed)
        rec.err("closed-form normal", en)
        rec.err("closed-form pos", ep)
        if ed > 2e-5 + 0.1 * slack:
          rec.violation(f"dist {dist:.7f} differs from the analytic signed distance {da:.7f} {info}", sig=f"analytic:dist:{t1}-{t2}", want=da, **info)
          continue
        if en > 2e-5 + (1e-6 + slack) / max(cond, 1e-4):  # normal = (cb - ca)/|cb - ca|: float32 positions give an error ~1e-7/|cb - ca|
          rec.violation(f"normal differs from the analytic direction {na.tolist()} by {en:.3g} {info}", sig=f"analytic:normal:{t1}-{t2}", want=na.tolist(), **info)
          continue
        if ep > 2e-5 + slack:
          rec.violation(f"pos differs from the midpoint of the closest surface points {pa.tolist()} by {ep:.3g} {info}", sig=f"analytic:pos:{t1}-{t2}", want=pa.tolist(), **info)
          continue
    # (T) metamorphic translation along the deepest contact's normal
    if case["translate"] and not degenerate and not deep:
      _translate_test(rec, case, mjm, m, q0, key, idx, cw, cls, tkey, prim, cmp_ is not None and any(_mj_same(cmp_, np.array(cw["pos"][i]), float(cw["dist"][i]), np.array(cw["frame"][i][0])) for i in idx))
  rec.cls(f"contacts:{ncon > 0}", f"multiccd:{case['multiccd']}")
  if ncon > 0:
    rec.nt()


def _translate_test(rec, case, mjm, m, q0, key, idx, cw, cls, tkey, prim, shared):
  g1, g2 = key
  dists = [float(cw["dist"][i]) for i in idx]
  ideep = idx[int(np.argmin(dists))]
  n = np.array(cw["frame"][ideep][0], dtype=np.float64)

  def free_adr(g):
    b = int(mjm.geom_bodyid[g])
    if b == 0 or int(mjm.body_jntnum[b]) != 1:
      return None
    j = int(mjm.body_jntadr[b])
    return int(mjm.jnt_qposadr[j]) if int(mjm.jnt_type[j]) == 0 else None

  a2, a1 = free_adr(g2), free_adr(g1)
  q = np.array(q0)
  EPS = EPS_PRIM if prim else EPS_CONVEX
  if a2 is not None:
    q[a2 : a2 + 3] += EPS * n
  elif a1 is not None:
    q[a1 : a1 + 3] -= EPS * n
  else:
    rec.notes["translate:both-static"] += 1
    return
  if "d2" not in _SCRATCH or _SCRATCH.get("mjm") is not mjm:
    _SCRATCH["d2"] = H.make_data(mjm, nworld=1, nconmax=100, njmax=400)
    _SCRATCH["mjm"] = mjm
  d2 = _SCRATCH["d2"]
  H.set_data(d2, [dict(qpos=H.f32(q), qvel=np.zeros(mjm.nv))])
  mjw.kinematics(m, d2)
  mjw.collision(m, d2)
  c2 = H.contacts(d2, 0)
  sel = [k for k in range(len(c2["dist"])) if (int(c2["geom"][k][0]), int(c2["geom"][k][1])) == key]
  if len(sel) != len(idx):
    rec.notes["translate:contact-set-changed"] += 1
    return
  rec.ev()
  rec.cls(f"translate:{cls}")
  used = set()
  tol = 2e-5 if prim else 4e-3
  for i in idx:
    ni = np.array(cw["frame"][i][0], dtype=np.float64)
    shift = 0.5 * EPS * n * (1.0 if a2 is not None else -1.0)
    cand = sorted((float(np.linalg.norm(np.array(c2["pos"][k]) - (np.array(cw["pos"][i]) + shift))), k) for k in sel if k not in used)
    dpos, k = cand[0]
    used.add(k)
    if dpos > 0.02 + EPS or np.linalg.norm(np.array(c2["frame"][k][0]) - ni) > 0.05:
      rec.notes["translate:contact-moved"] += 1
      continue
    delta = float(c2["dist"][k]) - float(cw["dist"][i])
    want = EPS * float(n @ ni)
    e = abs(delta - want)
    if e <= tol:
      rec.err(f"translate |delta-eps|[{'prim' if prim else 'convex'}]", e)
      continue
    if delta < -0.25 * want and want > 0.5 * EPS:
      kind = "direction"
    else:
      kind = "rate"
    if shared and kind != "direction":
      rec.notes["translate_rate_shared_with_mujoco"] += 1
      continue
    rec.violation(
      f"moving geom2 by {EPS} along the contact normal changed dist by {delta:.6g} (expected {want:.6g}) pair {key} {tkey} contact dist {float(cw['dist'][i]):.6f}",
      sig=f"translate:{kind}:{cls}:{tkey[0]}-{tkey[1]}", pair=list(key), types=list(tkey), delta=delta, want=want,
    )
