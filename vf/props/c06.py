"""C06 Constrained acceleration is the convex-cost optimum (certificate evaluated by MuJoCo's own mj_constraintUpdate)."""

from __future__ import annotations

import numpy as np

from mujoco_warp._src.types import OverflowType as OT

from vf import solvercase
from vf.core import check_close

RULE = (
  "case = random constrained model (contacts of every condim, equalities, limits, frictionloss; Newton/CG, both cones, dense/sparse, impratio, warmstart zero/random/disabled) "
  "x random state, 1-2 worlds; oracle: MuJoCo's Gauss cost (inertia term + mj_constraintUpdate on MuJoCo's own rows) evaluated at MJWarp's qacc must not exceed the cost at "
  "MuJoCo's tightly converged qacc by more than the solver tolerance allows, the cost gradient at MJWarp's qacc must be small, qacc must agree with MuJoCo's, and the reported "
  "efc.force / qfrc_constraint must be the forces implied by that qacc; worlds with ITERATIONS/LS_ITERATIONS set are judged on the force identity only; "
  "plus (1 case in 5) contact-only free-body scenes solved for 2-4 states on ONE Data (rows appear and vanish; sleep flag on/off): qacc against MuJoCo's tightly converged qacc "
  "(Newton 2e-2; worlds without rows 1e-3 for either solver); evaluation = one world (and step); non-trivial = >=1 active inequality row (contact/limit/friction) in the solution, or a re-solved world"
)
ASSUMPTIONS = ["rows must match MuJoCo's (C05) for the certificate to be evaluated; other worlds are counted as skipped", "MuJoCo Newton with tolerance 1e-10 is the reference optimum"]
BUDGET = {"quick": dict(examples=400, seconds=420, workers=16), "thorough": dict(examples=10000, seconds=1500, workers=16)}


def strategy(tier):
  from hypothesis import strategies as st

  from vf.props import c24

  # 1 case in 5: contact-only free-body scenes solved for 2-4 states on ONE Data (states with contacts alternate with states without any row), with and
  # without the sleep flag (compacted solve); oracle there: qacc against MuJoCo's tightly converged qacc for the same state
  return st.one_of(solvercase.strategy(tier), solvercase.strategy(tier), solvercase.strategy(tier), solvercase.strategy(tier), c24._reuse_strategy())


def _check_reuse(case, rec):
  import mujoco
  import mujoco_warp as mjw

  from vf import gen, mjw as H
  from vf.core import Reject

  cfg = dict(case["cfg"])
  opt = dict(case["opt"])
  flags = {}
  if case["sleep"]:
    opt["solver"] = "Newton"
    flags["sleep"] = "enable"
    if not case["island"]:
      flags["island"] = "disable"
  if flags:
    opt["flags"] = flags
  cfg["option"] = opt
  mjm = H.compile_spec(gen.make_spec(cfg))
  if mjm.nv == 0 or mjm.nq != 7 * mjm.nbody - 7:
    raise Reject("not a free-body scene")
  ref = mjm.__copy__()
  ref.opt.tolerance, ref.opt.iterations, ref.opt.ls_iterations, ref.opt.solver = 1e-10, 200, 100, int(mujoco.mjtSolver.mjSOL_NEWTON)
  n = case["nworld"]
  m = H.put_model(mjm)
  d = H.make_data(mjm, nworld=n, nconmax=150, njmax=600)
  prev_rows = [0] * n
  for k, kinds in enumerate(case["seq"]):
    states = []
    for w in range(n):
      s = H.rand_state(mjm, case["seed"] + 17 * k + 101 * w, sigma=0.1, vel=0.3, applied=False)
      q = np.array(s["qpos"], dtype=np.float64)
      if kinds[w] == "apart":
        for b in range(mjm.nbody - 1):
          q[7 * b : 7 * b + 3] = [3.0 * b, 3.0 * w, 5.0 + 2.0 * b]
      else:
        tmp = mujoco.MjData(mjm)
        H.set_mjd(tmp, s)
        try:
          for _ in range(5):
            mujoco.mj_step(mjm, tmp)
        except mujoco.FatalError:
          raise Reject("mujoco aborts on this model")
        if np.all(np.isfinite(tmp.qpos)) and np.all(np.isfinite(tmp.qvel)):
          q, s["qvel"] = np.array(tmp.qpos), H.f32(tmp.qvel)
      s["qpos"] = H.f32(q)
      states.append(s)
    H.set_data(d, states)
    mjw.forward(m, d)
    of = H.overflow_fwd(d)
    if (of & int(OT.NEFC | OT.NJMAX_NNZ | OT.BROADPHASE | OT.NARROWPHASE | OT.NVMAX)).any():
      rec.inconclusive += 1
      return
    qacc = d.qacc.numpy()
    fresh = H.make_data(mjm, nworld=n, nconmax=150, njmax=600)
    H.set_data(fresh, states)
    mjw.forward(m, fresh)
    qfresh, offresh = fresh.qacc.numpy(), H.overflow_fwd(fresh)
    for w in range(n):
      mjd = mujoco.MjData(ref)
      H.set_mjd(mjd, states[w])
      try:
        mujoco.mj_forward(ref, mjd)
      except mujoco.FatalError:
        rec.rejected += 1
        continue
      nefc = int(d.nefc.numpy()[w])
      rec.cls(f"reuse:{kinds[w]}", f"reuse:nefc0:{nefc == 0}", f"reuse:sleep:{case['sleep']}", f"reuse:sparse:{bool(m.is_sparse)}", f"reuse:cone:{opt['cone']}")
      cw, cm = H.contacts(d, w), H.mj_contacts(mjd)
      pairs, ua, ub = H.match_contacts(cw, cm)
      # same rows as MuJoCo: same contacts incl. the tangent frame (a different but valid tangent choice turns the friction pyramid, C05's recorded finding)
      same = not (ua or ub) and nefc == mjd.nefc and all(
        np.linalg.norm(cw["pos"][a] - cm["pos"][b]) < 1e-3 and abs(cw["dist"][a] - cm["dist"][b]) < 1e-4 and np.max(np.abs(np.asarray(cw["frame"][a], dtype=np.float64) - cm["frame"][b])) < 1e-3
        for a, b in pairs
      )
      ctx = dict(world=w, step=k, kinds=kinds, nefc=nefc, rows_before=prev_rows[w], sleep=case["sleep"], cone=opt["cone"], solver=opt["solver"])
      ascale = max(1.0, float(np.max(np.abs(mjd.qacc))))
      if not (int(of[w]) | int(offresh[w])) & int(OT.ITERATIONS | OT.LS_ITERATIONS):
        # the re-solved Data and a fresh Data are given the same problem: both must return its optimum
        rec.ev()
        check_close(rec, "qacc: reused Data vs fresh Data", qacc[w], qfresh[w], 1e-4, scale=ascale, sig="reuse:vs-fresh", **ctx)
      if not same or (int(of[w]) & int(OT.ITERATIONS | OT.LS_ITERATIONS)):
        rec.boundary_skipped += 1
        prev_rows[w] = nefc
        continue
      rec.ev()
      # CG at MJWarp's tolerance is judged in cost space by the main class; here Newton and the row-free worlds (qacc = qacc_smooth for any solver)
      if opt["solver"] == "Newton" or nefc == 0:
        check_close(rec, "qacc vs mujoco (reused Data)", qacc[w], mjd.qacc, 2e-2 if nefc else 1e-3, scale=ascale, sig="reuse:qacc", **ctx)
      if nefc == 0 and prev_rows[w] > 0:
        rec.nt(extra=["reuse", k, w])
      elif nefc > 0 and k > 0:
        rec.nt(extra=["reuse", k, w])
      prev_rows[w] = nefc


def check(case, rec):
  if case.get("kind") == "reuse":
    return _check_reuse(case, rec)
  mjm, m, d, worlds = solvercase.evaluate(case, rec)
  qacc = d.qacc.numpy()
  qfrc = d.qfrc_constraint.numpy()
  for W in worlds:
    if not W.comparable:
      rec.boundary_skipped += 1
      continue
    rec.ev()
    w = W.w
    nefc = W.em["nefc"]
    cost_w, force_w, state_w, grad_w, M = solvercase.total_cost(mjm, W, qacc[w])
    cost_m, force_m, state_m, grad_m, _ = solvercase.total_cost(mjm, W, W.mjd.qacc)
    if not np.isfinite(cost_m) or abs(cost_m) > 1e9:
      rec.inconclusive += 1  # numerically exploded state: float32 cannot resolve the cost
      continue
    unconverged = bool(W.overflow & int(OT.ITERATIONS | OT.LS_ITERATIONS))
    scale = max(1.0, abs(cost_m))
    ctx = dict(world=w, nefc=nefc, cost_mjwarp=cost_w, cost_mujoco=cost_m, overflow=W.overflow, solver=case["opt"]["solver"], cone=case["opt"]["cone"])
    # reported forces are the ones implied by the reported qacc: evaluated on MJWarp's own rows (float64) for the row kinds with a
    # closed-form law (equality: -D*jar; limit / frictionless / pyramidal contact: -D*min(jar,0); friction-loss: Huber clamp)
    if nefc:
      ew = W.ew
      Jw, Dw, arefw, fl = ew["J"].astype(np.float64), ew["D"].astype(np.float64), ew["aref"].astype(np.float64), ew["frictionloss"].astype(np.float64)
      jar_w = Jw @ qacc[w].astype(np.float64) - arefw
      t = ew["type"]
      implied = np.where(t == 0, -Dw * jar_w, -Dw * np.minimum(jar_w, 0.0))
      fr = (t == 1) | (t == 2)
      implied = np.where(fr, np.clip(-Dw * jar_w, -fl, fl), implied)
      simple = t != 7
      # float32 evaluation of jar loses |J||qacc| * eps: tolerance from the row's own magnitude
      mag = np.abs(Jw) @ np.abs(qacc[w].astype(np.float64)) + np.abs(arefw)
      tolrow = 2e-5 * Dw * mag + 1e-3 * np.maximum(1.0, np.abs(implied))
      err = np.abs(ew["force"].astype(np.float64) - implied)
      bad = simple & (err > tolrow)
      rec.err("force_identity(max err/tol)", float(np.max(np.where(simple, err / tolrow, 0.0))) if simple.any() else 0.0)
      if bad.any():
        j = int(np.argmax(np.where(simple, err / tolrow, 0.0)))
        rec.violation(f"efc.force[{j}] (type {int(t[j])}) = {ew['force'][j]} but the row law gives {implied[j]} (tol {tolrow[j]:.3g}) {ctx}", sig=f"force-implied:type{int(t[j])}", **ctx)
      qf = Jw.T @ ew["force"].astype(np.float64)
      check_close(rec, "qfrc_constraint vs J^T force", qfrc[w], qf, 1e-4, scale=max(1.0, float(np.max(np.abs(Jw).T @ np.abs(ew["force"]))), float(np.max(np.abs(d.qfrc_smooth.numpy()[w])))), sig="qfrc-implied", **ctx)
    if unconverged:
      rec.cls("unconverged")
      continue
    # optimality in cost space.  Newton: at the optimum up to round-off.  CG stops on small improvement, as MuJoCo's CG does:
    # it must be no further from the optimum than MuJoCo's CG with the same tolerance/iterations (x10 + round-off)
    excess = (cost_w - cost_m) / scale
    rec.err(f"cost_excess_rel[{case['opt']['solver']}]", max(excess, 0.0))
    cost_same = solvercase.total_cost(mjm, W, W.qacc_same)[0]
    allowed = (1e-4 if case["opt"]["solver"] == "Newton" else 3e-3) + 10.0 * max(cost_same - cost_m, 0.0) / scale
    if excess > allowed:
      rec.violation(f"qacc is not the cost minimum: cost {cost_w:.10g} vs optimum {cost_m:.10g}, MuJoCo with the same solver settings {cost_same:.10g} (relative excess {excess:.3g} > {allowed:.3g}) {ctx}", sig=f"suboptimal:{case['opt']['solver']}", **ctx)
    if case["opt"]["solver"] == "Newton":
      ascale = max(1.0, float(np.max(np.abs(W.mjd.qacc))))
      check_close(rec, "qacc vs mujoco", qacc[w], W.mjd.qacc, 2e-2, scale=ascale, sig="qacc", **ctx)
    active = int(np.sum((W.em["type"] != 0) & (state_w != 0))) if nefc else 0
    rec.cls(f"solver:{case['opt']['solver']}", f"cone:{case['opt']['cone']}", f"warm:{case['warmstart']}", f"active_ineq:{active > 0}")
    if active > 0:
      rec.nt(extra=w)
