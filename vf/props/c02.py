"""C02 Smooth dynamics agree with MuJoCo C (differential)."""

from __future__ import annotations

import numpy as np
from hypothesis import strategies as st

import mujoco
import mujoco_warp as mjw

from vf import gen, mjw as H
from vf.core import Reject, check_close

RULE = (
  "case = random articulated model with armature, (polynomial) stiffness/damping, springref, gravcomp, fluid (wind/density/viscosity, "
  "ellipsoid + inertia-box models), fixed/spatial tendons with stiffness/damping/armature, forced chain sizes hitting the M block layouts "
  "(1..70 dofs), dense/sparse/auto jacobian, random (qpos,qvel,qfrc_applied,xfrc_applied), nworld in {1,2}; oracle = mj_forward fields "
  "M, qfrc_bias, qfrc_spring/damper/gravcomp/fluid/passive, cvel, cdof_dot, ten_velocity, qfrc_smooth, qacc_smooth; "
  "non-trivial = nv>=2 and a coupled block or fluid/gravcomp/tendon passive force active; distinct by sha1(case)"
)
ASSUMPTIONS = ["MuJoCo C 3.13 is the reference", "tolerance 5e-4*scale for forces/M, qacc_smooth scaled by cond(M) (skipped if cond>1e6)"]
BUDGET = {
  "quick": dict(examples=480, seconds=420, workers=16),
  "thorough": dict(examples=12000, seconds=1500, workers=16),
}

_CHAIN_MENU = [[], [], [], [["hinge", 5]], [["mixed", 7]], [["slide", 8]], [["star", 6]], [["mixed", 31]], [["hinge", 33]], [["star", 20]], [["mixed", 65]], [["slide", 3], ["hinge", 2]]]


def strategy(tier):
  return st.fixed_dictionaries(
    dict(
      cfg=gen.cfg_strategy(
        nroot=st.integers(0, 3),
        maxdepth=st.integers(0, 3),
        maxchild=st.integers(1, 2),
        p_multi_joint=st.sampled_from([0.0, 0.4]),
        dynamics=True,
        poly=st.booleans(),
        free_stiffness=st.booleans(),
        gravcomp=st.booleans(),
        fluid=st.booleans(),
        tendons=st.integers(0, 2),
        spatial_tendons=st.integers(0, 2),
        # tendon armature: its bias term (J-dot of the tendon Jacobian, incl. sites on spinning free bodies) is second order in the armature
        armature_p=st.sampled_from([0.3, 0.9]),
        armature_max=st.sampled_from([0.1, 2.0]),
        wrap=st.booleans(),
        chains=st.sampled_from(_CHAIN_MENU),
        geom_menu=st.sampled_from([["sphere", "capsule", "box"], ["ellipsoid", "cylinder", "box", "sphere", "capsule"]]),
        inertial=st.booleans(),
        sites=1.0,
      ),
      jacobian=st.sampled_from(["dense", "sparse", "auto"]),
      nworld=st.sampled_from([1, 2]),
      state_seed=st.integers(0, 10**6),
      sigma=st.sampled_from([0.0, 0.3, 1.0]),
      vel=st.sampled_from([0.0, 1.0, 5.0]),
    )
  )


def check(case, rec):
  cfg = dict(case["cfg"])
  if cfg["nroot"] == 0 and not cfg["chains"]:
    cfg["nroot"] = 1
  cfg["option"] = dict(jacobian=case["jacobian"])
  spec = gen.make_spec(cfg)
  mjm = H.compile_spec(spec)
  if mjm.nv == 0:
    raise Reject("nv=0")
  # contacts are irrelevant for smooth dynamics: disable to keep nefc small
  mjm.opt.disableflags |= int(mujoco.mjtDisableBit.mjDSBL_CONTACT)
  nworld = case["nworld"]
  m = H.put_model(mjm)
  d = H.make_data(mjm, nworld=nworld)
  states = [H.rand_state(mjm, case["state_seed"] + 31 * w, sigma=case["sigma"], vel=case["vel"], applied=True) for w in range(nworld)]
  H.set_data(d, states)
  mjw.forward(m, d)

  simple = bool(np.all(mjm.dof_simplenum > 0)) if hasattr(mjm, "dof_simplenum") else False
  has_fluid = mjm.opt.density > 0 or mjm.opt.viscosity > 0
  nontriv = mjm.nv >= 2 and (not simple or has_fluid or bool((mjm.body_gravcomp != 0).any()) or mjm.ntendon > 0)
  rec.cls(f"nv:{'1' if mjm.nv == 1 else '2-8' if mjm.nv <= 8 else '9-32' if mjm.nv <= 32 else '33-64' if mjm.nv <= 64 else '>64'}", f"sparse:{bool(m.is_sparse)}", f"fluid:{has_fluid}", f"tendon:{mjm.ntendon > 0}", f"gravcomp:{bool((mjm.body_gravcomp != 0).any())}")

  names = ["qfrc_bias", "qfrc_spring", "qfrc_damper", "qfrc_gravcomp", "qfrc_fluid", "qfrc_passive", "qfrc_smooth", "cvel", "cdof_dot", "ten_velocity", "crb"]
  got = {k: getattr(d, k).numpy() for k in names}
  gotM = d.M.numpy()
  gq = d.qacc_smooth.numpy()
  for w in range(nworld):
    mjd = mujoco.MjData(mjm)
    H.set_mjd(mjd, states[w])
    mujoco.mj_forward(mjm, mjd)
    rec.ev()
    if not np.all(np.isfinite(mjd.qacc_smooth)):
      rec.inconclusive += 1
      continue
    fscale = max(1.0, float(np.max(np.abs(mjd.qfrc_bias))), float(np.max(np.abs(mjd.qfrc_passive))), float(np.max(np.abs(mjd.qfrc_smooth))))
    for k in names:
      ref = np.asarray(getattr(mjd, k))
      g = got[k][w].reshape(ref.shape)
      if k in ("cvel", "cdof_dot", "ten_velocity", "crb"):
        check_close(rec, k, g, ref, 5e-4, world=w)
      else:
        check_close(rec, k, g, ref, 5e-4, scale=fscale, world=w)
    Mref = H.mj_dense_M(mjm, mjd)
    Mgot = H.dense_M(mjm, gotM[w])
    check_close(rec, "M", Mgot, Mref, 5e-4, world=w)
    ev = np.linalg.eigvalsh(Mref)
    cond = ev[-1] / max(ev[0], 1e-300)
    if cond > 1e6:
      rec.boundary_skipped += 1
      continue
    tol = 2e-5 * min(max(cond, 10.0), 1e6) / 10.0 + 1e-4
    check_close(rec, "qacc_smooth", gq[w], mjd.qacc_smooth, tol, world=w, cond=float(cond))
  if nontriv:
    rec.nt()
