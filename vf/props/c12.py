"""C12 Next step depends only on the integration state (dirty Data == fresh Data, bit-identical)."""

from __future__ import annotations

import numpy as np
from hypothesis import strategies as st

import mujoco_warp as mjw
from mujoco_warp._src.types import OverflowType as OT

from vf import gen, mjw as H
from vf.core import Reject, check_equal

RULE = (
  "case = rich sleep-disabled model x two Data objects with different prior histories (0-8 steps with random controls from different states, "
  "optional reset_data, optional forward-only calls) + a fresh make_data; the integration state of A is copied with get_state/set_state into the "
  "dirty B and the fresh F; optional finite poison of the scratch regions a longer history could have written (efc rows >= nefc, contact slots >= nacon); "
  "oracle: step() then forward() give bit-identical qpos,qvel,act,time,warmstart,qacc,sensordata,contacts,efc rows,niter on A, B and F; "
  "evaluation = one compared Data pair; non-trivial = the dirty Data's last step had more contacts/rows than the copied state needs (stale tail exists)"
)
ASSUMPTIONS = ["same model and capacities for A, B, F; cases with a capacity overflow bit are discarded", "CPU device, same batch layout, hence bitwise equality is demanded"]
BUDGET = {"quick": dict(examples=240, seconds=420, workers=16), "thorough": dict(examples=5000, seconds=1500, workers=16)}
_CAP = int(OT.NEFC | OT.NJMAX_NNZ | OT.BROADPHASE | OT.NARROWPHASE | OT.CCD | OT.NVMAX | OT.HFIELD | OT.EPA_HORIZON | OT.CONTACT_MATCH)
_OUT = ["qpos", "qvel", "act", "time", "qacc_warmstart", "qacc", "sensordata", "act_dot", "qfrc_constraint", "qfrc_passive", "qfrc_actuator", "energy"]


def strategy(tier):
  return st.fixed_dictionaries(
    dict(
      cfg=gen.rich_cfg(nuserdata=st.integers(0, 2)),
      opt=gen.option_strategy(),
      nworld=st.integers(1, 2),
      seedA=st.integers(0, 10**6),
      seedB=st.integers(0, 10**6),
      histA=st.integers(0, 6),
      histB=st.integers(0, 8),
      resetB=st.booleans(),
      poison=st.sampled_from(["none", "finite", "finite"]),
      sigmaB=st.sampled_from([0.0, 0.1, 0.4]),
      # contact-only model of free bodies whose copied state is lifted clear of everything: the dirty Data solved with rows, the copied state has none
      lift=st.sampled_from([False, False, False, True]),
    )
  )


def history(mjm, m, d, seed, nstep, sigma, reset=False):
  n = d.nworld
  g = np.random.default_rng(seed)
  H.set_data(d, [H.rand_state(mjm, seed + 13 * w, sigma=sigma, vel=1.0, applied=True) for w in range(n)])
  for s in range(nstep):
    if mjm.nu:
      d.ctrl.assign(H.f32(g.normal(size=(n, mjm.nu))).astype(np.float32))
    mjw.step(m, d)
    if reset and s == nstep // 2:
      mjw.reset_data(m, d)
      H.set_data(d, [H.rand_state(mjm, seed + 999 + 13 * w, sigma=sigma, vel=1.0) for w in range(n)])


def poison(m, d):
  """Finite garbage in regions a longer history could legitimately have written."""
  nefc = d.nefc.numpy()
  big = np.float32(1.2345e30)
  e = d.efc
  for name in ("pos", "margin", "D", "vel", "aref", "frictionloss", "force", "Jqvel"):
    arr = getattr(e, name)
    a = arr.numpy()
    for w in range(d.nworld):
      a[w, min(nefc[w], d.njmax) : d.njmax] = big
    arr.assign(a)
  for name in ("type", "id", "state"):
    arr = getattr(e, name)
    a = arr.numpy()
    for w in range(d.nworld):
      a[w, min(nefc[w], d.njmax) : d.njmax] = 7
    arr.assign(a)
  if not m.is_sparse:
    a = e.J.numpy()
    for w in range(d.nworld):
      a[w, min(nefc[w], d.njmax) : d.njmax, : m.nv] = big
    e.J.assign(a)
  nacon = min(int(d.nacon.numpy()[0]), d.naconmax)
  c = d.contact
  for name in ("dist", "pos", "frame", "includemargin", "friction", "solref", "solreffriction", "solimp"):
    arr = getattr(c, name)
    a = arr.numpy()
    a[nacon:] = big
    arr.assign(a)
  for name in ("dim", "geom", "worldid"):
    arr = getattr(c, name)
    a = arr.numpy()
    a[nacon:] = 0
    arr.assign(a)
  for name in ("qacc", "act_dot", "qfrc_constraint", "qfrc_passive", "qfrc_actuator", "qfrc_bias", "qfrc_smooth", "qacc_smooth", "sensordata", "actuator_force"):
    arr = getattr(d, name)
    a = arr.numpy()
    if a.size:
      a[...] = big
      arr.assign(a)


def snap(m, d):
  out = {k: getattr(d, k).numpy().copy() for k in _OUT}
  out["niter"] = d.solver_niter.numpy().copy()
  for k in ("ne", "nf", "nl", "nefc"):
    out[k] = getattr(d, k).numpy().copy()
  out["overflow"] = d.overflow.numpy().copy()
  for w in range(d.nworld):
    c = H.contacts(d, w)
    o = H.contact_sort_key(c)
    out[f"c{w}.geom"] = c["geom"][o]
    out[f"c{w}.dist"] = c["dist"][o]
    out[f"c{w}.pos"] = c["pos"][o]
    out[f"c{w}.frame"] = c["frame"][o]
    e = H.efc_dense(m, d, w)
    key = sorted(range(e["nefc"]), key=lambda i: (int(e["type"][i]), int(e["id"][i]), *np.round(e["J"][i], 5).tolist(), float(e["pos"][i])))
    for f in ("type", "id", "pos", "D", "aref", "force", "J"):
      out[f"e{w}.{f}"] = e[f][key]
  return out


def check(case, rec):
  cfg = dict(case["cfg"])
  cfg["option"] = dict(case["opt"])
  if case.get("lift"):
    cfg.update(limits=0.0, frictionloss=0.0, equalities=0, tendons=0, spatial_tendons=0, joint_menu=["free"], maxdepth=0, mocap=0, pairs=0)
  mjm = H.compile_spec(gen.make_spec(cfg))
  if mjm.nv == 0:
    raise Reject("nv=0")
  m = H.put_model(mjm)
  n = case["nworld"]
  caps = dict(nconmax=120, njmax=400)
  A = H.make_data(mjm, nworld=n, **caps)
  B = H.make_data(mjm, nworld=n, **caps)
  F = H.make_data(mjm, nworld=n, **caps)
  history(mjm, m, A, case["seedA"], case["histA"], 0.15)
  history(mjm, m, B, case["seedB"], case["histB"], case["sigmaB"], reset=case["resetB"])
  stale_con = int(B.nacon.numpy()[0])
  stale_efc = int(B.nefc.numpy().max())
  if case.get("lift") and mjm.nq == 7 * (mjm.nbody - 1):
    q = A.qpos.numpy().copy()
    for b in range(mjm.nbody - 1):
      q[:, 7 * b : 7 * b + 3] = [3.0 * b, 0.0, 5.0 + 2.0 * b]
    A.qpos.assign(q)
    rec.cls("lifted")
  state = H.get_state(m, A, mjm)
  if not np.all(np.isfinite(state)):
    rec.inconclusive += 1
    return
  H.set_state(m, B, mjm, state)
  H.set_state(m, F, mjm, state)
  B.overflow.zero_()
  A.overflow.zero_()
  if case["poison"] != "none":
    poison(m, B)
  for call in ("step", "forward"):
    for d in (A, B, F):
      getattr(mjw, call)(m, d)
    sa, sb, sf = snap(m, A), snap(m, B), snap(m, F)
    if ((sa["overflow"] | sb["overflow"] | sf["overflow"]) & _CAP).any():
      rec.inconclusive += 1
      rec.cls("discarded:overflow")
      return
    for name, other in (("dirty", sb), ("fresh", sf)):
      rec.ev()
      for k in sa:
        if k == "overflow":
          continue
        check_equal(rec, k, other[k], sa[k], sig=f"{name}:{call}:{k.split('.')[-1]}", call=call, twin=name, poison=case["poison"])
  need_con = int(A.nacon.numpy()[0])
  need_efc = int(A.nefc.numpy().max())
  rec.cls(f"poison:{case['poison']}", f"stale_tail:{stale_con > need_con or stale_efc > need_efc}", f"integrator:{case['opt']['integrator']}", f"solver:{case['opt']['solver']}")
  if (stale_con > need_con or stale_efc > need_efc) and need_efc > 0:
    rec.nt()
