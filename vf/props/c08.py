"""C08 Time integration agrees with MuJoCo C (lock-step differential)."""

from __future__ import annotations

import numpy as np
from hypothesis import strategies as st

import mujoco
import mujoco_warp as mjw
from mujoco_warp._src.types import OverflowType as OT

from vf import gen, mjw as H
from vf.core import Reject, check_close, relerr

RULE = (
  "case = model x integrator in {Euler (eulerdamp on/off), implicitfast, implicit, RK4} x k in 1..5 lock-step steps x 1-2 worlds.  'smooth' cases (contacts and constraints disabled by flag): "
  "free/ball/hinge/slide trees with armature, (polynomial) damping/stiffness, gravcomp, fluid, fixed/spatial tendons, mocap, actuators motor/position(+timeconst)/velocity/intvelocity/"
  "damper/cylinder/muscle/general with dyntype none/integrator/filter/filterexact over joint/tendon/site transmissions; 'contact' cases (Euler/implicitfast/implicit): plane + pile of "
  "spheres/capsules/boxes with limits, frictionloss, equalities, both cones/solvers/jacobians, states settled with MuJoCo.  Before every step MJWarp's float32 qpos/qvel/act/time/"
  "qacc_warmstart (+ freshly drawn ctrl/qfrc_applied/xfrc_applied, mocap) are copied into MjData, then step() vs mj_step(): next time, act, qvel, qpos (quaternions sign-insensitive), "
  "qacc_warmstart.  tolerance = (c02's acceleration tolerance scaled by cond of M and of the integrator matrix) x dt for qvel, x dt^2 for qpos, plus float32 representation terms; "
  "contact worlds are judged only when both engines report the same contacts and row counts for the step and both solvers converged.  A qvel mismatch is re-derived in float64 from "
  "MuJoCo's own M, qacc, qDeriv under each recorded mechanism (see _attribute) and gets that mechanism's signature when it reproduces MJWarp's value, else '<integrator>:qvel'.  "
  "evaluation = one (world, step); "
  "non-trivial = the integrator's special feature is present (damping for Euler-implicit damping, velocity-dependent forces/gyroscopic terms for implicit*, activations or velocity for RK4)"
)
ASSUMPTIONS = [
  "MuJoCo C 3.13 mj_step is the reference; solver tolerance 1e-8 with 100 iterations on both sides",
  "steps for which MuJoCo raises a warning or ends with |qvel| > 1e5 / |qacc| > 1e8 (diverging reference), cond(M) or cond(integrator matrix) > 1e6, or (contact cases) the contact sets/row counts differ or MuJoCo's solver did not converge are skipped and counted",
  "servo actuators on ball joints are excluded by construction (known finding C03 ball-position-wrap)",
  "RK4 only in contact-free cases (intermediate-stage contact sets cannot be compared from outside); filterexact activations are rewritten to filter in 3 of 4 RK4 cases (finding RK4:act:filterexact-stages)",
  "contact steps use an acceleration tolerance of at least 2e-2 (float32 solver iterate vs float64 reference); rows with efc_D > 1e10 (zero Jacobian) make the step not comparable",
]
BUDGET = {"quick": dict(examples=560, seconds=420, workers=16), "thorough": dict(examples=8000, seconds=1500, workers=16)}
_CAP = int(OT.NEFC | OT.NJMAX_NNZ | OT.BROADPHASE | OT.NARROWPHASE | OT.CCD | OT.NVMAX | OT.HFIELD | OT.EPA_HORIZON | OT.CONTACT_MATCH)
_ITER = 100
_CALIB = bool(__import__("os").environ.get("C08_CALIB"))  # development aid: record tolerance overshoots of unexplained steps instead of raising


def strategy(tier):
  smooth = st.fixed_dictionaries(
    dict(
      mode=st.just("smooth"),
      cfg=gen.cfg_strategy(
        nroot=st.integers(1, 3),
        maxdepth=st.integers(0, 2),
        maxchild=st.integers(1, 2),
        joint_menu=st.sampled_from([["free", "ball", "hinge", "slide"], ["hinge", "slide"], ["free", "ball"], ["ball", "hinge", "slide"], ["free"]]),
        p_multi_joint=st.sampled_from([0.0, 0.4]),
        dynamics=True,
        poly=st.booleans(),
        gravcomp=st.booleans(),
        fluid=st.sampled_from([False, False, True]),
        tendons=st.integers(0, 2),
        spatial_tendons=st.integers(0, 1),
        wrap=st.booleans(),
        sites=1.0,
        mocap=st.integers(0, 1),
        inertial=st.booleans(),
        geom_menu=st.sampled_from([["sphere", "capsule", "box"], ["ellipsoid", "cylinder", "box", "sphere", "capsule"]]),
        actuators=st.integers(0, 4),
        act_menu=st.sampled_from([
          ["motor", "position", "velocity", "intvelocity", "damper", "cylinder", "muscle", "general"],
          ["general"],
          ["position", "intvelocity", "velocity"],
          ["motor"],
        ]),
        dyn_menu=st.sampled_from([["none", "integrator", "filter", "filterexact"], ["filter", "filterexact"], ["integrator"]]),
        trn_menu=st.sampled_from([["joint"], ["joint", "tendon", "site"], ["joint", "jointinparent"]]),
        actfrcrange=st.booleans(),
      ),
      opt=gen.option_strategy(),
      eulerdamp=st.sampled_from([True, True, False]),
      dt=st.sampled_from([5e-4, 2e-3, 2e-3, 1e-2]),
      k=st.integers(1, 5),
      nworld=st.integers(1, 2),
      seed=st.integers(0, 10**6),
      sigma=st.sampled_from([0.0, 0.3, 1.0]),
      vel=st.sampled_from([0.0, 1.0, 5.0]),
      unnorm=st.booleans(),
    )
  )
  contact = st.fixed_dictionaries(
    dict(
      mode=st.just("contact"),
      cfg=gen.rich_cfg(
        geom_menu=st.sampled_from([["sphere", "capsule"], ["sphere"], ["sphere", "capsule", "box"]]),
        equalities=st.integers(0, 2),
        limits=st.sampled_from([0.0, 0.6]),
        frictionloss=st.sampled_from([0.0, 0.5]),
        actuators=st.integers(0, 3),
        act_menu=st.sampled_from([["motor", "position", "velocity"], ["general", "intvelocity", "motor", "cylinder"]]),
        dyn_menu=["none", "integrator", "filter", "filterexact"],
        trn_menu=["joint"],
        condim_menu=st.sampled_from([[3], [1, 3, 4, 6]]),
        mocap=0,
      ),
      opt=gen.option_strategy(integrators=("Euler", "implicitfast", "implicit")),
      eulerdamp=st.sampled_from([True, True, False]),
      dt=st.sampled_from([2e-3, 2e-3, 5e-3]),
      k=st.integers(1, 5),
      nworld=st.integers(1, 2),
      seed=st.integers(0, 10**6),
      sigma=st.sampled_from([0.05, 0.3]),
      vel=st.sampled_from([0.0, 0.3]),
      unnorm=st.just(False),
    )
  )
  return st.one_of(smooth, smooth, contact)


# --------------------------------------------------------------------------------------


def _drop_ball_servos(spec, rec):
  """Known finding C03 ball-position-wrap: servo (kp) actuators on ball joints differ from MuJoCo by construction -> excluded, counted."""
  jt = {j["name"]: j["type"] for b in spec["bodies"] for j in b["joints"]}
  keep = []
  for a in spec["actuators"]:
    jn = a.get("joint", a.get("jointinparent"))
    servo = a["kind"] in ("position", "intvelocity") or (a["kind"] == "general" and a.get("biastype") == "affine" and a.get("biasprm", [0, 0, 0])[1] != 0)
    if jn is not None and jt.get(jn) == "ball" and servo:
      rec.excluded["ball-position-wrap"] += 1
      continue
    keep.append(a)
  spec["actuators"] = keep


def _build(case, rec):
  cfg = dict(case["cfg"])
  opt = dict(case["opt"])
  opt.update(timestep=case["dt"], tolerance=1e-8, iterations=_ITER, ls_iterations=50)
  flags = {}
  if case["mode"] == "smooth":
    flags.update(contact="disable", constraint="disable")
  if not case["eulerdamp"]:
    flags["eulerdamp"] = "disable"
  if flags:
    opt["flags"] = flags
  cfg["option"] = opt
  spec = gen.make_spec(cfg)
  _drop_ball_servos(spec, rec)
  if case["opt"]["integrator"] == "RK4" and case["seed"] % 4:
    # finding RK4:act:filterexact-stages changes every output of an RK4 step of a model with filterexact activations: keep that class to a quarter of the RK4 cases
    for a in spec["actuators"]:
      if a.get("dyntype") == "filterexact":
        a["dyntype"] = "filter"
        rec.excluded["RK4:act:filterexact-stages"] += 1
  return H.compile_spec(spec)


def _quat_slots(mjm):
  out = []
  for j in range(mjm.njnt):
    t = int(mjm.jnt_type[j])
    if t == 0:
      out.append((int(mjm.jnt_qposadr[j]) + 3, int(mjm.jnt_dofadr[j]) + 3))
    elif t == 1:
      out.append((int(mjm.jnt_qposadr[j]), int(mjm.jnt_dofadr[j])))
  return out


def _inputs(mjm, case, w, i):
  """Fresh ctrl / applied forces for step i of world w."""
  g = np.random.default_rng([case["seed"], w, i, 7])
  x = g.normal(size=(mjm.nbody, 6)) * g.choice([0.0, 1.0, 5.0])
  x[0] = 0
  return dict(ctrl=H.f32(g.normal(size=mjm.nu) * g.choice([0.3, 1.0, 3.0])), qfrc_applied=H.f32(g.normal(size=mjm.nv) * g.choice([0.0, 1.0, 5.0])), xfrc_applied=H.f32(x))


def _dense_D(mjm, mjd):
  D = np.zeros((mjm.nv, mjm.nv))
  mujoco.mju_sparse2dense(D, mjd.qDeriv, mjm.D_rownnz, mjm.D_rowadr, mjm.D_colind)
  return D


def _cond(A):
  s = np.linalg.svd(A, compute_uv=False)
  return float(s[0] / max(s[-1], 1e-300))


def _lowsym(D):
  L = np.tril(D)
  return L + L.T - np.diag(np.diag(D))


def _qpos_err(mjm, slots, a, b):
  """max abs difference of two qpos vectors; quaternion slots compared sign-insensitively after normalisation."""
  a = np.array(a, dtype=np.float64)
  b = np.array(b, dtype=np.float64)
  for qa, _ in slots:
    x, y = a[qa : qa + 4], b[qa : qa + 4]
    nx, ny = np.linalg.norm(x), np.linalg.norm(y)
    if nx > 0 and ny > 0 and np.isfinite(nx) and np.isfinite(ny):
      x, y = x / nx, y / ny
      if float(x @ y) < 0:
        y = -y
      a[qa : qa + 4], b[qa : qa + 4] = x, y
  if not (np.all(np.isfinite(a)) and np.all(np.isfinite(b))):
    return float("inf")
  return float(np.max(np.abs(a - b), initial=0.0))


def _same_constraints(mjm, m, d, w, mjd):
  """Both engines report the same contacts and the same row counts for the step just taken (fields hold the pre-step forward pass)."""
  cw, cm = H.contacts(d, w), H.mj_contacts(mjd)
  pairs, ua, ub = H.match_contacts(cw, cm)
  if ua or ub:
    return False
  for a, b in pairs:
    if np.linalg.norm(cw["pos"][a] - cm["pos"][b]) > 1e-3 or abs(cw["dist"][a] - cm["dist"][b]) > 1e-4 or int(cw["dim"][a]) != int(cm["dim"][b]):
      return False
    if np.max(np.abs(np.asarray(cw["frame"][a], dtype=np.float64).reshape(-1) - np.asarray(cm["frame"][b]).reshape(-1))) > 1e-3:
      return False
  for k in ("ne", "nf", "nl", "nefc"):
    if int(getattr(d, k).numpy()[w]) != int(getattr(mjd, k)):
      return False
  return True


def _attribute(mjm, state, inputs, integ, v0, vw, vtol):
  """Which recorded mechanism (if any) explains MJWarp's next qvel `vw`?  Returns (signature, text) or (None, "").  Only called after a mismatch with
  mj_step, so a wrong guess can mislabel a violation but never create or hide one.  The candidates re-do the implicit update in float64 from MuJoCo's own
  M, qacc and qDeriv with one or more of the following changes, and are accepted when they reproduce MJWarp's qvel within the step's tolerance:
    rne-derivative-sign            implicit: the RNE (Coriolis/gyroscopic) velocity derivative enters M - dt*qDeriv with the opposite sign
    symmetrized-smooth-derivative  implicit: the passive/actuator part of qDeriv is taken from its lower triangle and mirrored (as implicitfast does)
    unclamped-ctrl-derivative      d(actuator force)/d(velocity) of affine-gain actuators without dynamics uses ctrl instead of the ctrlrange-clamped ctrl
    no-muscle-derivative           d(actuator force)/d(velocity) of muscle-gain actuators is missing
    no-gyroscopic-derivative       implicitfast: plain M - dt*sym(qDeriv) update, where mj_step itself does something more (free bodies without children)"""
  if integ not in ("implicit", "implicitfast"):
    return None, ""
  dt = mjm.opt.timestep

  def run(integrator, fluid=True):
    mm = mjm.__copy__()
    mm.opt.integrator = integrator
    if not fluid:
      mm.opt.density = 0.0
      mm.opt.viscosity = 0.0
    dd = mujoco.MjData(mm)
    H.set_mjd(dd, dict(state, **inputs))
    mujoco.mj_step(mm, dd)
    return mm, dd

  def close(v, ref):
    return bool(np.max(np.abs(v - ref)) <= vtol)

  try:
    mm, dd = run(int(mujoco.mjtIntegrator.mjINT_IMPLICITFAST))
    M, qacc, Dfast, vfast = H.mj_dense_M(mm, dd), np.array(dd.qacc), _dense_D(mm, dd), np.array(dd.qvel)
    # extra derivative MJWarp gets from an unclamped ctrl; derivative mj_step gets from muscle gains (finite-differenced from mju_muscleGain)
    Dctrl, Dmus = np.zeros_like(Dfast), np.zeros_like(Dfast)
    if mjm.nu:
      mom = np.zeros((mjm.nu, mjm.nv))
      mujoco.mju_sparse2dense(mom, dd.actuator_moment, dd.moment_rownnz, dd.moment_rowadr, dd.moment_colind)
      clampctrl = not (mjm.opt.disableflags & int(mujoco.mjtDisableBit.mjDSBL_CLAMPCTRL))
      for u in range(mjm.nu):
        if mjm.actuator_forcelimited[u] and not (mjm.actuator_forcerange[u, 0] < dd.actuator_force[u] < mjm.actuator_forcerange[u, 1]):
          continue
        gt = int(mjm.actuator_gaintype[u])
        if gt == int(mujoco.mjtGain.mjGAIN_AFFINE) and mjm.actuator_gainprm[u, 2] != 0 and mjm.actuator_dyntype[u] == 0 and mjm.actuator_ctrllimited[u] and clampctrl:
          c = float(inputs["ctrl"][u])
          Dctrl += float(mjm.actuator_gainprm[u, 2]) * (c - float(np.clip(c, *mjm.actuator_ctrlrange[u]))) * np.outer(mom[u], mom[u])
        elif gt == int(mujoco.mjtGain.mjGAIN_MUSCLE):
          ln, vl, h = float(dd.actuator_length[u]), float(dd.actuator_velocity[u]), 1e-6
          gain = lambda v: mujoco.mju_muscleGain(ln, v, mjm.actuator_lengthrange[u], float(mjm.actuator_acc0[u]), mjm.actuator_gainprm[u, :9])
          a_u = float(state["act"][mjm.actuator_actadr[u] + mjm.actuator_actnum[u] - 1]) if mjm.actuator_actnum[u] > 0 else float(np.clip(inputs["ctrl"][u], *mjm.actuator_ctrlrange[u]) if mjm.actuator_ctrllimited[u] else inputs["ctrl"][u])
          Dmus += a_u * (gain(vl + h) - gain(vl - h)) / (2 * h) * np.outer(mom[u], mom[u])
    mask = np.zeros_like(Dfast)  # qDeriv only has entries for dof pairs on one kinematic chain
    mujoco.mju_sparse2dense(mask, np.ones(mjm.nD), mjm.D_rownnz, mjm.D_rowadr, mjm.D_colind)
    Dctrl, Dmus = Dctrl * mask, Dmus * mask
    has_ctrl, has_mus = bool(np.any(Dctrl != 0)), bool(np.any(Dmus != 0))
    extra = [(uc, mu) for uc in ((0, 1) if has_ctrl else (0,)) for mu in ((0, 1) if has_mus else (0,))]
    rhs = M @ qacc
    if integ == "implicitfast":
      plain = v0 + dt * np.linalg.solve(M - dt * _lowsym(Dfast), rhs)
      mj_plain = bool(np.max(np.abs(plain - vfast)) <= 1e-9 * (1.0 + np.max(np.abs(vfast))))  # mj_step itself did the plain update for this state
      if not np.all(np.isfinite(vw)):
        # implicitfast factorises M - dt*sym(qDeriv) with Cholesky: a positive derivative from an unclamped ctrl can make it indefinite (NaN / wrong-way update)
        if has_ctrl and np.min(np.linalg.eigvalsh(M - dt * _lowsym(Dfast + Dctrl))) <= 0:
          return "implicitfast:unclamped-ctrl-derivative", "non-finite: M - dt*sym(qDeriv) with the unclamped-ctrl derivative is not positive definite"
        return None, ""
      for uc, mu in sorted(extra, key=sum):
        if close(v0 + dt * np.linalg.solve(M - dt * _lowsym(Dfast + uc * Dctrl - mu * Dmus), rhs), vw):
          names = (["no-gyroscopic-derivative"] if not mj_plain else []) + (["unclamped-ctrl-derivative"] if uc else []) + (["no-muscle-derivative"] if mu else [])
          if names:
            return "implicitfast:" + names[0], "explained by " + "+".join(names)
      # structural fallback: every deviating dof belongs to a free joint of a body without child bodies, and mj_step's own qvel is not the plain update there
      simple = np.zeros(mjm.nv, dtype=bool)
      for j in range(mjm.njnt):
        b = int(mjm.jnt_bodyid[j])
        if mjm.jnt_type[j] == 0 and not np.any(mjm.body_parentid[1:] == b):
          simple[mjm.jnt_dofadr[j] : mjm.jnt_dofadr[j] + 6] = True
      bad = np.abs(vw - vfast) > vtol
      if bad.any() and np.all(simple[bad]) and not mj_plain:
        return "implicitfast:no-gyroscopic-derivative", "deviation confined to the dofs of free bodies without children, where mj_step's implicitfast does more than the plain update"
      return None, ""
    # RNE part of qDeriv from fluid-free runs (with fluid, implicit and implicitfast also differ in the fluid derivative: implicitfast symmetrises it)
    if mjm.opt.density > 0 or mjm.opt.viscosity > 0:
      Drne = _dense_D(mm, run(int(mujoco.mjtIntegrator.mjINT_IMPLICIT), False)[1]) - _dense_D(mm, run(int(mujoco.mjtIntegrator.mjINT_IMPLICITFAST), False)[1])
    else:
      Drne = _dense_D(mm, run(int(mujoco.mjtIntegrator.mjINT_IMPLICIT))[1]) - Dfast
    Dsm = _dense_D(mm, run(int(mujoco.mjtIntegrator.mjINT_IMPLICIT))[1]) - Drne  # smooth (passive + actuator) part as mj_step's implicit uses it
    best = None
    for flip in (0, 1):
      for sym in (0, 1):
        for uc, mu in extra:
          if not (flip or sym or uc or mu):
            continue
          Ds = Dsm + uc * Dctrl - mu * Dmus
          Ds = _lowsym(Ds) if sym else Ds
          v = v0 + dt * np.linalg.solve(M - dt * Ds - (-1.0 if flip else 1.0) * dt * Drne, rhs)
          if close(v, vw) and (best is None or flip + sym + uc + mu < sum(best)):
            best = (flip, sym, uc, mu)
    if best is not None:
      names = [nm for f, nm in zip(best, ("rne-derivative-sign", "symmetrized-smooth-derivative", "unclamped-ctrl-derivative", "no-muscle-derivative")) if f]
      return "implicit:" + names[0], "explained by " + "+".join(names)
  except (np.linalg.LinAlgError, mujoco.FatalError):
    pass
  return None, ""


def check(case, rec):
  mjm = _build(case, rec)
  if mjm.nv == 0:
    raise Reject("nv=0")
  integ = case["opt"]["integrator"]
  contact = case["mode"] == "contact"
  n = case["nworld"]
  dt = float(mjm.opt.timestep)
  slots = _quat_slots(mjm)
  m = H.put_model(mjm)
  d = H.make_data(mjm, nworld=n, nconmax=120, njmax=400)
  g = np.random.default_rng([case["seed"], 11])
  states = []
  for w in range(n):
    s = H.rand_state(mjm, case["seed"] + 37 * w, sigma=case["sigma"], vel=case["vel"], unnorm=case["unnorm"], applied=False)
    s["act"] = H.f32(g.normal(size=mjm.na) * 0.7)
    s["qacc_warmstart"] = H.f32(g.normal(size=mjm.nv) * g.choice([0.0, 3.0]))
    s["time"] = float(np.float32(g.choice([0.0, 0.37, 12.5])))
    if contact and case["seed"] % 3:
      tmp = mujoco.MjData(mjm)
      H.set_mjd(tmp, s)
      try:
        for _ in range([0, 5, 30][case["seed"] % 3]):
          mujoco.mj_step(mjm, tmp)
      except mujoco.FatalError:
        raise Reject("mujoco aborts on this model")
      if np.all(np.isfinite(tmp.qpos)) and np.all(np.isfinite(tmp.qvel)) and np.max(np.abs(tmp.qvel), initial=0) < 50 and not tmp.warning.number.any():
        s["qpos"], s["qvel"], s["act"] = H.f32(tmp.qpos), H.f32(tmp.qvel), H.f32(tmp.act)
    states.append(s)
  H.set_data(d, states)

  has_damp = bool((mjm.dof_damping != 0).any())
  has_veldep = bool(has_damp or (mjm.ntendon and (mjm.tendon_damping != 0).any()) or mjm.opt.density > 0 or mjm.opt.viscosity > 0 or (mjm.nu and ((mjm.actuator_biasprm[:, 2] != 0).any() or (mjm.actuator_gainprm[:, 2] != 0).any())))
  spinning = bool(slots) and case["vel"] > 0
  nontriv = dict(Euler=has_damp and case["eulerdamp"], implicitfast=has_veldep, implicit=has_veldep or spinning, RK4=mjm.na > 0 or case["vel"] > 0)[integ]
  rec.cls(
    f"mode:{case['mode']}", f"integrator:{integ}", f"eulerdamp:{case['eulerdamp']}" if integ == "Euler" else "eulerdamp:n/a", f"na>0:{mjm.na > 0}", f"damping:{has_damp}",
    f"tendon:{mjm.ntendon > 0}", f"fluid:{mjm.opt.density > 0 or mjm.opt.viscosity > 0}", f"free:{bool((mjm.jnt_type == 0).any())}", f"ball:{bool((mjm.jnt_type == 1).any())}",
    *[f"dyn:{int(t)}" for t in set(mjm.actuator_dyntype.tolist())],
  )

  rk4_fe = integ == "RK4" and bool((mjm.actuator_dyntype == int(mujoco.mjtDyn.mjDYN_FILTEREXACT)).any())
  mjds = [mujoco.MjData(mjm) for _ in range(n)]
  for w in range(n):
    H.set_mjd(mjds[w], states[w])  # mocap
  judged = 0
  for i in range(case["k"]):
    ins = [_inputs(mjm, case, w, i) for w in range(n)]
    H.set_data(d, ins)
    pre = dict(qpos=d.qpos.numpy().copy(), qvel=d.qvel.numpy().copy(), act=d.act.numpy().copy(), time=d.time.numpy().copy(), qacc_warmstart=d.qacc_warmstart.numpy().copy())
    if not all(np.all(np.isfinite(v)) for v in pre.values()):
      rec.inconclusive += 1
      break
    mjw.step(m, d)
    if (H.overflow(d) & _CAP).any():
      rec.inconclusive += 1
      return
    post = dict(qpos=d.qpos.numpy(), qvel=d.qvel.numpy(), act=d.act.numpy(), time=d.time.numpy(), qacc_warmstart=d.qacc_warmstart.numpy())
    niters = d.solver_niter.numpy()
    for w in range(n):
      mjd = mjds[w]
      st_w = dict(qpos=H.f32(pre["qpos"][w]), qvel=H.f32(pre["qvel"][w]), act=H.f32(pre["act"][w]), time=float(pre["time"][w]), qacc_warmstart=H.f32(pre["qacc_warmstart"][w]))
      H.set_mjd(mjd, dict(st_w, **ins[w]))
      mjd.warning.number[:] = 0
      try:
        mujoco.mj_step(mjm, mjd)
      except mujoco.FatalError:
        rec.rejected += 1
        continue
      rec.ev()
      if mjd.warning.number.any() or not (np.all(np.isfinite(mjd.qpos)) and np.all(np.isfinite(mjd.qvel)) and np.all(np.isfinite(mjd.qacc))):
        rec.inconclusive += 1
        continue
      if float(np.max(np.abs(mjd.qvel))) > 1e5 or float(np.max(np.abs(mjd.qacc))) > 1e8 or float(np.max(np.abs(mjd.qvel - st_w["qvel"]))) / dt > 1e8:
        rec.inconclusive += 1  # the reference itself explodes in this step (MuJoCo would warn on the next one): outside float32's useful range
        rec.cls("reference-diverges")
        continue
      if contact:
        niter = int(np.max(mjd.solver_niter[: max(1, mjd.nisland)])) if hasattr(mjd, "nisland") else int(mjd.solver_niter[0])
        degenerate = mjd.nefc > 0 and float(np.max(mjd.efc_D)) > 1e10  # row with a (near-)zero Jacobian: R = mjMINVAL, force ~1e16, meaningless in float32
        if niter >= _ITER or int(niters[w]) >= _ITER or degenerate or not _same_constraints(mjm, m, d, w, mjd):
          rec.boundary_skipped += 1
          rec.cls("contact-step:not-comparable")
          continue
        rec.cls(f"contact-step:comparable:nefc>0:{mjd.nefc > 0}")
      M = H.mj_dense_M(mjm, mjd)
      cond = _cond(M)
      if integ in ("implicit", "implicitfast"):
        D = _dense_D(mjm, mjd)
        cond = max(cond, _cond(M - dt * (D if integ == "implicit" else _lowsym(D))))
      elif integ == "Euler" and case["eulerdamp"]:
        cond = max(cond, _cond(M + dt * np.diag(mjm.dof_damping)))
      if not cond <= 1e6:
        rec.boundary_skipped += 1
        continue
      v0, v1 = st_w["qvel"], np.array(mjd.qvel)
      accscale = max(1.0, float(np.max(np.abs(mjd.qacc))), float(np.max(np.abs(v1 - v0))) / dt)
      rtol_acc = 2e-5 * min(max(cond, 10.0), 1e6) / 10.0 + 1e-4
      if contact and mjd.nefc > 0:
        rtol_acc = max(rtol_acc, 2e-2)  # solver output: float32 Newton/CG iterate vs converged float64 reference (DESIGN 2.7: 5e-3 plus margin)
      vscale = max(1.0, float(np.max(np.abs(v1))))
      vtol = rtol_acc * accscale * dt + 4e-6 * vscale
      ctx = dict(world=w, step=i, integrator=integ, cond=cond)
      # time and activations
      t1 = float(mjd.time)
      te = abs(float(post["time"][w]) - t1)
      rec.err("time", te / max(1.0, abs(t1)))
      if not te <= 1e-6 * max(1.0, abs(t1)):
        rec.violation(f"time after step: {float(post['time'][w])!r} vs MuJoCo {t1!r}", sig="time", **ctx)
      if mjm.na:
        ascale = max(1.0, float(np.max(np.abs(mjd.act))), float(np.max(np.abs(mjd.act - st_w["act"]))))
        fe = np.zeros(mjm.na, dtype=bool)  # activation slots of filterexact actuators
        for u in range(mjm.nu):
          if mjm.actuator_dyntype[u] == int(mujoco.mjtDyn.mjDYN_FILTEREXACT) and mjm.actuator_actnum[u] > 0:
            fe[mjm.actuator_actadr[u] : mjm.actuator_actadr[u] + mjm.actuator_actnum[u]] = True
        atol = 2e-5 if integ != "RK4" else 1e-4
        if integ == "RK4" and fe.any():
          if relerr(post["act"][w][fe], mjd.act[fe], scale=ascale) > atol:
            rec.violation(
              f"act of filterexact actuators after an RK4 step differs from mj_step (slots {np.nonzero(fe)[0].tolist()}): {post['act'][w][fe].tolist()} vs {mjd.act[fe].tolist()}",
              sig="RK4:act:filterexact-stages", **ctx,
            )
            continue  # qvel/qpos inherit the different stage activations
          check_close(rec, "act", post["act"][w][~fe], mjd.act[~fe], atol, scale=ascale, sig=f"{integ}:act", **ctx)
        else:
          check_close(rec, "act", post["act"][w], mjd.act, atol, scale=ascale, sig=f"{integ}:act", **ctx)
      # velocity
      ev = float(np.max(np.abs(post["qvel"][w].astype(np.float64) - v1))) if np.all(np.isfinite(post["qvel"][w])) else float("inf")
      if ev <= vtol:
        rec.err(f"qvel/tol:{integ}:{case['mode']}", ev / vtol)
      if not ev <= vtol:
        sig, why = ("RK4:act:filterexact-stages", "model has filterexact activations, whose RK4 stage values differ") if rk4_fe else _attribute(mjm, st_w, dict(ins[w], mocap_pos=states[w]["mocap_pos"], mocap_quat=states[w]["mocap_quat"]), integ, v0, post["qvel"][w].astype(np.float64), vtol)
        idx = int(np.argmax(np.abs(post["qvel"][w].astype(np.float64) - v1)))
        if _CALIB and sig is None:
          rec.err(f"qvel/tol:{integ}:{case['mode']}", ev / vtol)
          rec.notes[f"calib-over:{integ}:fluid={mjm.opt.density > 0 or mjm.opt.viscosity > 0}:{case['mode']}:{min(int(ev / vtol), 10)}"] += 1
          continue
        rec.violation(
          f"qvel after {integ} step differs from mj_step: err {ev:.3g} > tol {vtol:.3g} at dof {idx}: {float(post['qvel'][w][idx])!r} vs {float(v1[idx])!r} (cond {cond:.3g}, accscale {accscale:.3g}) {why}",
          sig=sig or f"{integ}:qvel", err=ev, tol=vtol, index=idx, **ctx,
        )
        continue  # the fields below inherit the same discrepancy
      # position
      pscale = max(1.0, float(np.max(np.abs(mjd.qpos))))
      ptol = vtol * dt + 2e-5 * pscale * (1.0 + vscale * dt)
      ep = _qpos_err(mjm, slots, post["qpos"][w], mjd.qpos)
      if ep <= ptol:
        rec.err(f"qpos/tol:{case['mode']}", ep / ptol)
      if not ep <= ptol and _CALIB:
        rec.notes[f"calib-over-qpos:{integ}:{min(int(ep / ptol), 10)}"] += 1
      elif not ep <= ptol:
        rec.violation(f"qpos after {integ} step differs from mj_step: err {ep:.3g} > tol {ptol:.3g}", sig="RK4:act:filterexact-stages" if rk4_fe else f"{integ}:qpos", err=ep, tol=ptol, **ctx)
      # warmstart (= the acceleration the step used for the state advance's forward pass)
      wtol = rtol_acc * accscale
      ew = relerr(post["qacc_warmstart"][w], mjd.qacc_warmstart, scale=1.0, floor=1.0)
      if ew <= wtol:
        rec.err(f"qacc_warmstart/tol:{case['mode']}", ew / wtol)
      if not ew <= wtol and _CALIB:
        rec.notes[f"calib-over-warm:{integ}:{case['mode']}:{min(int(ew / wtol), 10)}"] += 1
      elif not ew <= wtol:
        rec.violation(f"qacc_warmstart after {integ} step differs from mj_step: err {ew:.3g} > tol {wtol:.3g}", sig="RK4:act:filterexact-stages" if rk4_fe else f"{integ}:qacc_warmstart", err=ew, tol=wtol, **ctx)
      judged += 1
  if nontriv and judged:
    rec.nt()
