"""C39 contact_force reports the contact wrench (differential against mujoco.mj_contactForce)."""

from __future__ import annotations

import numpy as np
import warp as wp
from hypothesis import strategies as st

import mujoco
import mujoco_warp as mjw

from vf import solvercase
from vf.core import check_close, check_equal

RULE = (
  "case = random contact scene with all condims, both cones, adhesion actuators or passive geom/pair contact adhesion, after forward(); MJWarp's solved efc.force is written into the MuJoCo MjData that holds the "
  "same (matched) contacts/rows, then mujoco.mj_contactForce is compared with mjw.contact_force for every contact of the world, in the contact frame and rotated to the world "
  "frame (frame^T of MJWarp's own d.contact.frame for that contact, itself within 1e-3 of MuJoCo's by the matching), 2e-4 relative; requested ids >= nacon must leave the output untouched; evaluation = one world; non-trivial = a condim>=3 contact with non-zero tangential force, or a contact with non-zero contact.adhesion"
)
ASSUMPTIONS = ["mujoco.mj_contactForce on MuJoCo's contact/efc bookkeeping is the reference decoder", "worlds whose contact/row sets differ from MuJoCo's are skipped (counted)"]
BUDGET = {"quick": dict(examples=400, seconds=420, workers=16), "thorough": dict(examples=10000, seconds=1500, workers=16)}


def strategy(tier):
  # "adhesion" is both the adhesion actuator (a force on the body's contacts that the solver sees) and the passive contact
  # adhesion of geoms/pairs (contact.adhesion, which the decoder subtracts from the normal force)
  return st.one_of(solvercase.strategy(tier), solvercase.strategy(tier, adhesion=True), solvercase.strategy(tier, contact_adhesion=True))


def check(case, rec):
  mjm, m, d, worlds = solvercase.evaluate(case, rec)
  nacon = int(d.nacon.numpy()[0])
  for W in worlds:
    if not W.comparable or len(W.cm["dist"]) == 0:
      rec.boundary_skipped += 1
      continue
    rec.ev()
    w = W.w
    mjd = W.mjd
    fw = W.ew["force"][W.perm].astype(np.float64)
    keep = np.array(mjd.efc_force)
    mjd.efc_force[:] = fw
    ids = W.gids.astype(np.int32)
    sentinel = np.float32(-123.5)
    extra = np.array([nacon, nacon + 3, d.naconmax - 1 if d.naconmax - 1 >= nacon else nacon], dtype=np.int32)
    all_ids = np.concatenate([ids, extra])
    tangential = False
    adhesive = bool(np.any(np.array(mjd.contact.adhesion[: len(W.cm["dist"])]) != 0.0))
    for to_world in (False, True):
      out = wp.array(np.full((len(all_ids), 6), sentinel, dtype=np.float32), dtype=wp.spatial_vector)
      mjw.contact_force(m, d, wp.array(all_ids, dtype=int), to_world, out)
      o = out.numpy()
      for b in range(len(W.cm["dist"])):
        a = W.pairs[b]
        ref = np.zeros(6)
        mujoco.mj_contactForce(mjm, mjd, b, ref)
        if to_world:
          # "rotated to the world frame" means by the frame MJWarp reports for this contact (d.contact.frame, read back
          # independently).  MuJoCo's own frame for the matched contact may differ by narrowphase roundoff (matching
          # allows 1e-3, C04's business), which a 1e4 N force amplifies past any force tolerance.
          R = np.asarray(W.cw["frame"][a], dtype=np.float64).reshape(3, 3)
          ref = np.concatenate([R.T @ ref[:3], R.T @ ref[3:]])
        scale = max(1.0, float(np.max(np.abs(ref))))
        check_close(rec, f"contact_force(world={to_world})", o[a], ref, 2e-4, scale=scale, sig=f"wrench:{'world' if to_world else 'contact'}:dim{int(W.cm['dim'][b])}", world=w, contact=b, dim=int(W.cm["dim"][b]), cone=case["opt"]["cone"])
        tangential |= int(W.cm["dim"][b]) >= 3 and float(np.linalg.norm(ref[1:3])) > 1e-6
      for k in range(len(ids), len(all_ids)):
        if all_ids[k] >= nacon:
          check_equal(rec, "contact_force(id>=nacon)", o[k], np.full(6, sentinel), sig="writes-beyond-nacon", world=w, id=int(all_ids[k]), nacon=nacon)
    mjd.efc_force[:] = keep
    rec.cls(f"cone:{case['opt']['cone']}", f"tangential:{tangential}", f"contact-adhesion:{adhesive}", *[f"dim:{int(x)}" for x in set(W.cm["dim"].tolist())])
    if tangential or adhesive:
      rec.nt(extra=w)
