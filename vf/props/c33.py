"""C33 set_const recomputes derived model fields correctly (differential against mujoco.mj_setConst, per world)."""

from __future__ import annotations

import copy

import mujoco
import numpy as np
import warp as wp
from hypothesis import strategies as st

import mujoco_warp as mjw
from mujoco_warp._src import smooth

from vf import gen, mjw as H
from vf.core import Reject, check_close, check_equal

RULE = (
  "case = random articulated model (free/ball/hinge/slide trees, explicit and geom-derived inertials, fixed + spatial tendons, connect/weld/joint/"
  "tendon equalities incl. site-based ones, position actuators with dampratio plus motor/velocity/general on joint/tendon/site transmissions, "
  "cameras and lights in every tracking mode, dense/sparse) x nworld 2-4 x per-world (or shared) edits of a drawn subset of body_mass, "
  "body_inertia, body_pos/quat, body_ipos/iquat, qpos0, qpos_spring, dof_armature, eq_data (anchors; weld quaternion zeroed, kept or unnormalised), "
  "tendon stiffness/lengthspring (incl. the (-1,-1) 'compute' marker) and position-actuator kp/dampratio through batched Model arrays x called "
  "function (set_const / set_const_0 / set_const_fixed / set_const_spring; sub-functions get only the edits the docstring says they cover) x "
  "restore flag x random Data state; oracle: per world, mujoco.mj_setConst on an MjModel holding that world's values == the derived fields the "
  "called function documents (body_subtreemass; tendon_length0, eq_data, dof/body/tendon_invweight0, cam_pos0/poscom0/mat0, light_pos0/poscom0/"
  "dir0, actuator_acc0, actuator_biasprm[2]; stat.meaninertia; tendon_lengthspring) to 1e-4 of max(element, 0.1 field scale, 0.05) (inverse weights: 1e-3 of "
  "max(element, 0.01 field scale)), "
  "state (qpos, qvel, act, ctrl, time, warmstart, applied forces, mocap, eq_active) bitwise unchanged, and with restore=True the position-"
  "dependent Data fields equal a fresh evaluation at d.qpos with the updated model; evaluation = one (world, field group); non-trivial = edits "
  "differ between worlds (or from the compiled model) and change at least one derived field by > 1e-3"
)
ASSUMPTIONS = [
  "MuJoCo C 3.13 mj_setConst is the reference; MjModel copies have the compiler's *_sameframe shortcut flags cleared, and body_ipos/body_iquat are "
  "edited only on bodies with body_simple == 0 (the 'simple body' shortcut and the diagonal-only inertia sparsity are compile-time decisions)",
  "derived output fields are given nworld rows whenever any edited field has nworld rows (writing per-world results into a shared row is a usage error)",
  "mass matrices with condition number > 1e5 at qpos0 are skipped for the inverse-weight fields (float32 factorisation), counted in boundary_skipped",
  "body_pos/body_quat are edited only on bodies that are not welded to the world (the docstring calls static bodies unsafe: static geom poses are frozen at make_data)",
  "no mocap bodies, no flex, contacts irrelevant (no collision is run)",
]
BUDGET = {"quick": dict(examples=320, seconds=420, workers=16), "thorough": dict(examples=6000, seconds=1500, workers=16)}

_FIXED = ["body_subtreemass"]
_ZERO = ["tendon_length0", "eq_data", "dof_invweight0", "body_invweight0", "tendon_invweight0", "cam_pos0", "cam_poscom0", "cam_mat0", "light_pos0", "light_poscom0",
         "light_dir0", "actuator_acc0", "actuator_biasprm"]
_SPRING = ["tendon_lengthspring"]
_INVW = {"dof_invweight0", "body_invweight0", "tendon_invweight0", "actuator_acc0", "actuator_biasprm"}
_CAMLIGHT = {"cam_pos0", "cam_poscom0", "cam_mat0", "light_pos0", "light_poscom0", "light_dir0"}
_TRACK = (int(mujoco.mjtCamLight.mjCAMLIGHT_TRACK), int(mujoco.mjtCamLight.mjCAMLIGHT_TRACKCOM))
_TARGET = (int(mujoco.mjtCamLight.mjCAMLIGHT_TARGETBODY), int(mujoco.mjtCamLight.mjCAMLIGHT_TARGETBODYCOM))
_EDITS = ["mass", "inertia", "pos", "quat", "ipos", "iquat", "qpos0", "armature", "eq_data", "tendon", "gains", "qpos_spring"]
# edits a sub-function is documented to cover on its own (set_const covers all)
_COVERS = {
  "set_const": set(_EDITS),
  "set_const_0": {"inertia", "pos", "quat", "ipos", "iquat", "qpos0", "armature", "eq_data", "gains"},
  "set_const_fixed": {"mass"},
  "set_const_spring": {"qpos_spring", "tendon", "pos", "quat", "qpos0"},
}
_OUT = {"set_const": _FIXED + _ZERO + _SPRING + ["meaninertia"], "set_const_0": _ZERO + ["meaninertia"], "set_const_fixed": _FIXED, "set_const_spring": _SPRING}
_EDIT_FIELDS = ["body_mass", "body_inertia", "body_pos", "body_quat", "body_ipos", "body_iquat", "qpos0", "qpos_spring", "dof_armature", "eq_data", "tendon_stiffness",
                "tendon_lengthspring", "actuator_gainprm", "actuator_biasprm"]
_STATE = ["qpos", "qvel", "act", "ctrl", "time", "qacc_warmstart", "qfrc_applied", "xfrc_applied", "eq_active", "mocap_pos", "mocap_quat"]
_POSDEP = ["xpos", "xquat", "xmat", "xipos", "ximat", "xanchor", "xaxis", "geom_xpos", "geom_xmat", "site_xpos", "site_xmat", "cam_xpos", "cam_xmat", "light_xpos", "light_xdir",
           "subtree_com", "cdof", "cinert", "crb", "ten_length", "ten_J", "actuator_length", "actuator_moment", "M", "qLD", "qLDiagInv"]
_POSDEP_SPRING = ["xpos", "xquat", "xmat", "xipos", "ximat", "xanchor", "xaxis", "geom_xpos", "geom_xmat", "site_xpos", "site_xmat", "subtree_com", "cdof", "cinert", "ten_length",
                  "ten_J", "actuator_length", "actuator_moment"]


def strategy(tier):
  big = tier == "thorough"
  return st.fixed_dictionaries(
    dict(
      cfg=gen.cfg_strategy(
        nroot=st.integers(1, 3 if not big else 5), maxdepth=st.integers(0, 2 if not big else 3), maxchild=st.integers(1, 2), p_multi_joint=st.sampled_from([0.0, 0.4]),
        p_weld=st.sampled_from([0.0, 0.3]), static_roots=st.sampled_from([0.0, 0.3]), dynamics=True, limits=st.sampled_from([0.0, 0.5]), tendons=st.integers(0, 2),
        spatial_tendons=st.integers(0, 2), wrap=st.booleans(), pulley=st.booleans(), equalities=st.integers(0, 3), eq_sites=st.booleans(), p_eq_inactive=0.2,
        actuators=st.integers(0, 4), act_menu=st.sampled_from([["position", "position", "motor"], ["position", "motor", "velocity", "general", "intvelocity"]]),
        trn_menu=st.sampled_from([["joint"], ["joint", "tendon", "site", "jointinparent", "slidercrank"]]), cameras=st.integers(0, 3), lights=st.integers(0, 3),
        inertial=st.booleans(), sites=1.0, geom_menu=st.sampled_from([["sphere", "capsule", "box"], ["sphere"]]), unnorm=st.booleans(),
      ),
      jacobian=st.sampled_from(["dense", "sparse"]),
      nworld=st.integers(2, 4),
      shared=st.sampled_from([False, False, False, True]),
      fn=st.sampled_from(["set_const", "set_const", "set_const_0", "set_const_0", "set_const_fixed", "set_const_spring"]),
      restore=st.booleans(),
      edits=st.lists(st.sampled_from(_EDITS), min_size=1, max_size=6, unique=True),
      style=st.sampled_from(["replace", "batch_sizes"]),
      seed=st.integers(0, 10**6),
    )
  )


# --------------------------------------------------------------------------------------


def _small_quat(g, ang):
  ax = g.normal(size=3)
  ax /= np.linalg.norm(ax)
  th = g.uniform(-ang, ang)
  return np.concatenate([[np.cos(th / 2)], np.sin(th / 2) * ax])


def _rotq(q, g, ang=0.6):
  out = np.zeros(4)
  mujoco.mju_mulQuat(out, q / np.linalg.norm(q), _small_quat(g, ang))
  return out / np.linalg.norm(out)


def apply_edits(mjm, kinds, g):
  """Edits the MjModel copy in place (valid values: positive masses, inertias scaled as a whole, unit quaternions)."""
  nb = mjm.nbody
  for kind in kinds:
    if kind == "mass":
      f = g.uniform(0.4, 2.5, size=nb)
      f[0] = 1.0
      mjm.body_mass[:] *= f
      if g.uniform() < 0.7:  # mass and inertia usually scale together
        mjm.body_inertia[:] *= f[:, None]
    elif kind == "inertia":
      mjm.body_inertia[:] *= g.uniform(0.4, 2.5, size=(nb, 1))
    elif kind == "pos":  # (set_const's docstring: body_pos/body_quat are unsafe for static bodies)
      for b in range(1, nb):
        if mjm.body_weldid[b] != 0:
          mjm.body_pos[b] += g.uniform(-0.15, 0.15, size=3)
    elif kind == "quat":
      for b in range(1, nb):
        if mjm.body_weldid[b] != 0:
          mjm.body_quat[b] = _rotq(mjm.body_quat[b], g)
    elif kind == "ipos":
      for b in range(1, nb):
        if mjm.body_simple[b] == 0:
          mjm.body_ipos[b] += g.uniform(-0.05, 0.05, size=3)
    elif kind == "iquat":
      for b in range(1, nb):
        if mjm.body_simple[b] == 0:
          mjm.body_iquat[b] = _rotq(mjm.body_iquat[b], g)
    elif kind in ("qpos0", "qpos_spring"):
      a = mjm.qpos0 if kind == "qpos0" else mjm.qpos_spring
      for j in range(mjm.njnt):
        t, adr = int(mjm.jnt_type[j]), int(mjm.jnt_qposadr[j])
        if t == int(mujoco.mjtJoint.mjJNT_FREE):
          a[adr : adr + 3] += g.uniform(-0.3, 0.3, size=3)
          a[adr + 3 : adr + 7] = _rotq(a[adr + 3 : adr + 7], g)
        elif t == int(mujoco.mjtJoint.mjJNT_BALL):
          a[adr : adr + 4] = _rotq(a[adr : adr + 4], g)
        else:
          a[adr] += g.uniform(-0.5, 0.5)
    elif kind == "armature":
      mjm.dof_armature[:] = mjm.dof_armature * g.uniform(0.5, 2.0, size=mjm.nv) + g.uniform(0.0, 0.1, size=mjm.nv) * (g.uniform(size=mjm.nv) < 0.5)
    elif kind == "eq_data":
      for e in range(mjm.neq):
        t = int(mjm.eq_type[e])
        if t == int(mujoco.mjtEq.mjEQ_CONNECT):
          mjm.eq_data[e, 0:3] += g.uniform(-0.1, 0.1, size=3)
        elif t == int(mujoco.mjtEq.mjEQ_WELD):
          mjm.eq_data[e, 0:3] += g.uniform(-0.1, 0.1, size=3)
          u = g.uniform()
          if u < 0.4:
            mjm.eq_data[e, 6:10] = 0.0  # "not set": relative pose recomputed at qpos0
          elif u < 0.7:
            mjm.eq_data[e, 6:10] = _rotq(np.array([1.0, 0, 0, 0]) if not np.any(mjm.eq_data[e, 6:10]) else mjm.eq_data[e, 6:10], g) * g.uniform(0.3, 3.0)
          mjm.eq_data[e, 10] *= g.uniform(0.5, 2.0)
        else:
          mjm.eq_data[e, 0:5] += g.uniform(-0.1, 0.1, size=5)
    elif kind == "tendon":
      for t in range(mjm.ntendon):
        u = g.uniform()
        if u < 0.5:
          mjm.tendon_lengthspring[t] = (-1.0, -1.0)
        elif u < 0.75:
          lo = g.uniform(0.0, 0.5)
          mjm.tendon_lengthspring[t] = (lo, lo + g.uniform(0.0, 0.3))
        mjm.tendon_stiffness[t] = 0.0 if g.uniform() < 0.3 else g.uniform(1.0, 20.0)
    elif kind == "gains":
      for a in range(mjm.nu):
        if int(mjm.actuator_biastype[a]) == int(mujoco.mjtBias.mjBIAS_AFFINE) and int(mjm.actuator_gaintype[a]) == int(mujoco.mjtGain.mjGAIN_FIXED):
          kp = g.uniform(1.0, 100.0)
          mjm.actuator_gainprm[a, 0] = kp
          mjm.actuator_biasprm[a, 1] = -kp
          u = g.uniform()
          if u < 0.6:
            mjm.actuator_biasprm[a, 2] = g.uniform(0.1, 2.0)  # positive: a damping ratio to be resolved
          elif u < 0.8:
            mjm.actuator_biasprm[a, 2] = -g.uniform(0.0, 5.0)  # explicit kv: untouched


def _mj_field(mjm, f):
  if f == "meaninertia":
    return np.array([mjm.stat.meaninertia])
  return np.array(getattr(mjm, f))


def _mjw_field(m, f, w):
  arr = m.stat.meaninertia if f == "meaninertia" else getattr(m, f)
  a = arr.numpy()
  return np.array(a[w % a.shape[0]], dtype=np.float64)


def _elem_close(rec, name, got, want, tol, sig, rel_floor=0.1, abs_floor=0.05, **ctx):
  """|got - want| <= tol * max(|want|, rel_floor * max|want|, abs_floor) elementwise."""
  got = np.asarray(got, np.float64).reshape(-1)
  want = np.asarray(want, np.float64).reshape(-1)
  if got.shape != want.shape:
    rec.violation(f"{name}: shape {got.shape} vs {want.shape}", sig=sig, **ctx)
    return
  if not want.size:
    return
  if not np.all(np.isfinite(got)):
    rec.violation(f"{name}: non-finite value written: {got[~np.isfinite(got)][:3]}", sig=sig, field=name, **ctx)
    return
  den = np.maximum(np.maximum(np.abs(want), rel_floor * np.max(np.abs(want))), abs_floor)
  e = np.abs(got - want) / den
  i = int(np.argmax(e))
  rec.err(name, e[i])
  if not e[i] <= tol:
    rec.violation(f"{name}: element {i} got {got[i]:.7g} want {want[i]:.7g} (rel {e[i]:.3g} > {tol:.3g}) {ctx}", sig=sig, field=name, index=i, got=float(got[i]), want=float(want[i]), err=float(e[i]), tol=tol, **ctx)


def _noisy_moment_rows(mjm):
  """Per actuator: does its moment row at qpos0 (MuJoCo, float64) hold a structural entry below 1e-6 of the row's largest one?"""
  d = mujoco.MjData(mjm)
  d.qpos[:] = mjm.qpos0
  mujoco.mj_kinematics(mjm, d)
  mujoco.mj_comPos(mjm, d)
  mujoco.mj_tendon(mjm, d)
  mujoco.mj_transmission(mjm, d)
  out = np.zeros(mjm.nu, bool)
  for a in range(mjm.nu):
    row = np.abs(np.asarray(d.actuator_moment)[d.moment_rowadr[a] : d.moment_rowadr[a] + d.moment_rownnz[a]])
    out[a] = bool(row.size and (row < 1e-6 * max(float(row.max()), 1.0)).any())  # also a row that vanishes altogether (degenerate crank)
  return out


def _noisy_moment_rows_mjw(mjm):
  """Same question asked of MJWarp's own moment rows at qpos0 (float32): an entry below 1e-6 of the row's largest one."""
  m = H.put_model(mjm)
  d = H.make_data(mjm)
  mjw.fwd_position(m, d)
  adr, nnz, val = d.moment_rowadr.numpy()[0], d.moment_rownnz.numpy()[0], d.actuator_moment.numpy()[0]
  out = np.zeros(mjm.nu, bool)
  for a in range(mjm.nu):
    row = np.abs(val[adr[a] : adr[a] + nnz[a]])
    out[a] = bool(row.size and (row < 1e-6 * max(float(row.max()), 1.0)).any())
  return out


def _cond_M(mjm):
  d = mujoco.MjData(mjm)
  d.qpos[:] = mjm.qpos0
  mujoco.mj_forward(mjm, d)
  M = np.zeros((mjm.nv, mjm.nv))
  M[:] = H.mj_dense_M(mjm, d)
  try:
    return float(np.linalg.cond(M))
  except np.linalg.LinAlgError:
    return float("inf")


def check(case, rec):
  cfg = dict(case["cfg"])
  cfg["option"] = dict(jacobian=case["jacobian"])
  cfg["mocap"] = 0
  spec = gen.make_spec(cfg)
  base = copy.deepcopy(H.compile_spec(spec))
  if base.nv == 0:
    raise Reject("nv=0")
  for k in ("body_sameframe", "geom_sameframe", "site_sameframe"):
    getattr(base, k)[:] = 0
  n, fn, restore = case["nworld"], case["fn"], case["restore"]
  kinds = [k for k in case["edits"] if k in _COVERS[fn]]
  if not kinds:
    kinds = [sorted(_COVERS[fn])[case["seed"] % len(_COVERS[fn])]]
  g = np.random.default_rng(case["seed"])
  nrow = 1 if case["shared"] else n

  # per-world MjModels: edited, then the reference
  edited, refs = [], []
  for r in range(nrow):
    e = copy.deepcopy(base)
    apply_edits(e, kinds, g)
    ref = copy.deepcopy(e)
    try:
      mujoco.mj_setConst(ref, mujoco.MjData(ref))
    except mujoco.FatalError as err:
      raise Reject(f"mujoco: {err}")
    if not all(np.all(np.isfinite(_mj_field(ref, f))) for f in _OUT["set_const"]):
      rec.inconclusive += 1
      rec.cls("discarded:reference-nonfinite")
      return
    edited.append(e)
    refs.append(ref)

  # device model: edited inputs and all derived outputs get nrow rows
  fields = _EDIT_FIELDS + [f for f in _OUT["set_const"] if f not in _EDIT_FIELDS and f != "meaninertia"]
  bs = {f: nrow for f in fields} if case["style"] == "batch_sizes" else {}
  m = H.put_model(base, batch_sizes=bs)
  m_rows = [H.put_model(e) for e in edited]
  for f in fields:
    cur = getattr(m, f)
    if cur is None or cur.size == 0:
      continue
    stacked = np.stack([getattr(mr, f).numpy()[0] for mr in m_rows])
    if cur.shape[0] == nrow:
      cur.assign(stacked)
    else:
      setattr(m, f, wp.array(stacked, dtype=cur.dtype))
  m.stat.meaninertia = wp.array(np.array([e.stat.meaninertia for e in edited], dtype=np.float32), dtype=float)

  d = H.make_data(base, nworld=n)
  states = [H.rand_state(base, case["seed"] + 17 * w, sigma=0.5, vel=1.0, applied=True) for w in range(n)]
  for w in range(n):
    states[w]["time"] = float(g.uniform(0, 3))
    states[w]["qacc_warmstart"] = H.f32(g.normal(size=base.nv))
    if base.neq:
      states[w]["eq_active"] = g.uniform(size=base.neq) < 0.7
  H.set_data(d, states)
  mjw.forward(m, d)  # Data consistent with d.qpos before the call ("restore" can only promise to undo the function's own disturbance)
  before = {k: getattr(d, k).numpy().copy() for k in _STATE}

  call = getattr(mjw, fn)
  if fn == "set_const_fixed":
    call(m, d)
  else:
    call(m, d, restore)

  # (1) state restored bitwise
  rec.ev()
  for k in _STATE:
    check_equal(rec, f"state.{k}", getattr(d, k).numpy(), before[k], sig=f"state:{k}", fn=fn, restore=restore)

  # (2) derived fields per world
  changed = False
  cond_skip = None
  for w in range(n):
    ref, e = refs[w % nrow], edited[w % nrow]
    for f in _OUT[fn]:
      want = _mj_field(ref, f)
      if want.size == 0:
        continue
      got = _mjw_field(m, f, w)
      if f in _INVW or f == "meaninertia":
        if cond_skip is None:
          cond_skip = [_cond_M(x) > 1e5 for x in edited]
        if cond_skip[w % nrow] and f in _INVW:
          rec.boundary_skipped += 1
          continue
      rec.ev()
      if f == "actuator_biasprm":
        got, want = got.reshape(want.shape)[:, :3], want[:, :3]
      tol = 1e-3 if f in _INVW else 1e-4
      if f == "body_invweight0":
        # MJWarp replaces a zero translational/rotational inverse weight by the other component ("prevent degenerate constraints");
        # mj_setConst (3.13) leaves it 0 (e.g. the rotational weight of a body that can only slide): its own class
        got, want = got.copy(), want.copy()
        other = want[:, ::-1]
        fb = (want < 1e-14) & (other > 1e-14) & (np.abs(got - other) <= tol * np.abs(other))
        if fb.any():
          rec.cls("body_invweight0:zero-fallback-seen")
          rec.violation(f"body_invweight0: zero component replaced by the other one: got {got[fb][:2]} want 0 (bodies {np.nonzero(fb.any(axis=1))[0][:4].tolist()})",
                        sig="body_invweight0:zero-fallback", fn=fn, world=w)
          got[fb] = want[fb]
      if f == "actuator_biasprm":
        # dampratio resolution sums dof_M0 / moment^2 over the dofs of the transmission: MJWarp keeps entries with |moment| > 1e-15, so a
        # structurally present but analytically zero moment entry (float32 round-off ~1e-8, e.g. slider-crank / site transmissions) blows
        # the reflected mass up; MuJoCo skips them.  Own class, only for actuators that have such an entry in the reference.
        noisy = _noisy_moment_rows(e)
        big = np.abs(got[:, 2]) > 10 * np.abs(want[:, 2]) + 1.0
        if (big & ~noisy).any():
          # MJWarp's own moment row can hold structural entries MuJoCo's row does not have at all (slider-crank: the crank's parent dof)
          noisy = noisy | _noisy_moment_rows_mjw(e)
        for a_ in np.nonzero(noisy)[0]:
          if abs(got[a_, 2]) > 10 * abs(want[a_, 2]) + 1.0:
            rec.cls("dampratio:noise-moment-seen")
            rec.violation(f"actuator_biasprm[{a_}][2]: got {got[a_, 2]:.6g} want {want[a_, 2]:.6g} (moment row has round-off-sized entries)", sig="dampratio:noise-moment", fn=fn, world=w)
            got = got.copy()
            got[a_, 2] = want[a_, 2]
      if f in _CAMLIGHT:
        # per camera / light, by tracking mode: two known classes get their own signature
        mode = np.asarray(base.cam_mode if f.startswith("cam") else base.light_mode)
        g2, w2 = got.reshape(len(mode), -1), want.reshape(len(mode), -1)
        for i in range(len(mode)):
          if int(mode[i]) in _TARGET and f in ("cam_mat0", "light_dir0"):
            sg = "camlight0:target-mode-lookat"
          elif int(mode[i]) in _TRACK:
            sg = "camlight0:track-mode-stale"
          else:
            sg = f"{fn}:{f}"
          _elem_close(rec, f if sg.startswith(fn) else f"{f}[{sg}]", g2[i], w2[i], tol, sig=sg, fn=fn, world=w, restore=restore, edits=kinds, elem=i, mode=int(mode[i]))
      else:
        fl = dict(rel_floor=1e-2, abs_floor=1e-3) if f in _INVW else {}  # inverse weights span decades: judged relative to the element
        _elem_close(rec, f, got, want, tol, sig=f"{fn}:{f}", fn=fn, world=w, restore=restore, edits=kinds, **fl)
      b0 = _mj_field(base, f)
      if np.max(np.abs(want - (b0[:, :3] if f == "actuator_biasprm" else b0)) / np.maximum(np.abs(want), 1e-2)) > 1e-3:
        changed = True

  # (3) restore=True: position-dependent Data fields correspond to d.qpos under the updated model
  if restore and fn != "set_const_fixed":
    d2 = H.make_data(base, nworld=n)
    H.set_data(d2, states)
    smooth.kinematics(m, d2)
    smooth.com_pos(m, d2)
    if fn != "set_const_spring":
      smooth.camlight(m, d2)
      smooth.flex(m, d2)
    smooth.tendon(m, d2)
    if fn != "set_const_spring":
      smooth.crb(m, d2)
      smooth.tendon_armature(m, d2)
      smooth.factor_m(m, d2)
    smooth.transmission(m, d2)
    rec.ev()
    for k in _POSDEP_SPRING if fn == "set_const_spring" else _POSDEP:
      a, b = getattr(d, k).numpy(), getattr(d2, k).numpy()
      if a.size == 0:
        continue
      if np.array_equal(a, b):
        rec.notes["restore_bitwise"] += 1
        continue
      rec.notes["restore_nonbitwise"] += 1
      check_close(rec, f"restore.{k}", a, b, 1e-5, sig=f"restore:{k}", fn=fn)

  differ = nrow > 1 and any(not np.array_equal(getattr(edited[0], f), getattr(edited[r], f)) for f in _EDIT_FIELDS for r in range(1, nrow))
  rec.cls(f"fn:{fn}", f"restore:{restore}", f"shared:{case['shared']}", f"nworld:{n}", f"sparse:{bool(m.is_sparse)}", f"style:{case['style']}", f"changed:{changed}",
          *[f"edit:{k}" for k in kinds], f"neq:{min(base.neq, 2)}", f"ntendon:{min(base.ntendon, 2)}", f"nu:{min(base.nu, 2)}", f"ncam:{min(base.ncam, 1)}", f"nlight:{min(base.nlight, 1)}")
  if changed and (differ or nrow == 1):
    rec.nt()
