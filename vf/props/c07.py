"""C07 Sensors and energy agree with MuJoCo C (differential)."""

from __future__ import annotations

import numpy as np
from hypothesis import strategies as st

import mujoco
import mujoco_warp as mjw
from mujoco_warp._src.types import OverflowType as OT

from vf import gen, mjw as H, x07_sensors as X
from vf.core import Reject

RULE = (
  "case = random articulated model (free/ball/hinge/slide, mocap, sites with all five zone shapes, body+world cameras with fovy/focal/focalpixel intrinsics, "
  "fixed+spatial tendons, actuators, limits, equalities, optional plane+pile contacts, both cones, dense/sparse) with 1-12 sensors drawn over every supported sensor type "
  "and every objtype/reftype (body/xbody/geom/site/camera, moving and static reference frames), cutoff in {0, small, large}, energy flag on/off, gravity/spring disable flags, "
  "random (qpos,qvel,act,ctrl,applied forces,mocap,time), nworld 1-2 with different states, after forward(); oracle = mujoco.mj_forward on the same float32 state: "
  "d.sensordata compared sensor by sensor (sliced with sensor_adr/dim) and d.energy; solver-dependent sensors (touch, contact, force, torque, accelerometer, framelin/angacc, "
  "joint/tendonlimitfrc) only when both engines report the same contacts and rows, both solvers converged and qacc/efc_force agree, otherwise boundary_skipped; "
  "evaluation = one (world, sensor) comparison or one energy comparison; non-trivial = >=3 distinct sensor types and >=1 sensor with a reference frame or a clamping cutoff"
)
ASSUMPTIONS = [
  "MuJoCo C 3.13 mj_forward is the reference",
  "tolerances relative to max(1, |reference|, stage scale = max |cvel|, |cacc|, |cfrc|, |efc_force|): position 1e-4, velocity/actuator force 1e-4, acceleration/force 2e-3, "
  "energy 1e-4; geom distance 1e-3, fromto 2e-3, normal 1e-2 (GJK/EPA); largest errors seen over 5 seeds: 5e-6 position, 2e-6 velocity, 1.1e-4 force, 4.7e-4 geom normal",
  "upstream stages are other properties' business: actuator-force sensors are judged only where actuator_force/qfrc_actuator agree with MuJoCo (C03), "
  "solver-dependent sensors only where contacts/rows match, both solvers converged and qacc / sorted efc_force agree within 2e-4 (C04-C06)",
  "with the energy flag off, a zero in Data.energy is accepted where MuJoCo leaves the value an energy sensor computed as a side effect",
  "classes in KNOWN_EXCLUDED are reported defects excluded by construction (counted in excluded_by_construction)",
  "discontinuous sensors (rangefinder at silhouettes, insidesite/touch/contact-site at zone boundaries, distance at cutoff, contact sensor ties) are skipped "
  "only when the reference itself changes under a 1e-3 perturbation",
  "contact sensors with reduce=none are compared as multisets of slots (contact order is not part of the property)",
]
BUDGET = {"quick": dict(examples=480, seconds=420, workers=16), "thorough": dict(examples=40000, seconds=1500, workers=16)}

# classes with a reported defect that are excluded by construction (counted in rec.excluded); see the C07 report
# (signature suffixes as returned by _klass; the full signature is "sensor:<TYPE><suffix>")
KNOWN_EXCLUDED = {":camera"}  # camera rangefinders are rejected by put_model (NotImplementedError): not generated

S = mujoco.mjtSensor
O = mujoco.mjtObj
_TNAME = {int(v): v.name[len("mjSENS_"):] for v in S.__members__.values()} if hasattr(S, "__members__") else {}
_ONAME = {0: "none", int(O.mjOBJ_BODY): "body", int(O.mjOBJ_XBODY): "xbody", int(O.mjOBJ_GEOM): "geom", int(O.mjOBJ_SITE): "site", int(O.mjOBJ_CAMERA): "camera",
          int(O.mjOBJ_JOINT): "joint", int(O.mjOBJ_TENDON): "tendon", int(O.mjOBJ_ACTUATOR): "actuator", int(O.mjOBJ_MESH): "mesh"}

POS_T = {int(S.mjSENS_MAGNETOMETER), int(S.mjSENS_CAMPROJECTION), int(S.mjSENS_RANGEFINDER), int(S.mjSENS_JOINTPOS), int(S.mjSENS_TENDONPOS), int(S.mjSENS_ACTUATORPOS),
         int(S.mjSENS_BALLQUAT), int(S.mjSENS_JOINTLIMITPOS), int(S.mjSENS_TENDONLIMITPOS), int(S.mjSENS_FRAMEPOS), int(S.mjSENS_FRAMEXAXIS), int(S.mjSENS_FRAMEYAXIS),
         int(S.mjSENS_FRAMEZAXIS), int(S.mjSENS_FRAMEQUAT), int(S.mjSENS_SUBTREECOM), int(S.mjSENS_INSIDESITE), int(S.mjSENS_CLOCK)}
DIST_T = {int(S.mjSENS_GEOMDIST), int(S.mjSENS_GEOMNORMAL), int(S.mjSENS_GEOMFROMTO)}
ENERGY_T = {int(S.mjSENS_E_POTENTIAL), int(S.mjSENS_E_KINETIC)}
VEL_T = {int(S.mjSENS_VELOCIMETER), int(S.mjSENS_GYRO), int(S.mjSENS_JOINTVEL), int(S.mjSENS_TENDONVEL), int(S.mjSENS_ACTUATORVEL), int(S.mjSENS_BALLANGVEL),
         int(S.mjSENS_JOINTLIMITVEL), int(S.mjSENS_TENDONLIMITVEL), int(S.mjSENS_FRAMELINVEL), int(S.mjSENS_FRAMEANGVEL), int(S.mjSENS_SUBTREELINVEL), int(S.mjSENS_SUBTREEANGMOM)}
ACT_T = {int(S.mjSENS_ACTUATORFRC), int(S.mjSENS_JOINTACTFRC), int(S.mjSENS_TENDONACTFRC)}
QACC_T = {int(S.mjSENS_ACCELEROMETER), int(S.mjSENS_FRAMELINACC), int(S.mjSENS_FRAMEANGACC)}
WRENCH_T = {int(S.mjSENS_FORCE), int(S.mjSENS_TORQUE)}
EFC_T = {int(S.mjSENS_TOUCH), int(S.mjSENS_CONTACT), int(S.mjSENS_JOINTLIMITFRC), int(S.mjSENS_TENDONLIMITFRC)}
ROWS_T = {int(S.mjSENS_JOINTLIMITPOS), int(S.mjSENS_TENDONLIMITPOS), int(S.mjSENS_JOINTLIMITVEL), int(S.mjSENS_TENDONLIMITVEL)}

# types whose output is zero / "no hit" unless something happens: the evidence reports how often they were active in the reference
_ACTIVE_T = {int(S.mjSENS_TOUCH), int(S.mjSENS_CONTACT), int(S.mjSENS_JOINTLIMITPOS), int(S.mjSENS_JOINTLIMITVEL), int(S.mjSENS_JOINTLIMITFRC), int(S.mjSENS_TENDONLIMITPOS),
             int(S.mjSENS_TENDONLIMITVEL), int(S.mjSENS_TENDONLIMITFRC), int(S.mjSENS_RANGEFINDER), int(S.mjSENS_INSIDESITE), int(S.mjSENS_TACTILE), int(S.mjSENS_TENDONACTFRC),
             int(S.mjSENS_JOINTACTFRC), int(S.mjSENS_ACTUATORFRC)}

TOL_POS, TOL_VEL, TOL_ACC, TOL_DIST, TOL_E = 1e-4, 1e-4, 2e-3, 1e-3, 1e-4


def strategy(tier):
  return st.fixed_dictionaries(
    dict(
      cfg=gen.cfg_strategy(
        nroot=st.integers(1, 3),
        maxdepth=st.integers(0, 2),
        maxchild=st.integers(1, 2),
        p_multi_joint=st.sampled_from([0.0, 0.3]),
        mocap=st.integers(0, 1),
        geom_menu=st.sampled_from([["sphere", "capsule"], ["sphere", "capsule", "sphere", "capsule", "box"], ["sphere"], ["sphere", "capsule", "box", "ellipsoid", "cylinder", "mesh"]]),
        plane=st.sampled_from([True, True, False]),
        contacts=st.sampled_from(["none", "pile", "pile"]),
        sites=1.0,
        cameras=st.integers(0, 2),
        tendons=st.integers(0, 2),
        spatial_tendons=st.integers(0, 1),
        equalities=st.integers(0, 1),
        actuators=st.integers(0, 3),
        act_menu=st.sampled_from([["motor", "position", "velocity"], ["motor", "general", "intvelocity", "position"]]),
        trn_menu=st.sampled_from([["joint"], ["joint", "tendon", "site"]]),
        dynamics=True,
        poly=st.booleans(),
        limits=st.sampled_from([0.0, 0.6]),
        frictionloss=st.sampled_from([0.0, 0.0, 0.3]),
        actfrcrange=st.booleans(),
        condim_menu=st.sampled_from([[3], [1, 3, 4, 6]]),
        inertial=st.booleans(),
        groups=st.booleans(),
      ),
      nsensor=st.integers(1, 12),
      emphasis=st.sampled_from(["all", "all", "frame", "contact", "contact", "geom", "scalar"]),
      refp=st.sampled_from([0.3, 0.7]),
      sensor_seed=st.integers(0, 10**6),
      energy=st.booleans(),
      disable=st.sampled_from([[], [], [], ["gravity"], ["spring"], ["gravity", "spring"]]),
      cone=st.sampled_from(["pyramidal", "elliptic"]),
      jacobian=st.sampled_from(["dense", "sparse"]),
      nworld=st.integers(1, 2),
      seed=st.integers(0, 10**6),
      sigma=st.sampled_from([0.05, 0.3, 1.0]),
      vel=st.sampled_from([0.0, 1.0, 3.0]),
      settle=st.sampled_from([0, 0, 5, 30]),
      unnorm=st.sampled_from([False, False, False, True]),
    )
  )


# --------------------------------------------------------------------------------------------------------------
# reference-side helpers


def _inside(pos, mat, size, gtype, pnt):
  """mju_insideGeom for the five site shapes (float64)."""
  l = mat.T @ (pnt - pos)
  if gtype == int(mujoco.mjtGeom.mjGEOM_SPHERE):
    return float(l @ l) < size[0] ** 2
  if gtype == int(mujoco.mjtGeom.mjGEOM_CAPSULE):
    z = min(max(l[2], -size[1]), size[1])
    return float(l[0] ** 2 + l[1] ** 2 + (l[2] - z) ** 2) < size[0] ** 2
  if gtype == int(mujoco.mjtGeom.mjGEOM_ELLIPSOID):
    return float(np.sum((l / size) ** 2)) < 1.0
  if gtype == int(mujoco.mjtGeom.mjGEOM_CYLINDER):
    return abs(l[2]) < size[1] and float(l[0] ** 2 + l[1] ** 2) < size[0] ** 2
  if gtype == int(mujoco.mjtGeom.mjGEOM_BOX):
    return bool(np.all(np.abs(l) < size))
  return False


def _site(mjm, mjd, sid):
  return np.array(mjd.site_xpos[sid]), np.array(mjd.site_xmat[sid]).reshape(3, 3), np.array(mjm.site_size[sid]), int(mjm.site_type[sid])


def _near_zone_boundary(mjm, mjd, sid, pnt, eps=2e-3):
  pos, mat, size, t = _site(mjm, mjd, sid)
  vals = {_inside(pos, mat, size * f + a, t, pnt) for f in (1 - eps, 1 + eps) for a in (-1e-4, 1e-4)}
  return len(vals) > 1


def _obj_pos(mjm, mjd, objtype, objid):
  if objtype == int(O.mjOBJ_BODY):
    return np.array(mjd.xipos[objid])
  if objtype == int(O.mjOBJ_XBODY):
    return np.array(mjd.xpos[objid])
  if objtype == int(O.mjOBJ_GEOM):
    return np.array(mjd.geom_xpos[objid])
  if objtype == int(O.mjOBJ_SITE):
    return np.array(mjd.site_xpos[objid])
  return np.array(mjd.cam_xpos[objid])


def _ray_unstable(mjm, mjd, sid, ref):
  """True if MuJoCo's own rangefinder reading changes under 1e-3 perturbations of the ray (silhouette edges, grazing hits)."""
  pos, mat, _, _ = _site(mjm, mjd, sid)
  body = int(mjm.site_bodyid[sid])
  gid = np.zeros(1, dtype=np.int32)
  vals = []
  for dx, dy, ox, oy in [(0, 0, 0, 0), (1, 0, 0, 0), (-1, 0, 0, 0), (0, 1, 0, 0), (0, -1, 0, 0), (0, 0, 1, 0), (0, 0, -1, 0), (0, 0, 0, 1), (0, 0, 0, -1)]:
    v = mat @ np.array([1e-3 * dx, 1e-3 * dy, 1.0])
    p = pos + mat @ np.array([1e-3 * ox, 1e-3 * oy, 0.0])
    vals.append(mujoco.mj_ray(mjm, mjd, p, v / np.linalg.norm(v), None, 1, body, gid))
  vals = np.array(vals)
  return bool(np.any((vals < 0) != (vals[0] < 0)) or np.max(np.abs(vals - vals[0])) > 0.02 * max(1.0, abs(vals[0])))


def _pair_geoms(mjm, i):
  def side(t, k):
    if t == int(O.mjOBJ_BODY):
      return list(range(mjm.body_geomadr[k], mjm.body_geomadr[k] + mjm.body_geomnum[k]))
    return [int(k)]
  return side(int(mjm.sensor_objtype[i]), int(mjm.sensor_objid[i])), side(int(mjm.sensor_reftype[i]), int(mjm.sensor_refid[i]))


def _ref_geomdist(mjm, mjd, i):
  """Smallest signed distance over the sensor's geom pairs, the runner-up, and the geom-type pair of the nearest one
  (float64, mj_geomDistance with a wide cutoff)."""
  g1, g2 = _pair_geoms(mjm, i)
  ds = []
  ft = np.zeros(6)
  for a in g1:
    for b in g2:
      ds.append((mujoco.mj_geomDistance(mjm, mjd, a, b, 20.0, ft), a, b))
  ds = sorted(ds)
  a, b = ds[0][1], ds[0][2]
  tp = "-".join(sorted([_GNAME[int(mjm.geom_type[a])], _GNAME[int(mjm.geom_type[b])]]))
  _ref_geomdist.last_pair = (a, b)
  return ds[0][0], (ds[1][0] if len(ds) > 1 else np.inf), tp


_GNAME = {0: "plane", 1: "hfield", 2: "sphere", 3: "capsule", 4: "ellipsoid", 5: "cylinder", 6: "box", 7: "mesh", 8: "sdf"}


def _touch_ref(mjm, mjd, sid, scale):
  """MuJoCo's touch semantics evaluated on MuJoCo's contacts with the zone scaled by `scale`."""
  pos, mat, size, t = _site(mjm, mjd, sid)
  body = int(mjm.site_bodyid[sid])
  tot = 0.0
  f = np.zeros(6)
  for c in range(mjd.ncon):
    con = mjd.contact[c]
    if con.efc_address < 0:
      continue
    b1, b2 = int(mjm.geom_bodyid[con.geom[0]]), int(mjm.geom_bodyid[con.geom[1]])
    if body not in (b1, b2):
      continue
    mujoco.mj_contactForce(mjm, mjd, c, f)
    if f[0] <= 0:
      continue
    ray = np.array(con.frame[:3]) * f[0]
    ray /= max(np.linalg.norm(ray), 1e-300)
    if body == b2:
      ray = -ray
    if mujoco.mju_rayGeom(pos, mat.reshape(-1), size * scale, np.array(con.pos), ray, t) >= 0:
      tot += f[0]
  return tot


# --------------------------------------------------------------------------------------------------------------


class _Ctx:
  pass


def _build(case):
  cfg = dict(case["cfg"])
  opt = dict(cone=case["cone"], solver="Newton", jacobian=case["jacobian"], tolerance=1e-10, iterations=200, ls_iterations=50)
  r = gen.R([int(case["sensor_seed"]), 0x0C07])
  opt["magnetic"] = r.vec(3, -1, 1)
  flags = {k: "disable" for k in case["disable"]}
  if case["energy"]:
    flags["energy"] = "enable"
  if flags:
    opt["flags"] = flags
  cfg["option"] = opt
  spec = gen.make_spec(cfg)
  X.decorate(spec, case["sensor_seed"])
  excl = [k for k in ("tactile",) if f"kind:{k}" in KNOWN_EXCLUDED]
  X.add_sensors(spec, case["sensor_seed"], case["nsensor"], emphasis=case["emphasis"], refp=case["refp"], exclude_kinds=excl)
  X.add_frame_matrix(spec, case["sensor_seed"], 3)  # systematic walk through (frame sensor kind x objtype x reftype)
  return spec


def _sname(mjm, i):
  t = int(mjm.sensor_type[i])
  return _TNAME.get(t, str(t)), _ONAME.get(int(mjm.sensor_objtype[i]), str(int(mjm.sensor_objtype[i]))), (_ONAME.get(int(mjm.sensor_reftype[i]), "?") if mjm.sensor_refid[i] >= 0 else "none")


def check(case, rec):
  spec = _build(case)
  # a rangefinder attached to a camera is accepted by put_model but not implemented (reads site arrays with the camera id, which
  # raises IndexError when the id exceeds nsite): excluded by construction while the class is in KNOWN_EXCLUDED
  cam_rf = [s for s in spec["sensors"] if s["kind"] == "rangefinder" and "camera" in s]
  if cam_rf and ":camera" in KNOWN_EXCLUDED:
    rec.excluded["sensor:RANGEFINDER:camera"] += len(cam_rf)
    spec["sensors"] = [s for s in spec["sensors"] if not (s["kind"] == "rangefinder" and "camera" in s)]
    cam_rf = []
  if not spec["sensors"]:
    raise Reject("no sensors")
  mjm = H.compile_spec(spec)
  if mjm.nv == 0 or mjm.nsensor == 0:
    raise Reject("nv=0 or no sensor")
  n = case["nworld"]
  try:
    m = H.put_model(mjm)
  except IndexError as e:
    if not cam_rf:
      raise
    rec.ev()
    rec.violation(f"put_model raises IndexError ({e}) for a model with a rangefinder attached to a camera", sig="sensor:RANGEFINDER:camera")
    return
  d = H.make_data(mjm, nworld=n, nconmax=150, njmax=600)
  g = np.random.default_rng(case["seed"] + 7)
  states = []
  for w in range(n):
    s = H.rand_state(mjm, case["seed"] + 37 * w, sigma=case["sigma"], vel=case["vel"], applied=True, unnorm=case.get("unnorm", False))
    s["time"] = float(H.f32(g.uniform(0, 3.0)))
    if case["settle"] and case["cfg"]["contacts"] == "pile":
      tmp = mujoco.MjData(mjm)
      H.set_mjd(tmp, s)
      try:
        for _ in range(case["settle"]):
          mujoco.mj_step(mjm, tmp)
      except mujoco.FatalError:
        raise Reject("mujoco aborts on this model")
      if np.all(np.isfinite(tmp.qpos)) and np.all(np.isfinite(tmp.qvel)) and np.max(np.abs(tmp.qvel), initial=0) < 50:
        s["qpos"], s["qvel"], s["act"] = H.f32(tmp.qpos), H.f32(tmp.qvel), H.f32(tmp.act)
        if case.get("unnorm"):  # the settled state has unit quaternions again: rescale them
          gq = np.random.default_rng(case["seed"] + 911 * w)
          for j in range(mjm.njnt):
            a = int(mjm.jnt_qposadr[j]) + (3 if mjm.jnt_type[j] == 0 else 0)
            if mjm.jnt_type[j] in (0, 1):
              s["qpos"][a : a + 4] = H.f32(s["qpos"][a : a + 4] * np.exp(gq.uniform(np.log(0.2), np.log(5))))
    states.append(s)
  H.set_data(d, states)
  mjw.forward(m, d)
  of = H.overflow_fwd(d)
  if of.any():
    rec.inconclusive += 1
    return
  sdata = d.sensordata.numpy()
  energy = d.energy.numpy()
  qacc = d.qacc.numpy()
  niter = d.solver_niter.numpy()
  nefc_w = d.nefc.numpy()
  force_w = d.efc.force.numpy()
  act_force = d.actuator_force.numpy()
  qfrc_act = d.qfrc_actuator.numpy()

  types_seen = set()
  any_ref = False
  any_cut = False
  for i in range(mjm.nsensor):
    tn, on, rn = _sname(mjm, i)
    rec.cls(f"type:{tn}", f"combo:{tn}:{on}:{rn}", f"cutoff:{'0' if mjm.sensor_cutoff[i] == 0 else 'small' if mjm.sensor_cutoff[i] < 50 else 'large'}")
    types_seen.add(tn)
    if tn == "CONTACT":
      rec.cls(f"contact-reduce:{int(mjm.sensor_intprm[i, 1])}", f"contact-num:{int(mjm.sensor_intprm[i, 2])}")
    if mjm.sensor_refid[i] >= 0 and tn.startswith("FRAME"):
      any_ref = True
      moving = int(mjm.body_treeid[_body_of(mjm, int(mjm.sensor_reftype[i]), int(mjm.sensor_refid[i]))]) >= 0 or int(mjm.body_mocapid[_body_of(mjm, int(mjm.sensor_reftype[i]), int(mjm.sensor_refid[i]))]) >= 0
      rec.cls(f"refframe-moving:{moving}")
  has_esens = bool(ENERGY_T & set(mjm.sensor_type.tolist()))
  rec.cls(f"unnormalised-quats:{bool(case.get('unnorm'))}", f"energy-flag:{case['energy']}", f"energy-sensor:{has_esens}", f"nworld:{n}", f"cone:{case['cone']}")

  for w in range(n):
    mjd = mujoco.MjData(mjm)
    H.set_mjd(mjd, states[w])
    try:
      mujoco.mj_forward(mjm, mjd)
      mujoco.mj_rnePostConstraint(mjm, mjd)
    except mujoco.FatalError:
      rec.rejected += 1
      continue
    if not (np.all(np.isfinite(mjd.sensordata)) and np.all(np.isfinite(mjd.qacc))):
      rec.inconclusive += 1
      continue
    C = _Ctx()
    C.mjm, C.mjd, C.w, C.case = mjm, mjd, w, case
    # ---- comparability of the constraint stage
    cw = H.contacts(d, w)
    keep = (cw["type"] & 1) != 0
    cw = {k: v[keep] for k, v in cw.items()}
    cm = H.mj_contacts(mjd)
    pairs, ua, ub = H.match_contacts(cw, cm)
    C.cw, C.cm = cw, cm
    C.contacts_ok = not (ua or ub) and all(
      np.linalg.norm(cw["pos"][a] - cm["pos"][b]) < 1e-3 and abs(cw["dist"][a] - cm["dist"][b]) < 1e-4 and np.max(np.abs(np.asarray(cw["frame"][a], dtype=np.float64) - cm["frame"][b])) < 1e-3
      and (int(np.ravel(cw["efc_address"][a])[0]) >= 0) == (int(cm["efc_address"][b]) >= 0)
      for a, b in pairs
    )
    C.rows_ok = C.contacts_ok and int(nefc_w[w]) == int(mjd.nefc)
    if not C.rows_ok:
      why = "unmatched-contacts" if (ua or ub) else "contact-geometry" if not C.contacts_ok else "nefc"
      if why == "unmatched-contacts":
        gt = lambda c, k: "-".join(sorted(_GNAME[int(mjm.geom_type[x])] for x in c["geom"][k]))
        why += ":" + "/".join(sorted({gt(cw, k) for k in ua} | {gt(cm, k) for k in ub}))
      rec.cls(f"rows-differ-why:{why}")
    nef = int(mjd.nefc)
    # upstream stages are other properties' business (C02/C03/C06): sensors that read them are judged only where they agree
    ascale = max(1.0, float(np.max(np.abs(mjd.actuator_force), initial=0.0)), float(np.max(np.abs(mjd.qfrc_actuator), initial=0.0)))
    C.act_ok = bool(max(float(np.max(np.abs(act_force[w] - mjd.actuator_force), initial=0.0)), float(np.max(np.abs(qfrc_act[w] - mjd.qfrc_actuator), initial=0.0))) < 2e-4 * ascale)
    qs = max(1.0, float(np.max(np.abs(mjd.qacc))))
    qerr = float(np.max(np.abs(qacc[w] - mjd.qacc))) / qs
    if nef == 0 and int(nefc_w[w]) == 0:
      C.solver_ok = qerr < 2e-4
    else:
      conv = int(mjd.solver_niter[0]) < mjm.opt.iterations and int(niter[w]) < mjm.opt.iterations
      C.solver_ok = bool(C.rows_ok and conv and qerr < 2e-4)
      if C.solver_ok and nef:
        fs = max(1.0, float(np.max(np.abs(mjd.efc_force))))
        ferr = float(np.max(np.abs(np.sort(force_w[w, :nef].astype(np.float64)) - np.sort(mjd.efc_force)))) / fs
        C.solver_ok = ferr < 2e-4
    rec.cls(f"actuation-agrees:{C.act_ok}")
    rec.cls(f"constraints:{('none' if C.solver_ok else 'none-qacc-differs') if nef == 0 and int(nefc_w[w]) == 0 else 'comparable' if C.solver_ok else 'rows-only' if C.rows_ok else 'differ'}", f"ncon>0:{mjd.ncon > 0}")
    C.velscale = max(1.0, float(np.max(np.abs(mjd.cvel))))
    C.accscale = max(1.0, float(np.max(np.abs(mjd.cacc))), C.velscale**2)
    C.frcscale = max(1.0, float(np.max(np.abs(mjd.cfrc_int))), float(np.max(np.abs(mjd.cfrc_ext))))
    C.efcscale = max(1.0, float(np.max(np.abs(mjd.efc_force), initial=0.0)))

    for i in range(mjm.nsensor):
      a, dim = int(mjm.sensor_adr[i]), int(mjm.sensor_dim[i])
      got = sdata[w, a : a + dim].astype(np.float64)
      ref = np.array(mjd.sensordata[a : a + dim])
      cut = float(mjm.sensor_cutoff[i])
      if cut > 0 and int(mjm.sensor_datatype[i]) in (0, 1) and np.any(np.abs(ref) >= cut * (1 - 1e-12)):
        any_cut = True
        rec.cls("cutoff-clamping")
      ti = int(mjm.sensor_type[i])
      if ti in _ACTIVE_T:
        rec.cls(f"active:{_TNAME[ti]}:{bool(np.any(ref != 0) and (ti != int(S.mjSENS_RANGEFINDER) or ref[0] >= 0))}")
      if ti == int(S.mjSENS_INSIDESITE) and int(mjm.sensor_objtype[i]) == int(O.mjOBJ_BODY):
        sid, bid = int(mjm.sensor_refid[i]), int(mjm.sensor_objid[i])
        rec.cls(f"insidesite-body:frame-vs-inertial-frame-differ:{_inside(*_site(mjm, mjd, sid), np.array(mjd.xpos[bid])) != _inside(*_site(mjm, mjd, sid), np.array(mjd.xipos[bid]))}")
      kl = _klass(mjm, i)
      if kl and kl in KNOWN_EXCLUDED:
        rec.excluded[f"sensor:{_sname(mjm, i)[0]}{kl}"] += 1
        continue
      _compare(rec, C, i, got, ref)

    # ---- energy
    rec.ev()
    eref = np.array(mjd.energy)
    escale = max(1.0, float(np.sum(np.abs(mjm.body_mass[:, None] * mjd.xipos * mjm.opt.gravity[None, :]))), abs(eref[0]))
    e0 = abs(energy[w][0] - eref[0]) / escale
    e1 = abs(energy[w][1] - eref[1]) / max(1.0, abs(eref[1]))
    if not case["energy"] and has_esens and (energy[w][0] == 0.0 or energy[w][1] == 0.0):
      # energy disabled: Data.energy is "not computed".  MuJoCo leaves whatever an energy *sensor* computed as a side effect in d.energy
      # (potential only if an e_potential sensor exists, kinetic only if both exist); MJWarp reports zeros.  The sensor values themselves
      # are compared above; a zero in the disabled field is accepted here (and counted).
      rec.cls("energy-off-with-sensor:zero-accepted")
      e0 = 0.0 if energy[w][0] == 0.0 else e0
      e1 = 0.0 if energy[w][1] == 0.0 else e1
    rec.err("energy:potential", e0)
    rec.err("energy:kinetic", e1)
    if not e0 <= TOL_E:
      rec.violation(f"energy[0] (potential) {energy[w][0]} vs MuJoCo {eref[0]} (energy flag {case['energy']}, disable {case['disable']})", sig="energy:potential", world=w)
    if not e1 <= TOL_E:
      rec.violation(f"energy[1] (kinetic) {energy[w][1]} vs MuJoCo {eref[1]} (energy flag {case['energy']})", sig="energy:kinetic", world=w)

  if len(types_seen) >= 3 and (any_ref or any_cut):
    rec.nt()


def _body_of(mjm, objtype, objid):
  if objtype in (int(O.mjOBJ_BODY), int(O.mjOBJ_XBODY)):
    return objid
  if objtype == int(O.mjOBJ_GEOM):
    return int(mjm.geom_bodyid[objid])
  if objtype == int(O.mjOBJ_SITE):
    return int(mjm.site_bodyid[objid])
  if objtype == int(O.mjOBJ_CAMERA):
    return int(mjm.cam_bodyid[objid])
  return 0


def _klass(mjm, i):
  """Model-level class of a sensor that has a reported defect: returns the signature suffix or ''."""
  t = int(mjm.sensor_type[i])
  objtype, objid = int(mjm.sensor_objtype[i]), int(mjm.sensor_objid[i])
  if t == int(S.mjSENS_RANGEFINDER) and objtype == int(O.mjOBJ_CAMERA):
    return ":camera"
  if t in (int(S.mjSENS_ACCELEROMETER), int(S.mjSENS_FRAMELINACC)) and int(mjm.body_treeid[_body_of(mjm, objtype, objid)]) < 0:
    return ":static-body"
  if t == int(S.mjSENS_TACTILE) and int(mjm.sensor_reftype[i]) == int(O.mjOBJ_GEOM) and int(mjm.body_treeid[int(mjm.geom_bodyid[int(mjm.sensor_refid[i])])]) < 0:
    return ":static-body"  # tactile sensor whose geom sits on a body without degrees of freedom: MuJoCo reports zeros (matched by the zeros rule below)
  if t in (int(S.mjSENS_JOINTLIMITPOS), int(S.mjSENS_JOINTLIMITVEL), int(S.mjSENS_JOINTLIMITFRC)) and objid < mjm.ntendon and mjm.tendon_limited[objid]:
    return ":jnt-ten-id-alias"
  if t in (int(S.mjSENS_TENDONLIMITPOS), int(S.mjSENS_TENDONLIMITVEL), int(S.mjSENS_TENDONLIMITFRC)) and objid < mjm.njnt and mjm.jnt_limited[objid]:
    return ":jnt-ten-id-alias"
  if t == int(S.mjSENS_CONTACT):
    dataspec, reduce = int(mjm.sensor_intprm[i, 0]), int(mjm.sensor_intprm[i, 1])
    directional = objtype not in (int(O.mjOBJ_UNKNOWN), int(O.mjOBJ_SITE)) or int(mjm.sensor_reftype[i]) != int(O.mjOBJ_UNKNOWN)
    if reduce in (1, 2) and directional and (dataspec & 0b1100110):
      return ":sorted-direction"
  if t in DIST_T:
    g1, g2 = _pair_geoms(mjm, i)
    tps = {"-".join(sorted([_GNAME[int(mjm.geom_type[a])], _GNAME[int(mjm.geom_type[b])]])) for a in g1 for b in g2}
    for bad in ("capsule-capsule", "mesh-plane"):
      if bad in tps:
        return ":" + bad
  if t == int(S.mjSENS_TOUCH) and mjm.sensor_cutoff[i] > 0:
    return ":cutoff"
  return ""


_BAD_DIST_PAIRS = ("capsule-capsule", "mesh-plane")


def _alt_geomdist(C, i, bad):
  """What the distance sensor would report if separated (dist > margin) pairs of the `bad` type pair were not detected at all:
  nearest of the remaining pairs (MuJoCo's own mj_geomDistance), or "nothing within cutoff"."""
  mjm, mjd = C.mjm, C.mjd
  g1, g2 = _pair_geoms(mjm, i)
  cut = float(mjm.sensor_cutoff[i])
  best = None
  _alt_geomdist.nearest_excluded = None
  for a in g1:
    for b in g2:
      ft = np.zeros(6)
      d = mujoco.mj_geomDistance(mjm, mjd, a, b, 20.0, ft)
      tp = "-".join(sorted([_GNAME[int(mjm.geom_type[a])], _GNAME[int(mjm.geom_type[b])]]))
      if tp in _BAD_DIST_PAIRS and d > max(float(mjm.geom_margin[a]), float(mjm.geom_margin[b])):
        # (a sensor over several geom pairs can contain both recorded classes: every undetected pair is left out)
        if _alt_geomdist.nearest_excluded is None or d < _alt_geomdist.nearest_excluded[0]:
          _alt_geomdist.nearest_excluded = (d, tp)
        continue
      if d < cut and (best is None or d < best[0]):
        best = (d, ft.copy())
  t = int(mjm.sensor_type[i])
  if best is None:
    return np.array([cut]) if t == int(S.mjSENS_GEOMDIST) else np.zeros(3 if t == int(S.mjSENS_GEOMNORMAL) else 6)
  d, ft = best
  if t == int(S.mjSENS_GEOMDIST):
    return np.array([d])
  if t == int(S.mjSENS_GEOMFROMTO):
    return ft
  n = ft[3:] - ft[:3]
  return n / max(np.linalg.norm(n), 1e-12) * (1.0 if d >= 0 else -1.0)


def _matches_cause(kl, mjm, i, got, ref, tol, scale, C=None):
  """True if the difference looks like the reported defect of class kl; any other failure inside the class keeps the generic signature
  (so a listed finding cannot hide a different defect of the same sensors)."""
  t = int(mjm.sensor_type[i])
  cut = float(mjm.sensor_cutoff[i])
  if kl == ":cutoff":  # touch ignores its cutoff: clamping MJWarp's value reproduces the reference
    return bool(np.all(np.abs(np.minimum(got, cut) - ref) <= tol * scale))
  if kl == ":static-body":  # MuJoCo reports zeros on static bodies
    return bool(np.all(ref == 0))
  if kl in (":capsule-capsule", ":mesh-plane"):  # separated pair not detected: cutoff / zeros instead of the distance data
    if bool(np.all(np.abs(got - cut) < 1e-6 * max(1.0, cut))) if t == int(S.mjSENS_GEOMDIST) else bool(np.all(got == 0)):
      return True
    # ... or, when the sensor ranges over several geom pairs, the data of the nearest *other* pair
    if C is not None:
      alt = _alt_geomdist(C, i, kl[1:])
      return bool(alt.shape == got.shape and np.max(np.abs(alt - got)) <= 20 * tol * max(1.0, float(np.max(np.abs(alt)))))
    return False
  return True


def _fail(rec, C, i, got, ref, err, tol, why="", sigx="", scale=1.0):
  kl = _klass(C.mjm, i)
  if kl:
    _alt_geomdist.nearest_excluded = None
    sigx = kl if _matches_cause(kl, C.mjm, i, got, ref, tol, scale, C) else ""
    if sigx and kl[1:] in _BAD_DIST_PAIRS and _alt_geomdist.nearest_excluded is not None:
      sigx = ":" + _alt_geomdist.nearest_excluded[1]  # the class of the undetected pair that should have won
  tn, on, rn = _sname(C.mjm, i)
  k = int(np.argmax(np.abs(got - ref))) if got.shape == ref.shape and got.size else 0
  rec.violation(
    f"sensor {i} {tn} objtype={on} reftype={rn} cutoff={float(C.mjm.sensor_cutoff[i]):g} world={C.w}: err {err:.3g} > tol {tol:.3g} {why} "
    f"got={np.round(got, 6).tolist()[:12]} want={np.round(ref, 6).tolist()[:12]}",
    sig=f"sensor:{tn}{sigx}", sensor=i, type=tn, objtype=on, reftype=rn, world=C.w, index=k, err=err, tol=tol,
  )


def _skip(rec, why):
  rec.boundary_skipped += 1
  rec.cls(f"skipped:{why}")


def _compare(rec, C, i, got, ref):
  mjm, mjd = C.mjm, C.mjd
  t = int(mjm.sensor_type[i])
  tn = _TNAME.get(t, str(t))
  objtype, objid = int(mjm.sensor_objtype[i]), int(mjm.sensor_objid[i])
  cut = float(mjm.sensor_cutoff[i])
  rmax = float(np.max(np.abs(ref))) if ref.size else 0.0
  diff = float(np.max(np.abs(got - ref))) if ref.size else 0.0

  def judge(tol, scale, name=None):
    rec.ev()
    e = diff / max(1.0, rmax, scale)
    rec.err(name or f"sensor:{tn}", e)
    return e, e <= tol

  if t in POS_T or t in ENERGY_T:
    if t in (int(S.mjSENS_JOINTLIMITPOS), int(S.mjSENS_TENDONLIMITPOS)) and not C.rows_ok:
      return _skip(rec, "rows-differ")
    scale = 1.0
    if t == int(S.mjSENS_E_POTENTIAL):
      scale = float(np.sum(np.abs(mjm.body_mass[:, None] * mjd.xipos * mjm.opt.gravity[None, :])))
    if t == int(S.mjSENS_CAMPROJECTION):
      cam = int(mjm.sensor_refid[i])
      depth = float((np.array(mjd.cam_xmat[cam]).reshape(3, 3).T @ (mjd.site_xpos[objid] - mjd.cam_xpos[cam]))[2])
      if abs(depth) < 0.02:
        return _skip(rec, "camprojection-depth~0")
      scale = rmax / max(abs(depth), 0.02) * 0.02  # pixel error of a 1e-4-relative depth error is bounded by this
    e, ok = judge(TOL_POS, scale)
    if ok:
      return
    if t == int(S.mjSENS_RANGEFINDER) and objtype == int(O.mjOBJ_SITE) and _ray_unstable(mjm, mjd, objid, ref[0]):
      return _skip(rec, "rangefinder-silhouette")
    if t == int(S.mjSENS_INSIDESITE) and _near_zone_boundary(mjm, mjd, int(mjm.sensor_refid[i]), _obj_pos(mjm, mjd, objtype, objid)):
      return _skip(rec, "insidesite-boundary")
    return _fail(rec, C, i, got, ref, e, TOL_POS)

  if t in DIST_T:
    d0, d1, tp = _ref_geomdist(mjm, mjd, i)
    rec.cls(f"geomdist-pair:{tp}", f"geomdist:{'penetrating' if d0 < 0 else 'within-cutoff' if d0 < cut else 'beyond-cutoff'}")
    if abs(d0 - cut) < 2e-3:
      return _skip(rec, "geomdist-at-cutoff")
    if t != int(S.mjSENS_GEOMDIST) and (d1 - d0) < 2e-3 and d0 < cut:
      return _skip(rec, "geomdist-tie")  # two geom pairs equally close: nearest pair (normal/fromto) not unique
    tol = {int(S.mjSENS_GEOMDIST): TOL_DIST, int(S.mjSENS_GEOMNORMAL): 10 * TOL_DIST, int(S.mjSENS_GEOMFROMTO): 2 * TOL_DIST}[t]
    if t == int(S.mjSENS_GEOMNORMAL) and d0 < 0 and not ({tp.split("-")[0], tp.split("-")[1]} <= {"sphere", "capsule", "plane"}):
      tol = 3e-2  # penetrating convex pair: the EPA normal of the two engines differs by up to ~1 degree (thorough tier: box-cylinder 3.9 cm deep, 0.018)
    e, ok = judge(tol, 1.0)
    if ok:
      return
    ga, gb = _ref_geomdist.last_pair
    convex = not ({_GNAME[int(mjm.geom_type[ga])], _GNAME[int(mjm.geom_type[gb])]} <= {"sphere", "capsule", "plane"})
    if t != int(S.mjSENS_GEOMDIST) and convex and d0 < -0.25 * min(float(mjm.geom_rbound[ga]), float(mjm.geom_rbound[gb])):
      # deep convex penetration: the EPA normal / witness points are not reliable in any implementation (the rule C04 and C20 use); thorough tier saw a
      # capsule 11 cm inside an ellipsoid with normals 0.6 degrees apart
      return _skip(rec, "geomdist-deep-convex")
    return _fail(rec, C, i, got, ref, e, tol, why=f"(nearest pair {tp}, reference distance {d0:.5f})", sigx=f":{tp}")

  if t in VEL_T:
    if t in (int(S.mjSENS_JOINTLIMITVEL), int(S.mjSENS_TENDONLIMITVEL)) and not C.rows_ok:
      return _skip(rec, "rows-differ")
    e, ok = judge(TOL_VEL, C.velscale)
    if not ok:
      _fail(rec, C, i, got, ref, e, TOL_VEL)
    return

  if t in ACT_T:
    if not C.act_ok:
      return _skip(rec, "actuation-differs")
    scale = max(1.0, float(np.max(np.abs(mjd.actuator_force), initial=0.0)), float(np.max(np.abs(mjd.qfrc_actuator), initial=0.0)))
    e, ok = judge(TOL_VEL, scale)
    if not ok:
      _fail(rec, C, i, got, ref, e, TOL_VEL)
    return

  if t in QACC_T or t in WRENCH_T:
    if not C.solver_ok:
      return _skip(rec, "solver-differs")
    e, ok = judge(TOL_ACC, C.accscale if t in QACC_T else C.frcscale)
    if not ok:
      _fail(rec, C, i, got, ref, e, TOL_ACC)
    return

  if t in (int(S.mjSENS_JOINTLIMITFRC), int(S.mjSENS_TENDONLIMITFRC)):
    if not C.solver_ok:
      return _skip(rec, "solver-differs")
    e, ok = judge(TOL_ACC, C.efcscale)
    if not ok:
      _fail(rec, C, i, got, ref, e, TOL_ACC)
    return

  if t == int(S.mjSENS_TOUCH):
    if not C.solver_ok:
      return _skip(rec, "solver-differs")
    e, ok = judge(TOL_ACC, C.efcscale)
    if ok:
      return
    vals = [_touch_ref(mjm, mjd, objid, f) for f in (0.998, 1.0, 1.002)]
    if max(vals) - min(vals) > 1e-6 * C.efcscale:
      return _skip(rec, "touch-zone-boundary")
    return _fail(rec, C, i, got, ref, e, TOL_ACC, why=f"(reference recomputed from MuJoCo's contacts before cutoff: {vals[1]:.6g})", scale=max(1.0, C.efcscale))

  if t == int(S.mjSENS_CONTACT):
    return _compare_contact(rec, C, i, got, ref)

  if t == int(S.mjSENS_TACTILE):
    if not C.contacts_ok:
      return _skip(rec, "contacts-differ")
    e, ok = judge(TOL_ACC, C.velscale)
    if not ok:
      _fail(rec, C, i, got, ref, e, TOL_ACC)
    return

  rec.cls(f"uncompared-type:{tn}")


def _compare_contact(rec, C, i, got, ref):
  mjm, mjd = C.mjm, C.mjd
  if not C.solver_ok:
    return _skip(rec, "solver-differs")
  dataspec, reduce, num = (int(x) for x in mjm.sensor_intprm[i, :3])
  sizes = [1, 3, 3, 1, 3, 3, 3]
  fields = [k for k in range(7) if dataspec & (1 << k)]
  size = sum(sizes[k] for k in fields)
  G = got.reshape(num, size)
  Rf = ref.reshape(num, size)
  # per-field scales inside a slot
  sc = []
  for k in fields:
    s = {0: 1.0, 1: C.efcscale, 2: C.efcscale, 3: 1.0, 4: 1.0, 5: 1.0, 6: 1.0}[k]
    sc += [s] * sizes[k]
  sc = np.array(sc)
  tolv = np.array([TOL_ACC if s > 1.0 or True else TOL_POS for s in sc])
  rec.ev()

  def slot_err(x, y):
    return float(np.max(np.abs(x - y) / np.maximum(1.0, sc)))

  e = max(slot_err(G[k], Rf[k]) for k in range(num))
  if e <= TOL_ACC:
    rec.err("sensor:CONTACT", e)
    return
  objtype, objid = int(mjm.sensor_objtype[i]), int(mjm.sensor_objid[i])
  # the site filter is discontinuous at the zone boundary
  if objtype == int(O.mjOBJ_SITE):
    if any(_near_zone_boundary(mjm, mjd, objid, np.array(mjd.contact[c].pos)) for c in range(mjd.ncon)):
      return _skip(rec, "contact-site-boundary")
  nfound_ref = int(round(Rf[0, 0])) if 0 in fields else None
  if nfound_ref is not None and np.any(np.abs(G[:, 0] - Rf[:, 0]) > 0.5):
    # the number of matches (and which slots are filled) does not depend on any ordering: always judged
    tn, on, rn = _sname(mjm, i)
    rec.violation(
      f"sensor {i} CONTACT objtype={on} reftype={rn} reduce={reduce} num={num} world={C.w} ncon={mjd.ncon}: 'found' per slot {G[:, 0].tolist()} vs MuJoCo {Rf[:, 0].tolist()}",
      sig="sensor:CONTACT:found", sensor=i, world=C.w, reduce=reduce, objtype=on, reftype=rn,
    )
    return
  multiset_ok = False
  if reduce != 3:
    # same slots in another order?
    used = set()
    multiset_ok = True
    for k in range(num):
      js = [j for j in range(num) if j not in used and slot_err(G[k], Rf[j]) <= TOL_ACC]
      if not js:
        multiset_ok = False
        break
      used.add(js[0])
  if reduce == 0:
    if multiset_ok:
      rec.cls("contact-sensor:order-free-match")
      return
    # more matches than slots: which contacts fill the slots depends on the contact order, which is not part of the property
    if nfound_ref is None or nfound_ref > num:
      return _skip(rec, "contact-none-more-matches-than-slots")
  if reduce in (1, 2):
    # ties in the sorting criterion make the order (and, with more matches than slots, the selection) ambiguous
    if reduce == 1:
      crit = np.sort(np.array([mjd.contact[c].dist for c in range(mjd.ncon)]))
      tie = bool(np.any(np.diff(crit) < 1e-5))
    else:
      f = np.zeros(6)
      mags = []
      for c in range(mjd.ncon):
        mujoco.mj_contactForce(mjm, mjd, c, f)
        mags.append(float(f[:3] @ f[:3]))
      crit = np.sort(np.array(mags))
      tie = bool(np.any(np.diff(crit) < 1e-3 * max(1.0, crit[-1] if crit.size else 1.0)))
    if tie and (multiset_ok or nfound_ref is None or nfound_ref > num):
      return _skip(rec, "contact-sort-tie")
  tn, on, rn = _sname(mjm, i)
  rec.violation(
    f"sensor {i} CONTACT objtype={on} reftype={rn} reduce={reduce} num={num} data=0b{dataspec:07b} cutoff={float(mjm.sensor_cutoff[i]):g} world={C.w} ncon={mjd.ncon}: slot err {e:.3g} > {TOL_ACC:g} "
    f"got={np.round(G, 5).tolist()} want={np.round(Rf, 5).tolist()}",
    sig="sensor:CONTACT" + (_klass(mjm, i) if all(slot_err(np.abs(G[k]), np.abs(Rf[k])) <= TOL_ACC for k in range(num)) else ""), sensor=i, world=C.w, reduce=reduce, objtype=on, reftype=rn,
  )
