"""C30 Delayed controls and sensors read the right past sample (MuJoCo C lock-step over generated call histories)."""

from __future__ import annotations

import copy

import mujoco
import numpy as np
import warp as wp
from hypothesis import strategies as st

import mujoco_warp as mjw

from vf import mjw as H
from vf.core import Reject, check_close, check_equal, relerr

RULE = (
  "case = physics-trivial 2-dof model (limited slide + hinge pendulum, no contacts) with 1-3 actuators (motor / filter-motor / position; delay in dt*{0,0.5,1,1.37,2.5,7}, "
  "nsample 1-8, interp zoh/linear/cubic; 1 case in 8 is a closed-form 'ticks' case instead: one slide joint at constant velocity, a buffered jointpos sensor with interval = k*timestep and a delay of 1-4 steps, "
  "30-160 steps, expected reading v*dt*k*floor((n-1-ds)/k)) and 1-4 sensors of every stage incl. the limit, energy and subtree groups (dim 1,3,4; delay and/or interval with phase, or "
  "interval without buffer), integrator Euler/implicitfast/RK4, 1-3 worlds with different piecewise-random controls; start kind make_data / put_data(fresh MjData) / "
  "put_data(stepped MjData) / reset_data full / reset_data partial mask after a prior history; then 1-40 lock-steps interleaved with read_ctrl/read_sensor queries "
  "(sample-aligned and in-between times, every interp) and init_ctrl_history/init_sensor_history calls (explicit times incl. future ones, or times=None). "
  "Oracle: one MuJoCo MjData per world driven by the same calls (mj_step, mj_resetData, mj_initCtrlHistory, ...); after every call Data.history (user slot, cursor, "
  "timestamps, values per buffer), time, the applied control (actuator_force, act) and sensordata agree, and read_ctrl/read_sensor == mj_readCtrl/mj_readSensor. "
  "qpos/qvel/act are re-synchronised (float32) after every step so physics round-off cannot accumulate. evaluation = one world compared after one call; "
  "non-trivial = some delayed ctrl or sensor read fell strictly between two recorded samples after its buffer had wrapped around"
)
ASSUMPTIONS = [
  "MuJoCo C 3.13 (mj_step, mj_resetData, mj_readCtrl, mj_readSensor, mj_initCtrlHistory, mj_initSensorHistory) is the reference for buffer behaviour",
  "float32 time/values: timestamps, user slots and time compared to 5e-6 s; recorded/read controls to 3e-4 and sensor samples/sensordata/actuator_force/act to 2e-3 of the buffer's scale",
  "decisions that sit on a float comparison in the reference are not judged: an interval sensor whose trigger test time_prev+period<=t is within 2e-6 of equality is "
  "dropped from the comparison for the rest of the case (MuJoCo itself slips there in float64); counted in boundary_skipped; a read_ctrl/read_sensor query within 3e-6 of a recorded "
  "timestamp may return the value on either side of it (MJWarp's float32 exact-match window is 1e-6, MuJoCo compares float64 times exactly)",
  "at most one e_kinetic and one e_potential sensor per model: with two energy sensors of which one is interval-gated MuJoCo 3.13 itself reports a stale energy for the "
  "plain one (reference quirk, unrelated to MJWarp)",
  "warmstart disabled in the generated model so that both solvers start from qacc_smooth (keeps sensor values of the two engines within float32 round-off)",
  "MuJoCo 3.13 under RK4 evaluates the fresh sample of a sensor with delay>0 inside mj_advance from the last RK4 stage's derived quantities (value of ~t+h stamped t; the "
  "undelayed twin sensor records the time-t value): recorded values/sensordata/read_sensor of such sensors (all kinds except jointpos, jointvel, clock) are not "
  "compared under RK4 (counted in excluded_by_construction); their cursor, user slot and timestamps still are",
  "initial interval-sensor timestamps dt*ceil(x): entries with |x-round(x)|<1e-5 that differ from MuJoCo by exactly one dt are a float rounding boundary (skipped, aligned)",
  "only step() is exercised (forward() alone inserts sensor samples earlier than MuJoCo's mj_advance; not part of the statement)",
]
BUDGET = {"quick": dict(examples=400, seconds=420, workers=16), "thorough": dict(examples=8000, seconds=1500, workers=16)}

T_TIME = 5e-6  # timestamps, user slot, time (observed <= 2e-7)
T_CTRL = 3e-4  # recorded / read controls relative to the buffer's scale (observed <= 1.3e-5: float32 interpolation weights)
T_SENS = 2e-3  # sensor samples, sensordata, actuator_force, act: carry the float32-vs-float64 physics of one step (observed <= 1e-4)
_DELAYS = [0.0, 0.5, 1.0, 1.37, 2.5, 7.0]
_PERIODS = [0.0, 0.0, 0.63, 1.31, 2.57, 3.73, 2.0]
_INTERP = ["zoh", "linear", "cubic"]

# kind -> (xml template, dim)
_SENS = {
  "jointpos": ('<jointpos joint="j1" {a}/>', 1),
  "jointvel": ('<jointvel joint="j1" {a}/>', 1),
  "clock": ("<clock {a}/>", 1),
  "framepos": ('<framepos objtype="site" objname="s1" {a}/>', 3),
  "framequat": ('<framequat objtype="site" objname="s1" {a}/>', 4),
  "framelinvel": ('<framelinvel objtype="site" objname="s1" {a}/>', 3),
  "velocimeter": ('<velocimeter site="s1" {a}/>', 3),
  "accelerometer": ('<accelerometer site="s1" {a}/>', 3),
  "framelinacc": ('<framelinacc objtype="site" objname="s1" {a}/>', 3),
  "actuatorfrc": ('<actuatorfrc actuator="a0" {a}/>', 1),
  "jointactuatorfrc": ('<jointactuatorfrc joint="j0" {a}/>', 1),
  "jointlimitpos": ('<jointlimitpos joint="j0" {a}/>', 1),
  "jointlimitvel": ('<jointlimitvel joint="j0" {a}/>', 1),
  "jointlimitfrc": ('<jointlimitfrc joint="j0" {a}/>', 1),
  "e_potential": ("<e_potential {a}/>", 1),
  "e_kinetic": ("<e_kinetic {a}/>", 1),
  "subtreelinvel": ('<subtreelinvel body="b1" {a}/>', 3),
  "subtreecom": ('<subtreecom body="b1" {a}/>', 3),
}
_SENS_MENU = sorted(_SENS)
_ACC_KINDS = ("actuatorfrc", "jointactuatorfrc", "accelerometer", "framelinacc", "jointlimitfrc")


def _act_strategy():
  return st.fixed_dictionaries(
    dict(
      kind=st.sampled_from(["motor", "motor", "filter", "position"]),
      joint=st.integers(0, 1),
      delay=st.sampled_from(_DELAYS),
      nsample=st.integers(1, 8),
      interp=st.sampled_from(_INTERP),
      buffered=st.sampled_from([True, True, True, False]),
    )
  )


def _sens_strategy():
  return st.fixed_dictionaries(
    dict(
      kind=st.sampled_from(_SENS_MENU),
      delay=st.sampled_from(_DELAYS),
      period=st.sampled_from(_PERIODS),
      phase=st.sampled_from([0.0, 0.0, 0.29, 0.83]),
      nsample=st.integers(1, 8),
      interp=st.sampled_from(_INTERP),
      buffered=st.sampled_from([True, True, True, True, False]),
    )
  )


def _ticks_strategy():
  """Interval = k * timestep (the usual configuration): every tick falls exactly on a step, where float32 time round-off decides.  Closed-form oracle."""
  return st.fixed_dictionaries(
    dict(
      kind=st.just("ticks"),
      dt=st.sampled_from([0.002, 0.004, 0.005, 0.01]),
      k=st.sampled_from([2, 3, 5, 7]),
      delay_steps=st.sampled_from([1, 2, 4]),  # (buffered sensors; an interval sensor without a buffer follows another rule and is covered by the lock-step class)
      steps=st.integers(30, 160),
      v=st.sampled_from([1.0, -0.7, 0.25]),
      nworld=st.sampled_from([1, 2]),
    )
  )


def _check_ticks(case, rec):
  """A slide joint moving at constant velocity v (no forces): jointpos sampled every k steps and read with a delay of ds steps is, after step n
  (sensors are evaluated at T = (n-1) dt), v * dt * k * floor((n-1-ds)/k) once n-1-ds >= 0 and the initial 0 before."""
  dt, k, ds, v, n = float(case["dt"]), int(case["k"]), int(case["delay_steps"]), float(case["v"]), int(case["nworld"])
  dly = f' delay="{_r6(ds * dt)}" nsample="{ds + 3}"' if ds else ""
  xml = (
    f'<mujoco><option timestep="{dt}" gravity="0 0 0"/><worldbody><body><joint name="j" type="slide" axis="1 0 0"/><geom size=".1" mass="1"/></body></worldbody>'
    f'<sensor><jointpos joint="j" interval="{_r6(k * dt)} 0"{dly}/></sensor></mujoco>'
  )
  mjm = H.compile_xml(xml)
  m = H.put_model(mjm)
  d = H.make_data(mjm, nworld=n, nconmax=4, njmax=4)
  vel = np.array([[v * (1 + w)] for w in range(n)], dtype=np.float32)
  d.qvel.assign(vel)
  rec.cls("ticks", f"ticks:delay:{ds > 0}", f"ticks:k:{k}")
  late = 0
  for step in range(1, int(case["steps"]) + 1):
    mjw.step(m, d)
    got = d.sensordata.numpy()[:, 0]
    j = step - 1
    for w in range(n):
      rec.ev()
      want = float(vel[w, 0]) * dt * k * ((j - ds) // k) if j - ds >= 0 else 0.0
      if abs(float(got[w]) - want) > 2e-5 * max(1.0, abs(want)):
        late += 1
        rec.violation(
          f"interval = {k} * timestep, delay = {ds} steps, dt {dt}: after step {step} the sensor reads {float(got[w])!r}, the sample schedule gives {want!r} (world {w})",
          sig="ticks:regular", step=step, world=w, k=k, delay_steps=ds, dt=dt,
        )
        return
  rec.nt()


def strategy(tier):
  big = tier == "thorough"
  main = _main_strategy(tier)
  return st.one_of(main, main, main, main, main, main, main, _ticks_strategy())


def _main_strategy(tier):
  big = tier == "thorough"
  return st.fixed_dictionaries(
    dict(
      dt=st.sampled_from([0.002, 0.005, 0.01]),
      integ=st.sampled_from(["Euler", "implicitfast", "RK4", "Euler"]),
      acts=st.lists(_act_strategy(), min_size=1, max_size=3),
      sens=st.lists(_sens_strategy(), min_size=1, max_size=4),
      nworld=st.sampled_from([1, 2, 3, 2, 3]),
      start=st.sampled_from(["make", "put_fresh", "put_stepped", "reset_full", "reset_partial"]),
      pre=st.integers(1, 12),
      steps=st.integers(1, 60 if big else 40),
      hold=st.sampled_from([0.0, 0.3, 0.7]),
      p_query=st.sampled_from([0.2, 0.5]),
      n_init=st.integers(0, 2),
      init_none=st.booleans(),
      init_future=st.booleans(),
      seed=st.integers(0, 10**6),
    )
  )


def _r6(x):
  return float(f"{x:.7g}")


def sensor_kinds(case):
  """Sensor kinds actually built: a second energy sensor of the same type is replaced (see ASSUMPTIONS)."""
  seen, out = set(), []
  for s in case["sens"]:
    k = s["kind"]
    if k in ("e_kinetic", "e_potential"):
      if k in seen:
        k = "jointpos" if k == "e_potential" else "jointvel"
      seen.add(s["kind"])
    out.append(k)
  return out


def build_xml(case):
  dt = case["dt"]
  kinds = sensor_kinds(case)
  acts, sens = [], []
  for i, a in enumerate(case["acts"]):
    attr = f'name="a{i}" joint="j{a["joint"]}"'
    if a["buffered"]:
      attr += f' nsample="{a["nsample"]}" interp="{a["interp"]}"'
      if a["delay"] > 0:
        attr += f' delay="{_r6(a["delay"] * dt)}"'
    if a["kind"] == "motor":
      acts.append(f'<motor {attr} gear="{1 + i}"/>')
    elif a["kind"] == "filter":
      acts.append(f'<general {attr} dyntype="filter" dynprm="0.03" gainprm="1.5"/>')
    else:
      acts.append(f'<position {attr} kp="3" kv="0.2"/>')
  for s, k in zip(case["sens"], kinds):
    tmpl, _ = _SENS[k]
    attr = ""
    if s["buffered"]:
      attr += f' nsample="{s["nsample"]}" interp="{s["interp"]}"'
      if s["delay"] > 0:
        attr += f' delay="{_r6(s["delay"] * dt)}"'
    if s["period"] > 0:
      p = _r6(s["period"] * dt)
      ph = _r6(-s["phase"] * s["period"] * dt) if s["phase"] > 0 else 0.0
      attr += f' interval="{p} {ph}"'
    sens.append(tmpl.format(a=attr))
  return f"""<mujoco>
<option timestep="{dt}" integrator="{case["integ"]}" gravity="0 0 -3"><flag warmstart="disable"/></option>
<worldbody>
 <body name="b0" pos="0 0 1"><joint name="j0" type="slide" axis="0 0 1" limited="true" range="-0.01 4" margin="0.06" damping="0.5"/>
  <geom size="0.1" mass="1" contype="0" conaffinity="0"/></body>
 <body name="b1" pos="1 0 1"><joint name="j1" type="hinge" axis="0 1 0" damping="0.05"/>
  <geom type="capsule" fromto="0 0 0 0.3 0 0" size="0.03" mass="1" contype="0" conaffinity="0"/><site name="s1" pos="0.3 0 0.05"/></body>
</worldbody>
<actuator>{"".join(acts)}</actuator>
<sensor>{"".join(sens)}</sensor>
</mujoco>"""


def buffers(mjm):
  """List of (kind, index, adr, nsample, dim, delay, period, interp) for every history buffer."""
  out = []
  for i in range(mjm.nu):
    n = int(mjm.actuator_history[i, 0])
    if n > 0:
      out.append(("ctrl", i, int(mjm.actuator_historyadr[i]), n, 1, float(mjm.actuator_delay[i]), 0.0, int(mjm.actuator_history[i, 1])))
  for i in range(mjm.nsensor):
    n = int(mjm.sensor_history[i, 0])
    if n > 0:
      out.append(("sensor", i, int(mjm.sensor_historyadr[i]), n, int(mjm.sensor_dim[i]), float(mjm.sensor_delay[i]), float(mjm.sensor_interval[i, 0]), int(mjm.sensor_history[i, 1])))
  return out


def split(h, b):
  _, _, adr, n, dim, *_ = b
  return h[adr], h[adr + 1], h[adr + 2 : adr + 2 + n], h[adr + 2 + n : adr + 2 + n + n * dim]


class Lock:
  """MJWarp Data + one MuJoCo MjData per world, driven by the same calls."""

  def __init__(self, case, rec):
    self.case, self.rec = case, rec
    self.mjm = H.compile_xml(build_xml(case))
    self.m = H.put_model(self.mjm)
    self.n = case["nworld"]
    self.bufs = buffers(self.mjm)
    self.g = np.random.default_rng(case["seed"])
    self.ctrl = np.zeros((self.n, self.mjm.nu), dtype=np.float32)
    self.slipped = set()  # (world, sensor) whose interval trigger sat on a float comparison
    self.inserts = {}  # (world, kind, idx) -> number of inserts since the last (re)initialisation
    self.nt = False
    self.ncmp = 0
    self.skip_read = set()
    self.kinds = sensor_kinds(case)
    # MuJoCo 3.13 reference quirk (not judged): under RK4 the fresh sample of a sensor with delay>0 is evaluated inside mj_advance from the derived quantities of
    # the last RK4 stage (state ~ t+h) although it is stamped t; the same sensor without delay records the time-t value (checked with a delayed/undelayed
    # framelinvel pair).  Sensors that read only qpos/qvel/time are unaffected.  For the affected ones only cursor/user/timestamps are compared.
    self.quirk = set()
    if case["integ"] == "RK4":
      for i in range(self.mjm.nsensor):
        if self.mjm.sensor_history[i, 0] > 0 and self.mjm.sensor_delay[i] > 0 and self.kinds[i] not in ("jointpos", "jointvel", "clock"):
          self.quirk.add(i)
          rec.excluded["mujoco-rk4-delayed-sample-from-last-stage"] += 1

  # ---- helpers
  def scale(self, ref, b):
    _, _, _, vals = split(ref.history, b)
    return max(1.0, float(np.max(np.abs(vals))) if vals.size else 1.0)

  def new_ctrl(self):
    g = self.g
    keep = g.uniform(size=self.ctrl.shape) < self.case["hold"]
    new = (2.0 * g.normal(size=self.ctrl.shape)).astype(np.float32)
    self.ctrl = np.where(keep, self.ctrl, new).astype(np.float32)

  def compare(self, tag, worlds=None, sensordata=True):
    rec, mjm, d = self.rec, self.mjm, self.d
    hist = d.history.numpy()
    time = d.time.numpy()
    af = d.actuator_force.numpy()
    act = d.act.numpy()
    sd = d.sensordata.numpy()
    for w in range(self.n) if worlds is None else worlds:
      ref = self.refs[w]
      rec.ev()
      self.ncmp += 1
      ctx = dict(world=w, at=tag)
      check_close(rec, "time", time[w], ref.time, T_TIME, scale=1.0, sig="time", **ctx)
      for b in self.bufs:
        kind, i = b[0], b[1]
        if kind == "sensor" and (w, i) in self.slipped:
          continue
        u, c, t, v = split(hist[w], b)
        ur, cr, tr, vr = split(ref.history, b)
        bctx = dict(ctx, buffer=f"{kind}{i}", nsample=b[3], dim=b[4])
        sg = lambda name, vl=False: f"hist:{kind}:{name}"
        check_equal(rec, "history.cursor", int(c), int(cr), sig=sg("cursor"), **bctx)
        check_close(rec, "history.user", u, ur, T_TIME, scale=1.0, sig=sg("user"), **bctx)
        check_close(rec, "history.times", t, tr, T_TIME, scale=1.0, sig=sg("times"), **bctx)
        if kind == "sensor" and i in self.quirk:
          continue
        check_close(rec, f"history.values.{kind}", v, vr, T_CTRL if kind == "ctrl" else T_SENS, floor=1.0, sig=sg("values", True), **bctx)
      if not sensordata:
        continue
      ctrl_ok = not any(k[0] == w and k[1] == "ctrl" for k in self.skip_read)
      if mjm.nu and ctrl_ok:
        s = max(1.0, float(np.max(np.abs(ref.actuator_force))))
        check_close(rec, "actuator_force", af[w], ref.actuator_force, T_SENS, scale=s, sig="applied:actuator_force", **ctx)
      if mjm.na and ctrl_ok:
        check_close(rec, "act", act[w], ref.act, T_SENS, floor=1.0, sig="applied:act", **ctx)
      for i in range(mjm.nsensor):
        if (w, i) in self.slipped or (w, "sensor", i) in self.skip_read or i in self.quirk:
          continue
        if not ctrl_ok and self.kinds[i] in _ACC_KINDS:
          continue  # depends on the actuator force that is not judged this step
        a, dim = int(mjm.sensor_adr[i]), int(mjm.sensor_dim[i])
        want = ref.sensordata[a : a + dim]
        s = max(1.0, float(np.max(np.abs(want))))
        for b in self.bufs:
          if b[0] == "sensor" and b[1] == i:
            s = max(s, self.scale(ref, b))
        check_close(rec, "sensordata", sd[w, a : a + dim], want, T_SENS, scale=s, sig=f"sensordata:{self.kinds[i]}", sensor=i, **ctx)

  def align_initial_interval_times(self, tag, worlds):
    """make_data/reset_data: initial timestamps of interval-sensor buffers (all values zero).

    MuJoCo: times[k] = dt*ceil(x), x = (last - (n-1-k)*period)/dt.  When x is an integer up to float noise (|x - round(x)| < 1e-5) the ceil sits on a rounding
    boundary and float64 MuJoCo / float32 MJWarp may legitimately differ by exactly one dt: such an entry is not judged (counted in boundary_skipped) and is aligned
    with the reference so that the rest of the case stays comparable.  Every other entry is left to the ordinary comparison.
    """
    dt = self.mjm.opt.timestep
    hist = self.d.history.numpy()
    changed = False
    for w in worlds:
      ref = self.refs[w]
      for b in self.bufs:
        kind, i, adr, n, dim, delay, period, interp = b
        if kind != "sensor" or period <= 0:
          continue
        u, c, t, v = split(hist[w], b)
        ur, cr, tr, vr = split(ref.history, b)
        for k in range(n):
          x = (ur - (n - 1 - k) * period) / dt
          if abs(x - round(x)) < 1e-5 and abs(t[k] - tr[k]) > T_TIME and abs(abs(t[k] - tr[k]) - dt) < T_TIME:
            hist[w, adr + 2 + k] = tr[k]
            changed = True
            self.rec.boundary_skipped += 1
            self.rec.cls("initial-interval-time-on-ceil-boundary")
    if changed:
      self.d.history.assign(hist)

  def resync(self):
    d, mjm = self.d, self.mjm
    qpos = np.stack([H.f32(r.qpos) for r in self.refs])
    qvel = np.stack([H.f32(r.qvel) for r in self.refs])
    for w, r in enumerate(self.refs):
      r.qpos[:] = qpos[w]
      r.qvel[:] = qvel[w]
    d.qpos.assign(qpos.astype(np.float32))
    d.qvel.assign(qvel.astype(np.float32))
    if mjm.na:
      act = np.stack([H.f32(r.act) for r in self.refs])
      for w, r in enumerate(self.refs):
        r.act[:] = act[w]
      d.act.assign(act.astype(np.float32))

  def pre_step_observe(self):
    """Looks at the reference buffers before a step: interval boundaries and the non-triviality predicate."""
    dt = self.mjm.opt.timestep
    self.skip_read = set()
    for w, ref in enumerate(self.refs):
      t = ref.time
      for b in self.bufs:
        kind, i, adr, n, dim, delay, period, interp = b
        u, c, times, _ = split(ref.history, b)
        if kind == "sensor" and period > 0 and (w, i) not in self.slipped:
          # exact in every float format on a fresh/reset buffer without phase (-period + period <= 0): judged, not a boundary
          if abs(u + period - t) < 2e-6 and not (t == 0.0 and u == -period):
            self.slipped.add((w, i))
            self.rec.boundary_skipped += 1
            self.rec.cls("interval-on-boundary")
            continue
        if delay > 0 or period > 0:
          # float32 time resolution: a read that lands within 3e-6 of a recorded timestamp without coinciding with it (possible after init_*_history with
          # arbitrary times) is "at the sample" for MJWarp (window 1e-6) and "next to it" for MuJoCo: that one applied value is not judged
          gap = float(np.min(np.abs(times - (t - delay))))
          if 1e-12 < gap < 3e-6:
            self.skip_read.add((w, kind, i))
            if kind == "ctrl":
              # the unjudged force also enters the samples that acceleration-stage sensors record this step
              for si, sk in enumerate(self.kinds):
                if sk in _ACC_KINDS:
                  self.slipped.add((w, si))
            self.rec.boundary_skipped += 1
            self.rec.cls("step-read-at-sample-boundary")
        if delay > 0 and (kind == "ctrl" or (w, i) not in self.slipped):
          q = t - delay
          tt = np.sort(times)
          strictly_between = tt[0] + 1e-5 < q < tt[-1] - 1e-5 and np.min(np.abs(tt - q)) > 1e-5
          if strictly_between and self.inserts.get((w, kind, i), 0) > n:
            self.nt = True
            self.rec.cls(f"nt-read:{kind}:{_INTERP[interp]}")
        # count the insert this step performs
        if kind == "ctrl" or period <= 0 or u + period <= t:
          self.inserts[(w, kind, i)] = self.inserts.get((w, kind, i), 0) + 1
    _ = dt

  def step(self, tag):
    self.new_ctrl()
    self.pre_step_observe()
    if self.mjm.nu:
      self.d.ctrl.assign(self.ctrl)
    for w, ref in enumerate(self.refs):
      ref.ctrl[:] = self.ctrl[w]
      mujoco.mj_step(self.mjm, ref)
    mjw.step(self.m, self.d)
    self.compare(tag)
    self.resync()

  # ---- queries
  def query(self, tag):
    g, mjm, d, rec = self.g, self.mjm, self.d, self.rec
    dt = mjm.opt.timestep
    on_ctrl = mjm.nu > 0 and g.uniform() < 0.5
    idx = int(g.integers(0, mjm.nu if on_ctrl else mjm.nsensor))
    interp = int(g.choice([-1, 0, 1, 2]))
    mode = g.choice(["aligned", "between", "far"], p=[0.35, 0.5, 0.15])
    times = np.zeros(self.n, dtype=np.float32)
    for w, ref in enumerate(self.refs):
      if mode == "aligned":
        times[w] = ref.time - dt * int(g.integers(0, 10))
      elif mode == "between":
        times[w] = ref.time - dt * g.uniform(-1.0, 9.0)
      else:
        times[w] = ref.time + dt * g.uniform(-40.0, 5.0)
    tq = wp.array(times, dtype=float)
    if on_ctrl:
      out = wp.zeros(self.n, dtype=float)
      mjw.read_ctrl(self.m, d, idx, tq, interp, out)
      got = out.numpy().reshape(self.n, 1)
      kind, dim = "ctrl", 1
    else:
      dim = int(mjm.sensor_dim[idx])
      out = wp.zeros((self.n, dim), dtype=float)
      mjw.read_sensor(self.m, d, idx, tq, interp, out)
      got = out.numpy()
      kind = "sensor"
    buf = [b for b in self.bufs if b[0] == kind and b[1] == idx]
    for w, ref in enumerate(self.refs):
      if kind == "sensor" and ((w, idx) in self.slipped or idx in self.quirk):
        continue
      t = float(times[w])

      def ref_read(tt):
        if on_ctrl:
          return np.array([mujoco.mj_readCtrl(mjm, ref, idx, tt, interp)])
        tmp = np.zeros(dim)
        ptr = mujoco.mj_readSensor(mjm, ref, idx, tt, tmp, interp)
        return np.array(ptr if ptr is not None else tmp).reshape(-1)

      cands = [ref_read(t)]
      scale = max(1.0, float(np.max(np.abs(cands[0]))))
      if buf:
        b = buf[0]
        _, _, tt, _ = split(ref.history, b)
        gap = float(np.min(np.abs(tt - (t - b[5]))))
        if gap < 3e-6:
          # float32 time resolution: MJWarp treats |t - timestamp| < 1e-6 as "at the sample", MuJoCo (float64) compares exactly; either side of the sample is right
          cands += [ref_read(t - 3e-6), ref_read(t + 3e-6)]
          rec.cls("query-at-sample")
        scale = self.scale(ref, b)
        eff = b[7] if interp < 0 else interp
        srt = np.sort(tt)
        if srt[0] + 1e-5 < t - b[5] < srt[-1] - 1e-5 and gap > 1e-5:
          rec.cls(f"query-between:{kind}:{_INTERP[eff]}")
          if self.inserts.get((w, kind, idx), 0) > b[3]:
            self.nt = True
      rec.ev()
      errs = [relerr(got[w], c, scale=scale) for c in cands]
      k = int(np.argmin(errs))
      check_close(rec, f"read_{kind}", got[w], cands[k], T_CTRL if on_ctrl else T_SENS, scale=scale, sig=f"read:{kind}", world=w, at=tag, idx=idx, time=t, interp=interp, buffered=bool(buf), mode=str(mode))
    rec.cls(f"query:{kind}:{'buffered' if buf else 'plain'}")

  # ---- init_*_history
  def init_history(self, tag, none_times, future):
    g, mjm, d, rec = self.g, self.mjm, self.d, self.rec
    if not self.bufs:
      return
    b = self.bufs[int(g.integers(0, len(self.bufs)))]
    kind, i, adr, n, dim, delay, period, interp = b
    dt = mjm.opt.timestep
    tnow = max(r.time for r in self.refs)
    if none_times and not all(np.all(np.diff(split(r.history, b)[2]) > 1e-9) for r in self.refs):
      none_times = False  # MuJoCo requires the existing (physical-order) timestamps to be increasing when times is NULL
      future = False
    if none_times:
      times = None
    else:
      gaps = H.f32(dt * g.uniform(0.3, 2.0, size=n))
      end = tnow + (dt * g.uniform(0.5, 3.0) if future else -dt * g.uniform(0.0, 1.0))
      times = H.f32(end - np.cumsum(gaps)[::-1] + gaps[-1])
      if np.any(np.diff(times) < 1e-5):
        return
    vals = H.f32(g.normal(size=(self.n, n * dim)))
    phase = H.f32(tnow - dt * g.uniform(0.0, 2.0, size=self.n))
    wt = None if times is None else wp.array(times.astype(np.float32), dtype=float)
    if kind == "ctrl":
      mjw.init_ctrl_history(self.m, d, i, wt, wp.array(vals.astype(np.float32), dtype=float))
      for w, ref in enumerate(self.refs):
        mujoco.mj_initCtrlHistory(mjm, ref, i, None if times is None else times.copy(), vals[w].copy())
    else:
      mjw.init_sensor_history(self.m, d, i, wt, wp.array(vals.astype(np.float32), dtype=float), wp.array(phase.astype(np.float32), dtype=float))
      for w, ref in enumerate(self.refs):
        mujoco.mj_initSensorHistory(mjm, ref, i, None if times is None else times.copy(), vals[w].reshape(n, dim).copy(), float(phase[w]))
    for w in range(self.n):
      self.inserts[(w, kind, i)] = 0
      self.slipped.discard((w, i)) if kind == "sensor" else None
    rec.cls(f"init:{kind}:{'none' if times is None else ('future' if future else 'past')}")
    # compare just this buffer (known class for times=None is routed through its own signature)
    hist = d.history.numpy()
    sig = f"init:{kind}:times-none" if times is None else f"init:{kind}"
    bad = False
    for w, ref in enumerate(self.refs):
      rec.ev()
      u, c, t, v = split(hist[w], b)
      ur, cr, tr, vr = split(ref.history, b)
      ok = int(c) == int(cr) and abs(u - ur) <= T_TIME and np.all(np.abs(t - tr) <= T_TIME) and np.all(np.abs(v - vr) <= T_CTRL * max(1.0, np.max(np.abs(vr))))
      if not ok:
        bad = True
        rec.violation(
          f"{tag}: init_{kind}_history buffer differs from MuJoCo: got user={u} cursor={c} times={t.tolist()} want user={ur} cursor={cr} times={tr.tolist()}",
          sig=sig, world=w, buffer=f"{kind}{i}", got=hist[w][adr : adr + 2 + n + n * dim].tolist(), want=ref.history[adr : adr + 2 + n + n * dim].tolist(),
        )
    return bad


def _mk_refs(mjm, n, src=None):
  if src is None:
    return [mujoco.MjData(mjm) for _ in range(n)]
  return [copy.copy(src) for _ in range(n)]


def check(case, rec):
  if case.get("kind") == "ticks":
    return _check_ticks(case, rec)
  L = Lock(case, rec)
  mjm, m, n = L.mjm, L.m, L.n
  if mjm.nhistory == 0 and not any(s["period"] > 0 for s in case["sens"]):
    raise Reject("no buffer and no interval")
  g = L.g
  start = case["start"]
  caps = dict(nconmax=8, njmax=16)
  if start in ("make", "reset_full", "reset_partial"):
    L.d = H.make_data(mjm, nworld=n, **caps)
    L.refs = _mk_refs(mjm, n)
  elif start == "put_fresh":
    src = mujoco.MjData(mjm)
    L.d = H.put_data(mjm, src, nworld=n, **caps)
    L.refs = _mk_refs(mjm, n)
  else:
    src = mujoco.MjData(mjm)
    for _ in range(case["pre"]):
      src.ctrl[:] = H.f32(2.0 * g.normal(size=mjm.nu))
      mujoco.mj_step(mjm, src)
      src.qpos[:] = H.f32(src.qpos)
      src.qvel[:] = H.f32(src.qvel)
      src.act[:] = H.f32(src.act)
    L.d = H.put_data(mjm, src, nworld=n, **caps)
    L.refs = _mk_refs(mjm, n, src)
    for k in L.inserts:
      pass
    for b in L.bufs:
      for w in range(n):
        L.inserts[(w, b[0], b[1])] = case["pre"] if b[6] <= 0 else 0
    L.ctrl = np.tile(src.ctrl.astype(np.float32), (n, 1))
  if start in ("make", "reset_full", "reset_partial"):
    L.align_initial_interval_times(f"start:{start}", range(n))
  L.compare(f"start:{start}", sensordata=False)

  if start in ("reset_full", "reset_partial"):
    for s in range(case["pre"]):
      L.step(f"pre{s}")
    if start == "reset_full":
      mask = np.ones(n, dtype=bool)
      if g.uniform() < 0.5:
        mjw.reset_data(m, L.d)
      else:
        mjw.reset_data(m, L.d, wp.array(mask, dtype=bool))
    else:
      mask = g.uniform(size=n) < 0.5
      if n > 1 and mask.all():
        mask[int(g.integers(0, n))] = False
      if n > 1 and not mask.any():
        mask[int(g.integers(0, n))] = True
      mjw.reset_data(m, L.d, wp.array(mask, dtype=bool))
    for w in range(n):
      if mask[w]:
        mujoco.mj_resetData(mjm, L.refs[w])
        L.ctrl[w] = 0
        for b in L.bufs:
          L.inserts[(w, b[0], b[1])] = 0
        L.slipped = {k for k in L.slipped if k[0] != w}
    rec.cls(f"reset-mask:{'all' if mask.all() else ('none' if not mask.any() else 'partial')}")
    L.align_initial_interval_times("after-reset", [w for w in range(n) if mask[w]])
    L.compare("after-reset", sensordata=False)

  nsteps = case["steps"]
  init_at = sorted(int(x) for x in g.integers(0, nsteps + 1, size=case["n_init"]))
  if case["init_none"] and init_at:
    init_at[0] = 0  # times=None needs a buffer whose slots are still in time order: initialise before the first step
  for s in range(nsteps):
    for k, at in enumerate(init_at):
      if at == s:
        none_times = case["init_none"] and k == 0
        bad = L.init_history(f"init@{s}", none_times, case["init_future"] and not none_times)
        if bad:
          return
    L.step(f"step{s}")
    while g.uniform() < case["p_query"]:
      L.query(f"query@{s}")
  for _ in range(2):
    L.query("query@end")
  _finish(L, case, rec)


def _finish(L, case, rec):
  mjm = L.mjm
  wrap = any(v > b[3] for b in L.bufs for (w, k, i), v in L.inserts.items() if k == b[0] and i == b[1])
  rec.cls(
    f"start:{case['start']}", f"integ:{case['integ']}", f"nworld:{L.n}", f"wrapped:{wrap}", f"nt:{L.nt}",
    *[f"act:{a['kind']}:{'buf' if a['buffered'] else 'plain'}:delay{a['delay'] if a['buffered'] else 0}" for a in case["acts"]],
    *[f"sens:{k}" for k in L.kinds],
    *[f"sensmode:{'buf' if s['buffered'] else 'plain'}:{'delay' if s['buffered'] and s['delay'] > 0 else 'nodelay'}:{'interval' if s['period'] > 0 else 'nointerval'}" for s in case["sens"]],
    *[f"interp:{b[0]}:{_INTERP[b[7]]}" for b in L.bufs],
    *[f"dim:{b[4]}" for b in L.bufs if b[0] == "sensor"],
  )
  if L.nt:
    rec.nt()
