"""C31 Host/device conversion is faithful (put_model field equality / mandatory rejections, put_data -> get_data_into round trip)."""

from __future__ import annotations

import copy
import dataclasses

import mujoco
import numpy as np
import warp as wp
from hypothesis import strategies as st

import mujoco_warp as mjw
from mujoco_warp._src import types as T

from vf import gen, mjw as H
from vf.core import Reject, check_close, check_equal

RULE = (
  "three case kinds. (model) random model of the full grammar (all joint/geom types incl. mesh/ellipsoid/cylinder, tendons with wrapping, equalities, all actuator "
  "kinds, sensors with delays, cameras/lights, keyframes, pairs/excludes, fluid, gravcomp, mocap, every option) plus hand-written flex/hfield models, optionally with "
  "put_model(batch_sizes=...) on random batched fields: every Model/Option/Statistic field declared before the 'warp only fields' marker that also exists in "
  "MjModel/MjOption/MjStatistic equals the MuJoCo value after float32 rounding (every batch row). (unsupported) an accepted random model with exactly one "
  "unsupported feature switched on (list derived from the raises in io.put_model, the enum members missing in types.py and the README): put_model must raise "
  "NotImplementedError or ValueError. (roundtrip) MjData after random mj_step's + mj_forward (contacts, limits, equalities, friction loss), d = put_data(nworld 1-3); "
  "get_data_into(world w) into a fresh MjData reproduces every field get_data_into writes (state, kinematics, dynamics, contacts in order, efc rows in MuJoCo order "
  "incl. J, contact.efc_address, counts, history, userdata, island fields) exactly after float32 rounding (qLD/qLDiagInv: 1e-3, they are re-factored in float32); then the worlds are "
  "made different (per-world ctrl/qvel, mjw.step) and get_data_into(world w) must equal what Data holds for world w (contacts filtered by worldid in order, efc rows "
  "ne+nf+nl first then contact rows in contact order). evaluation = one model compared / one feature / one world round trip; non-trivial = model with >=3 optional "
  "feature groups, any unsupported feature, round trip with ncon>0 and nefc>0"
)
ASSUMPTIONS = [
  "fields compared = dataclass fields of types.Model / Option / Statistic listed before the '# warp only fields' marker (first warp-only field: Model.callback, "
  "Option.impratio_invsqrt) that exist under the same name in MuJoCo; explicit skips: Model.opt and Model.stat (compared member-wise), Option.tolerance "
  "(put_model documents the clamp max(tolerance, 1e-6); that clamped value is what is compared)",
  "unsupported-feature list: solver PGS, noslip_iterations>0, integrator discrete, disable flags midphase/autoreset, enable flags override/fwdinv/diagexact, body sleep "
  "policies never/allowed/init, sleep with CG, dense Jacobian with nv>60, pid actuator, quadratic flex, flex internal collisions, flex with hfield, flexvert equality, "
  "flex edge equality with sleep, box-box margin with native CCD; enum members that MJCF cannot express here (trn/gain/bias SO3, dyn PID, eq distance, "
  "sensor/actuator/body plugin ids) are switched on by editing a copy of the MjModel arrays",
  "round trip: the source MjData is made self-consistent with mj_forward first (put_data calls mj_kinematics on it); solver_niter: element 0 only; efc_J compared densified",
]
BUDGET = {"quick": dict(examples=320, seconds=420, workers=16), "thorough": dict(examples=8000, seconds=1500, workers=16)}


# --------------------------------------------------------------------------------------
# (a) model fields


def _declared(cls, stop):
  out = []
  for f in dataclasses.fields(cls):
    if f.name == stop:
      break
    out.append(f)
  return out


_MODEL_FIELDS = _declared(T.Model, "callback")
_OPTION_FIELDS = _declared(T.Option, "impratio_invsqrt")
_STAT_FIELDS = list(dataclasses.fields(T.Statistic))
_SKIP = {"opt", "stat"}


def _compare_fields(rec, obj, ref, fields, tag, batch=None):
  """obj: mjw dataclass, ref: mujoco struct.  Returns number of fields compared with non-empty content."""
  nonempty = 0
  for f in fields:
    if f.name in _SKIP or not hasattr(ref, f.name):
      continue
    a, b = getattr(obj, f.name), getattr(ref, f.name)
    spec = getattr(f.type, "shape", ())
    batched = bool(spec) and spec[0] == "*"
    if isinstance(a, wp.array):
      a = a.numpy()
    try:
      a = np.asarray(a)
      b = np.asarray(b)
    except Exception:
      rec.cls(f"uncompared:{tag}.{f.name}")
      continue
    if a.dtype == object or b.dtype == object or a.dtype.kind in "USO" or b.dtype.kind in "USO":
      rec.cls(f"uncompared:{tag}.{f.name}")
      continue
    if tag == "opt" and f.name == "tolerance":
      b = np.maximum(b, 1e-6)
    rows = [a]
    if batched:
      want_rows = (batch or {}).get(f.name, 1)
      if a.shape[0] != want_rows:
        rec.violation(f"{tag}.{f.name}: leading batch dimension {a.shape[0]} != requested {want_rows}", sig=f"model:{tag}.{f.name}:batch")
      rows = [a[i] for i in range(a.shape[0])]
    bb = b.reshape(-1)
    if bb.dtype.kind == "f":
      bb = bb.astype(np.float32).astype(np.float64)
    for i, r in enumerate(rows):
      rr = r.reshape(-1)
      if rr.dtype.kind == "f":
        rr = rr.astype(np.float64)
        want = bb.astype(np.float64)
      else:
        rr = rr.astype(np.int64)
        want = bb.astype(np.int64)
      check_equal(rec, f"{tag}.{f.name}", rr, want, sig=f"model:{tag}.{f.name}", row=i)
    if bb.size:
      nonempty += 1
  return nonempty


_FEATURE_XML = {
  "flex2d": """<mujoco><option timestep="0.002"/><worldbody><geom type="plane" size="3 3 .1"/>
<flexcomp name="cloth" type="grid" count="4 4 1" spacing=".1 .1 .1" pos="0 0 1" dim="2" mass="0.5" radius="0.01"><edge equality="true" damping="0.1"/><contact selfcollide="none"/></flexcomp>
<body pos="0 0 2"><freejoint/><geom size=".1"/></body></worldbody></mujoco>""",
  "flex3d": """<mujoco><option timestep="0.002" solver="CG"/><worldbody><geom type="plane" size="3 3 .1"/>
<flexcomp name="soft" type="grid" count="3 3 3" spacing=".1 .1 .1" pos="0 0 1" dim="3" dof="trilinear" mass="1" radius="0.01"><elasticity young="1e4" poisson="0.2"/><contact selfcollide="none"/></flexcomp>
</worldbody></mujoco>""",
  "hfield": """<mujoco><asset><hfield name="hf" nrow="4" ncol="5" size="1 1 .3 .1" elevation="0 .1 .2 .1 0  .1 .3 .5 .3 .1  .1 .3 .5 .3 .1  0 .1 .2 .1 0"/>
<mesh name="tet" vertex="0 0 0 .2 0 0 0 .2 0 0 0 .2"/><texture name="t" type="2d" builtin="checker" width="8" height="8"/><material name="m" texture="t" rgba="1 0 0 1"/></asset>
<worldbody><geom type="hfield" hfield="hf" material="m"/><light pos="0 0 3" mode="trackcom" type="directional" ambient=".1 .2 .3"/><light pos="1 0 3" type="spot"/>
<camera name="c" pos="0 -2 1" mode="targetbody" target="b" resolution="64 48" sensorsize="0.01 0.0075" focal="0.02 0.02"/><camera name="o" pos="0 -2 2" projection="orthographic" fovy="2"/>
<body name="b" pos="0 0 1"><freejoint/><geom type="mesh" mesh="tet"/><geom name="cyl" type="cylinder" size=".05 .1" pos=".2 0 0" margin="0.02" gap="0.01"/><site name="s"/></body>
<body name="c2" pos=".5 0 1"><joint name="bj" type="ball" range="0 1" limited="true" margin="0.05"/><geom name="el" type="ellipsoid" size=".1 .05 .07"/><site name="s2"/>
 <body pos="0 0 .3"><joint name="hj" type="hinge" range="-1 1" margin="0.03" actuatorfrcrange="-2 2"/><geom size=".05"/></body></body></worldbody>
<tendon><spatial name="sp" range="0 1" limited="true" margin="0.04" actuatorfrcrange="-1 1"><site site="s"/><site site="s2"/></spatial></tendon>
<actuator><motor name="m1" joint="hj" ctrlrange="-1 1"/><general name="g1" tendon="sp" dyntype="filter" dynprm="0.1"/></actuator>
<sensor><framepos objtype="site" objname="s" reftype="body" refname="c2"/><framequat objtype="body" objname="b" reftype="site" refname="s2"/><rangefinder site="s"/><camprojection site="s" camera="c"/>
<tendonactuatorfrc tendon="sp"/><jointlimitfrc joint="hj"/></sensor>
<keyframe><key name="k" time="1" qpos="0 0 1.5 1 0 0 0 1 0 0 0 0.2" qvel="0 0 0 0 0 0 .1 .2 .3 .4" ctrl="0.5 0.1" act="0.3"/></keyframe></mujoco>""",
}


def _add_sensors(spec, seed):
  r = gen.R([seed, 31])
  joints = [j["name"] for b in spec["bodies"] for j in b["joints"] if j["type"] in ("hinge", "slide")]
  sites = [s_["name"] for b in spec["bodies"] for s_ in b["sites"]]
  bodies = [b["name"] for b in spec["bodies"]]
  for jn in joints[:2]:
    spec["sensors"].append(dict(kind=r.ch(["jointpos", "jointvel", "jointactuatorfrc"]), joint=jn, **(dict(delay=0.004, nsample=3, interp="linear") if r.p(0.4) else {})))
  for sn in sites[:2]:
    spec["sensors"].append(dict(kind=r.ch(["framepos", "framequat", "framelinvel", "frameangacc"]), objtype="site", objname=sn, **(dict(interval=[0.006, -0.002], nsample=2) if r.p(0.3) else {})))
    spec["sensors"].append(dict(kind=r.ch(["accelerometer", "gyro", "velocimeter", "force", "torque", "touch"]), site=sn, cutoff=r.ch([0, 5.0])))
  if bodies:
    spec["sensors"].append(dict(kind=r.ch(["subtreecom", "subtreelinvel", "subtreeangmom"]), body=bodies[0]))
  spec["sensors"].append(dict(kind="clock"))


_FULL = dict(
  cameras=st.integers(0, 2),
  lights=st.integers(0, 2),
  nkey=st.integers(0, 2),
  nuserdata=st.integers(0, 2),
  tendons=st.integers(0, 2),
  spatial_tendons=st.integers(0, 2),
  wrap=st.booleans(),
  pulley=st.booleans(),
  geom_menu=st.sampled_from([["sphere", "capsule", "box", "ellipsoid", "cylinder", "mesh"], ["sphere", "capsule", "cylinder"], ["sphere", "mesh", "ellipsoid"]]),
  fluid=st.booleans(),
  gravcomp=st.booleans(),
  geom_params=st.booleans(),
  masks=st.booleans(),
  groups=st.booleans(),
  poly=st.booleans(),
  actfrcrange=st.booleans(),
  inertial=st.booleans(),
  act_menu=st.sampled_from([["motor", "position", "velocity"], ["motor", "general", "intvelocity", "damper", "cylinder", "muscle", "adhesion"], ["general"]]),
  trn_menu=st.sampled_from([["joint"], ["joint", "jointinparent", "tendon", "site", "body"], ["joint", "slidercrank", "site"]]),
  delays=st.booleans(),
  equalities=st.integers(0, 3),
  margin=st.booleans(),
  limits=st.sampled_from([0.0, 0.6]),
  geom_adhesion=st.booleans(),
)
_DSBL = ["constraint", "equality", "frictionloss", "limit", "contact", "spring", "damper", "gravity", "clampctrl", "warmstart", "filterparent", "actuation", "refsafe", "sensor",
         "eulerdamp", "nativeccd", "island", "multiccd"]
_ENBL = ["energy", "invdiscrete"]


def _strip_ccd_margins(spec):
  """put_model rejects box/mesh pairs with margins (NATIVECCD/MULTICCD): keep margins on the other geom types only."""
  for gs in [spec.get("world_geoms", [])] + [b["geoms"] for b in spec["bodies"]]:
    for g in gs:
      if g["type"] in ("box", "mesh"):
        g.pop("margin", None)
        g.pop("gap", None)
  types = {g["name"]: g["type"] for gs in [spec.get("world_geoms", [])] + [b["geoms"] for b in spec["bodies"]] for g in gs}
  for p_ in spec.get("pairs", []):
    if types.get(p_.get("geom1")) in ("box", "mesh") and types.get(p_.get("geom2")) in ("box", "mesh"):
      p_.pop("margin", None)
      p_.pop("gap", None)


def _random_flags(spec, seed):
  r = gen.R([seed, 77])
  flags = spec.setdefault("option", {}).setdefault("flags", {})
  for name in _DSBL:
    if r.p(0.15):
      flags[name] = "disable"
  for name in _ENBL:
    if r.p(0.3):
      flags[name] = "enable"


_UNSUPPORTED = [
  "opt:solver=PGS", "opt:noslip_iterations=3", "opt:integrator=discrete",
  "flag:midphase=disable", "flag:autoreset=disable", "flag:override=enable", "flag:fwdinv=enable", "flag:diagexact=enable",
  "sleep:never", "sleep:allowed", "sleep:init", "sleep+CG", "dense61", "actuator:pid", "boxbox-margin-nativeccd",
  "flex:quadratic", "flex:internal", "flex:hfield", "flex:verteq", "flex:edgeeq+sleep",
  "edit:actuator_trntype=mjTRN_SO3", "edit:actuator_gaintype=mjGAIN_SO3", "edit:actuator_biastype=mjBIAS_SO3", "edit:actuator_dyntype=mjDYN_PID",
  "edit:eq_type=mjEQ_DISTANCE", "edit:sensor_plugin", "edit:actuator_plugin", "edit:body_plugin",
]


def strategy(tier):
  model = st.fixed_dictionaries(dict(kind=st.just("model"), cfg=gen.rich_cfg(**_FULL), opt=gen.option_strategy(), sensors=st.booleans(), nbatch=st.integers(0, 2), seed=st.integers(0, 10**6)))
  unsup = st.fixed_dictionaries(
    dict(kind=st.just("unsupported"), cfg=gen.rich_cfg(actuators=st.integers(1, 2), equalities=st.integers(1, 2), nroot=st.integers(2, 3)), opt=gen.option_strategy(integrators=("Euler", "implicitfast")), feature=st.sampled_from(_UNSUPPORTED), seed=st.integers(0, 10**6))
  )
  rt = st.fixed_dictionaries(
    dict(
      kind=st.just("roundtrip"),
      cfg=gen.rich_cfg(
        nuserdata=st.integers(0, 2), tendons=st.integers(0, 2), spatial_tendons=st.integers(0, 1), limits=st.sampled_from([0.0, 0.7]), frictionloss=st.sampled_from([0.0, 0.5]),
        margin=st.booleans(), delays=st.booleans(), condim_menu=st.sampled_from([[3], [1, 3, 4, 6]]), equalities=st.integers(0, 3), geom_menu=st.sampled_from([["sphere", "capsule", "box"], ["sphere", "capsule"]]),
        geom_params=st.booleans(),
      ),
      opt=gen.option_strategy(),
      island=st.booleans(),
      nworld=st.integers(1, 3),
      nstep=st.integers(0, 6),
      sigma=st.sampled_from([0.05, 0.3]),
      seed=st.integers(0, 10**6),
    )
  )
  return st.one_of(model, unsup, rt, rt)


def enumerate_cases(tier, seed):
  """Deterministic part: the hand-written feature models and every unsupported feature on two fixed-grammar backgrounds."""
  out = [dict(kind="xml_model", name=k) for k in sorted(_FEATURE_XML)]
  for i, feat in enumerate(_UNSUPPORTED):
    for k in range(2):
      cfg = dict(gen.DEFAULT_CFG, nroot=2 + k, maxdepth=1, plane=True, contacts="pile", dynamics=True, actuators=2, equalities=1 + k, sites=1.0, mocap=k,
                 act_menu=["motor", "position"], geom_menu=["sphere", "capsule"] if k else ["sphere", "capsule", "box"], seed=1000 * int(seed) + 10 * i + k)
      out.append(dict(kind="unsupported", cfg=cfg, opt=dict(integrator="Euler", solver="Newton", cone=["pyramidal", "elliptic"][k], jacobian=["dense", "sparse"][k]), feature=feat, seed=i + k))
  return out


# --------------------------------------------------------------------------------------


def _spec(case):
  cfg = dict(case["cfg"])
  cfg["option"] = dict(case["opt"])
  return gen.make_spec(cfg)


def check_model(case, rec, mjm, batch_seed=None, nbatch=0):
  batch = {}
  if nbatch:
    g = np.random.default_rng(batch_seed)
    cand = [f.name for f in _MODEL_FIELDS if getattr(f.type, "shape", ()) and f.type.shape[0] == "*"]
    for name in g.choice(cand, size=min(nbatch, len(cand)), replace=False):
      batch[str(name)] = int(g.integers(2, 4))
  m = H.put_model(mjm, **(dict(batch_sizes=batch) if batch else {}))
  rec.ev()
  n = _compare_fields(rec, m, mjm, _MODEL_FIELDS, "model", batch)
  n += _compare_fields(rec, m.opt, mjm.opt, _OPTION_FIELDS, "opt")
  n += _compare_fields(rec, m.stat, mjm.stat, _STAT_FIELDS, "stat")
  groups = dict(
    tendon=mjm.ntendon > 0, wrap=mjm.nwrap > 0, eq=mjm.neq > 0, actuator=mjm.nu > 0, sensor=mjm.nsensor > 0, mesh=mjm.nmesh > 0, hfield=mjm.nhfield > 0, flex=mjm.nflex > 0,
    cam=mjm.ncam > 0, light=mjm.nlight > 0, key=mjm.nkey > 0, pair=mjm.npair > 0, exclude=mjm.nexclude > 0, mocap=mjm.nmocap > 0, history=mjm.nhistory > 0, batch=bool(batch),
  )
  rec.cls(*[f"has:{k}" for k, v in groups.items() if v], f"nonempty-fields:{n // 50 * 50}+")
  if sum(groups.values()) >= 3:
    rec.nt()


def _apply_feature(spec, feat, seed):
  """Returns (spec', edit) where edit is a function applied to a copy of the compiled MjModel (or None)."""
  spec = copy.deepcopy(spec)
  opt = spec.setdefault("option", {})
  edit = None
  world = ""
  if feat.startswith("opt:"):
    k, v = feat[4:].split("=")
    opt[k] = v
  elif feat.startswith("flag:"):
    k, v = feat[5:].split("=")
    opt.setdefault("flags", {})[k] = v
  elif feat.startswith("sleep:"):
    opt.setdefault("flags", {})["sleep"] = "enable"
    opt["solver"] = "Newton"
    world = f'<body name="sleeper" sleep="{feat[6:]}" pos="15 0 3"><joint type="hinge"/><geom size=".1" contype="0" conaffinity="0"/></body>'
  elif feat == "sleep+CG":
    opt.setdefault("flags", {})["sleep"] = "enable"
    opt["solver"] = "CG"
  elif feat == "dense61":
    opt["jacobian"] = "dense"
    world = "".join(f'<body pos="{i} 0 5"><joint type="slide"/><geom size=".1" contype="0" conaffinity="0"/></body>' for i in range(61))
  elif feat == "actuator:pid":
    joints = [j["name"] for b in spec["bodies"] for j in b["joints"] if j["type"] in ("hinge", "slide")]
    if not joints:
      raise Reject("no scalar joint")
    spec["actuators"].append(dict(kind="pid", joint=joints[0], kp=1.0))
  elif feat == "boxbox-margin-nativeccd":
    opt.setdefault("flags", {}).pop("nativeccd", None)
    world = '<body pos="9 0 1"><freejoint/><geom type="box" size=".1 .1 .1" margin="0.01"/></body><body pos="9.3 0 1"><freejoint/><geom type="box" size=".1 .1 .1" margin="0.01"/></body>'
  elif feat.startswith("flex:"):
    sub = feat[5:]
    attr, inner, top = 'dim="2" count="3 3 1"', '<contact selfcollide="none"/>', ""
    if sub == "quadratic":
      attr = 'dim="3" count="3 3 3" dof="quadratic"'
    elif sub == "internal":
      attr, inner = 'dim="3" count="3 3 3"', '<contact internal="true" selfcollide="none"/>'
    elif sub == "hfield":
      spec.setdefault("hfields", []).append(dict(name="hfx", nrow=3, ncol=3, size=[1, 1, 1, 0.1], elevation=[0, 0, 0, 0, 1, 0, 0, 0, 0]))
      world += '<geom type="hfield" hfield="hfx" pos="20 20 0"/>'
    elif sub == "verteq":
      inner = '<edge equality="vert"/><contact selfcollide="none"/>'
    elif sub == "edgeeq+sleep":
      inner = '<edge equality="true"/><contact selfcollide="none"/>'
      opt.setdefault("flags", {})["sleep"] = "enable"
      opt["solver"] = "Newton"
    world += f'<flexcomp name="fx" type="grid" {attr} spacing=".1 .1 .1" pos="12 0 2" mass="1" radius="0.01">{inner}</flexcomp>'
  elif feat.startswith("edit:"):
    body = feat[5:]
    if "=" in body:
      field, member = body.split("=")
      enum = {"actuator_trntype": mujoco.mjtTrn, "actuator_gaintype": mujoco.mjtGain, "actuator_biastype": mujoco.mjtBias, "actuator_dyntype": mujoco.mjtDyn, "eq_type": mujoco.mjtEq}[field]
      val = int(getattr(enum, member))
    else:
      field, val = body, 0

    def edit(mjm, field=field, val=val):
      arr = getattr(mjm, field)
      if arr.size == 0:
        raise Reject(f"no element for {field}")
      arr[int(seed) % arr.size] = val

  return spec, world, edit


def _render_with_world(spec, world):
  xml = gen.render(spec)
  if world:
    xml = xml.replace("</worldbody>", world + "</worldbody>", 1)
  return xml


def check_unsupported(case, rec):
  spec = _spec(case)
  _add_sensors(spec, case["seed"])
  base = H.compile_xml(gen.render(spec))
  H.put_model(base)  # the background model must be in the accepted domain (else Reject)
  feat = case["feature"]
  spec2, world, edit = _apply_feature(spec, feat, case["seed"])
  mjm = H.compile_xml(_render_with_world(spec2, world))
  if edit is not None:
    mjm = copy.copy(mjm)
    edit(mjm)
  rec.ev()
  rec.cls(f"unsupported:{feat}")
  try:
    mjw.put_model(mjm)
  except (NotImplementedError, ValueError):
    rec.nt()
    return
  rec.violation(f"put_model silently accepted a model with unsupported feature {feat}", sig=f"accepted:{feat}", feature=feat)


# --------------------------------------------------------------------------------------
# (b) round trip

_PLAIN = (
  "time energy qpos qvel act qacc_warmstart ctrl qfrc_applied xfrc_applied eq_active mocap_pos mocap_quat qacc act_dot xpos xquat xmat xipos ximat xanchor xaxis "
  "geom_xpos geom_xmat site_xpos site_xmat cam_xpos cam_xmat light_xpos light_xdir subtree_com cdof cinert actuator_length moment_rownnz moment_rowadr moment_colind "
  "actuator_moment crb ten_velocity actuator_velocity cvel cdof_dot qfrc_bias qfrc_spring qfrc_damper qfrc_gravcomp qfrc_fluid qfrc_passive subtree_linvel subtree_angmom "
  "actuator_force qfrc_actuator qfrc_smooth qacc_smooth qfrc_constraint qfrc_inverse history userdata M cacc cfrc_int cfrc_ext ten_length ten_J ten_wrapadr ten_wrapnum "
  "wrap_obj wrap_xpos sensordata tree_asleep tree_awake body_awake"
).split()
_EFC = "type id pos margin D vel aref frictionloss force".split()
_CON = "dist pos frame includemargin friction solref solreffriction solimp dim geom".split()
_ISL_SCALAR = ["nisland", "nidof"]
_ISL_TREE = ["tree_island", "dof_island"]
_ISL_ARR = ["island_idofadr", "island_dofadr", "island_nv", "island_nefc", "island_ne", "island_nf", "island_iefcadr"]
_ISL_MAP = ["map_dof2idof", "map_idof2dof"]


def _f32(x):
  x = np.asarray(x)
  return x.astype(np.float32).astype(np.float64) if x.dtype.kind == "f" else x


def _eq(rec, name, got, want, sig=None, **ctx):
  got, want = np.asarray(got), _f32(want)
  if got.dtype.kind == "f":
    got = got.astype(np.float64)
  check_equal(rec, name, got.reshape(-1), np.asarray(want).reshape(-1).astype(got.dtype), sig=sig or f"roundtrip:{name}", **ctx)


def compare_mjd(rec, mjm, r, src, w, tag, norows):
  """r: MjData filled by get_data_into, src: the MjData the Data was made from."""
  ctx = dict(world=w, at=tag)
  for k in ("ncon", "ne", "nf", "nl", "nefc"):
    _eq(rec, k, getattr(r, k), getattr(src, k), **ctx)
  _eq(rec, "solver_niter", r.solver_niter[0], src.solver_niter[0], **ctx)
  for k in _PLAIN:
    _eq(rec, k, getattr(r, k), getattr(src, k), **ctx)
  for k in ("qLD", "qLDiagInv"):
    # re-factored in float32 on the device: the error grows with cond(M) (thorough tier saw 6e-5); a wrong index would be O(1)
    check_close(rec, k, getattr(r, k), getattr(src, k), 1e-3, sig=f"roundtrip:{k}", **ctx)
  n = src.ncon
  for k in _CON:
    _eq(rec, f"contact.{k}", np.asarray(getattr(r.contact, k))[:n], np.asarray(getattr(src.contact, k))[:n], **ctx)
  _eq(rec, "contact.efc_address", np.asarray(r.contact.efc_address)[:n], np.asarray(src.contact.efc_address)[:n], **ctx)
  for k in _EFC:
    _eq(rec, f"efc_{k}", getattr(r, "efc_" + k), getattr(src, "efc_" + k), **ctx)
  _eq(rec, "efc_state", r.efc_state, src.efc_state, **ctx)
  if src.nefc:
    _eq(rec, "efc_J", H.mj_efc_dense(mjm, r)["J"], H.mj_efc_dense(mjm, src)["J"], **ctx)
  for k in _ISL_SCALAR:
    _eq(rec, k, getattr(r, k), getattr(src, k), **ctx)
  if src.nisland > 0:
    ni, nv, nefc = src.nisland, mjm.nv, src.nefc
    for k in _ISL_TREE:
      _eq(rec, k, getattr(r, k), getattr(src, k), **ctx)
    for k in _ISL_ARR:
      _eq(rec, k, np.asarray(getattr(r, k))[:ni], np.asarray(getattr(src, k))[:ni], **ctx)
    for k in _ISL_MAP:
      _eq(rec, k, np.asarray(getattr(r, k))[:nv], np.asarray(getattr(src, k))[:nv], **ctx)
    _eq(rec, "efc_island", np.asarray(r.efc_island)[:nefc], np.asarray(src.efc_island)[:nefc], **ctx)
    _eq(rec, "map_efc2iefc", np.asarray(r.map_efc2iefc)[:nefc], np.asarray(src.map_efc2iefc)[:nefc], **ctx)
    _eq(rec, "map_iefc2efc", np.asarray(r.map_iefc2efc)[:nefc], np.asarray(src.map_iefc2efc)[:nefc], **ctx)


def compare_with_data(rec, mjm, m, r, d, w, tag):
  """get_data_into(world w) against what the Data itself holds for world w (worlds differ)."""
  ctx = dict(world=w, at=tag)
  for k in _PLAIN:
    if k in ("history", "userdata") and getattr(r, k).size == 0:
      continue
    if not hasattr(d, k):
      continue
    arr = getattr(d, k).numpy()[w]
    got = np.asarray(getattr(r, k), dtype=np.float64 if arr.dtype.kind == "f" else arr.dtype)
    check_equal(rec, f"self.{k}", got.reshape(-1), arr.reshape(-1).astype(got.dtype), sig=f"world:{k}", **ctx)
  c = H.contacts(d, w)
  n = len(c["dist"])
  check_equal(rec, "self.ncon", int(r.ncon), n, sig="world:ncon", **ctx)
  for k in _CON:
    got = np.asarray(getattr(r.contact, k))[:n]
    check_equal(rec, f"self.contact.{k}", got.reshape(-1).astype(np.float64), np.asarray(c[k]).reshape(-1).astype(np.float64), sig=f"world:contact.{k}", **ctx)
  ne, nf, nl, nefc = (int(getattr(d, k).numpy()[w]) for k in ("ne", "nf", "nl", "nefc"))
  for k, v in (("ne", ne), ("nf", nf), ("nl", nl), ("nefc", nefc)):
    check_equal(rec, f"self.{k}", int(getattr(r, k)), v, sig=f"world:{k}", **ctx)
  e = H.efc_dense(m, d, w)
  # MuJoCo order: equality, friction, limit rows first, then the rows of each contact in contact order
  idx = list(range(ne + nf + nl))
  adr = []
  pyramidal = mjm.opt.cone == mujoco.mjtCone.mjCONE_PYRAMIDAL
  for i in range(n):
    dim = int(c["dim"][i])
    nd = max(1, 2 * (dim - 1)) if pyramidal else dim
    rows = [int(x) for x in c["efc_address"][i][:nd]]
    if rows[0] < 0:
      adr.append(-1)
      continue
    adr.append(len(idx))
    idx += rows
  if len(idx) != nefc or any(x < 0 or x >= nefc for x in idx):
    rec.inconclusive += 1  # rows not attached to a contact in the expected way (e.g. overflow); not judged here
    return
  check_equal(rec, "self.contact.efc_address", np.asarray(r.contact.efc_address)[:n], np.array(adr, dtype=np.int64), sig="world:contact.efc_address", **ctx)
  idx = np.array(idx, dtype=int)
  for k in _EFC + ["state"]:
    got = np.asarray(getattr(r, "efc_" + k))
    check_equal(rec, f"self.efc_{k}", got.astype(np.float64), e[k][idx].astype(np.float64), sig=f"world:efc_{k}", **ctx)
  if nefc:
    check_equal(rec, "self.efc_J", H.mj_efc_dense(mjm, r)["J"], e["J"][idx].astype(np.float64), sig="world:efc_J", **ctx)


def check_roundtrip(case, rec):
  spec = _spec(case)
  if not case["island"]:
    spec.setdefault("option", {}).setdefault("flags", {})["island"] = "disable"
  mjm = H.compile_spec(spec)
  if mjm.nv == 0:
    raise Reject("nv=0")
  m = H.put_model(mjm)
  src = mujoco.MjData(mjm)
  H.set_mjd(src, H.rand_state(mjm, case["seed"], sigma=case["sigma"], applied=True))
  g = np.random.default_rng(case["seed"] + 1)
  try:
    for _ in range(case["nstep"]):
      if mjm.nu:
        src.ctrl[:] = H.f32(g.normal(size=mjm.nu))
      mujoco.mj_step(mjm, src)
    mujoco.mj_forward(mjm, src)
  except mujoco.FatalError:
    rec.inconclusive += 1
    return
  if not (np.all(np.isfinite(src.qpos)) and np.all(np.isfinite(src.qacc))) or src.warning.number.any():
    rec.inconclusive += 1
    return
  n = case["nworld"]
  d = H.put_data(mjm, src, nworld=n, nconmax=src.ncon + 24, njmax=src.nefc + 64)
  norows = bool(src.ncon and np.any(np.asarray(src.contact.efc_address)[: src.ncon] < 0))
  for w in range(n):
    r = mujoco.MjData(mjm)
    mjw.get_data_into(r, mjm, d, world_id=w)
    rec.ev()
    compare_mjd(rec, mjm, r, src, w, "put_data", norows)
  rec.cls(f"nworld:{n}", f"ncon>0:{src.ncon > 0}", f"nefc>0:{src.nefc > 0}", f"ne>0:{src.ne > 0}", f"nf>0:{src.nf > 0}", f"nl>0:{src.nl > 0}", f"nisland>0:{src.nisland > 0}",
          f"sparseJ:{bool(mujoco.mj_isSparse(mjm))}", f"cone:{'pyr' if mjm.opt.cone == 0 else 'ell'}", f"contact-without-rows:{norows}", f"history:{mjm.nhistory > 0}")
  if src.ncon > 0 and src.nefc > 0:
    rec.nt()

  # make the worlds different and compare get_data_into(world w) with the Data's own arrays
  if n > 1:
    if mjm.nu:
      d.ctrl.assign(H.f32(g.normal(size=(n, mjm.nu))).astype(np.float32))
    d.qvel.assign((d.qvel.numpy() + 0.3 * g.normal(size=(n, mjm.nv))).astype(np.float32))
    mjw.step(m, d)
    mjw.forward(m, d)
    if d.overflow.numpy().any() or not np.all(np.isfinite(d.qpos.numpy())):
      rec.inconclusive += 1
      return
    for w in range(n):
      r = mujoco.MjData(mjm)
      mjw.get_data_into(r, mjm, d, world_id=w)
      rec.ev()
      compare_with_data(rec, mjm, m, r, d, w, "after-step")
    rec.cls("multiworld-distinct")


def check(case, rec):
  kind = case["kind"]
  rec.cls(f"kind:{kind}")
  if kind == "xml_model":
    mjm = H.compile_xml(_FEATURE_XML[case["name"]])
    check_model(case, rec, mjm)
  elif kind == "model":
    spec = _spec(case)
    if case["sensors"]:
      _add_sensors(spec, case["seed"])
    _strip_ccd_margins(spec)
    _random_flags(spec, case["seed"])
    mjm = H.compile_spec(spec)
    check_model(case, rec, mjm, batch_seed=case["seed"], nbatch=case["nbatch"])
  elif kind == "unsupported":
    check_unsupported(case, rec)
  else:
    check_roundtrip(case, rec)
