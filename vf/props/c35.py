"""C35 Rendered depth and segmentation match ray casting (mjw.render / get_depth / get_segmentation vs an independent camera model + mj_ray)."""

from __future__ import annotations


import mujoco
import numpy as np
import warp as wp
from hypothesis import strategies as st

import mujoco_warp as mjw

from vf import mjw as H
from vf import x34_scene as X
from vf.core import Reject

RULE = (
  "case = scene of 1-8 opaque geoms (type sets from a fixed menu covering all 8 geom types, hosts world/static/mocap/free/hinge/slide/child, "
  "geom groups 0-5 of which a drawn subset is rendered), 1-2 cameras (perspective by fovy, intrinsics focal/principal/sensorsize with "
  "resolution, orthographic; on the world, a mocap body or a free body, re-posed per world), resolution 4x3..48x32 (from the model or "
  "passed as cam_res), nworld in {1,3} with different poses, back-face culling on/off, precomputed or in-kernel rays (then optionally a "
  "different fovy per world). oracle per pixel: camera model written from MuJoCo's conventions (looks along -z, x right, y up, row 0 at "
  "the top, pixel centres; frustum cross-checked against mjv_updateCamera) -> ray; reference hit = mujoco.mj_ray restricted to the rendered "
  "groups on the float32 geom/camera poses of mjw.kinematics/camlight (with culling on, geoms that contain the ray origin are transparent); "
  "DEPTH DEFINITION (read from render.py and confirmed by outcome): planar z-depth = hit distance * cos(angle to the optical axis), 0 for "
  "background; segmentation = (geomid, mjOBJ_GEOM) or (-1,-1). tolerance 2e-5 + 1e-4*depth + 1e-5 * d(depth)/d(ray) estimated from the "
  "jitter; seg exact. A pixel is judged only if the reference geom is the same at the 4 corners of a +-0.25 pixel jitter (silhouette pixels "
  "skipped and counted). get_depth/get_segmentation must equal clamp(raw/scale) / raw buffers exactly. evaluation = one judged pixel "
  "(counted per image as n pixels); non-trivial = image with >=2 distinct geoms visible and >=1 pixel whose ray crosses >=2 rendered geoms"
)
ASSUMPTIONS = [
  "MuJoCo C 3.13 mj_ray and mjv_updateCamera conventions are the reference; poses come from the MJWarp Data (float32)",
  "intrinsic cameras have square pixels consistent with the resolution (sensorsize aspect == image aspect)",
  "render(): refit_bvh is called before render as in the repo's viewer/recorder; only depth and segmentation are judged (no RGB)",
  "statistic extent fixed to 2 so that znear is the same in all scenes (one kernel specialisation for in-kernel rays)",
]
BUDGET = {
  "quick": dict(examples=224, seconds=420, workers=16),
  "thorough": dict(examples=6000, seconds=1500, workers=16),
}
_GT = mujoco.mjtGeom
_TNAME = {0: "plane", 1: "hfield", 2: "sphere", 3: "capsule", 4: "ellipsoid", 5: "cylinder", 6: "box", 7: "mesh"}
_MENUS = [
  ["sphere"],
  ["box", "sphere"],
  ["plane", "sphere", "box"],
  ["plane", "capsule", "cylinder", "ellipsoid"],
  ["sphere", "capsule", "ellipsoid", "cylinder", "box"],
  ["plane", "mesh", "sphere"],
  ["hfield", "box", "sphere"],
  ["plane", "sphere", "capsule", "box", "mesh", "hfield"],
  ["mesh"],
]
_VISUAL = '<statistic extent="2" center="0 0 0"/>'
DEPTH_SCALE = 64.0


def strategy(tier):
  geom = st.fixed_dictionaries(dict(pick=st.integers(0, 7), host=st.sampled_from(["world", "world", "static", "mocap", "free", "hinge", "slide", "child", "same"]), group=st.integers(0, 5)))
  cam = st.fixed_dictionaries(
    dict(
      proj=st.sampled_from(["fovy", "fovy", "fovy", "intrinsic", "intrinsic", "ortho"]),
      host=st.sampled_from(["world", "mocap", "free"]),
      w=st.sampled_from([4, 5, 8, 13, 16, 24, 32, 48]),
      h=st.sampled_from([3, 4, 7, 8, 12, 16, 24, 32]),
      seed=st.integers(0, 10**6),
      where=st.sampled_from(["out", "out", "out", "out", "out", "near"]),
    )
  )
  return st.fixed_dictionaries(
    dict(
      menu=st.integers(0, len(_MENUS) - 1),
      geoms=st.lists(geom, min_size=1, max_size=8),
      cams=st.lists(cam, min_size=1, max_size=2),
      scene_seed=st.integers(0, 10**6),
      state_seed=st.integers(0, 10**6),
      nworld=st.sampled_from([1, 3]),
      groups=st.lists(st.sampled_from([1, 1, 0]), min_size=6, max_size=6),
      cull=st.booleans(),
      precomputed=st.booleans(),
      res_from=st.sampled_from(["model", "arg"]),
      fovy_per_world=st.booleans(),
      # a tiny flex far outside the scene: its primitives share the scene BVH with the geoms (strides, refit), no pixel should ever see it
      flex=st.sampled_from([False, False, True]),
    )
  )


# --------------------------------------------------------------------------------------
# cameras


def _lookat(rng, where, above=False, centers=None):
  """Camera pose (pos, xyaxes) looking at a point near one of the geoms (or near the scene centre) with a random roll."""
  tgt = rng.uniform(-0.3, 0.3, size=3)
  if centers is not None and len(centers) and rng.random() < 0.8:
    tgt = np.clip(centers[int(rng.integers(0, len(centers)))], -1.0, 1.0) + rng.uniform(-0.15, 0.15, size=3)
  dirn = rng.normal(size=3)
  dirn /= np.linalg.norm(dirn)
  if above and rng.random() < 0.85:  # scenes with a height field: mostly look down at it (its side walls/base are a recorded finding)
    dirn[2] = abs(dirn[2]) + 0.6
    dirn /= np.linalg.norm(dirn)
  dist = float(rng.uniform(1.6, 3.5)) if where == "out" else float(rng.uniform(0.2, 1.2))
  pos = tgt + dirn * dist
  z = dirn  # camera looks along -z
  a = np.cross(z, rng.normal(size=3))
  while np.linalg.norm(a) < 0.1:
    a = np.cross(z, rng.normal(size=3))
  x = a / np.linalg.norm(a)
  y = np.cross(z, x)
  return pos, x, y


def _cam_attrs(c, W, H, above=False, centers=None):
  rng = np.random.default_rng(c["seed"])
  pos, x, y = _lookat(rng, c["where"], above, centers)
  a = dict(pos=[float(v) for v in pos], xyaxes=[float(v) for v in np.concatenate([x, y])])
  if c["proj"] == "fovy":
    a["fovy"] = float(np.round(rng.uniform(35, 100), 3))
    a["resolution"] = [W, H]
  elif c["proj"] == "ortho":
    a["projection"] = "orthographic"
    a["fovy"] = float(np.round(rng.uniform(0.6, 2.5), 3))
    a["resolution"] = [W, H]
  else:
    pitch = int(rng.integers(20, 600)) * 1e-6  # pixel pitch: sensorsize = resolution * pitch exactly (square pixels), 6 decimals in the XML
    hs = H * pitch
    ws = W * pitch
    f = float(rng.uniform(0.5, 1.8)) * hs
    fx = f
    fy = f * (1.0 if rng.random() < 0.6 else float(rng.uniform(0.8, 1.25)))
    a["resolution"] = [W, H]
    a["sensorsize"] = [ws, hs]
    a["focal"] = [fx, fy]
    a["principal"] = [float(rng.uniform(-0.2, 0.2)) * ws, float(rng.uniform(-0.2, 0.2)) * hs]
  return a


def _mat2quat(R):
  q = np.zeros(4)
  mujoco.mju_mat2Quat(q, np.ascontiguousarray(R).reshape(9))
  return q


def pixel_rays(proj, fovy, sensorsize, intrinsic, W, H, px, py):
  """Independent camera model.  px, py float arrays (pixel centre = integer + 0.5 already added by the caller).

  Returns (origin offsets in the camera frame (n,3), unit directions in the camera frame (n,3)).
  MuJoCo conventions: camera looks along -z, +x right, +y up; image row 0 is the top row; u = px/W in [0,1], v = py/H in [0,1].
  """
  u = np.asarray(px, dtype=np.float64) / W
  v = np.asarray(py, dtype=np.float64) / H
  n = u.shape[0]
  if proj == "ortho":
    # fovy is the vertical extent in length units; horizontal extent follows the image aspect
    hh = 0.5 * fovy
    hw = hh * W / H
    off = np.stack([(2 * u - 1) * hw, (1 - 2 * v) * hh, np.zeros(n)], axis=1)
    d = np.tile(np.array([0.0, 0.0, -1.0]), (n, 1))
    return off, d
  if sensorsize[1] != 0.0:
    fx, fy, cx, cy = intrinsic
    sw, sh = sensorsize
    # image plane at unit distance: the principal point shifts the frustum (MuJoCo: left=-(sw/2-cx)/fx, top=(sh/2-cy)/fy)
    left, right = -(0.5 * sw - cx) / fx, (0.5 * sw + cx) / fx
    top, bottom = (0.5 * sh - cy) / fy, -(0.5 * sh + cy) / fy
  else:
    top = np.tan(0.5 * np.deg2rad(fovy))
    bottom = -top
    right = top * W / H
    left = -right
  x = left + (right - left) * u
  y = top + (bottom - top) * v
  d = np.stack([x, y, -np.ones(n)], axis=1)
  d /= np.linalg.norm(d, axis=1, keepdims=True)
  return np.zeros((n, 3)), d


def _route(rec, sig, msg, **details):
  rec.violation(msg, sig=sig, **details)


def _geom_cast(mjm, mjd, g, p, v, n):
  t = mjm.geom_type[g]
  if t == _GT.mjGEOM_MESH:
    return mujoco.mj_rayMesh(mjm, mjd, g, p, v, n)
  if t == _GT.mjGEOM_HFIELD:
    return mujoco.mj_rayHfield(mjm, mjd, g, p, v, n)
  return mujoco.mju_rayGeom(mjd.geom_xpos[g], mjd.geom_xmat[g], mjm.geom_size[g], p, v, int(t), n)


def check(case, rec):
  menu = _MENUS[case["menu"]]
  groups = [i for i in range(6) if case["groups"][i]] or [0]
  # geoms: the first len(menu) carry the menu's types in a rendered group (fixes the kernel specialisation), the rest are free
  geoms = []
  glist = list(case["geoms"])
  while len(glist) < len(menu):
    glist.append(dict(pick=len(glist), host="world", group=0))
  for k, g in enumerate(glist[:8]):
    t = menu[k] if k < len(menu) else menu[g["pick"] % len(menu)]
    grp = groups[g["group"] % len(groups)] if k < len(menu) else g["group"]
    geoms.append(dict(type=t, host=g["host"], group=grp, alpha=1, mat=0))
  cams = []
  res = []
  has_hf = "hfield" in menu
  # geom centres of the camera-less scene at qpos0: cameras aim at them
  mjm0 = H.compile_xml(X.build(geoms, case["scene_seed"], extent=0.6, visual=_VISUAL, upright_hfield=True))
  mjd0 = mujoco.MjData(mjm0)
  mujoco.mj_kinematics(mjm0, mjd0)
  centers = np.array(mjd0.geom_xpos)
  for c in case["cams"]:
    W, Hh = int(c["w"]), int(c["h"])
    cams.append(dict(host=c["host"], attrs=_cam_attrs(c, W, Hh, has_hf, centers)))
    res.append((W, Hh))
  xml = X.build(geoms, case["scene_seed"], cameras=cams, extent=0.6, visual=_VISUAL, upright_hfield=True)
  if case.get("flex") and not has_hf:  # (put_model rejects a flex next to a height field)
    fx = ('<worldbody><flexcomp name="fx" type="grid" count="3 3 1" spacing="0.01 0.01 0.01" dim="2" mass="0.01" radius="0.001" pos="300 300 300">'
          '<contact selfcollide="none" contype="0" conaffinity="0"/></flexcomp></worldbody>')
    xml = xml.replace("</mujoco>", fx + "</mujoco>")
  mjm = H.compile_xml(xml)
  nworld = case["nworld"]
  ncam = mjm.ncam
  # MuJoCo numbers cameras in compile order (world cameras first): map case index -> camera id
  cid_of = [mujoco.mj_name2id(mjm, mujoco.mjtObj.mjOBJ_CAMERA, f"cam{i}") for i in range(len(case["cams"]))]
  res_by_cid = [None] * ncam
  for i, cid in enumerate(cid_of):
    res_by_cid[cid] = res[i]
  m = H.put_model(mjm)
  d = H.make_data(mjm, nworld=nworld)
  states = X.rand_states(mjm, case["state_seed"], nworld, sigma=0.3)
  # cameras on bodies: a different look-at pose per world
  for i, c in enumerate(case["cams"]):
    if c["host"] == "world":
      continue
    bid = mujoco.mj_name2id(mjm, mujoco.mjtObj.mjOBJ_BODY, f"cb{i}")
    for w in range(nworld):
      rng = np.random.default_rng(c["seed"] + 104729 * (w + 1))
      pos, x, y = _lookat(rng, c["where"], has_hf, centers)
      q = _mat2quat(np.stack([x, y, np.cross(x, y)], axis=1))
      if c["host"] == "mocap":
        mid = mjm.body_mocapid[bid]
        states[w]["mocap_pos"][mid] = np.float32(pos)
        states[w]["mocap_quat"][mid] = np.float32(q)
      else:
        a = mjm.jnt_qposadr[mjm.body_jntadr[bid]]
        states[w]["qpos"][a : a + 3] = np.float32(pos)
        states[w]["qpos"][a + 3 : a + 7] = np.float32(q)
  H.set_data(d, states)
  mjw.kinematics(m, d)
  mjw.camlight(m, d)
  gx = d.geom_xpos.numpy().astype(np.float64)
  gm = d.geom_xmat.numpy().astype(np.float64).reshape(nworld, mjm.ngeom, 3, 3)
  cx = d.cam_xpos.numpy().astype(np.float64)
  cm = d.cam_xmat.numpy().astype(np.float64).reshape(nworld, ncam, 3, 3)
  if not (np.all(np.isfinite(gx)) and np.all(np.isfinite(gm)) and np.all(np.isfinite(cx)) and np.all(np.isfinite(cm))):
    rec.inconclusive += 1
    return
  mjds = []
  for w in range(nworld):
    mjd = mujoco.MjData(mjm)
    H.set_mjd(mjd, states[w])
    mujoco.mj_kinematics(mjm, mjd)
    mujoco.mj_camlight(mjm, mjd)
    if np.max(np.abs(mjd.geom_xpos - gx[w])) > 1e-3 or np.max(np.abs(mjd.cam_xpos - cx[w])) > 1e-3 or np.max(np.abs(mjd.cam_xmat.reshape(ncam, 3, 3) - cm[w])) > 1e-3:
      rec.inconclusive += 1  # kinematics/camlight are other properties' business
      return
    mjd.geom_xpos[:] = gx[w]
    mjd.geom_xmat[:] = gm[w].reshape(mjm.ngeom, 9)
    mjds.append(mjd)

  # per-world fovy (domain randomisation) only makes sense with in-kernel rays
  precomputed = bool(case["precomputed"])
  fovy = np.tile(np.array(mjm.cam_fovy, dtype=np.float64)[None], (nworld, 1))
  if not precomputed and case["fovy_per_world"] and nworld > 1:
    for w in range(nworld):
      fovy[w] = np.float32(fovy[w] * (1.0 + 0.15 * w))
    m.cam_fovy = wp.array(fovy.astype(np.float32), dtype=float)

  kw = dict(nworld=nworld, render_rgb=False, render_depth=True, render_seg=True, enabled_geom_groups=groups, enable_backface_culling=bool(case["cull"]), use_precomputed_rays=precomputed)
  if case["res_from"] == "arg":
    kw["cam_res"] = [tuple(r) for r in res_by_cid]
  try:
    rc = mjw.create_render_context(mjm, **kw)
  except (NotImplementedError, ValueError) as e:
    raise Reject(f"create_render_context: {e}")
  mjw.refit_bvh(m, d, rc)
  mjw.render(m, d, rc)
  raw_depth = rc.depth_data.numpy()
  raw_seg = rc.seg_data.numpy()
  dadr = rc.depth_adr.numpy()
  sadr = rc.seg_adr.numpy()

  gg = np.zeros(6, dtype=np.uint8)
  gg[groups] = 1
  rendered = [g for g in range(mjm.ngeom) if gg[min(5, max(0, mjm.geom_group[g]))]]
  cull = bool(case["cull"])
  nt_case = False
  rec.cls(f"flex:{bool(case.get('flex')) and not has_hf}", f"menu:{case['menu']}", f"nworld:{nworld}", f"cull:{cull}", f"precomputed:{precomputed}", f"ncam:{ncam}", f"groups:{'all' if len(groups) == 6 else 'subset'}", f"unrendered-geoms:{len(rendered) < mjm.ngeom}")

  for i, c in enumerate(case["cams"]):
    ci = cid_of[i]
    W, Hh = res[i]
    npx = W * Hh
    proj = c["proj"]
    sens = np.array(mjm.cam_sensorsize[ci], dtype=np.float64)
    intr = np.array(mjm.cam_intrinsic[ci], dtype=np.float64)
    # harness guard: my frustum vs MuJoCo's own (mjv_updateCamera), base model only
    scn = mujoco.MjvScene(mjm, maxgeom=1)
    mcam = mujoco.MjvCamera()
    mcam.type = mujoco.mjtCamera.mjCAMERA_FIXED
    mcam.fixedcamid = ci
    mujoco.mjv_updateCamera(mjm, mjds[0], mcam, scn)
    gl = scn.camera[0]
    _, dd = pixel_rays(proj, float(mjm.cam_fovy[ci]), sens, intr, W, Hh, np.array([0.5 * W, 0.5 * W]), np.array([0.0, float(Hh)]))
    if proj == "ortho":
      ok = abs(gl.frustum_top - 0.5 * mjm.cam_fovy[ci]) < 1e-5 and gl.orthographic == 1
    else:
      near = gl.frustum_near
      ok = abs(dd[0, 1] / -dd[0, 2] - gl.frustum_top / near) < 1e-4 * (1 + abs(gl.frustum_top / near)) and abs(dd[1, 1] / -dd[1, 2] - gl.frustum_bottom / near) < 1e-4 * (1 + abs(gl.frustum_bottom / near))
    if not ok:
      rec.notes["camera-model-disagrees-with-mjv"] += 1
      rec.inconclusive += 1
      return

    # public getters vs raw buffers
    dep = wp.zeros((nworld, Hh, W), dtype=float)
    seg = wp.zeros((nworld, Hh, W), dtype=wp.vec2i)
    mjw.get_depth(rc, ci, DEPTH_SCALE, dep)
    mjw.get_segmentation(rc, ci, seg)
    rd = raw_depth[:, dadr[ci] : dadr[ci] + npx].reshape(nworld, Hh, W)
    rs = raw_seg[:, sadr[ci] : sadr[ci] + npx].reshape(nworld, Hh, W, 2)
    rec.ev()
    if not np.array_equal(dep.numpy(), np.clip(rd / np.float32(DEPTH_SCALE), 0.0, 1.0).astype(np.float32)):
      rec.violation(f"get_depth != clamp(depth_data/scale) cam {ci}", sig="getter:depth")
    if not np.array_equal(seg.numpy().reshape(nworld, Hh, W, 2), rs):
      rec.violation(f"get_segmentation != seg_data cam {ci}", sig="getter:seg")

    py, px = np.meshgrid(np.arange(Hh), np.arange(W), indexing="ij")
    px = px.ravel().astype(np.float64)
    py = py.ravel().astype(np.float64)
    # centre + 4 jitter corners
    offs = [(0.5, 0.5), (0.25, 0.25), (0.75, 0.25), (0.25, 0.75), (0.75, 0.75)]
    for w in range(nworld):
      mjd = mjds[w]
      R = cm[w][ci]
      o = cx[w][ci]
      fw = float(fovy[w][ci])
      rays = []
      for ox, oy in offs:
        off, dl = pixel_rays(proj, fw, sens, intr, W, Hh, px + ox, py + oy)
        rays.append((o + off @ R.T, dl @ R.T, dl))
      visible = set()
      occl = False
      nj = 0
      nsil = 0
      gid = np.full(1, -1, dtype=np.int32)
      nrm = np.zeros(3)
      n2 = np.zeros(3)

      def cast(p, v):
        """Nearest rendered hit: (dist, geomid, normal); with culling, geoms hit from inside are transparent."""
        dist = mujoco.mj_ray(mjm, mjd, p, v, gg, 1, -1, gid, nrm)
        g = int(gid[0])
        if g < 0 or not cull or float(v @ nrm) <= 0.0:
          return dist, g, nrm.copy()
        best, bg, bn = -1.0, -1, np.zeros(3)
        for h in rendered:
          dh = _geom_cast(mjm, mjd, h, p, v, n2)
          if dh >= 0 and float(v @ n2) <= 0.0 and (best < 0 or dh < best):
            best, bg, bn = dh, h, n2.copy()
        return best, bg, bn

      for k in range(npx):
        p0, v0 = rays[0][0][k], rays[0][1][k]
        d0, g0, n0 = cast(p0, v0)
        stable = True
        dj = []
        for j in range(1, 5):
          djj, gj, _ = cast(rays[j][0][k], rays[j][1][k])
          if gj != g0:
            stable = False
            break
          dj.append(djj * -rays[j][2][k][2])
        if not stable:
          nsil += 1
          continue
        cosz = -rays[0][2][k][2]
        want_d = 0.0 if g0 < 0 else d0 * cosz
        if g0 >= 0:
          visible.add(g0)
          jit = max(abs(x - want_d) for x in dj)
          if jit > 0.5 * (1 + want_d):
            nsil += 1  # depth discontinuity inside one geom (hfield ridge, grazing plane)
            continue
          # quarter-pixel step in the ray parameter (angle for perspective, length for orthographic)
          step = float(np.linalg.norm(rays[1][2][k] - rays[0][2][k])) if proj != "ortho" else float(np.linalg.norm(rays[1][0][k] - rays[0][0][k]))
          tol = 2e-5 + 1e-4 * want_d + 1e-5 * jit / max(step, 1e-9)
        else:
          tol = 0.0
        got_d = float(rd[w, int(py[k]), int(px[k])])
        got_g, got_t = int(rs[w, int(py[k]), int(px[k]), 0]), int(rs[w, int(py[k]), int(px[k]), 1])
        if got_t == int(mujoco.mjtObj.mjOBJ_FLEX):
          rec.boundary_skipped += 1  # the far-away flex itself (mj_ray does not intersect flexes): not judged
          continue
        nj += 1
        # label of recorded findings, used only when this pixel mismatches
        sig_known = None
        if proj == "ortho":
          sig_known = "ortho:shared-origin"
        elif g0 >= 0 and mjm.geom_type[g0] == _GT.mjGEOM_HFIELD:
          nl = gm[w][g0].T @ n0
          if nl[2] <= 1e-6 or float(v0 @ n0) > 0:
            sig_known = "render:hfield-base-side"
          else:  # upward normal, front-facing: top surface, or the top face of the base box seen from inside the hfield volume
            hl = gm[w][g0].T @ (p0 + d0 * v0 - gx[w][g0])
            hs = mjm.hfield_size[mjm.geom_dataid[g0]]
            above = gx[w][g0] + gm[w][g0] @ np.array([hl[0], hl[1], hs[2] + 1.0])
            dz = mujoco.mj_rayHfield(mjm, mjd, int(g0), above, -gm[w][g0][:, 2].copy())
            if dz >= 0 and (hs[2] + 1.0 - dz) - hl[2] > 1e-5:
              sig_known = "render:hfield-base-side"
        elif g0 >= 0 and mjm.geom_type[g0] == _GT.mjGEOM_MESH:
          mid = mjm.geom_dataid[g0]
          mv = mjm.mesh_vert[mjm.mesh_vertadr[mid] : mjm.mesh_vertadr[mid] + mjm.mesh_vertnum[mid]]
          hl = gm[w][g0].T @ (p0 + d0 * v0 - gx[w][g0])
          if np.any(np.abs(hl) > 0.5 * (mv.max(axis=0) - mv.min(axis=0)) * (1 - 1e-6)):
            sig_known = "render:mesh-bounds"
        ctx = dict(cam=ci, proj=proj, world=w, px=int(px[k]), py=int(py[k]), res=[W, Hh], want=[want_d, g0], got=[got_d, got_g, got_t], cull=cull)
        want_t = int(mujoco.mjtObj.mjOBJ_GEOM) if g0 >= 0 else -1
        if got_g != g0 or got_t != want_t:
          _route(rec, sig_known or "seg", f"segmentation ({got_g},{got_t}) vs ({g0},{want_t}) depth {got_d} vs {want_d} {ctx}", **ctx)
          continue
        if g0 >= 0 and not sig_known:
          rec.err("depth/tol", abs(got_d - want_d) / tol)
        if abs(got_d - want_d) > tol:
          _route(rec, sig_known or "depth", f"depth {got_d} vs {want_d} (tol {tol:.3g}) geom {g0} {ctx}", **ctx)
      rec.ev(nj)
      rec.boundary_skipped += nsil
      # occlusion: sample hit pixels, count rays crossing >= 2 rendered geoms
      if len(visible) >= 2:
        rng = np.random.default_rng(case["scene_seed"] + 13 * w + ci)
        for k in rng.choice(npx, size=min(npx, 40), replace=False):
          nh = sum(1 for h in rendered if _geom_cast(mjm, mjd, h, rays[0][0][k], rays[0][1][k], None) >= 0)
          if nh >= 2:
            occl = True
            break
      rec.cls(f"proj:{proj}", f"visible:{min(len(visible), 3)}{'+' if len(visible) >= 3 else ''}", f"occlusion:{occl}", f"res:{'<=64px' if npx <= 64 else '<=400px' if npx <= 400 else '>400px'}", f"camhost:{c['host']}")
      if not visible:
        rec.cls(f"empty:{proj}:{c['host']}:{c['where']}:nrendered{min(len(rendered), 3)}")
      for g in visible:
        rec.cls(f"sees:{_TNAME[int(mjm.geom_type[g])]}")
      if len(visible) >= 2 and occl:
        nt_case = True
  if nt_case:
    rec.nt()
