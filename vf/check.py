"""Check runner.

usage: python -m vf.check <ID> [--tier quick|thorough] [--replay FILE] [--workers N]

exit 0: property held on everything explored (KNOWN-FINDING lines may be printed)
exit 1: "VIOLATION property=<id> replay=<path>" printed
exit 2: harness error / vacuous run
"""

from __future__ import annotations

import argparse
import glob
import importlib
import json
import os
import subprocess
import sys
import time
from collections import Counter

from vf import core

VERIF = core.VERIF
PY = sys.executable


def _spawn(prop, tier, seed, shard, nshard, out, extra=()):
  env = dict(os.environ)
  env["PYTHONHASHSEED"] = "0"
  env["PYTHONPATH"] = VERIF + os.pathsep + env.get("PYTHONPATH", "")
  env.setdefault("OMP_NUM_THREADS", "1")
  env.setdefault("OPENBLAS_NUM_THREADS", "1")
  env.setdefault("MKL_NUM_THREADS", "1")
  log = open(out + ".log", "w")
  p = subprocess.Popen([PY, "-m", "vf.worker", prop, tier, str(seed), str(shard), str(nshard), out, *extra], cwd=VERIF, env=env, stdout=log, stderr=subprocess.STDOUT)
  return p, log


def _write_replay(prop, case, info):
  d = os.path.join(os.environ.get("VF_REPLAY_DIR") or os.path.join(VERIF, "replays"), prop)  # VF_REPLAY_DIR: scratch runs against seeded changes
  os.makedirs(d, exist_ok=True)
  h = core.case_hash(case)
  path = os.path.join(d, f"{h}.json")
  with open(path, "w") as f:
    json.dump(dict(property=prop, case=case, **info), f, indent=1)
  return path


def main(argv=None):
  ap = argparse.ArgumentParser()
  ap.add_argument("prop")
  ap.add_argument("--tier", default=os.environ.get("VERIF_TIER", "quick"))
  ap.add_argument("--replay", nargs="*", default=None)
  ap.add_argument("--workers", type=int, default=None)
  args = ap.parse_args(argv)
  prop = args.prop.upper()
  tier = args.tier if args.tier in ("quick", "thorough") else "quick"
  seed = int(os.environ.get("VERIF_SEED", "1") or "1")
  t0 = time.time()

  # import the property module in the parent only to read static metadata (no warp import there)
  sys.path.insert(0, VERIF)
  mod = importlib.import_module(f"vf.props.{prop.lower()}")
  budget = mod.BUDGET[tier]
  nshard = args.workers or budget.get("workers", 8)
  tmp = os.path.join(VERIF, ".cache", "runs", f"{prop}-{tier}-{os.getpid()}")
  os.makedirs(tmp, exist_ok=True)

  results = []
  harness_errors = []
  crashes = []

  def run_batch(jobs):
    procs = []
    for shard, ns, extra in jobs:
      out = os.path.join(tmp, f"s{shard}{'r' if extra else ''}.json")
      if os.path.exists(out):
        os.remove(out)
      p, log = _spawn(prop, tier, seed, shard, ns, out, extra)
      procs.append((p, log, out, shard))
    hard = budget.get("seconds", 600) * 3 + 600
    for p, log, out, shard in procs:
      try:
        p.wait(timeout=max(10, hard - (time.time() - t0)))
      except subprocess.TimeoutExpired:
        p.kill()
        p.wait()
        harness_errors.append(f"shard {shard}: hard timeout")
      log.close()
      if os.path.exists(out):
        with open(out) as f:
          results.append(json.load(f))
      else:
        cur = None
        if os.path.exists(out + ".cur"):
          with open(out + ".cur") as f:
            try:
              cur = json.load(f)
            except Exception:
              cur = None
        tail = ""
        try:
          with open(out + ".log") as f:
            tail = f.read()[-3000:]
        except OSError:
          pass
        crashes.append(dict(shard=shard, returncode=p.returncode, case=cur, log_tail=tail))

  if args.replay is not None:
    files = args.replay
    run_batch([(0, 1, ["--replay", *files])])
  else:
    regress = sorted(glob.glob(os.path.join(VERIF, "replays", "regress", prop, "*.json")))
    jobs = [(s, nshard, []) for s in range(nshard)]
    if regress:
      jobs.append((nshard, 1, ["--replay", *regress]))
    run_batch(jobs)

  # merge
  evaluations = sum(r["rec"]["evaluations"] for r in results)
  cases = sum(r["rec"]["cases"] for r in results)
  nontrivial = set()
  classes = Counter()
  notes = Counter()
  known = Counter()
  excluded = Counter()
  samples = []
  maxerr = {}
  rejected = boundary = inconclusive = skipped_budget = 0
  for r in results:
    rc = r["rec"]
    nontrivial.update(rc["nontrivial"])
    classes.update(rc["classes"])
    notes.update(rc["notes"])
    known.update(rc["known"])
    excluded.update(rc["excluded"])
    rejected += rc["rejected"]
    boundary += rc["boundary_skipped"]
    inconclusive += rc["inconclusive"]
    skipped_budget += rc["skipped_budget"]
    for k, v in rc["maxerr"].items():
      maxerr[k] = max(maxerr.get(k, 0.0), v)
    for s in rc["samples"]:
      if len(samples) < 4:
        samples.append(s)

  violations = [r for r in results if r["status"] == "violation"]
  errors = [r for r in results if r["status"] == "error"]
  crash_is_violation = getattr(mod, "CRASH_IS_VIOLATION", False)

  exit_code = 0
  lines = []
  findings, _fixed = core.load_known_findings()
  known_sigs = {f["sig"]: f for f in findings if f.get("property") == prop and "sig" in f}
  # deterministic probes for listed findings are run by the module's check through rec.violation();
  for sig, n in sorted(known.items()):
    text = known_sigs[sig]["text"] if sig in known_sigs else sig
    if text.startswith(f"property={prop} "):  # the file's text already starts with the property id
      text = text[len(f"property={prop} "):]
    lines.append(f"KNOWN-FINDING: property={prop} {text} (seen {n}x)")

  nviol = 0
  seen_paths = set()
  for v in violations:
    if core.case_hash(v["case"]) in seen_paths:
      continue
    seen_paths.add(core.case_hash(v["case"]))
    path = _write_replay(prop, v["case"], dict(msg=v["msg"], sig=v.get("sig"), details=v.get("details"), seed=seed, tier=tier))
    lines.append(f"VIOLATION property={prop} replay={path}")
    lines.append(f"  {v['msg'][:600]}")
    nviol += 1
    exit_code = 1
  for c in crashes:
    if crash_is_violation and c["case"] is not None:
      path = _write_replay(prop, c["case"], dict(msg=f"process died rc={c['returncode']}", log_tail=c["log_tail"], seed=seed, tier=tier))
      lines.append(f"VIOLATION property={prop} replay={path}")
      lines.append(f"  worker crashed rc={c['returncode']}: {c['log_tail'][-400:]}")
      nviol += 1
      exit_code = 1
    else:
      cpath = None
      if c["case"] is not None:
        cpath = _write_replay(prop, c["case"], dict(msg=f"process died rc={c['returncode']}", log_tail=c["log_tail"], seed=seed, tier=tier, crash=True))
      harness_errors.append(f"worker shard {c['shard']} died rc={c['returncode']} case={cpath}: {c['log_tail'][-1500:]}")
  for e in errors:
    epath = _write_replay(prop, e.get("case"), dict(msg="harness error", traceback=e["traceback"], seed=seed, tier=tier, error=True)) if e.get("case") is not None else None
    harness_errors.append(f"worker error case={epath}:\n{e['traceback'][-6000:]}")

  rule = getattr(mod, "RULE", "")
  coverage = dict(
    evaluations=int(evaluations),
    distinct_nontrivial=len(nontrivial),
    rule=rule,
    samples=samples,
    cases_generated=int(cases),
    classes=dict(classes),
    rejected_by_put_model=int(rejected),
    boundary_skipped=int(boundary),
    inconclusive=int(inconclusive),
    skipped_over_time_budget=int(skipped_budget),
    known_findings_seen=dict(known),
    excluded_by_construction=dict(excluded),
    max_observed_error=maxerr,
    notes=dict(notes),
    workers=nshard,
  )
  if getattr(mod, "EXHAUSTIVE", {}).get(tier) and skipped_budget == 0 and not harness_errors:
    coverage["exhaustive"] = True
  ev = dict(
    property_id=prop,
    tier=tier,
    seed=seed,
    level="exploration",
    coverage=coverage,
    assumptions=getattr(mod, "ASSUMPTIONS", []),
    wall_s=round(time.time() - t0, 2),
    violations=nviol,
  )
  if args.replay is None and not os.environ.get("VF_NO_EVIDENCE"):
    os.makedirs(os.path.join(VERIF, "evidence"), exist_ok=True)
    with open(os.path.join(VERIF, "evidence", f"{prop}.json"), "w") as f:
      json.dump(ev, f, indent=1, sort_keys=True)

  for l in lines:
    print(l)
  if harness_errors and exit_code == 0:
    for h in harness_errors:
      print("HARNESS-ERROR:", h, file=sys.stderr)
    exit_code = 2
  if exit_code == 0 and args.replay is None and len(nontrivial) < 2:
    print(f"HARNESS-ERROR: vacuous run (distinct_nontrivial={len(nontrivial)})", file=sys.stderr)
    exit_code = 2
  print(
    f"[{prop} {tier} seed={seed}] cases={cases} evaluations={evaluations} nontrivial={len(nontrivial)} rejected={rejected} "
    f"boundary_skipped={boundary} over_budget={skipped_budget} violations={nviol} wall={time.time() - t0:.1f}s exit={exit_code}"
  )
  # clean temp
  for fn in glob.glob(os.path.join(tmp, "*")):
    try:
      os.remove(fn)
    except OSError:
      pass
  try:
    os.rmdir(tmp)
  except OSError:
    pass
  return exit_code


if __name__ == "__main__":
  sys.exit(main())
